// C01 harness: the real event loop (epoll / select engine) driven
//  (i) SEQUENTIALISED: one op per line; worker threads 0..3 execute the ops, the thread inside
//      runLoop is parked at every poll (epoll_wait/select interposed) and released for exactly one
//      pass by `pass`; callables are scripts (`prog`) that may submit / cancel / exit and may make
//      another thread submit in the middle of a batch (`w<t>.<k>`).  Output = every run-id handed
//      out, every cancel result, every execution with the executing thread: compared line by
//      line with the model by lean/Driver/C01.lean.
//  (ii) FREE-RUNNING STRESS (`stress …`): N submitter threads + loop thread, exit and re-run of the
//      same loop object while submissions continue, PRNG-seeded delays around pthread_mutex_lock/
//      unlock and the eventfd read()/write(); the recorded history (`H …` lines) is validated by
//      the driver: exactly once, per-submitter FIFO, loop thread, no lost wake-up (= no progress
//      for 5 s of real time while tasks are pending and the loop is running; the structural check is the replay of the history).
// No change to the repo is needed: everything is libc interposition (extern "C" + RTLD_NEXT).
#include "vh.h"
#include "vtime.h"
#include <dlfcn.h>
#include <errno.h>
#include <pthread.h>
#include <sys/epoll.h>
#include <sys/eventfd.h>
#include <sys/select.h>
#include <time.h>
#include <unistd.h>
#include <atomic>
#include <chrono>
#include <condition_variable>
#include <functional>
#include <map>
#include <memory>
#include <mutex>
#include <stdexcept>
#include <cstring>
#include <algorithm>
#include <thread>
#include <tbox/event/loop.h>
#include <tbox/base/log_output.h>

using tbox::event::Loop;
#if defined(__SANITIZE_ADDRESS__)
extern "C" int __lsan_do_recoverable_leak_check(void);
#endif

// ------------------------------------------------------------------ shared state
static thread_local int tl_idx = -1;            // worker index of this thread
static thread_local bool tl_runloop = false;    // this thread is inside runLoop()
static thread_local bool tl_in_submit = false;  // this thread is inside a cross-thread runInLoop()
static thread_local uint64_t tl_rng = 0;        // per-thread PRNG for delay injection
static std::atomic<bool> g_seq_mode{false};
static std::atomic<bool> g_delay{false};

// free-running mode: linearised history.  Every event takes a global sequence number at a point where the order
// is unambiguous: lock_ acquired / about to be released (inside the critical section), after the eventfd
// read()/write() returned, before/after the poll, before/after each API call, at entry/exit of each callable.
struct TEv { uint64_t stamp; int tid; const char *kind; uint64_t a, b, c; int n; };
static std::atomic<bool> g_trace{false};
static std::atomic<uint64_t> g_stamp{0};
static pthread_mutex_t *g_lock_addr = nullptr;          // the loop's lock_ (learnt through isRunning())
static thread_local bool tl_learn = false;
static thread_local int tl_lock_depth = 0;
static thread_local std::vector<TEv> *tl_ev = nullptr;
static inline void trec(const char *kind, int n = 0, uint64_t a = 0, uint64_t b = 0, uint64_t c = 0) {
    if (!tl_ev || !g_trace.load(std::memory_order_relaxed)) return;
    tl_ev->push_back(TEv{g_stamp.fetch_add(1), tl_idx, kind, a, b, c, n});
}

static Loop *g_loop = nullptr;
static std::string g_engine = "epoll";

// controller <-> threads (all under gm)
static pthread_mutex_t gm = PTHREAD_MUTEX_INITIALIZER;
static pthread_cond_t gcv = PTHREAD_COND_INITIALIZER;
static bool g_go = false, g_stop_req = false, g_blocked_evt = false;
static uint64_t g_park_gen = 0;
static std::vector<std::string> g_out;

// kernel answers chosen by the op file (`fault …`), one-shot, consumed by the next matching system call
static std::atomic<int> g_f_poll{0};          // 0 ok, 1 EINTR, 2 hard error, 3 spurious readiness of the eventfd
static std::atomic<bool> g_f_wr{false}, g_f_rd{false}, g_f_efd{false};
static std::atomic<int> g_efd{-1};            // the loop's eventfd (learnt from eventfd())
static std::atomic<long long> g_last_wait{-2};   // timeout (ms) handed to the last poll of the loop thread
static void clear_faults() { g_f_poll = 0; g_f_wr = false; g_f_rd = false; g_f_efd = false; }

typedef int (*mlock_t)(pthread_mutex_t *);
typedef int (*epw_t)(int, struct epoll_event *, int, int);
typedef int (*sel_t)(int, fd_set *, fd_set *, fd_set *, struct timeval *);
typedef ssize_t (*rd_t)(int, void *, size_t);
typedef ssize_t (*wr_t)(int, const void *, size_t);
static mlock_t real_lock, real_unlock, real_trylock;
static epw_t real_epw; static sel_t real_sel; static rd_t real_rd; static wr_t real_wr;

static void resolve() {
    if (!real_lock) real_lock = (mlock_t)dlsym(RTLD_NEXT, "pthread_mutex_lock");
    if (!real_unlock) real_unlock = (mlock_t)dlsym(RTLD_NEXT, "pthread_mutex_unlock");
    if (!real_trylock) real_trylock = (mlock_t)dlsym(RTLD_NEXT, "pthread_mutex_trylock");
}
struct G { G() { resolve(); real_lock(&gm); } ~G() { real_unlock(&gm); } };   // guard on gm, never delayed
static void gwait() {   // wait on gcv with gm held
    pthread_cond_wait(&gcv, &gm);
}
static void emit(const std::string &s) { G g; g_out.push_back(s); }
static void flush_out() {
    std::vector<std::string> o; { G g; o.swap(g_out); }
    for (auto &l : o) std::cout << l << "\n";
}

static inline uint64_t rnd() {   // xorshift64*
    uint64_t x = tl_rng ? tl_rng : 0x9e3779b97f4a7c15ULL;
    x ^= x >> 12; x ^= x << 25; x ^= x >> 27; tl_rng = x;
    return x * 0x2545F4914F6CDD1DULL;
}
static void maybe_delay() {
    if (!g_delay.load(std::memory_order_relaxed) || tl_idx < 0) return;
    uint64_t r = rnd() >> 33;
    unsigned k = r % 16;
    if (k < 9) return;
    if (k < 13) { sched_yield(); return; }
    struct timespec ts = {0, (long)(1000 + (r >> 4) % 60000)};   // 1..60 us
    if (k == 15) ts.tv_nsec *= 8;
    nanosleep(&ts, nullptr);
}

// ------------------------------------------------------------------ interposers
static void park_hook() {
    bool stop;
    {
        G g;
        ++g_park_gen;
        pthread_cond_broadcast(&gcv);
        while (!g_go) gwait();
        g_go = false;
        stop = g_stop_req; g_stop_req = false;
    }
    if (stop) g_loop->exitLoop();
}

// free-running mode: now and then the poll is "interrupted by a signal" (never twice in a row)
static thread_local bool tl_last_intr = false;
static bool inject_intr() {
    if (!g_delay.load(std::memory_order_relaxed) || tl_last_intr) { tl_last_intr = false; return false; }
    tl_last_intr = (rnd() >> 35) % 8 == 0;
    return tl_last_intr;
}
extern "C" int epoll_wait(int epfd, struct epoll_event *ev, int n, int timeout) {
    if (!real_epw) real_epw = (epw_t)dlsym(RTLD_NEXT, "epoll_wait");
    if (tl_runloop && g_seq_mode) {
        g_last_wait = timeout;
        park_hook();
        int f = g_f_poll.exchange(0);
        if (f == 1) { errno = EINTR; return -1; }
        if (f == 2) { errno = EINVAL; return -1; }
        int r = real_epw(epfd, ev, n, 0);
        int efd = g_efd.load();
        if (f == 3 && efd >= 0 && r >= 0 && r < n) {
            bool have = false;
            for (int i = 0; i < r; ++i) if (ev[i].data.fd == efd) have = true;
            if (!have) { memset(&ev[r], 0, sizeof(ev[r])); ev[r].events = EPOLLIN; ev[r].data.fd = efd; ++r; }
        }
        return r;
    }
    if (tl_runloop) {
        trec("PW");
        if (inject_intr()) { trec("PI"); errno = EINTR; return -1; }
        int r = real_epw(epfd, ev, n, timeout); trec("PR"); return r;
    }
    return real_epw(epfd, ev, n, timeout);
}
extern "C" int select(int nfds, fd_set *r, fd_set *w, fd_set *e, struct timeval *tv) {
    if (!real_sel) real_sel = (sel_t)dlsym(RTLD_NEXT, "select");
    if (tl_runloop && g_seq_mode) {
        // the code fills tv_usec with `wait_ms % 1000`; a repaired conversion would store microseconds: accept both
        g_last_wait = !tv ? -1 : (long long)tv->tv_sec * 1000 + (tv->tv_usec < 1000 ? tv->tv_usec : tv->tv_usec / 1000);
        park_hook();
        int f = g_f_poll.exchange(0);
        if (f == 1) { errno = EINTR; return -1; }
        if (f == 2) { errno = EINVAL; return -1; }
        struct timeval z = {0, 0};
        int efd = g_efd.load();
        bool want = f == 3 && efd >= 0 && efd < nfds && r && FD_ISSET(efd, r);
        int rc = real_sel(nfds, r, w, e, &z);
        if (want && rc >= 0 && !FD_ISSET(efd, r)) { FD_SET(efd, r); ++rc; }
        return rc;
    }
    if (tl_runloop) {
        trec("PW");
        if (inject_intr()) { trec("PI"); errno = EINTR; return -1; }
        int rc = real_sel(nfds, r, w, e, tv); trec("PR"); return rc;
    }
    return real_sel(nfds, r, w, e, tv);
}
typedef int (*efd_t)(unsigned int, int);
extern "C" int eventfd(unsigned int initval, int flags) {
    static efd_t real = (efd_t)dlsym(RTLD_NEXT, "eventfd");
    if (g_seq_mode && g_f_efd.exchange(false)) { g_efd = -1; errno = EMFILE; return -1; }
    int fd = real(initval, flags);
    if (g_seq_mode) g_efd = fd;
    else if (tl_ev) trec("EF");      // free-running mode: the critical section of loop start is the one that follows
    return fd;
}
extern "C" int pthread_mutex_lock(pthread_mutex_t *m) {
    resolve();
    if (m == &gm) return real_lock(m);
    if (tl_in_submit && g_seq_mode) {
        // sequentialised mode: a submitter that finds lock_ taken (the loop thread is draining) reports it
        int rc = real_trylock(m);
        if (rc == 0) return 0;
        if (rc == EBUSY) { G g; g_blocked_evt = true; pthread_cond_broadcast(&gcv); }
        return real_lock(m);
    }
    maybe_delay();
    int rc = real_lock(m);
    if (tl_learn) g_lock_addr = m;
    if (rc == 0 && m == g_lock_addr && tl_ev) { if (tl_lock_depth++ == 0) trec("LA"); }
    return rc;
}
extern "C" int pthread_mutex_unlock(pthread_mutex_t *m) {
    resolve();
    if (m == g_lock_addr && tl_ev && m != &gm) { if (--tl_lock_depth == 0) trec("LR"); }
    int rc = real_unlock(m);
    if (m != &gm) maybe_delay();
    return rc;
}
extern "C" ssize_t read(int fd, void *buf, size_t n) {
    if (!real_rd) real_rd = (rd_t)dlsym(RTLD_NEXT, "read");
    if (n == 8 && tl_idx >= 0) maybe_delay();          // the eventfd
    if (n == 8 && g_seq_mode && fd == g_efd.load() && g_f_rd.exchange(false)) { errno = EAGAIN; return -1; }
    ssize_t r = real_rd(fd, buf, n);
    if (n == 8 && tl_ev) trec("ER", 1, (uint64_t)(r == 8));
    if (n == 8 && tl_idx >= 0) maybe_delay();
    return r;
}
extern "C" ssize_t write(int fd, const void *buf, size_t n) {
    if (!real_wr) real_wr = (wr_t)dlsym(RTLD_NEXT, "write");
    if (n == 8 && tl_idx >= 0) maybe_delay();
    if (n == 8 && g_seq_mode && fd >= 0 && fd == g_efd.load() && g_f_wr.exchange(false)) { errno = EAGAIN; return -1; }
    ssize_t r = real_wr(fd, buf, n);
    if (n == 8 && tl_ev) trec("EW", 1, (uint64_t)(r == 8));
    if (n == 8 && tl_idx >= 0) maybe_delay();
    return r;
}

// ------------------------------------------------------------------ workers
static const int NT = 4;
struct Worker {
    std::thread th;
    std::function<void()> job;
    bool has = false, busy = false, quit = false;
};
static Worker W[NT];

static void worker_main(int i) {
    tl_idx = i; tl_rng = 0x1234567ULL * (i + 1);
    for (;;) {
        std::function<void()> j;
        {
            G g;
            while (!W[i].has && !W[i].quit) gwait();
            if (W[i].quit) return;
            j.swap(W[i].job); W[i].has = false;
        }
        j();
        { G g; W[i].busy = false; pthread_cond_broadcast(&gcv); }
    }
}
static void post(int t, std::function<void()> f) {
    G g; W[t].job = std::move(f); W[t].has = true; W[t].busy = true; pthread_cond_broadcast(&gcv);
}
static void flush_out();
// watchdog: a worker that does not come back within 8 s of REAL time is blocked for good (e.g. on lock_ held by a nested
// loop that parked): report it instead of waiting for the batch timeout
static void wait_idle(int t) {
    static vt::cg_t real_cg = (vt::cg_t)dlsym(RTLD_NEXT, "clock_gettime");
    struct timespec dl; real_cg(CLOCK_REALTIME, &dl); dl.tv_sec += 8;
    bool stuck = false;
    {
        G g;
        while (W[t].busy) {
            if (pthread_cond_timedwait(&gcv, &gm, &dl) == ETIMEDOUT && W[t].busy) { stuck = true; break; }
        }
    }
    if (stuck) { flush_out(); std::cout << "P worker-blocked-for-good\n" << std::flush; _exit(4); }
}

// ------------------------------------------------------------------ sequentialised mode
struct Act { char kind; uint64_t a; uint64_t b; };   // i k | n k | c id | x | w t k
static std::map<uint64_t, std::vector<Act>> g_prog;
static std::map<uint64_t, bool> g_null;     // template is an EMPTY std::function
static int g_loop_tid = -1;        // worker inside runLoop (-1 = idle)
static bool g_destroying = false;
static int g_late = -1;            // worker whose submission is blocked on lock_
static uint64_t g_late_id = 0;

static std::function<void()> make_task(uint64_t k, std::shared_ptr<uint64_t> idcell);

static void do_submit_in(uint64_t k) {    // on the calling thread
    auto cell = std::make_shared<uint64_t>(0);
    uint64_t id = g_loop->runInLoop(make_task(k, cell), "verif");
    *cell = id;
    emit("S " + std::to_string(id));
}
static void do_submit_next(uint64_t k) {
    auto cell = std::make_shared<uint64_t>(0);
    uint64_t id = g_loop->runNext(make_task(k, cell), "verif");
    *cell = id;
    emit("S " + std::to_string(id));
}
static void do_submit_run(uint64_t k) {
    auto cell = std::make_shared<uint64_t>(0);
    uint64_t id = g_loop->run(make_task(k, cell), "verif");
    *cell = id;
    emit("S " + std::to_string(id));
}
static void do_cancel(uint64_t id) {
    bool r = g_loop->cancel(id);
    emit("C " + std::to_string(id) + " " + (r ? "1" : "0"));
}
static void do_query() {   // isRunning() / isInLoopThread() asked by the calling thread
    bool r = g_loop->isRunning(), i = g_loop->isInLoopThread();
    emit(std::string("Q ") + (r ? "1" : "0") + " " + (i ? "1" : "0"));
}
static void do_cross(uint64_t t, uint64_t k) {   // called inside a callable, on the loop thread
    if (t >= (uint64_t)NT || (int)t == tl_idx || g_late >= 0 || g_destroying) { emit("W skip"); return; }
    { G g; g_blocked_evt = false; }
    auto cell = std::make_shared<uint64_t>(0);
    auto late = std::make_shared<bool>(false);
    post((int)t, [k, cell, late] {
        tl_in_submit = true;
        uint64_t id = g_loop->runInLoop(make_task(k, cell), "verif");
        tl_in_submit = false;
        *cell = id;
        bool l; { G g; l = *late; if (l) g_late_id = id; }
        if (!l) emit("S " + std::to_string(id));
    });
    bool blocked = false;
    {
        G g;
        while (W[t].busy && !g_blocked_evt) gwait();
        if (W[t].busy) { blocked = true; *late = true; g_late = (int)t; }
    }
    if (blocked) emit("W blocked");
}
static void run_body(const std::vector<Act> &body) {
    for (auto &a : body) {
        switch (a.kind) {
            case 'i': do_submit_in(a.a); break;
            case 'n': do_submit_next(a.a); break;
            case 'c': do_cancel(a.a); break;
            case 'x': g_loop->exitLoop(); break;
            case 't': g_loop->exitLoop(std::chrono::milliseconds((int64_t)a.a)); break;   // exit timer (virtual clock)
            case 'r': do_submit_run(a.a); break;
            case 'q': do_query(); break;
            case 'R':    // runLoop() from inside a callable of the running loop
                // (from a callable of a destructor / cleanup() drain the loop is not running: a real nested loop, outside the model)
                if (!g_loop->isRunning()) { emit("P nested-skipped"); break; }
                try { g_loop->runLoop(Loop::Mode::kForever); } catch (const std::exception &e) { emit("P nested-threw"); }
                emit("P nested-returned"); break;
            case 'w': do_cross(a.a, a.b); break;
            case '!': throw std::runtime_error("verif: callable throws");
        }
    }
}
static std::function<void()> make_task(uint64_t k, std::shared_ptr<uint64_t> cell) {
    if (g_null.count(k) && g_null[k]) return std::function<void()>();
    std::vector<Act> body;                   // the script is captured when the callable is made (= at submission)
    auto it = g_prog.find(k);
    if (it != g_prog.end()) body = it->second;
    return [body, cell] {
        emit("E " + std::to_string(*cell) + " " + std::to_string(tl_idx));
        run_body(body);
    };
}

static bool parse_act(const std::string &w, Act &a) {
    if (w.empty()) return false;
    a.kind = w[0]; a.a = a.b = 0;
    if (a.kind == 't' && w.size() == 1) { a.a = 5; return true; }
    if (a.kind == 't') return vh::to_u64(w.substr(1), a.a) && a.a > 0 && a.a < (1ULL << 62);
    if (a.kind == 'x' || a.kind == '!' || a.kind == 'R' || a.kind == 'q') return w.size() == 1;
    if (a.kind == 'i' || a.kind == 'n' || a.kind == 'c' || a.kind == 'r') return vh::to_u64(w.substr(1), a.a) && (a.kind == 'c' || a.a < 64);
    if (a.kind == 'w') {
        size_t p = w.find('.');
        if (p == std::string::npos) return false;
        return vh::to_u64(w.substr(1, p - 1), a.a) && vh::to_u64(w.substr(p + 1), a.b) && a.a < (uint64_t)NT && a.b < 64;
    }
    return false;
}
static bool parse_body(const std::string &w, std::vector<Act> &out) {
    out.clear();
    if (w == "-") return true;
    std::stringstream ss(w); std::string item;
    while (std::getline(ss, item, ',')) { Act a; if (!parse_act(item, a)) return false; out.push_back(a); }
    return !out.empty() && out.size() <= 16;
}

static void new_loop() { g_loop = Loop::New(g_engine); clear_faults(); g_efd = -1; }
static void emit_wait() { emit("M wait " + std::to_string(g_last_wait.load())); }

// wait until the loop thread parks at the next poll or leaves runLoop
static bool wait_parked_or_exit(uint64_t gen0) {   // true = parked
    int t = g_loop_tid;
    G g;
    while (g_park_gen == gen0 && W[t].busy) gwait();
    return g_park_gen != gen0;
}
static void finish_exit() {    // runLoop returned
    g_loop_tid = -1;
    emit("P exited");
    if (g_late >= 0) {
        wait_idle(g_late);
        emit("S " + std::to_string(g_late_id) + " late");
        g_late = -1;
    }
}
static void op_pass(bool stop) {
    uint64_t gen0;
    { G g; gen0 = g_park_gen; g_stop_req = stop; g_go = true; pthread_cond_broadcast(&gcv); }
    if (wait_parked_or_exit(gen0)) { emit("P parked"); emit_wait(); } else finish_exit();
}
static void op_cleanup(int t) {     // the public cleanup() by the owner while the loop is not running
    g_loop_tid = t;
    post(t, [] { g_loop->cleanup(); });
    wait_idle(t);
    g_loop_tid = -1;
    emit("P cleaned");
    if (g_late >= 0) {
        wait_idle(g_late);
        emit("S " + std::to_string(g_late_id) + " late");
        g_late = -1;
    }
}
static void op_destroy(int t) {
    post(t, [] {
        g_destroying = true;
        try { delete g_loop; } catch (const std::exception &e) { emit("P destructor-threw"); }
        g_loop = nullptr;
        g_destroying = false;
    });
    wait_idle(t);
    emit("P destroyed");
    new_loop();
}
static void finalize_case() {
    if (g_loop_tid >= 0) op_pass(true);
    if (g_loop_tid >= 0) {   // cannot happen (exitLoop ends the pass); make it visible instead of hanging
        emit("P still-running"); flush_out(); _exit(3);
    }
    op_destroy(0);
    flush_out();
    g_prog.clear(); g_null.clear();
}

// ------------------------------------------------------------------ stress mode
static void stress(const std::string &engine, unsigned nsub, unsigned ntasks, uint64_t seed, unsigned rounds, bool delays) {
    std::atomic<uint64_t> submitted{0}, done{0};
    std::atomic<bool> in_runloop{false}, finished{false};
    std::atomic<uint32_t> lost{0};
    uint32_t lseq_i = 0, lseq_n = 0;                       // loop-thread submissions (owner 0), loop thread only
    const unsigned CTL = nsub + 1;
    std::vector<uint32_t> sub_count(nsub + 2, 0);
    std::vector<std::vector<TEv>> evs(nsub + 2);
    for (auto &v : evs) v.reserve(16 * (size_t)ntasks + 1024);
    vt::disable();
    Loop *loop = Loop::New(engine);
    if (!loop) { std::cout << "H error no-engine\n"; return; }
    g_seq_mode = false; g_delay = delays; g_stamp = 0;
    tl_learn = true; (void)loop->isRunning(); tl_learn = false;      // learn the address of lock_
    g_trace = true;

    // callable submitted by `owner` through entry 'i' (cross-thread runInLoop), 'I' (runInLoop from the loop
    // thread), 'n' (runNext): records its execution; some of the cross-thread ones use the API themselves or throw
    auto leaf = [&](char e, uint32_t q) { return [&, e, q] { trec("XB", 3, 0, (uint64_t)e, q); done.fetch_add(1); trec("XE"); }; };
    std::function<void(uint32_t, uint32_t)> body = [&](uint32_t owner, uint32_t seq) {
        trec("XB", 3, owner, (uint64_t)'i', seq);
        done.fetch_add(1);
        uint64_t r = rnd() >> 20;
        unsigned k = r % 32;
        if (k < 3) {            // nested runNext from the loop thread
            uint32_t q = ++lseq_n; submitted.fetch_add(1);
            trec("AN", 3, 0, (uint64_t)'n', q);
            auto id = loop->runNext(leaf('n', q), "n");
            trec("AS", 1, id);
        } else if (k < 5) {     // nested runInLoop from the loop thread
            uint32_t q = ++lseq_i; submitted.fetch_add(1);
            trec("AI", 3, 0, (uint64_t)'I', q);
            auto id = loop->runInLoop(leaf('I', q), "i");
            trec("AS", 1, id);
        } else if (k == 5) {    // submit and cancel at once: must never run
            uint32_t q = ++lseq_n;
            trec("AN", 3, 0, (uint64_t)'n', q);
            auto id = loop->runNext(leaf('n', q), "c");
            trec("AS", 1, id);
            trec("AC", 1, id);
            bool ok = loop->cancel(id);
            trec("AR", 1, ok);
            if (!ok) submitted.fetch_add(1);
        } else if (k == 6) {
            uint32_t q = ++lseq_i;
            trec("AI", 3, 0, (uint64_t)'I', q);
            auto id = loop->runInLoop(leaf('I', q), "c");
            trec("AS", 1, id);
            trec("AC", 1, id);
            bool ok = loop->cancel(id);
            trec("AR", 1, ok);
            if (!ok) submitted.fetch_add(1);
        } else if (k == 7) {    // cancel something that already ran (or never existed)
            uint64_t id = 2 * ((r >> 8) % 64);
            trec("AC", 1, id);
            bool ok = loop->cancel(id);
            trec("AR", 1, ok);
            if (ok) done.fetch_add(1);                                // (a cancelled pending task counts as settled)
        } else if (k == 8) {    // the callable throws
            trec("TH"); trec("XE");
            throw std::runtime_error("verif: callable throws");
        }
        trec("XE");
    };

    std::atomic<unsigned> round_no{0};
    std::atomic<bool> quit{false}, ctl_done{false};
    std::thread loop_thread([&] {
        tl_idx = 0; tl_rng = seed * 77 + 1; tl_ev = &evs[0];
        while (!quit.load()) {
            trec("AT");
            loop->exitLoop(std::chrono::milliseconds(20000));    // safety net: a lost wake-up must not hang the run (far beyond any run under full machine load)
            trec("RB", 1, 1);
            in_runloop = true;
            tl_runloop = true;
            loop->runLoop(Loop::Mode::kForever);
            tl_runloop = false;
            in_runloop = false;
            trec("RE");
            round_no.fetch_add(1);
        }
        while (!ctl_done.load()) sched_yield();
        finished = true;
        trec("DB");
        delete loop;                                             // pending tasks run here, on this thread
        trec("DE");
        tl_ev = nullptr;
    });
    std::vector<std::thread> subs;
    std::atomic<unsigned> active{nsub};
    for (unsigned t = 1; t <= nsub; ++t) {
        subs.emplace_back([&, t] {
            tl_idx = (int)t; tl_rng = seed * 1000003ULL + t; tl_ev = &evs[t];
            for (uint32_t q = 1; q <= ntasks; ++q) {
                submitted.fetch_add(1);
                sub_count[t] = q;
                trec("SB", 3, t, (uint64_t)'i', q);
                auto id = loop->runInLoop([&, t, q] { body(t, q); }, "s");
                trec("SA", 1, id);
                if ((rnd() >> 30) % 64 == 0) { struct timespec ts = {0, 200000}; nanosleep(&ts, nullptr); }
            }
            active.fetch_sub(1);
            tl_ev = nullptr;
        });
    }
    // controller: ends the first rounds-1 runs while the submitters are still busy (submission during exit /
    // idle / re-run of the same loop object), the last one after everything was executed; watches for stalls.
    std::thread ctl([&] {
        tl_idx = (int)CTL; tl_rng = seed + 99; tl_ev = &evs[CTL];
        auto t_all = std::chrono::steady_clock::now();
        auto stall_watch = [&](std::function<bool()> until) {
            uint64_t last = done.load(); auto t0 = std::chrono::steady_clock::now();
            bool flagged = false;
            while (!until()) {
                if (std::chrono::steady_clock::now() - t_all > std::chrono::seconds(25)) break;   // never hang the check
                struct timespec ts = {0, 2000000}; nanosleep(&ts, nullptr);
                uint64_t d = done.load();
                bool pending = submitted.load() > d;
                auto now = std::chrono::steady_clock::now();
                if (d != last || !pending || !in_runloop.load()) { last = d; t0 = now; flagged = false; continue; }
                // 5 s of REAL time: far beyond any scheduling delay under full machine load (300 ms fired with 8 submitters at load average 64:
                // false alarm, round 8); a genuinely deaf loop stays deaf until the 20 s safety-net exit timer, and the replay of the history
                // on the model rejects the missing eventfd write independently of any clock
                if (!flagged && now - t0 > std::chrono::milliseconds(5000)) { lost.fetch_add(1); flagged = true; }
            }
        };
        uint32_t cq = 0;
        auto submit_exit = [&] {
            uint32_t q = ++cq; sub_count[CTL] = q;
            trec("SB", 3, CTL, (uint64_t)'i', q);
            auto id = loop->runInLoop([&, q] {
                trec("XB", 3, CTL, (uint64_t)'i', q); trec("AX"); loop->exitLoop(); trec("XE");
            }, "exit");
            trec("SA", 1, id);
        };
        for (unsigned r = 0; r + 1 < rounds; ++r) {
            uint64_t target = (uint64_t)nsub * ntasks * (r + 1) / rounds;
            unsigned r0 = round_no.load();
            stall_watch([&] { return done.load() >= target || active.load() == 0 || round_no.load() != r0; });
            if (round_no.load() == r0) submit_exit();
            stall_watch([&] { return round_no.load() != r0; });
        }
        stall_watch([&] { return active.load() == 0 && done.load() >= submitted.load(); });
        quit = true;
        submit_exit();
        ctl_done = true;
        stall_watch([&] { return finished.load(); });
        tl_ev = nullptr;
    });
    for (auto &t : subs) t.join();
    ctl.join();
    loop_thread.join();
    g_delay = false; g_trace = false; g_lock_addr = nullptr;

    std::vector<TEv> all;
    for (auto &v : evs) all.insert(all.end(), v.begin(), v.end());
    std::sort(all.begin(), all.end(), [](const TEv &x, const TEv &y) { return x.stamp < y.stamp; });
    for (unsigned t = 1; t <= CTL; ++t) std::cout << "H sub " << t << " i " << sub_count[t] << "\n";
    std::cout << "H sub 0 I " << lseq_i << "\n" << "H sub 0 n " << lseq_n << "\n";
    std::string out;
    for (auto &e : all) {
        out.clear();
        out += "H e "; out += std::to_string(e.tid); out += ' '; out += e.kind;
        if (e.n == 1) { out += ' '; out += std::to_string(e.a); }
        if (e.n == 3) { out += ' '; out += std::to_string(e.a); out += ' '; out += (char)e.b; out += ' '; out += std::to_string(e.c); }
        out += '\n';
        std::cout << out;
    }
    if (lost.load()) std::cout << "H lost " << lost.load() << "\n";
    std::cout << "H done rounds=" << rounds << "\n";
}

// ------------------------------------------------------------------ main
int main() {
    LogOutput_Disable();
    resolve();
    for (int i = 0; i < NT; ++i) W[i].th = std::thread(worker_main, i);
    std::string line;
    bool in_case = false, first_op = true;
    auto begin_case = [&] { g_seq_mode = true; vt::enable(1000, 1700000000000LL); new_loop(); in_case = true; first_op = true; };
    bool leaked = false;
    auto end_case = [&] {
        if (!in_case) return;
        finalize_case(); delete g_loop; g_loop = nullptr; in_case = false; g_engine = "epoll";
#if defined(__SANITIZE_ADDRESS__)
        // a deferred task dropped by a destructor shows as memory that nothing references any more: attribute it to this case
        if (__lsan_do_recoverable_leak_check()) { std::cout << "P leaked-memory\n" << std::flush; leaked = true; }
#endif
    };
    size_t consumed = 0;    // bytes of stdin handed to the op loop so far
    while (std::getline(std::cin, line)) {
        size_t line_start = consumed;
        consumed += line.size() + 1;
        auto w = vh::words(line);
        if (w.empty()) continue;
        if (w[0] == "case") {
            end_case();
            leaked = false;
            std::cout << line << "\n"; begin_case(); continue;
        }
        if (!in_case) begin_case();
        bool was_first = first_op; first_op = false;
        uint64_t t = 0, k = 0;
        const std::string &op = w[0];
        bool idle = g_loop_tid < 0;
        if (op == "stress" && w.size() == 7) {
            uint64_t ns, nt, seed, rounds, dl;
            if ((w[1] == "epoll" || w[1] == "select") && vh::to_u64(w[2], ns) && vh::to_u64(w[3], nt) && vh::to_u64(w[4], seed) &&
                vh::to_u64(w[5], rounds) && vh::to_u64(w[6], dl) && ns >= 1 && ns <= 16 && nt >= 1 && nt <= 20000 && rounds >= 1 && rounds <= 8 && idle) {
                stress(w[1], (unsigned)ns, (unsigned)nt, seed, (unsigned)rounds, dl != 0);
                g_seq_mode = true; vt::enable(1000, 1700000000000LL);
            } else std::cout << "bad-op\n";
            continue;
        }
        if (op == "engine" && w.size() == 2 && was_first && (w[1] == "epoll" || w[1] == "select")) {
            g_engine = w[1]; delete g_loop; new_loop(); std::cout << "P engine\n";
        } else if (op == "prog" && w.size() == 3 && vh::to_u64(w[1], k) && k < 64) {
            std::vector<Act> b;
            if (w[2] == "~") { g_prog[k] = b; g_null[k] = true; std::cout << "P prog\n"; continue; }
            if (!parse_body(w[2], b)) { std::cout << "bad-op\n"; continue; }
            g_prog[k] = b; g_null[k] = false; std::cout << "P prog\n";
        } else if (op == "srun" && w.size() == 3 && vh::to_u64(w[1], t) && t < NT && vh::to_u64(w[2], k) && k < 64 && (int)t != g_loop_tid) {
            post((int)t, [k] { tl_in_submit = true; do_submit_run(k); tl_in_submit = false; }); wait_idle((int)t);
        } else if (op == "fault" && w.size() == 2 && (w[1] == "pintr" || w[1] == "perr" || w[1] == "pspur" || w[1] == "pok" || w[1] == "wr" || w[1] == "rd" || w[1] == "efd")) {
            if (w[1] == "pintr") g_f_poll = 1; else if (w[1] == "perr") g_f_poll = 2; else if (w[1] == "pspur") g_f_poll = 3; else if (w[1] == "pok") g_f_poll = 0;
            else if (w[1] == "wr") g_f_wr = true; else if (w[1] == "rd") g_f_rd = true; else g_f_efd = true;
            emit("P fault");
        } else if (op == "wl" && w.size() == 3 && vh::to_u64(w[1], t) && vh::to_u64(w[2], k)) {
            auto &wl = g_loop->water_line();      // extreme settings: every time threshold 0, the two queue sizes as given
            wl.run_in_loop_queue_size = (size_t)t; wl.run_next_queue_size = (size_t)k;
            wl.wake_delay = wl.loop_cost = wl.event_cb_cost = wl.run_cb_cost = wl.run_in_loop_delay = wl.run_next_delay = wl.timer_delay =
                std::chrono::nanoseconds(t == 0 ? -1 : 0);
            emit("P wl");
        } else if (op == "query" && w.size() == 2 && vh::to_u64(w[1], t) && t < NT && (int)t != g_loop_tid) {
            post((int)t, [] { do_query(); }); wait_idle((int)t);
        } else if (op == "newloop" && w.size() == 2) {
            Loop *l = Loop::New(w[1]);
            emit(l ? "P new ok" : "P new null");
            delete l;
        } else if (op == "cleanup" && w.size() == 2 && vh::to_u64(w[1], t) && t < NT && idle) {
            op_cleanup((int)t);
        } else if (op == "sub" && w.size() == 3 && vh::to_u64(w[1], t) && t < NT && vh::to_u64(w[2], k) && k < 64 && (int)t != g_loop_tid) {
            post((int)t, [k] { tl_in_submit = true; do_submit_in(k); tl_in_submit = false; }); wait_idle((int)t);
        } else if (op == "next" && w.size() == 3 && vh::to_u64(w[1], t) && t < NT && vh::to_u64(w[2], k) && k < 64 && idle) {
            post((int)t, [k] { do_submit_next(k); }); wait_idle((int)t);
        } else if (op == "cancel" && w.size() == 3 && vh::to_u64(w[1], t) && t < NT && vh::to_u64(w[2], k) && idle) {
            post((int)t, [k] { do_cancel(k); }); wait_idle((int)t);
        } else if (op == "exit" && w.size() == 2 && vh::to_u64(w[1], t) && t < NT && idle) {
            post((int)t, [] { g_loop->exitLoop(); }); wait_idle((int)t); emit("P exit");
        } else if (op == "exitt" && w.size() == 2 && vh::to_u64(w[1], t) && t < NT && idle) {
            post((int)t, [] { g_loop->exitLoop(std::chrono::milliseconds(5)); }); wait_idle((int)t); emit("P exit");
        } else if (op == "exitt" && w.size() == 3 && vh::to_u64(w[1], t) && t < NT && idle && vh::to_u64(w[2], k) && k > 0 && k < (1ULL << 62)) {
            post((int)t, [k] { g_loop->exitLoop(std::chrono::milliseconds((int64_t)k)); }); wait_idle((int)t); emit("P exit");
        } else if (op == "tick" && w.size() == 1) {
            vt::advance_ms(10); emit("P tick");
        } else if (op == "tick" && w.size() == 2 && vh::to_u64(w[1], k) && k <= (1ULL << 42)) {
            vt::advance_ms((int64_t)k); emit("P tick");
        } else if (op == "run" && w.size() == 3 && (w[1] == "once" || w[1] == "forever") && vh::to_u64(w[2], t) && t < NT && idle) {
            bool forever = w[1] == "forever";
            uint64_t gen0; { G g; gen0 = g_park_gen; }
            g_loop_tid = (int)t;
            post((int)t, [forever] {
                tl_runloop = true;
                // like an application that guards its main loop: an exception that escapes runLoop() is reported, not fatal
                try { g_loop->runLoop(forever ? Loop::Mode::kForever : Loop::Mode::kOnce); }
                catch (const std::exception &e) { emit("P runLoop-threw"); }
                tl_runloop = false;
            });
            if (wait_parked_or_exit(gen0)) { emit("P running"); emit_wait(); } else finish_exit();
        } else if (op == "pass" && w.size() == 1 && !idle) {
            op_pass(false);
        } else if (op == "stop" && w.size() == 1 && !idle) {
            op_pass(true);
        } else if (op == "destroy" && w.size() == 2 && vh::to_u64(w[1], t) && t < NT && idle) {
            op_destroy((int)t);
        } else {
            std::cout << "bad-op\n";
        }
        flush_out();
    }
    end_case();
    { G g; for (int i = 0; i < NT; ++i) W[i].quit = true; pthread_cond_broadcast(&gcv); }
    for (int i = 0; i < NT; ++i) W[i].th.join();
#if defined(__SANITIZE_ADDRESS__)
    // leaks are checked and attributed per case (end_case); the process-wide check at exit would blame the last case of the batch
    std::cout << std::flush; fflush(stdout);
    _exit(0);
#endif
    return 0;
}
