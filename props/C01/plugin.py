"""C01 — the event loop runs every deferred task exactly once, on the loop thread, in order."""
import os, time
import vlib
ID = 'C01'
LEAN_MODULES = ['TboxModel.C01.Props']
EXE = 'c01'
MODE = 'trace'
THEOREMS = ['Tbox.C01.C01_exactly_once', 'Tbox.C01.C01_executed_at_most_once', 'Tbox.C01.C01_cancel_sound',
            'Tbox.C01.C01_cancel_false_sound', 'Tbox.C01.C01_fifo_per_submitter', 'Tbox.C01.C01_ids_follow_submission',
            'Tbox.C01.C01_loop_thread', 'Tbox.C01.C01_no_lost_wakeup', 'Tbox.C01.C01_no_lost_wakeup_counterexample',
            'Tbox.C01.C01_drained_on_exit', 'Tbox.C01.C01_pending_at_exit_run', 'Tbox.C01.C01_lock_discipline',
            'Tbox.C01.C01_loop_thread_only', 'Tbox.C01.C01_not_dropped', 'Tbox.C01.C01_fifo_pending',
            'Tbox.C01.C01_wakeup_served', 'Tbox.C01.C01_witness_repaired', 'Tbox.C01.C01_ids_are_code_ids',
            'Tbox.C01.C01_drain_batch_not_cancellable', 'Tbox.C01.C01_exit_timer', 'Tbox.C01.C01_exit_timer_internal_task',
            'Tbox.C01.C01_throw_keeps_batch', 'Tbox.C01.C01_throw_drops_batch_counterexample', 'Tbox.C01.C01_throw_witness_repaired',
            'Tbox.C01.exec_inv', 'Tbox.C01.exec_wake', 'Tbox.C01.exec_time',
            'Tbox.C01.C01_parity_identifies_queue', 'Tbox.C01.C01_run_picks_queue', 'Tbox.C01.C01_eintr_keeps_wakeup',
            'Tbox.C01.C01_read_fault_harmless', 'Tbox.C01.C01_write_fault_loses_wakeup_counterexample',
            'Tbox.C01.C01_eventfd_create_fail_counterexample', 'Tbox.C01.C01_poll_error_select_drains',
            'Tbox.C01.C01_poll_error_epoll_continues', 'Tbox.C01.C01_exit_timer_not_early', 'Tbox.C01.C01_exit_timer_deadline',
            'Tbox.C01.C01_exit_timer_fires', 'Tbox.C01.C01_poll_timeout_width', 'Tbox.C01.C01_poll_timeout_unclamped_counterexample',
            'Tbox.C01.C01_cleanup_returns_idle', 'Tbox.C01.C01_cleanup_unlocked_counterexample', 'Tbox.C01.C01_nested_run_refused', 'Tbox.C01.C01_destructor_two_drains', 'Tbox.C01.C01_destructor_drops_timer_release_counterexample',
            'Tbox.C01.C01_waterline_independent', 'Tbox.C01.C01_waterline_independent_exec',
            'Tbox.C01.C01_cancel_after_exec_false', 'Tbox.C01.C01_cancel_self_while_running', 'Tbox.C01.C01_cancel_self_in_drain',
            'Tbox.C01.C01_cancel_next_id', 'Tbox.C01.C01_isRunning', 'Tbox.C01.C01_isInLoopThread', 'Tbox.C01.C01_run_uses_queries',
            'Tbox.C01.exec_executed_mono']
SOURCES = vlib.EVENT_SOURCES + vlib.BASE_SOURCES
FLAVOUR = 'asan'
LIBS = ['-ldl']
BATCH = 100
BATCH_TIMEOUT = 240
CASE_TIMEOUT = 90
SHRINK_TESTS = 60
MAX_REPORT = 3
TRUSTED = ['model lean/TboxModel/C01/Model.lean hand-written from common_loop_run.cpp / common_loop.cpp / engines/*/loop.cpp; the tie is the '
           'trace acceptor lean/Driver/C01.lean: sequentialised runs must match the model line by line (ids, cancel results, executions + thread), '
           'free-running histories are reconstructed into model step lists (critical sections of lock_ in lock order, the poll sample placed where the '
           'observed pass forces it) and every step must be enabled; ids, cancel results, eventfd writes and executed callables must agree',
           'std::recursive_mutex gives atomic critical sections; eventfd counter semantics (write adds, read zeroes, readable iff > 0); '
           'level-triggered epoll/select readiness',
           'harness interposition of epoll_wait/select (parking the loop thread, injected EINTR / hard error / spurious readiness, the timeout argument '
           'recorded as M line), eventfd() / read / write (failures chosen by the op file), pthread_mutex_lock/unlock and read/write (delay injection), '
           'virtual steady clock (harness/vtime.h). LeakSanitizer is OFF in the check (vlib default detect_leaks=0): the record leaked by the as-found destructor '
           '(patches/C01-05) was exhibited by running the harness by hand with leak detection on; the check sees that defect through the extra drain only',
           'C++ data-race freedom is NOT exhibited by the Lean model: ThreadSanitizer on the free-running stress (thorough tier) searches for races; '
           'the model proves the lock-discipline lemma only']
ASSUMPTIONS = ['RunId does not wrap around (< 2^63 submissions per entry point): hypothesis NoWrap of the id theorems',
               'a write of 1 to a valid non-blocking eventfd whose counter is at most 1 succeeds and eventfd() succeeded: hypothesis wrLost = false of '
               'C01_no_lost_wakeup (the failing cases are modelled, tied and shown to lose the wake-up by two counterexample theorems); '
               'epoll_create1() succeeds (TBOX_ASSERT aborts otherwise; with NDEBUG runLoop() returns at once and the destructor drains)',
               'exit-timer waits are below 2^62 ms and the steady clock does not wrap (uint64 ms)',
               'runNext/cancel are called from the loop thread (or the owning thread while the loop is not running), as loop.h demands',
               'exitLoop()/exitLoop(wait) likewise: loop.h does not say so, but the code writes keep_running_ and the timer heap without lock_ and '
               'does not wake the poll (keep_running_ is a plain bool, the timer heap is loop-thread-only), so a foreign thread has to go through '
               'runInLoop([]{exitLoop();}) (modelled; the stress mode does it); a direct cross-thread exitLoop() is outside the model AND outside '
               'the statement (not a submission entry point; whenever the loop does stop the drain theorems hold): see the round-8 (3) section of Props.lean',
               'runLoop() from inside a callable/callback of the RUNNING loop is refused (patches/C01-04) and modelled; runLoop() from a callable of a '
               'destructor or cleanup() drain (loop not running) is outside the model',
               'Loop::cleanup() takes lock_ (patches/C01-03)',
               'exceptions of callables are caught by the loop (patches/C01-02); exceptions of timer/fd callbacks are not part of this property',
               'no other thread uses the loop object while it is being destroyed',
               'fair scheduling: a runnable loop thread eventually runs (needed to read the wake-up invariant as liveness)']
RULE = ('(i) sequentialised schedules: scripts of callables (submit in-loop/next/run(), cancel - incl. of the callable\'s own id at every position of '
        'both batches and of the drains, and of the id issued next -, isRunning()/isInLoopThread() queries from callables and from foreign threads, exit, exit timer with waits around 2^31/2^32 ms, '
        'nested runLoop(), cross-thread submission in the middle of a batch, empty std::function) x '
        'op sequences (submit/run() from 4 threads, run once/forever, single passes, stop, re-run, cleanup(), destroy, virtual clock ticks, water line, '
        'kernel fault schedules: poll EINTR / hard error / spurious readiness, eventfd read / write / creation failure) on the real epoll/select loop, '
        'loop thread parked at every poll, the timeout handed to the poll compared (M class); (ii) free-running stress with delay injection, exit + re-run of the same loop object under load. '
        'non-trivial = the run exercised a re-run, a submission during exit/drain/between runs, a cancel hit, or is a stress history; '
        'distinct = distinct op text')


def body(rng, ntmpl, k, allow_cross=True):
    """script of template k: references only templates > k (finite expansion) except chain templates"""
    acts = []
    for _ in range(rng.choice([0, 1, 1, 2, 2, 3])):
        r = rng.random()
        hi = rng.randrange(k + 1, ntmpl) if k + 1 < ntmpl else None
        if r < 0.30 and hi is not None: acts.append('i%d' % hi)
        elif r < 0.55 and hi is not None: acts.append('n%d' % hi)
        elif r < 0.72: acts.append('c%d' % rng.choice([2, 4, 6, 8, 10, 12, 3, 5, 7, 9, 11, 0, 1, 14, 16, 13]))
        elif r < 0.78: acts.append('x')
        elif r < 0.82: acts.append('t' + rng.choice(['', '1', '7', '2147483647', '2147483648', '2147483649', '4294967296', '4294967297']))
        elif r < 0.835: acts.append('q')
        elif r < 0.85: acts.append('!')
        elif r < 0.87: acts.append('R')
        elif r < 0.90 and hi is not None: acts.append('r%d' % hi)
        elif allow_cross and hi is not None: acts.append('w%d.%d' % (rng.randrange(4), hi))
    return ','.join(acts) or '-'


def expansion(progs):
    """worst-case number of executions one submission of template k causes (chain templates count 100 per drain)"""
    size = {}
    for k in sorted(progs, reverse=True):
        n = 1
        for a in progs[k].split(','):
            if a in ('x', '!', '-', 'R', '~') or a[0] == 't': continue
            if a[0] in 'inr': n += size.get(int(a[1:]), 1) if int(a[1:]) != k else 100
            elif a[0] == 'w': n += size.get(int(a.split('.')[1]), 1)
        size[k] = n
    return size


def gen_case(rng, nops):
    ntmpl = rng.choice([2, 3, 4, 6, 8])
    while True:
        progs = {k: body(rng, ntmpl, k) for k in range(ntmpl)}
        if rng.random() < 0.15:                      # a self-reposting runNext / runInLoop chain (100-generation bound)
            progs[ntmpl - 1] = rng.choice(['n%d', 'i%d', 'n%d,c3', 'r%d']) % (ntmpl - 1)
        elif rng.random() < 0.12:
            progs[ntmpl - 1] = '~'                   # an empty std::function: accepted, queued, never called
        size = expansion(progs)
        if max(size.values()) <= 120: break
    ops = []
    if rng.random() < 0.5: ops.append('engine ' + rng.choice(['epoll', 'select']))
    ops += ['prog %d %s' % (k, b) for k, b in progs.items()]
    running, lt, budget, chains = False, 0, 1500, 0
    clock = 0
    WAITS = [1, 5, 999, 1000, 1001, 2 ** 31 - 2, 2 ** 31 - 1, 2 ** 31, 2 ** 31 + 1, 2 ** 32 - 1, 2 ** 32, 2 ** 32 + 1, 2 ** 40]
    if rng.random() < 0.2: ops.append('wl %d %d' % (rng.choice([0, 1, 2 ** 64 - 1]), rng.choice([0, 1, 2 ** 64 - 1])))
    for _ in range(nops):
        r = rng.random()
        k = rng.randrange(ntmpl)
        if rng.random() < 0.12:                      # kernel answers: interrupted / failing / spurious poll, failing eventfd read, write, creation
            ops.append('fault ' + rng.choice(['pintr', 'pintr', 'perr', 'pspur', 'rd', 'rd', 'wr', 'efd', 'pok']))
        if rng.random() < 0.06:
            d = rng.choice([1, 4, 5, 6, 998, 1000, 2 ** 31 - 1, 2 ** 31, 2 ** 31 + 1, 2 ** 32 - 1, 2 ** 32])
            if clock + d < 2 ** 42: ops.append('tick %d' % d); clock += d
        if size[k] >= 100:                           # reaches a self-reposting chain: 100 executions in every later drain
            chains += 1
            if chains > 3 or budget < size[k]:
                small = [j for j in range(ntmpl) if size[j] < 100]
                if not small: continue
                k = rng.choice(small)
        if budget < size[k]: continue
        if not running:
            if r < 0.30: ops.append('sub %d %d' % (rng.randrange(4), k)); budget -= size[k]
            elif r < 0.40: ops.append('next %d %d' % (rng.randrange(4), k)); budget -= size[k]
            elif r < 0.47: ops.append('cancel %d %d' % (rng.randrange(4), rng.choice([0, 2, 3, 4, 5, 6, 7, 8])))
            elif r < 0.49: ops.append('exit %d' % rng.randrange(4))
            elif r < 0.52: ops.append('exitt %d %d' % (rng.randrange(4), rng.choice(WAITS)))
            elif r < 0.53: ops.append(rng.choice(['tick', 'query %d' % rng.randrange(4)]))
            elif r < 0.57: ops.append('srun %d %d' % (rng.randrange(4), k)); budget -= size[k]
            elif r < 0.61: ops.append('cleanup %d' % rng.randrange(4))
            elif r < 0.90:
                lt = rng.randrange(4)
                ops.append('run %s %d' % (rng.choice(['forever', 'forever', 'forever', 'once']), lt)); running = True
            elif r < 0.94: ops.append('destroy %d' % rng.randrange(4))
            else: ops.append('pass')                 # invalid while idle: bad-op on both sides
        else:
            if r < 0.34:
                t = rng.choice([x for x in range(4) if x != lt]); ops.append('sub %d %d' % (t, k)); budget -= size[k]
            elif r < 0.40:
                t = rng.choice([x for x in range(4) if x != lt]); ops.append('srun %d %d' % (t, k)); budget -= size[k]
            elif r < 0.80: ops.append('pass')
            elif r < 0.84: ops.append('tick')
            elif r < 0.86: ops.append('query %d' % rng.randrange(4))       # the loop thread itself is busy: bad-op on both sides
            elif r < 0.95: ops.append('stop'); running = False
            else: ops.append(rng.choice(['next 0 0', 'run forever 1', 'sub %d 0' % lt, 'destroy 0', 'cleanup 0', 'srun %d 0' % lt]))   # invalid while running
        if ops[-1] == 'pass' and running and rng.random() < 0.15:
            running = None                           # unknown: a task may have exited the loop; stop generating state-dependent ops
        if running is None: break
    return ops


# the sequential witness of DESIGN §7-1 and variants (also kept in corpus/C01)
DIRECTED = [
    # task submits + exitLoop() in one batch; re-run; cross-thread runInLoop must be executed by the next pass
    ['prog 0 -', 'prog 1 i0,x', 'sub 1 1', 'run forever 0', 'pass', 'run forever 0', 'sub 1 0', 'pass', 'stop'],
    # kOnce: a task of the single pass submits; drained at exit; re-run; work queued before the re-run must wake the loop
    ['engine select', 'prog 0 -', 'prog 1 i0', 'sub 0 1', 'run once 0', 'pass', 'sub 2 0', 'run forever 0', 'pass', 'sub 3 0', 'pass', 'stop'],
    # cross-thread submission while the loop is executing the batch that exits (flag set after the last eventfd read)
    ['prog 0 -', 'prog 1 x,w2.0', 'sub 1 1', 'run forever 3', 'pass', 'run forever 3', 'sub 1 0', 'pass', 'pass', 'stop'],
    # submitter blocked on lock_ by the exit drain: its task waits for the next run / the destructor
    ['prog 0 -', 'prog 1 w2.0', 'prog 2 i1,x', 'sub 1 2', 'run forever 0', 'pass', 'run forever 1', 'pass', 'stop'],
    # cancel: in the batch being executed, in the queue, after execution, during the exit drain (not cancellable)
    ['prog 0 -', 'prog 1 c4,c6,c2', 'prog 2 n0,n0,c5,c3,x', 'sub 1 1', 'sub 1 0', 'sub 2 0', 'run forever 0', 'pass', 'sub 1 2', 'pass', 'pass'],
    ['prog 0 -', 'prog 1 c5,c7,i0,c4', 'prog 2 n1,n0,n0,x', 'sub 1 2', 'run forever 0', 'pass'],
    # 100-generation bound: a self-reposting task is still pending after exit and after destruction
    ['prog 0 n0', 'next 0 0', 'run once 0', 'pass', 'run once 0', 'pass'],
    ['engine select', 'prog 0 i0', 'sub 1 0', 'destroy 2', 'sub 1 0', 'run once 1', 'pass'],
    # a callable throws in a pass batch / in the exit drain / in the destructor drain: the rest of the batch still runs
    ['prog 0 -', 'prog 1 !,i0', 'prog 3 i0,i1,i0,x', 'sub 1 1', 'sub 2 0', 'next 0 1', 'next 0 0', 'run forever 0', 'pass', 'sub 1 3', 'pass'],
    ['engine select', 'prog 0 -', 'prog 1 !', 'prog 3 n1,n0,i1,i0', 'sub 1 3', 'run once 0', 'pass', 'sub 1 1', 'sub 1 0', 'next 0 1', 'next 0 0'],
    # exit timer: armed from a callable, fires after the clock moved; re-armed while idle (the loop posts a task to itself); dropped by exitLoop()
    ['prog 0 -', 'prog 1 t', 'sub 1 1', 'run forever 0', 'pass', 'pass', 'tick', 'sub 2 0', 'pass', 'exitt 0', 'exitt 0', 'sub 1 0', 'run forever 0', 'pass', 'tick', 'pass'],
    ['prog 0 -', 'prog 1 t,x', 'prog 2 t,n0,t', 'sub 1 1', 'run forever 2', 'pass', 'sub 1 2', 'run forever 2', 'pass', 'tick', 'pass'],
    # run(): from another thread while running (runInLoop), from a callable and while idle (runNext); parity finds both in cancel
    ['prog 0 -', 'prog 1 r0,c3,c4,r0', 'sub 1 1', 'run forever 0', 'srun 2 0', 'pass', 'srun 3 0', 'pass', 'stop', 'srun 1 0', 'srun 2 1', 'cancel 0 11', 'run once 2', 'pass'],
    # cancel of id 0, of huge / foreign ids, of ids of the other parity
    ['prog 0 c0,c18446744073709551615,c9223372036854775808,c18446744073709551614,c1', 'sub 1 0', 'next 0 0', 'run once 0', 'pass', 'cancel 1 18446744073709551615'],
    # an empty std::function is accepted, queued, counted, never called - in a pass batch, the exit drain and the destructor
    ['prog 0 ~', 'prog 1 i0,n0,r0', 'sub 1 0', 'sub 1 1', 'next 0 0', 'run forever 0', 'pass', 'sub 2 0', 'stop', 'sub 3 0', 'srun 1 0', 'destroy 1'],
    # polls interrupted by signals / failing while work is queued: the wake-up survives, on both engines
    ['prog 0 -', 'run forever 0', 'sub 1 0', 'fault pintr', 'pass', 'fault pintr', 'pass', 'sub 2 0', 'fault perr', 'pass', 'pass', 'stop'],
    ['engine select', 'prog 0 -', 'run forever 0', 'sub 1 0', 'fault pintr', 'pass', 'fault pintr', 'pass', 'pass', 'sub 2 0', 'pass', 'stop'],
    # select: a hard poll error leaves the loop through the shutdown drain with run-next and cross-thread work queued
    ['engine select', 'prog 0 -', 'prog 1 n0,i0', 'sub 1 1', 'run forever 0', 'pass', 'sub 2 0', 'fault perr', 'pass', 'run forever 1', 'sub 2 0', 'pass', 'stop'],
    # spurious readiness (read fails with EAGAIN) and a failing read with a real wake-up pending
    ['prog 0 -', 'run forever 0', 'fault pspur', 'fault rd', 'pass', 'sub 1 0', 'fault rd', 'pass', 'pass', 'sub 2 0', 'pass', 'stop'],
    ['engine select', 'prog 0 -', 'run forever 0', 'fault pspur', 'fault rd', 'pass', 'sub 1 0', 'fault rd', 'pass', 'pass', 'sub 2 0', 'pass', 'stop'],
    # a failing eventfd write: the flag is set although nothing was written - the task waits for the shutdown drain
    ['prog 0 -', 'run forever 0', 'fault wr', 'sub 1 0', 'pass', 'sub 2 0', 'pass', 'stop'],
    # a failed read leaves the counter positive with the flag cleared; the write of the next submission fails: still served
    ['prog 0 -', 'prog 2 i0', 'fault rd', 'sub 3 2', 'run forever 1', 'fault wr', 'pass', 'pass', 'srun 2 0', 'pass', 'stop'],
    # eventfd() fails when the loop starts (EMFILE): deaf loop, tasks run in the exit drain; next run is fine again
    ['prog 0 -', 'fault efd', 'sub 1 0', 'run forever 0', 'pass', 'sub 2 0', 'pass', 'stop', 'sub 1 0', 'run forever 0', 'pass', 'stop'],
    ['engine select', 'prog 0 -', 'fault efd', 'sub 1 0', 'run once 0', 'pass', 'sub 1 0', 'run once 0', 'pass'],
    # exit timer on the virtual clock: waits around 2^31 and 2^32 ms, one ms before / at the deadline, both engines
    ['prog 0 -', 'exitt 0 2147483649', 'run forever 0', 'tick 2147483647', 'pass', 'tick 1', 'pass', 'tick 1', 'pass'],
    ['engine select', 'prog 0 -', 'exitt 0 4294967297', 'run forever 0', 'tick 4294967296', 'pass', 'tick 1', 'pass'],
    ['prog 0 -', 'prog 1 t4294967296', 'sub 1 1', 'run forever 0', 'pass', 'tick 2147483648', 'pass', 'tick 2147483647', 'pass', 'tick 1', 'pass'],
    ['engine select', 'prog 0 n0', 'prog 1 t1000', 'sub 1 1', 'run forever 0', 'pass', 'tick 999', 'pass', 'next 0 0', 'tick 1', 'pass'],
    # cleanup() while idle: drains under lock_ (a submitter is blocked), loop reusable; 100-generation bound applies
    ['prog 0 -', 'prog 1 w2.0,n0,i0', 'sub 1 1', 'next 0 0', 'cleanup 0', 'sub 1 0', 'run once 0', 'pass', 'cleanup 3'],
    ['engine select', 'prog 0 n0', 'next 0 0', 'cleanup 1', 'cleanup 1', 'destroy 1'],
    # runLoop() from inside a callable of the running loop: refused, the batch goes on in order
    ['prog 0 -', 'prog 1 R,i0,n0', 'sub 1 1', 'sub 1 0', 'run forever 0', 'pass', 'sub 2 0', 'pass', 'stop'],
    ['engine select', 'prog 0 -', 'prog 1 n0,R,x', 'prog 2 R', 'sub 1 1', 'sub 1 2', 'run forever 0', 'pass', 'sub 2 2', 'run once 1', 'pass'],
    # extreme water lines: every notice fires, nothing else changes
    ['wl 0 0', 'prog 0 -', 'prog 1 i0,n0', 'sub 1 1', 'next 0 1', 'run forever 0', 'pass', 'pass', 'wl 18446744073709551615 0', 'sub 1 1', 'pass', 'stop'],
    # malformed stream
    ['fault bogus', 'wl 1', 'tick x', 'exitt 0 0', 'srun 9 0', 'cleanup 7', 'prog 1 t0', 'prog 2 r99'],
    ['engine kqueue', 'prog 99 -', 'prog 1 q', 'sub 9 0', 'pass', 'stop', 'run sometimes 0', 'cancel 0 x', 'frob', 'engine epoll', 'stress epoll 0 1 1 1 0'],
]


def self_cancel_family():
    """lesson (g) / seeded C01-8: a task cancels ITS OWN id while it runs - at every position of a batch of 1..3 (incl. the last),
    for the runInLoop batch (even ids) and the runNext batch (odd ids), in a pass, in the loop-exit drain, in a destructor and a
    cleanup() drain, on both engines; variants: twice, then the follower (a real hit), then the id that will be issued next."""
    out = []
    for e, eng in enumerate(['epoll', 'select']):
        for entry in ('sub', 'next'):
            for n in (1, 2, 3):
                ids = [2 * (j + 1) + (1 if entry == 'next' else 0) for j in range(n)]
                for p in range(n):
                    for variant in range(3):
                        me = 'c%d' % ids[p]
                        if variant == 0: b = me
                        elif variant == 1: b = me + ',q,' + me + (',c%d' % ids[p + 1] if p + 1 < n else '') + ',' + me
                        else:    # the ids both allocators will hand out next first, then self, then the two submissions
                            nx_even, nx_odd = (2 * n + 2, 3) if entry == 'sub' else (2, 2 * n + 3)
                            b = 'c%d,c%d,' % (nx_even, nx_odd) + me + ',i%d,n%d' % (n, n)
                        progs = ['prog %d %s' % (j, b if j == p else 'q') for j in range(n)] + ['prog %d -' % n]
                        subs = ['%s %d %d' % (entry, 1 if entry == 'sub' else 0, j) for j in range(n)]
                        head = ['engine ' + eng] + progs
                        out.append(head + subs + ['run forever 0', 'pass', 'pass', 'stop'])
                        if variant == 0 and (n + p + e) % 2 == 0:
                            out.append(head + subs + ['destroy %d' % (p % 4)])
                            out.append(head + subs + ['cleanup %d' % (p % 4), 'query 0'])
        # loop-exit drain: task 0 (id 2) submits the batch and exits; ids 4,6,8 (runInLoop) / 3,5,7 (runNext) run in runThisAfterLoop
        for kind, base in (('i', 4), ('n', 3)):
            for p in range(3):
                progs = ['prog 0 %s,x' % ','.join('%s%d' % (kind, j + 1) for j in range(3))] + \
                        ['prog %d %s' % (j + 1, ('c%d,q' % (base + 2 * j)) if j == p else '-') for j in range(3)]
                out.append(['engine ' + eng] + progs + ['sub 1 0', 'run forever 0', 'pass'])
    return out


DIRECTED8 = [
    # cancel of the id that will be issued next (both allocators), from a callable and while idle: false, and the submission that
    # follows runs; cancel of the last id handed out after it ran, twice in a row, of the id behind the last one (state-derived inputs)
    ['prog 0 q', 'prog 1 c4,i0,c3,n0,c6,c5', 'sub 1 1', 'run forever 0', 'pass', 'pass', 'stop'],
    ['engine select', 'prog 0 -', 'cancel 0 2', 'cancel 0 3', 'sub 1 0', 'next 0 0', 'cancel 1 4', 'cancel 1 5', 'run once 0', 'pass',
     'cancel 0 2', 'cancel 0 3', 'sub 1 0', 'cancel 0 4', 'cancel 0 4', 'cancel 0 6', 'sub 1 0', 'cancel 2 8', 'run once 1', 'pass', 'cancel 1 6'],
    # isRunning()/isInLoopThread(): before the first run, while the loop thread is parked (asked by foreign threads), inside callables
    # of a pass, of the loop-exit drain, of a destructor and a cleanup() drain, between runs, after a re-run by another thread
    ['prog 0 q', 'prog 1 q,i0,n0,x', 'query 0', 'query 1', 'sub 1 0', 'next 0 0', 'run forever 0', 'query 1', 'query 2', 'query 0', 'pass', 'query 3',
     'sub 2 1', 'pass', 'query 0', 'query 1', 'sub 1 0', 'run forever 2', 'query 0', 'query 2', 'query 3', 'pass', 'stop', 'query 2', 'sub 3 0', 'destroy 2'],
    ['engine select', 'prog 0 q', 'prog 1 q,r0,x', 'query 3', 'sub 1 0', 'cleanup 3', 'query 3', 'srun 1 1', 'run once 1', 'query 0', 'pass', 'query 1',
     'next 2 0', 'destroy 2', 'query 2'],
    # eventfd() failed: the loop still counts as running (the read event exists), the loop thread is known
    ['prog 0 q', 'fault efd', 'sub 1 0', 'run forever 0', 'query 1', 'pass', 'stop', 'query 0'],
    # Loop::New with an unknown engine name returns nullptr (observed), the known names give a loop
    ['newloop kqueue', 'newloop EPOLL', 'newloop epoll', 'newloop select', 'newloop selectx', 'newloop -', 'newloop', 'newloop a b', 'query 9', 'query'],
]


def gen(rng, tier):
    n = 600 if tier == 'quick' else 15000
    for ops in DIRECTED:
        yield ops
    for ops in DIRECTED8:
        yield ops
    for ops in self_cancel_family():
        yield ops
    if tier == 'thorough':
        # exhaustive small scope: every op sequence of length <= 4 over this alphabet (exit inside a task, nested submissions,
        # cancel of a queued runNext task, cross-thread submission mid-batch, re-run), on both engines
        import itertools
        pre = ['prog 0 -', 'prog 1 i0,x', 'prog 2 n0,c3,w2.0', 'prog 3 n3']
        alpha = ['sub 1 1', 'sub 2 2', 'sub 3 0', 'next 0 3', 'run forever 0', 'run once 0', 'pass', 'stop', 'fault pintr', 'cleanup 0']
        for L in range(1, 5):
            for i, seq in enumerate(itertools.product(alpha, repeat=L)):
                yield ['engine ' + ['epoll', 'select'][i % 2]] + pre + list(seq) + ['pass']
    for _ in range(n):
        yield gen_case(rng, rng.choice([6, 12, 20, 35]))
    # free-running stress histories (asan build): both engines, exit + re-run under load
    nstress = 8 if tier == 'quick' else 60
    for i in range(nstress):
        eng = ['epoll', 'select'][i % 2]
        ns = rng.choice([1, 2, 3, 4, 8]) if tier == 'thorough' else rng.choice([2, 3, 4])
        nt = rng.choice([200, 500, 1000, 2000]) if tier == 'thorough' else rng.choice([200, 400, 800])
        yield ['stress %s %d %d %d %d %d' % (eng, ns, nt, rng.randrange(1, 10 ** 6), rng.choice([2, 3, 4]), rng.choice([0, 1, 1]))]


def nontrivial(ops, model_lines):
    tags = ' '.join(l for l in model_lines if l.startswith('B '))
    keys = ('cancel-self', 'cancel-next-id', 'query-', 'new-unknown-engine', 'poll-eintr', 'poll-error', 'poll-spurious', 'select-break', 'read-fault', 'fault-write', 'eventfd-create-failed', 'cleanup', 'nested-runLoop',
            'run-cross', 'run-idle', 'run-in-task', 'wait>=2^31', 'throw', 'exit-timer-fired', 'exit-timer-dropped', 'rerun', 'submit-while-exiting', 'submit-between-runs', 'submit-blocked-by-drain', 'cancel-batch-hit', 'cancel-queue-hit',
            'cancel-idle-hit', 'exec-in-exit-drain', 'exec-in-destructor', 'cross-mid-batch', 'stress', 'start-with-queued-work')
    return 1 if any(k in tags for k in keys) else None


def fingerprint(ops, d):
    import hashlib
    what = (d[1] if d else '')
    kind = 'lost-wakeup' if ('LOST WAKE-UP' in what or 'lost wake-up' in what or 'impl=[P parked] model=[E' in what) else \
           'throw' if ('CRASH' in what and 'exception' in what) else \
           'crash' if 'CRASH' in what else 'history' if 'history event' in what else 'trace'
    h = hashlib.sha1((' '.join(o.split()[0] for o in ops) + kind).encode()).hexdigest()[:10]
    return kind + '-' + h


def check(tier, seed, replay=None):
    """standard check (sequentialised + asan stress); thorough adds a ThreadSanitizer build of the stress mode"""
    import types
    P = types.SimpleNamespace(**{k: v for k, v in globals().items() if not k.startswith('__') and k != 'check'})
    rc = vlib.standard_check(P, tier, seed, replay)
    if tier != 'thorough' or replay:
        return rc
    return max(rc, tsan_stress(seed))


def tsan_stress(seed):
    import json, random
    t0 = time.time()
    exe, hlog = vlib.build_harness(ID, SOURCES, os.path.join(vlib.VERIF, 'props', ID, 'harness.cpp'), 'tsan', (), LIBS)
    rep = vlib.Report(ID)
    if exe is None:
        p = vlib.write_replay(ID, 'harness_build_tsan.txt', hlog[-6000:])
        rep.violation('harness-build-tsan', p, 'tsan harness does not build', no_input=True)
        return 1
    rng = random.Random('C01-tsan:%d' % seed)
    cases = {}
    for i in range(16):
        cases[i] = ['stress %s %d %d %d %d 1' % (['epoll', 'select'][i % 2], rng.choice([2, 3, 4, 6]), rng.choice([300, 800, 1500]),
                                                rng.randrange(1, 10 ** 6), rng.choice([2, 3]))]
    impl, st = vlib.run_harness_cases(exe, cases, timeout_per_batch=300, batch=1)
    tcases = {i: cases[i] + ['T ' + l for l in impl.get(i, [])] + ['end'] for i in cases}
    model = vlib.run_driver_cases(EXE, tcases)
    bad = 0
    for i in sorted(cases):
        il, ml = impl.get(i, []), model.get(i, [])
        msgs = [l for l in il if l.startswith('CRASH')] + [l for l in ml if l.startswith('reject')]
        if msgs:
            fp = ('tsan-race' if 'tsan' in msgs[0] else 'tsan-run') + '-%d' % i
            body = vlib.case_text(0, cases[i]) + '# ThreadSanitizer build of the free-running stress, seed=%d\n# %s\n%s\n' % (
                seed, msgs[0], st.get('crash_stderr', '')[-2500:])
            p = vlib.write_replay(ID, fp + '.ops', body)
            if rep.violation(fp, p, msgs[0][:300]): bad += 1
    # append to the evidence written by the standard check
    ep = os.path.join(vlib.VERIF, 'evidence', ID + '.json')
    try:
        ev = json.load(open(ep))
        ev['coverage']['tsan_stress'] = {'cases': len(cases), 'reports': bad, 'wall_s': round(time.time() - t0, 1),
                                         'note': 'supporting search for data races (not a proof)'}
        ev['violations'] = ev.get('violations', 0) + bad
        ev['wall_s'] = round(ev.get('wall_s', 0) + time.time() - t0, 2)
        with open(ep + '.tmp', 'w') as fh:
            json.dump(ev, fh, indent=1, sort_keys=True); fh.write('\n')
        os.replace(ep + '.tmp', ep)
    except Exception as ex:
        vlib.log('[C01] could not extend evidence: %r' % (ex,))
    vlib.log('[C01] tsan stress: %d cases, %d reports, %.1fs' % (len(cases), bad, time.time() - t0))
    return 1 if bad else 0


LEVEL_TEXT = ('Lean 4 theorems over a small-step model of the loop\'s deferred-task machinery (one step = one critical section or lock-free '
              'loop-thread region; callables are scripts): for EVERY interleaving of submitter threads with loop start, passes, exit, re-run '
              'and destruction, with every schedule of kernel answers (poll EINTR / error / spurious readiness, eventfd read failure; write and '
              'eventfd() failure modelled and excluded by one hypothesis with counterexamples), run(), cleanup(), nested runLoop(), the exit timer on a '
              'virtual clock and any water-line setting, an inductive invariant gives exactly-once, cancel soundness and completeness (parity), '
              'FIFO per entry point, loop-thread execution, '
              'no lost wake-up (running and queue non-empty implies eventfd counter > 0) and drain-on-exit with the 100-generation bound; '
              'tied to the real epoll/select loop on every run by sequentialised schedules compared line by line and by free-running stress '
              'histories replayed step by step on the interleaving model')
LEVEL_NOTE = ('partial for "free of data races": the Lean model cannot exhibit a C++ data race; proved instead is the lock-discipline lemma '
              '(inLoopQ/hasCommit/efd/id allocator are touched only by steps holding lock_, nextQ/tmpQ/batches only by loop-thread steps); '
              'ThreadSanitizer on the stress mode (thorough) is a supporting search. "No lost wake-up" is proved as the invariant '
              'running & queue non-empty -> eventfd readable; liveness needs kernel readiness + fair scheduling (assumed). '
              'trusted: Lean kernel, hand-written model + trace-acceptor tie (coverage bounded by the generator, measured)')
TECHNIQUE = 'Lean 4 invariant proof over all interleavings of a loop-queue model + trace-acceptor correspondence (sequentialised and free-running) with the real loop'
DESIGN_REF = 'DESIGN.md §6 C01, §7 row 1, §10 addenda (rounds 7, 8)'
