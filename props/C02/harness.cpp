// C02 harness: real event loop (epoll or select engine, argv[1]) + real TimerEvents on a virtual
// monotonic clock; one op per loop pass; prints every callback (`F j en=…`) and the isEnabled()
// vector after every op.  Format matches lean/Driver/C02.lean (trace acceptor).
#include "vh.h"
#include "vtime.h"
#include "loopdrv.h"
#include <memory>
#include <tbox/event/loop.h>
#include <tbox/event/timer_event.h>
#include <tbox/base/log_output.h>

using namespace tbox::event;

struct Act { char kind; size_t j; uint64_t ms; bool oneshot; };
static std::vector<TimerEvent*> objs;
static std::vector<std::vector<Act>> scripts;
static Loop *loop = nullptr;

static std::string bits() {
    std::string s;
    for (auto *t : objs) s.push_back(t == nullptr ? 'x' : (t->isEnabled() ? '1' : '0'));
    return s.empty() ? "-" : s;
}

static int apply(const Act &a) {
    if (a.j >= objs.size() || objs[a.j] == nullptr) return 0;   // dead or unknown object: no-op (model: alive = false)
    TimerEvent *t = objs[a.j];
    switch (a.kind) {
        case 'i': return t->initialize(std::chrono::milliseconds(a.ms), a.oneshot ? Event::Mode::kOneshot : Event::Mode::kPersist);
        case 'e': return t->enable();
        case 'd': return t->disable();
        case 'x': delete t; objs[a.j] = nullptr; return 1;
    }
    return 0;
}

// "e1" "d0" "x2" "i3:20:o"
static bool parse_act(const std::string &w, Act &a) {
    if (w.size() < 2) return false;
    a.kind = w[0]; a.ms = 0; a.oneshot = false;
    if (a.kind == 'i') {
        size_t p1 = w.find(':'), p2 = w.rfind(':');
        if (p1 == std::string::npos || p2 == p1) return false;
        uint64_t j; if (!vh::to_u64(w.substr(1, p1 - 1), j)) return false; a.j = j;
        if (!vh::to_u64(w.substr(p1 + 1, p2 - p1 - 1), a.ms)) return false;
        std::string m = w.substr(p2 + 1);
        if (m != "o" && m != "p") return false;
        a.oneshot = (m == "o");
        return a.ms >= 1;
    }
    if (a.kind != 'e' && a.kind != 'd' && a.kind != 'x') return false;
    uint64_t j; if (!vh::to_u64(w.substr(1), j)) return false; a.j = j;
    return true;
}

static bool parse_script(const std::string &w, std::vector<Act> &out, size_t self) {
    out.clear();
    if (w == "-") return true;
    std::stringstream ss(w); std::string item;
    while (std::getline(ss, item, ',')) {
        Act a; if (!parse_act(item, a)) return false;
        if (a.kind == 'x' && a.j == self) return false;   // destroying oneself inside one's own callback is outside the property
        out.push_back(a);
    }
    return true;
}

static void reset_all() {
    for (auto *&t : objs) { delete t; t = nullptr; }
    objs.clear(); scripts.clear();
}

int main(int argc, char **argv) {
    LogOutput_Disable();
    vt::enable(1000, 1700000000000LL);
    std::string engine = argc > 1 ? argv[1] : "epoll", next_engine = engine;
    bool eof = false;
  while (!eof) {
    engine = next_engine;
    loop = Loop::New(engine);
    vh::LoopDriver drv(loop);
    bool pending_adv = false;
    drv.step = [&]() -> bool {
        if (pending_adv) { std::cout << "P ret=1 en=" << bits() << "\n"; pending_adv = false; }
        std::string line;
        if (!std::getline(std::cin, line)) { reset_all(); eof = true; return false; }
        auto w = vh::words(line);
        if (w.empty()) return true;
        if (w[0] == "case") { reset_all(); std::cout << line << "\n"; return true; }
        uint64_t n;
        if (w[0] == "engine" && w.size() == 2 && (w[1] == "epoll" || w[1] == "select") && objs.empty()) {
            // only as the first op of a case: switch the back-end (leave this loop, start the other)
            std::cout << "P engine=" << w[1] << "\n";
            if (w[1] != engine) { next_engine = w[1]; return false; }
            return true;
        }
        if (w[0] == "new" && w.size() == 2) {
            size_t id = objs.size();
            std::vector<Act> sc;
            if (!parse_script(w[1], sc, id)) { std::cout << "bad-op\n"; return true; }
            TimerEvent *t = loop->newTimerEvent("verif");
            objs.push_back(t); scripts.push_back(sc);
            t->setCallback([id] {
                std::cout << "F " << id << " en=" << bits() << "\n";
                std::vector<Act> sc = scripts[id];          // copy: the script may not change, but stay safe
                for (auto &a : sc) apply(a);
            });
            std::cout << "P ret=1 en=" << bits() << "\n";
        } else if (w[0] == "adv" && w.size() == 2 && vh::to_u64(w[1], n) && n <= 100000) {
            vt::advance_ms((int64_t)n);
            pending_adv = true;                              // timers fire in the next pass; then we report
        } else if (w.size() == 2 || w.size() == 4) {
            Act a; std::string tok;
            if (w[0] == "init" && w.size() == 4) tok = "i" + w[1] + ":" + w[2] + ":" + w[3];
            else if (w[0] == "en" && w.size() == 2) tok = "e" + w[1];
            else if (w[0] == "dis" && w.size() == 2) tok = "d" + w[1];
            else if (w[0] == "del" && w.size() == 2) tok = "x" + w[1];
            if (tok.empty() || !parse_act(tok, a) || a.j >= objs.size()) { std::cout << "bad-op\n"; return true; }
            int r = apply(a);
            std::cout << "P ret=" << (r ? 1 : 0) << " en=" << bits() << "\n";
        } else {
            std::cout << "bad-op\n";
        }
        return true;
    };
    drv.run();
    delete loop;
  }
    return 0;
}
