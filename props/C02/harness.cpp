// C02 harness: real event loop (epoll or select engine, argv[1]) + real TimerEvents on a virtual
// monotonic clock; one op per loop pass; prints every callback (`F j en=…`) and the isEnabled()
// vector after every op.  Format matches lean/Driver/C02.lean (trace acceptor).
#include "vh.h"
#include "vtime.h"
#include "loopdrv.h"
#include <memory>
#include <tbox/event/loop.h>
#include <tbox/event/timer_event.h>
#include <tbox/eventx/timer_pool.h>
#include <tbox/base/log_output.h>

using namespace tbox::event;

struct Act { char kind; size_t j; uint64_t ms; bool oneshot; };
static std::vector<TimerEvent*> objs;          // plain TimerEvents (nullptr = destroyed, or a TimerPool-owned timer)
static std::vector<char> pool_kind;            // 0 = plain object, 'a' = TimerPool::doAfter, 'e' = TimerPool::doEvery
static std::vector<bool> pool_alive;
static std::vector<tbox::eventx::TimerPool::TimerToken> pool_tok;
static tbox::eventx::TimerPool *pool = nullptr;
static std::vector<std::vector<Act>> scripts;
static Loop *loop = nullptr;

static std::string bits() {
    std::string s;
    for (size_t i = 0; i < objs.size(); ++i) {
        if (pool_kind[i]) { s.push_back(pool_alive[i] ? 'p' : 'x'); continue; }
        auto *t = objs[i];
        s.push_back(t == nullptr ? 'x' : (t->isEnabled() ? '1' : '0'));
    }
    return s.empty() ? "-" : s;
}

static int mode = 0;    // 0 undecided, 1 = plain TimerEvent case, 2 = TimerPool case (a case never mixes the two)
static int pool_cancel(size_t j) {
    if (j >= objs.size() || !pool_kind[j]) return 0;
    bool r = pool->cancel(pool_tok[j]);
    if (r) pool_alive[j] = false;
    return r ? 1 : 0;
}

static int apply(const Act &a) {
    if (a.kind == 'c') return pool_cancel(a.j);
    if (a.j >= objs.size() || objs[a.j] == nullptr) return 0;   // dead or unknown object: no-op (model: alive = false)
    TimerEvent *t = objs[a.j];
    switch (a.kind) {
        case 'i': return t->initialize(std::chrono::milliseconds(a.ms), a.oneshot ? Event::Mode::kOneshot : Event::Mode::kPersist);
        case 'e': return t->enable();
        case 'd': return t->disable();
        case 'x': delete t; objs[a.j] = nullptr; return 1;
    }
    return 0;
}

// "e1" "d0" "x2" "i3:20:o"
static bool parse_act(const std::string &w, Act &a) {
    if (w.size() < 2) return false;
    a.kind = w[0]; a.ms = 0; a.oneshot = false;
    if (a.kind == 'i') {
        size_t p1 = w.find(':'), p2 = w.rfind(':');
        if (p1 == std::string::npos || p2 == p1) return false;
        uint64_t j; if (!vh::to_u64(w.substr(1, p1 - 1), j)) return false; a.j = j;
        if (!vh::to_u64(w.substr(p1 + 1, p2 - p1 - 1), a.ms)) return false;
        std::string m = w.substr(p2 + 1);
        if (m != "o" && m != "p") return false;
        a.oneshot = (m == "o");
        return a.ms >= 1;
    }
    if (a.kind != 'e' && a.kind != 'd' && a.kind != 'x' && a.kind != 'c') return false;
    uint64_t j; if (!vh::to_u64(w.substr(1), j)) return false; a.j = j;
    return true;
}

static bool parse_script(const std::string &w, std::vector<Act> &out, size_t self, bool pool_script) {
    out.clear();
    if (w == "-") return true;
    std::stringstream ss(w); std::string item;
    while (std::getline(ss, item, ',')) {
        Act a; if (!parse_act(item, a)) return false;
        if ((a.kind == 'c') != pool_script) return false;      // pool callbacks only cancel pool timers; plain ones never do
        if (a.kind == 'x' && a.j == self) return false;   // destroying oneself inside one's own callback is outside the property
        out.push_back(a);
    }
    return true;
}

static void reset_all() {
    if (pool) pool->cleanup();
    for (auto *&t : objs) { delete t; t = nullptr; }
    objs.clear(); scripts.clear(); pool_kind.clear(); pool_alive.clear(); pool_tok.clear(); mode = 0;
}

int main(int argc, char **argv) {
    LogOutput_Disable();
    vt::enable(1000, 1700000000000LL);
    std::string engine = argc > 1 ? argv[1] : "epoll", next_engine = engine;
    bool eof = false;
  while (!eof) {
    engine = next_engine;
    loop = Loop::New(engine);
    pool = new tbox::eventx::TimerPool(loop);
    vh::LoopDriver drv(loop);
    bool pending_adv = false;
    drv.step = [&]() -> bool {
        if (pending_adv) { std::cout << "P ret=1 en=" << bits() << "\n"; pending_adv = false; }
        std::string line;
        if (!std::getline(std::cin, line)) { reset_all(); eof = true; return false; }
        auto w = vh::words(line);
        if (w.empty()) return true;
        if (w[0] == "case") { reset_all(); std::cout << line << "\n"; return true; }
        uint64_t n;
        if (w[0] == "engine" && w.size() == 2 && (w[1] == "epoll" || w[1] == "select") && objs.empty()) {
            // only as the first op of a case: switch the back-end (leave this loop, start the other)
            std::cout << "P engine=" << w[1] << "\n";
            if (w[1] != engine) { next_engine = w[1]; return false; }
            return true;
        }
        bool is_pool_op = (w[0] == "pafter" || w[0] == "pevery" || w[0] == "pcancel" || w[0] == "pcleanup");
        bool is_plain_op = (w[0] == "new" || w[0] == "init" || w[0] == "en" || w[0] == "dis" || w[0] == "del");
        if ((is_pool_op && mode == 1) || (is_plain_op && mode == 2)) { std::cout << "bad-op\n"; return true; }
        if (w[0] == "new" && w.size() == 2) {
            size_t id = objs.size();
            std::vector<Act> sc;
            if (!parse_script(w[1], sc, id, false)) { std::cout << "bad-op\n"; return true; }
            mode = 1;
            TimerEvent *t = loop->newTimerEvent("verif");
            objs.push_back(t); scripts.push_back(sc); pool_kind.push_back(0); pool_alive.push_back(false); pool_tok.emplace_back();
            t->setCallback([id] {
                std::cout << "F " << id << " en=" << bits() << "\n";
                std::vector<Act> sc = scripts[id];          // copy: the script may not change, but stay safe
                for (auto &a : sc) apply(a);
            });
            std::cout << "P ret=1 en=" << bits() << "\n";
        } else if ((w[0] == "pafter" || w[0] == "pevery") && w.size() == 3 && vh::to_u64(w[1], n) && n >= 1 && n <= 100000) {
            size_t id = objs.size();
            std::vector<Act> sc;
            if (!parse_script(w[2], sc, id + 1000000, true)) { std::cout << "bad-op\n"; return true; }
            mode = 2;
            bool after = (w[0] == "pafter");
            objs.push_back(nullptr); scripts.push_back(sc); pool_kind.push_back(after ? 'a' : 'e'); pool_alive.push_back(true); pool_tok.emplace_back();
            auto cb = [id, after] {
                if (after) pool_alive[id] = false;           // a doAfter timer is gone once it has fired
                std::cout << "F " << id << " en=" << bits() << "\n";
                std::vector<Act> sc = scripts[id];
                for (auto &a : sc) apply(a);
            };
            pool_tok[id] = after ? pool->doAfter(std::chrono::milliseconds(n), cb) : pool->doEvery(std::chrono::milliseconds(n), cb);
            std::cout << "P ret=1 en=" << bits() << "\n";
        } else if (w[0] == "pcancel" && w.size() == 2 && vh::to_u64(w[1], n)) {
            int r = pool_cancel(n); mode = 2;
            std::cout << "P ret=" << r << " en=" << bits() << "\n";
        } else if (w[0] == "pcleanup" && w.size() == 1) {
            pool->cleanup(); mode = 2;
            for (size_t i = 0; i < objs.size(); ++i) if (pool_kind[i]) pool_alive[i] = false;
            std::cout << "P ret=1 en=" << bits() << "\n";
        } else if (w[0] == "adv" && w.size() == 2 && vh::to_u64(w[1], n) && n <= 100000) {
            vt::advance_ms((int64_t)n);
            pending_adv = true;                              // timers fire in the next pass; then we report
        } else if (w.size() == 2 || w.size() == 4) {
            Act a; std::string tok;
            if (w[0] == "init" && w.size() == 4) tok = "i" + w[1] + ":" + w[2] + ":" + w[3];
            else if (w[0] == "en" && w.size() == 2) tok = "e" + w[1];
            else if (w[0] == "dis" && w.size() == 2) tok = "d" + w[1];
            else if (w[0] == "del" && w.size() == 2) tok = "x" + w[1];
            if (tok.empty() || !parse_act(tok, a) || a.j >= objs.size()) { std::cout << "bad-op\n"; return true; }
            int r = apply(a);
            std::cout << "P ret=" << (r ? 1 : 0) << " en=" << bits() << "\n";
        } else {
            std::cout << "bad-op\n";
        }
        return true;
    };
    drv.run();
    delete pool; pool = nullptr;
    delete loop;
  }
    return 0;
}
