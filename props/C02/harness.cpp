// C02 harness: real event loop (epoll or select engine, argv[1]) + real TimerEvents / the real TimerPool on
// virtual clocks (monotonic and system); one op per loop pass; prints every callback (`F j en=…`), the
// return values of the calls the callback made (`R …`) and the isEnabled() vector after every op.
// Format matches lean/Driver/C02.lean (trace acceptor).
// Round 3: intervals up to 2^62 ms, clock jumps up to 9*10^12 ms, `idle d` (the loop really goes to sleep: no pending
// next-function; the interposed epoll_wait/select prints the timeout it was given as a `W` line, advances the clock by d
// and wakes the loop with no descriptor ready), and wide cases (`wnew/winit/wen/wdis/wdel`: flat TimerEvents with ANY
// signed 64-bit millisecond count, tied to the width-faithful model lean/TboxModel/C02/Wide.lean).
// Round 4: the loop's own exit timer (`xslot`, `xl w`, `xlo w`, script item `q<w>`: CommonLoop::exitLoop(w) from a deferred
// function, from outside the run, from inside a timer callback; the harness notices that runLoop() returned — `P loop-exit` —
// and runs the loop again on the same object), TimerPool calls with an empty std::function (`pnull`), ~TimerPool with pending
// timers followed by a fresh pool (`pdestroy`).
// Round 5: wide cases with the exit-timer slot (`wxslot`, `wxl <signed w>`): exitLoop() with negative counts through the real code.
#include "vh.h"
#include "vtime.h"
#include <dlfcn.h>
#include <unistd.h>
#include <cerrno>
#include <sys/epoll.h>
#include <sys/select.h>
#include <functional>
#include <memory>
#include <tbox/event/loop.h>
#include <tbox/event/timer_event.h>
#include <tbox/eventx/timer_pool.h>
#include <tbox/base/log_output.h>

using namespace tbox::event;

// one call of a callback script; `sub` = the script of the timer created by n[...] / a<ms>[...] / v<ms>[...]
struct Act { char kind; size_t j; uint64_t ms; bool oneshot; std::vector<Act> sub; int64_t sms = 0; bool wide = false; };
static const uint64_t MAXMS = 4611686018427387904ULL;      // 2^62
static const uint64_t CLOCKMAX = 7000000000000ULL;         // ms; both virtual clocks are int64 counts of nanoseconds (system clock starts at 1.7e12 ms)
static std::vector<TimerEvent*> objs;          // plain TimerEvents (nullptr = destroyed, or a TimerPool-owned timer)
static std::vector<char> pool_kind;            // 0 = plain object, 'a' = TimerPool::doAfter/doAt, 'e' = TimerPool::doEvery
static std::vector<bool> pool_alive;
static std::vector<tbox::eventx::TimerPool::TimerToken> pool_tok;
static tbox::eventx::TimerPool *pool = nullptr;
static std::vector<std::vector<Act>> scripts;
static Loop *loop = nullptr;
static int64_t wall0 = 0;                      // system clock reading (ms) when the case started

static std::string bits() {
    std::string s;
    for (size_t i = 0; i < objs.size(); ++i) {
        if (pool_kind[i] == 's') { s.push_back('s'); continue; }
        if (pool_kind[i]) { s.push_back(pool_alive[i] ? 'p' : 'x'); continue; }
        auto *t = objs[i];
        s.push_back(t == nullptr ? 'x' : (t->isEnabled() ? '1' : '0'));
    }
    return s.empty() ? "-" : s;
}

static bool slot_mode = false;                 // this case declared the exit-timer slot (object 0, shown as `s`)
static bool loop_tainted = false;              // an exit timer may still be pending in this loop object: take a fresh loop for the next case
static int mode = 0;    // 0 undecided, 1 = plain TimerEvent case, 2 = TimerPool case (a case never mixes the two)
static int pool_cancel(size_t j) {
    if (j >= objs.size() || !pool_kind[j]) return 0;
    bool r = pool->cancel(pool_tok[j]);
    if (r) pool_alive[j] = false;
    return r ? 1 : 0;
}

static std::string run_script(const std::vector<Act> &sc);

static long pass_callbacks = 0;                 // callbacks since the last scripted step (= in one pass of handleExpiredTimers)
static void on_callback(size_t id) {
    if (++pass_callbacks > 20000) {             // a pass that never ends (legitimate passes of the generator stay below 2000)
        std::cout << "X runaway pass: more than 20000 callbacks without leaving handleExpiredTimers" << std::endl;
        _exit(96);
    }
    if (pool_kind[id] == 'a') pool_alive[id] = false;   // a doAfter timer is gone once it has fired
    std::cout << "F " << id << " en=" << bits() << "\n";
    std::vector<Act> sc = scripts[id];                  // copy: the script table may grow while it runs
    std::cout << "R " << run_script(sc) << "\n";
}

static size_t make_plain(const std::vector<Act> &sc) {
    size_t id = objs.size();
    TimerEvent *t = loop->newTimerEvent("verif");
    objs.push_back(t); scripts.push_back(sc); pool_kind.push_back(0); pool_alive.push_back(false); pool_tok.emplace_back();
    t->setCallback([id] { on_callback(id); });
    return id;
}

// kind: 'a' doAfter(ms), 'e' doEvery(ms), 't' doAt(system time point `ms`, absolute)
static bool make_pool(char kind, uint64_t ms, const std::vector<Act> &sc) {
    size_t id = objs.size();
    objs.push_back(nullptr); scripts.push_back(sc); pool_kind.push_back(kind == 'e' ? 'e' : 'a');
    pool_alive.push_back(true); pool_tok.emplace_back();
    auto cb = [id] { on_callback(id); };
    tbox::eventx::TimerPool::TimerToken tok;
    if (kind == 'a') tok = pool->doAfter(std::chrono::milliseconds(ms), cb);
    else if (kind == 'e') tok = pool->doEvery(std::chrono::milliseconds(ms), cb);
    else tok = pool->doAt(std::chrono::system_clock::time_point(std::chrono::milliseconds((int64_t)ms)), cb);
    pool_tok[id] = tok;
    return !tok.isNull();
}

static int apply(const Act &a) {
    if (a.kind == 'c') return pool_cancel(a.j);
    if (a.kind == 'z') {
        pool->cleanup();
        for (size_t i = 0; i < objs.size(); ++i) if (pool_kind[i]) pool_alive[i] = false;
        return 1;
    }
    if (a.kind == 'a') return make_pool('a', a.ms, a.sub) ? 1 : 0;
    if (a.kind == 'v') return make_pool('e', a.ms, a.sub) ? 1 : 0;
    if (a.kind == 'n') { make_plain(a.sub); return 1; }
    if (a.kind == 'q') { loop_tainted = true; loop->exitLoop(std::chrono::milliseconds((int64_t)a.ms)); return 1; }
    if (a.j >= objs.size() || objs[a.j] == nullptr) return 0;   // dead or unknown object: no-op (model: alive = false)
    TimerEvent *t = objs[a.j];
    switch (a.kind) {
        case 'i': return t->initialize(std::chrono::milliseconds(a.wide ? a.sms : (int64_t)a.ms), a.oneshot ? Event::Mode::kOneshot : Event::Mode::kPersist);
        case 'e': return t->enable();
        case 'd': return t->disable();
        case 'x': delete t; objs[a.j] = nullptr; return 1;
    }
    return 0;
}

static std::string run_script(const std::vector<Act> &sc) {
    std::string r;
    for (auto &a : sc) {
        int v = apply(a);
        if (a.kind != 'q') r.push_back(v ? '1' : '0');       // exitLoop() returns nothing
    }
    return r.empty() ? "-" : r;
}

// ---- script parser (same grammar as lean/Driver/C02.lean: pItems / pNested / pItem) ----
static bool take_nat(const std::string &w, size_t &p, uint64_t &v) {
    size_t b = p; v = 0;
    while (p < w.size() && w[p] >= '0' && w[p] <= '9') { v = v * 10 + (uint64_t)(w[p] - '0'); ++p; }
    return p > b && p - b <= 19;
}
static bool p_items(const std::string &w, size_t &p, bool has_self, size_t self, bool pl, std::vector<Act> &out);
static bool p_nested(const std::string &w, size_t &p, bool pl, std::vector<Act> &out) {
    if (p >= w.size() || w[p] != '[') return false;
    ++p;
    if (!p_items(w, p, false, 0, pl, out)) return false;
    if (p >= w.size() || w[p] != ']') return false;
    ++p;
    return true;
}
static bool p_item(const std::string &w, size_t &p, bool has_self, size_t self, bool pl, Act &a) {
    if (p >= w.size()) return false;
    a = Act(); a.kind = w[p]; a.j = 0; a.ms = 0; a.oneshot = false;
    ++p;
    uint64_t n;
    switch (a.kind) {
        case 'c': if (!pl || !take_nat(w, p, n)) return false; a.j = n; return true;
        case 'z': return pl;
        case 'a': case 'v':
            if (!pl || !take_nat(w, p, n) || n < 1 || n > MAXMS) return false;
            a.ms = n; return p_nested(w, p, pl, a.sub);
        case 'n': if (pl) return false; return p_nested(w, p, pl, a.sub);
        case 'q': if (pl || !slot_mode || !take_nat(w, p, n) || n > MAXMS) return false; a.ms = n; return true;
        case 'e': case 'd': if (pl || !take_nat(w, p, n) || (slot_mode && n == 0)) return false; a.j = n; return true;
        case 'x':
            if (pl || !take_nat(w, p, n)) return false;
            a.j = n;
            if (slot_mode && n == 0) return false;
            return has_self && n != self;     // destroying oneself inside one's own callback is outside the property
        case 'i':
            if (pl || !take_nat(w, p, n) || (slot_mode && n == 0)) return false;
            a.j = n;
            if (p >= w.size() || w[p] != ':') return false;
            ++p;
            if (!take_nat(w, p, n) || n < 1 || n > MAXMS) return false;
            a.ms = n;
            if (p + 1 >= w.size() || w[p] != ':' || (w[p + 1] != 'o' && w[p + 1] != 'p')) return false;
            a.oneshot = (w[p + 1] == 'o'); p += 2;
            return true;
    }
    return false;
}
static bool p_items(const std::string &w, size_t &p, bool has_self, size_t self, bool pl, std::vector<Act> &out) {
    out.clear();
    if (p >= w.size() || w[p] == ']') return true;
    for (;;) {
        Act a;
        if (!p_item(w, p, has_self, self, pl, a)) return false;
        out.push_back(a);
        if (p < w.size() && w[p] == ',') {
            ++p;
            if (p >= w.size() || w[p] == ']') return false;
            continue;
        }
        return true;
    }
}
static bool parse_script(const std::string &w, std::vector<Act> &out, size_t self, bool pool_script) {
    out.clear();
    if (w == "-") return true;
    if (w.empty()) return false;
    size_t p = 0;
    return p_items(w, p, true, self, pool_script, out) && p == w.size();
}
static bool parse_act(const std::string &w, Act &a) {
    size_t p = 0;
    return p_item(w, p, false, 0, false, a) && p == w.size();
}

static void reset_all() {
    if (pool) pool->cleanup();
    for (auto *&t : objs) { delete t; t = nullptr; }
    objs.clear(); scripts.clear(); pool_kind.clear(); pool_alive.clear(); pool_tok.clear(); mode = 0; slot_mode = false;
    vt::enable(1000, 1700000000000LL);          // every case starts at the same clock readings (the models count from there)
    wall0 = vt::wall_ms();
}

// ---- one scripted step per loop pass, driven from inside the loop (as harness/loopdrv.h), plus `idle` passes ----
static std::function<int()> g_step;            // 0 = script finished, 1 = go on (re-post), 2 = go idle (the wait re-posts)
static bool idle_armed = false;
static bool idle_eintr = false;                // `idlex`: the wait is interrupted by a signal (-1 / EINTR) instead of timing out
static int64_t idle_adv = 0;
static long wait_calls = 0;                     // calls of the engine's wait (one per loop pass)
static long posted_at = -1;                     // value of wait_calls when the pending driver step was posted
static bool resume_pending = false;             // the driver step was run by the loop's exit drain: runLoop() is returning
static bool harness_exit = false;               // the harness itself ended the run (end of input, engine switch, fresh loop)
static bool have_outside = false;               // `xlo w`: call exitLoop(w) once runLoop() has returned
static int64_t outside_wait = 0;
static void post_step();
static void step_once() {
    // A function posted with runNext() runs in the NEXT pass, i.e. after another call of the engine's wait - unless the loop
    // has been stopped: then the exit drain (cleanupDeferredTasks) runs it right away.  That is how the harness notices
    // that stopLoop() was called, without looking at any private member.
    if (wait_calls == posted_at) { resume_pending = true; return; }
    int r = g_step();
    if (r == 0) { harness_exit = true; loop->exitLoop(); }
    else if (r == 1) post_step();
}
static void post_step() { posted_at = wait_calls; loop->runNext([] { step_once(); }, "verif-driver"); }
static void idle_wake() { idle_armed = false; vt::advance_ms(idle_adv); post_step(); posted_at = wait_calls - 1; }

extern "C" int epoll_wait(int epfd, struct epoll_event *evs, int maxevents, int timeout) {
    typedef int (*fn_t)(int, struct epoll_event *, int, int);
    static fn_t real = (fn_t)dlsym(RTLD_NEXT, "epoll_wait");
    ++wait_calls;
    if (idle_armed) {                           // the loop sleeps: report the timeout, let virtual time pass, nothing is ready
        std::cout << "W epoll " << timeout << "\n";
        idle_wake();
        if (idle_eintr) { errno = EINTR; return -1; }
        return 0;
    }
    return real(epfd, evs, maxevents, timeout);
}
extern "C" int select(int nfds, fd_set *r, fd_set *w, fd_set *e, struct timeval *tv) {
    typedef int (*fn_t)(int, fd_set *, fd_set *, fd_set *, struct timeval *);
    static fn_t real = (fn_t)dlsym(RTLD_NEXT, "select");
    ++wait_calls;
    if (idle_armed) {
        if (tv) std::cout << "W select " << (long long)tv->tv_sec << " " << (long long)tv->tv_usec << "\n";
        else std::cout << "W select null\n";
        if (r) FD_ZERO(r);
        if (w) FD_ZERO(w);
        if (e) FD_ZERO(e);
        idle_wake();
        if (idle_eintr) { errno = EINTR; return -1; }
        return 0;
    }
    return real(nfds, r, w, e, tv);
}

static bool digits_ok(const std::string &s) { return !s.empty() && s.size() <= 19; }

int main(int argc, char **argv) {
    LogOutput_Disable();
    vt::enable(1000, 1700000000000LL);
    wall0 = vt::wall_ms();
    std::string engine = argc > 1 ? argv[1] : "epoll", next_engine = engine;
    bool eof = false;
  while (!eof) {
    engine = next_engine;
    loop = Loop::New(engine);
    pool = new tbox::eventx::TimerPool(loop);
    bool pending_adv = false;
    std::string pending_line;       // wide ops: the report line is printed after the pass that follows the op (a negative or zero
                                    // interval is due at once: the callbacks of that pass come first, as for `adv`)
    g_step = [&]() -> int {
        pass_callbacks = 0;
        if (pending_adv) {
            std::cout << "P ret=1 en=" << bits() << "\n"; pending_adv = false;
            if (slot_mode) return 1;     // one empty pass before the next op: if the exit timer fired in this pass the loop leaves now
        }
        if (!pending_line.empty()) {
            std::cout << pending_line; pending_line.clear();
            if (slot_mode) return 1;     // wide case with the exit-timer slot: likewise one empty pass, so that `P loop-exit` comes before the next op
        }
        std::string line;
        if (!std::getline(std::cin, line)) { reset_all(); eof = true; return 0; }
        auto w = vh::words(line);
        if (w.empty()) return 1;
        if (w[0] == "case") {
            reset_all(); std::cout << line << "\n";
            if (loop_tainted) { loop_tainted = false; return 0; }    // a fresh loop object (the old one may hold a pending exit timer)
            return 1;
        }
        uint64_t n; int64_t sn;
        if (w[0] == "engine" && w.size() == 2 && (w[1] == "epoll" || w[1] == "select") && objs.empty()) {
            // only as the first op of a case: switch the back-end (leave this loop, start the other)
            std::cout << "P engine=" << w[1] << "\n";
            if (w[1] != engine) { next_engine = w[1]; return 0; }
            return 1;
        }
        bool is_pool_op = (w[0] == "pafter" || w[0] == "pevery" || w[0] == "pcancel" || w[0] == "pcleanup" || w[0] == "pat" || w[0] == "wall" || w[0] == "pnull" || w[0] == "pdestroy");
        bool is_plain_op = (w[0] == "new" || w[0] == "init" || w[0] == "en" || w[0] == "dis" || w[0] == "del" || w[0] == "xslot" || w[0] == "xl" || w[0] == "xlo");
        bool is_wide_op = (w[0] == "wxslot" || w[0] == "wxl" || w[0] == "wnew" || w[0] == "winit" || w[0] == "wen" || w[0] == "wdis" || w[0] == "wdel");
        if ((is_pool_op && mode != 0 && mode != 2) || (is_plain_op && mode != 0 && mode != 1) || (is_wide_op && mode != 0 && mode != 3)) { std::cout << "bad-op\n"; return 1; }
        if (w[0] == "xslot" && w.size() == 1 && objs.empty()) {
            // object 0 stands for the loop's own exit timer (CommonLoop::sp_exit_timer_); its state is not visible through the API
            mode = 1; slot_mode = true;
            objs.push_back(nullptr); scripts.emplace_back(); pool_kind.push_back('s'); pool_alive.push_back(false); pool_tok.emplace_back();
            std::cout << "P ret=1 en=" << bits() << "\n";
        } else if ((w[0] == "xl" || w[0] == "xlo") && w.size() == 2 && slot_mode && digits_ok(w[1]) && vh::to_u64(w[1], n) && n <= MAXMS) {
            mode = 1; loop_tainted = true;
            if (w[0] == "xl") loop->exitLoop(std::chrono::milliseconds((int64_t)n));
            else { have_outside = true; outside_wait = (int64_t)n; loop->exitLoop(); }
            std::cout << "P ret=1 en=" << bits() << "\n";
        } else if (w[0] == "pnull" && w.size() == 3 && (w[1] == "a" || w[1] == "e" || w[1] == "t") && digits_ok(w[2]) && vh::to_u64(w[2], n) && n >= 1 && n <= MAXMS) {
            mode = 2;
            tbox::eventx::TimerPool::Callback none;            // empty std::function
            tbox::eventx::TimerPool::TimerToken tok;
            if (w[1] == "a") tok = pool->doAfter(std::chrono::milliseconds((int64_t)n), std::move(none));
            else if (w[1] == "e") tok = pool->doEvery(std::chrono::milliseconds((int64_t)n), std::move(none));
            else tok = pool->doAt(std::chrono::system_clock::now() + std::chrono::milliseconds((int64_t)std::min<uint64_t>(n, 100000)), std::move(none));
            int r = tok.isNull() ? 0 : 1;
            int c = pool->cancel(tok) ? 1 : 0;
            std::cout << "P ret=" << r << " cancel=" << c << " en=" << bits() << "\n";
        } else if (w[0] == "pdestroy" && w.size() == 1) {
            mode = 2;
            delete pool;                                        // ~TimerPool with whatever is pending; nothing of it may ever fire
            pool = new tbox::eventx::TimerPool(loop);
            for (size_t i = 0; i < objs.size(); ++i) if (pool_kind[i]) { pool_alive[i] = false; pool_tok[i] = tbox::eventx::TimerPool::TimerToken(); }
            std::cout << "P ret=1 en=" << bits() << "\n";
        } else if (w[0] == "new" && w.size() == 2) {
            std::vector<Act> sc;
            if (!parse_script(w[1], sc, objs.size(), false)) { std::cout << "bad-op\n"; return 1; }
            mode = 1;
            make_plain(sc);
            std::cout << "P ret=1 en=" << bits() << "\n";
        } else if ((w[0] == "pafter" || w[0] == "pevery") && w.size() == 3 && digits_ok(w[1]) && vh::to_u64(w[1], n) && n >= 1 && n <= MAXMS) {
            std::vector<Act> sc;
            if (!parse_script(w[2], sc, 0, true)) { std::cout << "bad-op\n"; return 1; }
            mode = 2;
            bool ok = make_pool(w[0] == "pafter" ? 'a' : 'e', n, sc);
            std::cout << "P ret=" << (ok ? 1 : 0) << " en=" << bits() << "\n";
        } else if (w[0] == "pat" && w.size() == 3 && vh::to_u64(w[1], n) && n <= 100000000) {
            // doAt(time point = case's wall epoch + n ms); only time points 1..100000 ms ahead of the system clock
            std::vector<Act> sc;
            int64_t ahead = (int64_t)n - (vt::wall_ms() - wall0);
            if (!parse_script(w[2], sc, 0, true) || ahead < 1 || ahead > 100000) { std::cout << "bad-op\n"; return 1; }
            mode = 2;
            bool ok = make_pool('t', (uint64_t)(wall0 + (int64_t)n), sc);
            std::cout << "P ret=" << (ok ? 1 : 0) << " en=" << bits() << "\n";
        } else if (w[0] == "wall" && w.size() == 2 && vh::to_i64(w[1], sn) && sn >= -100000 && sn <= 100000) {
            mode = 2;
            vt::set_wall_ms(vt::wall_ms() + sn);          // the system clock jumps; the monotonic clock does not
            std::cout << "P wall\n";
        } else if (w[0] == "pcancel" && w.size() == 2 && vh::to_u64(w[1], n)) {
            int r = pool_cancel(n); mode = 2;
            std::cout << "P ret=" << r << " en=" << bits() << "\n";
        } else if (w[0] == "pcleanup" && w.size() == 1) {
            pool->cleanup(); mode = 2;
            for (size_t i = 0; i < objs.size(); ++i) if (pool_kind[i]) pool_alive[i] = false;
            std::cout << "P ret=1 en=" << bits() << "\n";
        } else if (w[0] == "adv" && w.size() == 2 && digits_ok(w[1]) && vh::to_u64(w[1], n) && n <= CLOCKMAX && (uint64_t)vt::mono_ms() + n <= CLOCKMAX) {
            vt::advance_ms((int64_t)n);
            pending_adv = true;                              // timers fire in the next pass; then we report
        } else if ((w[0] == "idle" || w[0] == "idlex") && w.size() == 2 && digits_ok(w[1]) && vh::to_u64(w[1], n) && n <= CLOCKMAX && (uint64_t)vt::mono_ms() + n <= CLOCKMAX) {
            idle_adv = (int64_t)n; idle_armed = true;        // no next-function pending: getWaitTime() is asked for real
            idle_eintr = (w[0] == "idlex");
            pending_adv = true;
            return 2;
        } else if (w[0] == "wxslot" && w.size() == 1 && objs.empty()) {
            // wide case (any signed millisecond count) with the loop's own exit timer as object 0
            mode = 3; slot_mode = true;
            objs.push_back(nullptr); scripts.emplace_back(); pool_kind.push_back('s'); pool_alive.push_back(false); pool_tok.emplace_back();
            pending_line = "P ret=1 en=" + bits() + "\n";
        } else if (w[0] == "wxl" && w.size() == 2 && slot_mode && mode == 3 && w[1].size() <= 20 && vh::to_i64(w[1], sn) && sn >= -(int64_t)MAXMS && sn <= (int64_t)MAXMS) {
            // CommonLoop::exitLoop(milliseconds(sn)) with ANY signed count; 0 stops the loop at once (reported at once), every other
            // count arms a one-shot exit timer (a negative one is due in the very next pass, or never once `now + count` wraps)
            loop_tainted = true;
            loop->exitLoop(std::chrono::milliseconds(sn));
            if (sn == 0) std::cout << "P ret=1 en=" << bits() << "\n";
            else pending_line = "P ret=1 en=" + bits() + "\n";
        } else if (w[0] == "wnew" && w.size() == 1) {
            mode = 3;
            make_plain(std::vector<Act>());
            pending_line = "P ret=1 en=" + bits() + "\n";
        } else if (w[0] == "winit" && w.size() == 4 && w[2].size() <= 20 && vh::to_i64(w[2], sn) && vh::to_u64(w[1], n) && n < objs.size()
                   && (w[3] == "o" || w[3] == "p") && sn >= -(int64_t)MAXMS && sn <= (int64_t)MAXMS && !(sn == 0 && w[3] == "p") && !(slot_mode && n == 0)) {
            Act a; a.kind = 'i'; a.j = n; a.ms = 0; a.sms = sn; a.wide = true; a.oneshot = (w[3] == "o");
            mode = 3;
            int r = apply(a) ? 1 : 0;
            pending_line = "P ret=" + std::to_string(r) + " en=" + bits() + "\n";
        } else if ((w[0] == "wen" || w[0] == "wdis" || w[0] == "wdel") && w.size() == 2 && vh::to_u64(w[1], n) && n < objs.size() && !(slot_mode && n == 0)) {
            Act a; a.kind = w[0] == "wen" ? 'e' : (w[0] == "wdis" ? 'd' : 'x'); a.j = n; a.ms = 0; a.oneshot = false;
            mode = 3;
            int r = apply(a) ? 1 : 0;
            pending_line = "P ret=" + std::to_string(r) + " en=" + bits() + "\n";
        } else if (w[0] == "init" && w.size() == 4) {
            Act a;
            if (!parse_act("i" + w[1] + ":" + w[2] + ":" + w[3], a) || a.j >= objs.size()) { std::cout << "bad-op\n"; return 1; }
            mode = 1;
            std::cout << "P ret=" << (apply(a) ? 1 : 0) << " en=" << bits() << "\n";
        } else if ((w[0] == "en" || w[0] == "dis" || w[0] == "del") && w.size() == 2 && vh::to_u64(w[1], n) && n < objs.size() && !(slot_mode && n == 0)) {
            Act a; a.kind = w[0] == "en" ? 'e' : (w[0] == "dis" ? 'd' : 'x'); a.j = n; a.ms = 0; a.oneshot = false;
            mode = 1;
            std::cout << "P ret=" << (apply(a) ? 1 : 0) << " en=" << bits() << "\n";
        } else {
            std::cout << "bad-op\n";
        }
        return 1;
    };
    harness_exit = false;
    for (;;) {
        resume_pending = false;
        post_step();
        loop->runLoop(Loop::Mode::kForever);
        if (harness_exit || !resume_pending) break;
        std::cout << "P loop-exit\n";                           // stopLoop() was called by the code under test: run the same loop again
        if (have_outside) {
            have_outside = false;
            loop->exitLoop(std::chrono::milliseconds(outside_wait));    // armed while the loop is not running
            std::cout << "P armed-outside en=" << bits() << "\n";   // (exitLoop(0) outside a run only clears a flag that runLoop() sets again)
        }
    }
    delete pool; pool = nullptr;
    delete loop;
  }
    return 0;
}
