"""C02 — timers never fire early, never skip, never fire after disable (event loop timer core)."""
import vlib
ID = 'C02'
LEAN_MODULES = ['TboxModel.C02.Props']
EXE = 'c02'
MODE = 'trace'
THEOREMS = ['Tbox.C02.C02_callbacks_legit', 'Tbox.C02.C02_never_early', 'Tbox.C02.C02_no_fire_after_disable',
            'Tbox.C02.C02_records_belong_to_enabled', 'Tbox.C02.C02_deadline_order', 'Tbox.C02.C02_oneshot_once',
            'Tbox.C02.C02_oneshot_disabled_in_callback', 'Tbox.C02.C02_no_skip', 'Tbox.C02.C02_reenable_fresh', 'Tbox.C02.C02_destroyed_never_fires',
            'Tbox.C02.exec_inv',
            # round 2: termination of a pass, exact catch-up count
            'Tbox.C02.C02_pos_intervals', 'Tbox.C02.C02_fire_decreases', 'Tbox.C02.C02_pass_terminates', 'Tbox.C02.C02_pass_progress',
            'Tbox.C02.C02_pass_terminates_counterexample', 'Tbox.C02.C02_pass_endless_counterexample', 'Tbox.C02.C02_catchup_count',
            # round 2: TimerPool layer
            'Tbox.C02.C02_pool_doAfter_once', 'Tbox.C02.C02_pool_doEvery_nth', 'Tbox.C02.C02_pool_all_timers', 'Tbox.C02.C02_pool_cancel',
            'Tbox.C02.C02_pool_cleanup', 'Tbox.C02.C02_pool_stale_token', 'Tbox.C02.C02_pool_callbacks_keep_inv', 'Tbox.C02.C02_pool_doAt',
            'Tbox.C02.fireR_fst']
SOURCES = vlib.EVENT_SOURCES + vlib.BASE_SOURCES + ['modules/eventx/timer_pool.cpp']
FLAVOUR = 'asan'
LIBS = ['-ldl']
BATCH = 200
TRUSTED = ['model lean/TboxModel/C02/Model.lean hand-written from common_loop_timer.cpp + timer_event_impl.cpp + eventx/timer_pool.cpp; the tie is '
           'the trace acceptor (every callback the real loop makes must be an enabled fire step of the model, passes must end with nothing due, '
           'all API results, the return values of the calls made inside callbacks and all isEnabled() vectors must agree); the acceptor runs the '
           'same functions the theorems are about (Pool.doAfter/doEvery/doAt/cancel/cleanup, fireR with theorem fireR_fst)',
           'std::push_heap/pop_heap/make_heap (libstdc++) keep the heap property; deleteTimer removes the zeroed record (all live deadlines > 0)',
           'virtual monotonic and system clocks by clock_gettime interposition in the harness (harness/vtime.h)',
           'TimerPool cabinet rendered by its contract as repaired (C08_cab_lookup, C08 package): token = serial of the TimerEvent, never reissued; '
           'the deferred deletes of TimerPool (run()/runNext([timer]{delete timer})) are modelled as immediate: between free(token) and the delete '
           'nothing can reach the disabled object',
           'exitLoop(wait) builds its exit timer through the same newTimerEvent/initialize(kOneshot)/enable path as any TimerEvent; it is not '
           'driven separately by the harness (its callback is internal, the order in which it fires is not observable)']
ASSUMPTIONS = ['interval >= 1 ms (the property quantifies over d >= 1; C02_pass_endless_counterexample: interval 0 persistent never leaves the pass)',
               'a timer object is not destroyed from inside its own callback (TimerPool defers that delete itself)',
               'uint64 millisecond arithmetic does not overflow; doAt only for time points 1..100000 ms ahead of the system clock '
               '(a non-positive difference reaches addTimer as a huge unsigned interval)',
               'TimerPool theorems doAfter_once/doEvery_nth/all_timers: timers are used only through the TimerPool (puSteps, decidable)']
RULE = ('scripts of timer objects (callback bodies = lists of init/enable/disable/destroy/newTimerEvent on any object, nested scripts for timers '
        'created inside callbacks) + API ops + clock advances with one loop pass each, on the real epoll/select loop under a virtual clock; '
        'TimerPool cases: doAfter/doEvery/doAt/cancel/cleanup from outside and inside callbacks (re-arming, self-cancel, cleanup inside a '
        'callback), system-clock jumps; non-trivial = at least one pass served >= 2 callbacks or a callback changed another armed timer or made '
        'a TimerPool call (driver tags tie/catchup/cb-removed-other/cb-armed-other/cb-doAfter/cb-doEvery/cb-cancel/cb-cleanup/cb-new); '
        'distinct = distinct op text')
HARNESS_ENV = None


def gen_case(rng, nops):
    nobj = rng.choice([1, 2, 3, 4, 6, 9, 12])
    ivs = rng.sample([1, 2, 3, 5, 7, 10, 20, 50], rng.choice([1, 2, 3]))   # few distinct intervals => many shared deadlines
    ops = ['engine ' + rng.choice(['epoll', 'select'])]

    def act(self, depth=0):
        k = rng.randrange(nobj + (2 if depth else 0))       # nested scripts also aim at objects created later
        r = rng.random()
        if r < 0.3: return 'e%d' % k
        if r < 0.6: return 'd%d' % k
        if r < 0.82: return 'i%d:%d:%s' % (k, rng.choice(ivs), rng.choice('op'))
        if r < 0.88 and depth < 2:                          # newTimerEvent inside a callback, with its own callback script
            return 'n[%s]' % ','.join(act(None, depth + 1) for _ in range(rng.choice([0, 1, 2])))
        return 'x%d' % k if (self is not None and k != self) else 'd%d' % k

    for j in range(nobj):
        n = rng.choice([0, 0, 1, 1, 2, 3])
        ops.append('new ' + (','.join(act(j) for _ in range(n)) or '-'))
    for j in range(nobj):
        if rng.random() < 0.9:
            ops.append('init %d %d %s' % (j, rng.choice(ivs), rng.choice('oppp')))
        if rng.random() < 0.8:
            ops.append('en %d' % j)
    for _ in range(nops):
        r = rng.random()
        j = rng.randrange(nobj)
        if r < 0.5:
            ops.append('adv %d' % rng.choice([0, 1, 1, 2, 3, 5, 7, 10, 19, 20, 21, 50, 137]))
        elif r < 0.65: ops.append('en %d' % j)
        elif r < 0.78: ops.append('dis %d' % j)
        elif r < 0.9: ops.append('init %d %d %s' % (j, rng.choice(ivs), rng.choice('op')))
        elif r < 0.95: ops.append('del %d' % j)
        else: ops.append('new ' + (act(99) if rng.random() < 0.7 else '-'))
    return ops


def pool_script(rng, ivs, ntok, depth=0, under_every=False):
    """callback of a pool timer: cancel any token (also its own / not yet issued ones), cleanup, create pool timers
    (re-arming pattern); never a doEvery below a doEvery (the number of timers would explode)"""
    items = []
    for _ in range(rng.choice([0, 0, 1, 1, 2, 3] if depth == 0 else [0, 1, 1, 2])):
        r = rng.random()
        if r < 0.45: items.append('c%d' % rng.randrange(ntok + 3))
        elif r < 0.53: items.append('z')
        elif r < 0.85 and depth < 3:
            items.append('a%d[%s]' % (rng.choice(ivs), pool_script(rng, ivs, ntok + 1, depth + 1, under_every)))
        elif depth < 2 and not under_every:
            items.append('v%d[%s]' % (rng.choice(ivs), pool_script(rng, ivs, ntok + 1, depth + 1, True)))
        else: items.append('c%d' % rng.randrange(ntok + 3))
    return ','.join(items) or ('-' if depth == 0 else '')


def gen_pool_case(rng, nops):
    """TimerPool case: doAfter/doEvery/doAt with callbacks that cancel pool timers (also themselves), call cleanup or
    create new pool timers; cancel, cleanup; jumps of the system clock"""
    ops = ['engine ' + rng.choice(['epoll', 'select'])]
    ivs = rng.sample([1, 2, 3, 5, 7, 10], rng.choice([1, 2, 3]))
    made = 0
    wall = 0
    for _ in range(nops):
        r = rng.random()
        if r < 0.30 or made == 0:
            under = rng.random() < 0.5
            ops.append('%s %d %s' % ('pevery' if under else 'pafter', rng.choice(ivs), pool_script(rng, ivs, made, 0, under))); made += 1
        elif r < 0.36:
            ops.append('pat %d %s' % (max(0, wall + rng.choice([-3, 0, 1, 2, 5, 9])), pool_script(rng, ivs, made))); made += 1
        elif r < 0.40:
            d = rng.choice([-50, -7, -1, 1, 4, 60]); ops.append('wall %d' % d); wall += d
        elif r < 0.8:
            d = rng.choice([0, 1, 1, 2, 3, 5, 7, 10, 21]); ops.append('adv %d' % d); wall += d
        elif r < 0.95: ops.append('pcancel %d' % rng.randrange(made + 2))
        else: ops.append('pcleanup')
    return ops


def gen_heap_case(rng):
    """many timers armed in shuffled deadline order, then removals from the middle of the heap
    (outside and inside callbacks), then single-millisecond steps: deadline order must survive"""
    n = rng.choice([7, 8, 9, 12, 16])
    ivs = list(range(1, n + 1)); rng.shuffle(ivs)
    ops = ['engine ' + rng.choice(['epoll', 'select'])]
    victim = rng.randrange(n)
    for j in range(n):
        ops.append('new ' + ('d%d' % victim if (j == ivs.index(1) and rng.random() < 0.5) else '-'))
    for j in range(n):
        ops.append('init %d %d %s' % (j, ivs[j], rng.choice('op')))
    for j in range(n):
        ops.append('en %d' % j)
    for _ in range(rng.choice([1, 1, 2, 3])):
        ops.append(rng.choice(['dis %d', 'del %d', 'dis %d']) % rng.randrange(n))
    for _ in range(n + 3):
        ops.append('adv 1')
    return ops


def gen(rng, tier):
    n = 400 if tier == 'quick' else 6000
    yield ['new -', 'init 0 0 o', 'en 5', 'frob', 'new x0', 'init 0 5 q', 'adv x', 'new n[x1]', 'new n[', 'new e0,', 'new c0', 'new n[]]']   # malformed stream
    yield ['new -', 'init 0 10 o', 'en 0', 'adv 9', 'adv 1', 'adv 100', 'en 0', 'adv 10']   # one-shot: not early, once, re-enable fresh
    yield ['new -', 'init 0 3 p', 'en 0', 'adv 10', 'adv 2', 'dis 0', 'adv 50']             # late wake-up: 3 catch-up firings
    yield ['engine select', 'new d1', 'new -', 'init 0 5 p', 'init 1 5 p', 'en 0', 'en 1', 'adv 5', 'adv 5']  # same deadline; one disables the other
    yield ['new x1', 'new -', 'new -', 'init 0 5 o', 'init 1 5 o', 'init 2 6 o', 'en 2', 'en 1', 'en 0', 'adv 6']  # destroy a due timer from a callback; heap middle removal
    yield ['new i0:4:p,e0', 'init 0 3 p', 'en 0', 'adv 3', 'adv 3', 'adv 1', 'init 0 2 o', 'adv 2', 'del 0', 'adv 9']  # re-initialise while enabled (API + own callback); destroy while enabled
    yield ['new n[e0,d0],i1:2:o,e1', 'init 0 3 p', 'en 0', 'adv 3', 'adv 2', 'adv 1', 'adv 3']   # a callback creates, initialises and arms a new TimerEvent
    # TimerPool (eventx/timer_pool.cpp): doAfter / doEvery / cancel (also from callbacks, also of itself) / cleanup
    yield ['pafter 5 -', 'pevery 3 c0', 'adv 2', 'adv 1', 'adv 2', 'pcancel 0', 'pcancel 1', 'pcancel 1', 'adv 10', 'pcancel 7']
    yield ['pevery 2 c0', 'pafter 4 c1', 'pafter 4 c2', 'adv 4', 'adv 4', 'pcleanup', 'pafter 1 -', 'adv 1', 'pcancel 3']
    yield ['pafter 3 a3[a3[]]', 'adv 3', 'adv 3', 'adv 2', 'adv 1', 'adv 5']              # re-arming pattern: doAfter inside a doAfter callback
    yield ['pafter 2 z,a2[]', 'pevery 1 -', 'adv 2', 'adv 1', 'adv 1', 'pcancel 0', 'pcancel 2']   # cleanup + doAfter inside a doAfter callback: the wrapper's stale token must not hit the new timer
    yield ['pevery 2 c0,c0', 'pafter 2 c1,c1,c0', 'adv 2', 'adv 2', 'pcancel 0', 'pcancel 1']     # self-cancel (returns 1, then 0), doEvery and doAfter
    yield ['pevery 3 a1[c0]', 'adv 3', 'adv 1', 'adv 3', 'adv 9']                                # a one-shot created by a periodic callback cancels its creator
    yield ['wall 50', 'pat 60 -', 'wall -30', 'adv 9', 'adv 1', 'pat 30 c0', 'pat 31 -', 'wall 1000', 'adv 1', 'pat 5 -', 'pat 200000 -']   # doAt: system clock differences, fired by the monotonic clock
    yield ['pevery 1 -', 'pafter 3 -', 'adv 10', 'pcleanup', 'adv 10', 'pevery 2 z', 'adv 2', 'adv 2']
    for _ in range(n):
        yield gen_case(rng, rng.choice([6, 12, 25, 50]))
    for _ in range(n // 4):
        yield gen_heap_case(rng)
    for _ in range(n // 3):
        yield gen_pool_case(rng, rng.choice([6, 12, 25]))
    yield ['pafter 5 -', 'new -']     # a case never mixes TimerPool and plain TimerEvent ops: bad-op on both sides
    yield ['new -', 'pevery 5 -', 'new c0', 'wall 3']
    yield ['pafter 0 -', 'pevery 5 e0', 'pafter 5 a0[]', 'pafter 5 a5', 'pafter 5 v5[x]', 'pat x -', 'wall +5', 'wall', 'pafter 3 z,', 'pafter 2 a2[],c0']


def nontrivial(ops, model_lines):
    tags = ' '.join(l for l in model_lines if l.startswith('B '))
    return 1 if any(t in tags for t in ('tie', 'catchup', 'cb-removed-other', 'cb-armed-other', 'passN', 'cb-doAfter', 'cb-doEvery',
                                        'cb-cancel', 'cb-cleanup', 'cb-new')) else None


LEVEL_TEXT = ('Lean 4 theorems over a model of the loop timer core (addTimer/deleteTimer/handleExpiredTimers + TimerEventImpl) and of TimerPool: an '
              'inductive invariant over every execution (any objects, callback scripts incl. timers created inside callbacks, clock advances, '
              'tie-breaks) yields never-early, no-skip, deadline order, one-shot-once, never-after-disable/destroy, fresh interval on re-enable; '
              'a measure argument yields termination of every pass and the exact catch-up count for intervals >= 1; a per-timer invariant yields '
              'doAfter exactly-once / doEvery n-th not before t+n*d / cancel / cleanup / stale tokens for the TimerPool; tied to the real loop on '
              'every run by a trace acceptor replaying the callbacks of the real epoll/select loop (virtual clocks) as model steps')
LEVEL_NOTE = ('trusted: Lean kernel, hand-written model + trace-acceptor tie (coverage bounded by the generator, measured), libstdc++ heap algorithms, '
              'clock interposition, the cabinet contract (proved in C08); sub-millisecond earliness and the select engine\'s tv_usec rounding are '
              'outside a millisecond clock; exitLoop(wait) exit timer not driven separately')
TECHNIQUE = 'Lean 4 invariant + measure proofs over all executions of a timer model + trace-acceptor correspondence with the real loop'
DESIGN_REF = 'DESIGN.md §6 C02'
