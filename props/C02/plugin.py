"""C02 — timers never fire early, never skip, never fire after disable (event loop timer core)."""
import vlib
ID = 'C02'
LEAN_MODULES = ['TboxModel.C02.Props']
EXE = 'c02'
MODE = 'trace'
THEOREMS = ['Tbox.C02.C02_callbacks_legit', 'Tbox.C02.C02_never_early', 'Tbox.C02.C02_no_fire_after_disable',
            'Tbox.C02.C02_records_belong_to_enabled', 'Tbox.C02.C02_deadline_order', 'Tbox.C02.C02_oneshot_once',
            'Tbox.C02.C02_oneshot_disabled_in_callback', 'Tbox.C02.C02_no_skip', 'Tbox.C02.C02_reenable_fresh', 'Tbox.C02.C02_destroyed_never_fires',
            'Tbox.C02.exec_inv',
            # round 2: termination of a pass, exact catch-up count
            'Tbox.C02.C02_pos_intervals', 'Tbox.C02.C02_fire_decreases', 'Tbox.C02.C02_pass_terminates', 'Tbox.C02.C02_pass_progress',
            'Tbox.C02.C02_pass_terminates_counterexample', 'Tbox.C02.C02_pass_endless_counterexample', 'Tbox.C02.C02_catchup_count',
            # round 2: TimerPool layer
            'Tbox.C02.C02_pool_doAfter_once', 'Tbox.C02.C02_pool_doEvery_nth', 'Tbox.C02.C02_pool_all_timers', 'Tbox.C02.C02_pool_cancel',
            'Tbox.C02.C02_pool_cleanup', 'Tbox.C02.C02_pool_stale_token', 'Tbox.C02.C02_pool_callbacks_keep_inv', 'Tbox.C02.C02_pool_doAt',
            'Tbox.C02.fireR_fst',
            # round 3: machine widths (Wide.lean), explicit heap through the standard's contract (Heap.lean), waiting time of both engines
            'Tbox.C02.Wide.C02_wide_deadline_exact', 'Tbox.C02.Wide.C02_wide_rearm_exact', 'Tbox.C02.Wide.C02_wide_kth_deadline',
            'Tbox.C02.Wide.C02_wide_wrap_counterexample', 'Tbox.C02.Wide.C02_wide_negative_interval', 'Tbox.C02.Wide.C02_wide_zero_interval',
            'Tbox.C02.Wide.C02_wide_due_full_width', 'Tbox.C02.Wide.C02_wide_dueNarrowed_counterexample', 'Tbox.C02.Wide.C02_wide_delay_exact',
            'Tbox.C02.Wide.C02_wide_delay_wraps_counterexample', 'Tbox.C02.Wide.C02_wait_bound', 'Tbox.C02.Wide.C02_wait_idle',
            'Tbox.C02.Wide.C02_wait_bound_epoll', 'Tbox.C02.Wide.C02_wait_epoll_unclamped_counterexample', 'Tbox.C02.Wide.C02_wait_bound_select',
            'Tbox.C02.Wide.C02_wait_select_short_counterexample', 'Tbox.C02.Wide.C02_wait_bound_engines', 'Tbox.C02.Wide.C02_wide_inv_init',
            'Tbox.C02.Wide.C02_wide_add_refines', 'Tbox.C02.Wide.C02_wide_delete_exact', 'Tbox.C02.Wide.C02_wide_delete_counterexample',
            'Tbox.C02.Wide.C02_wide_serve_refines', 'Tbox.C02.Wide.C02_wide_leave_refines',
            'Tbox.C02.Heap.IsHeap.front_le', 'Tbox.C02.Heap.add_spec', 'Tbox.C02.Heap.popFront_spec', 'Tbox.C02.Heap.repush_spec',
            'Tbox.C02.Heap.delete_spec',
            # round 4: whole-execution simulation wide machine -> abstract model; the loop's exit timer
            'Tbox.C02.C02_wide_exec_simulates', 'Tbox.C02.C02_wide_exec_same_trace', 'Tbox.C02.C02_wide_exec_callbacks_legit',
            'Tbox.C02.C02_wide_exec_deadlines_exact', 'Tbox.C02.C02_wide_exec_no_skip', 'Tbox.C02.Wide.sim_init', 'Tbox.C02.Wide.sim_step',
            'Tbox.C02.Wide.sim_exec', 'Tbox.C02.C02_exit_arms_fresh', 'Tbox.C02.C02_exit_zero_disarms', 'Tbox.C02.C02_exit_not_early',
            # round 5: only the last exitLoop counts; cleanup() then reuse; negative exit waits
            'Tbox.C02.C02_exit_last_call_wins', 'Tbox.C02.C02_exit_last_call_wins_history', 'Tbox.C02.C02_exit_zero_final',
            'Tbox.C02.exec_XT', 'Tbox.C02.C02_pool_cleanup_fresh', 'Tbox.C02.C02_pool_first_after_cleanup',
            'Tbox.C02.C02_pool_reuse_after_cleanup', 'Tbox.C02.C02_wide_exit_negative', 'Tbox.C02.C02_wide_exit_is_slot_script']
SOURCES = vlib.EVENT_SOURCES + vlib.BASE_SOURCES + ['modules/eventx/timer_pool.cpp']
FLAVOUR = 'asan'
LIBS = ['-ldl']
BATCH = 200
TRUSTED = ['model lean/TboxModel/C02/Model.lean hand-written from common_loop_timer.cpp + timer_event_impl.cpp + eventx/timer_pool.cpp; the tie is '
           'the trace acceptor (every callback the real loop makes must be an enabled fire step of the model, passes must end with nothing due, '
           'all API results, the return values of the calls made inside callbacks and all isEnabled() vectors must agree); the acceptor runs the '
           'same functions the theorems are about (Pool.doAfter/doEvery/doAt/cancel/cleanup, fireR with theorem fireR_fst)',
           'std::push_heap/pop_heap/make_heap (libstdc++) meet the contract the C++ standard gives them (structure Heap.HeapAlgs: result is a heap / '
           'a permutation / pop_heap puts the old front last); everything else about the heap - multiset preserved by add/pop/re-push/delete, front '
           'minimal, deleteTimer removes exactly the addressed record - is proved for every conforming triple (Heap.lean, WideProps.lean)',
           'Wide.lean / WideExec.lean (machine widths: UInt64 clock/deadline/interval, Int64 milliseconds::rep and getWaitTime, int delay_ms, epoll INT_MAX '
           'clamp, select timeval; TimerEventImpl, TimerPool and callback scripts on the explicit heap) is tied to the abstract model by the '
           'whole-execution simulation theorem C02_wide_exec_simulates (every execution of the wide machine, on any conforming heap library, is an '
           'execution of the abstract model by the same op list with the same callback log) AND on every run: the driver runs both layers in lock-step '
           'on every case and compares their states after every op (reject M: on disagreement); wide cases with a negative interval are outside the '
           'abstract model and run on the wide machine alone (sorted-vector instance of the heap contract, following the real heap among records of '
           'equal deadline: bringFront)',
           'the loop exit timer is modelled as ONE TimerEvent object (the slot) that exitLoop(w) re-initialises and enables (w = 0: disables; '
           'the C++ code deletes the old TimerEventImpl and creates a new one - same effect on heap and cabinet); its callback stopLoop() is internal: the '
           'harness observes that runLoop() returned (a runNext function that is run without another call of the engine wait is being run by the '
           'exit drain), prints P loop-exit and runs the same loop object again; among records of equal deadline the acceptor tries both orders of the '
           'silent exit callback',
           'virtual monotonic and system clocks by clock_gettime interposition in the harness (harness/vtime.h); the steady clock never reads negative; '
           'idle passes: epoll_wait/select interposed in the harness report the timeout they are given, advance the virtual clock and return 0',
           'TimerPool cabinet rendered by its contract as repaired (C08_cab_lookup, C08 package): token = serial of the TimerEvent, never reissued; '
           'the deferred deletes of TimerPool (run()/runNext([timer]{delete timer})) are modelled as immediate: between free(token) and the delete '
           'nothing can reach the disabled object',
           'negative exitLoop waits are driven in wide cases (wxslot / wxl <signed w>: the slot on the width-faithful machine alone, Wide.xExitLoop; '
           'the silent exit callback is served when its record is the heap front and due and the next callback line is not on a record of the same '
           'deadline); exitLoop from a thread other than the loop thread is not driven']
ASSUMPTIONS = ['interval >= 1 ms for the property theorems (the property quantifies over d >= 1; C02_pass_endless_counterexample: interval 0 persistent never '
               'leaves the pass; C02_wide_negative_interval / C02_wide_zero_interval state what the code does with d <= 0, tied by wide cases)',
               'a timer object is not destroyed from inside its own callback (TimerPool defers that delete itself)',
               'clock readings are below 2^63 ms (the steady clock is an int64 count of nanoseconds: < 2^44 ms) and intervals are non-negative longs: '
               'then no 64-bit deadline wraps (C02_wide_deadline_exact, C02_wide_rearm_exact; C02_wide_wrap_counterexample beyond); doAt in the '
               'abstract model only for time points 1..100000 ms ahead of the system clock (a time point in the past is doAfter(negative): wide cases)',
               'every live deadline is > 0 (proved from now >= 1 and non-negative intervals: WInv; C02_wide_delete_counterexample for a live deadline 0)',
               'TimerPool theorems doAfter_once/doEvery_nth/all_timers: timers are used only through the TimerPool (puSteps, decidable)',
               'simulation theorems: every millisecond count of the op list is a non-negative long (< 2^63, bndSteps, decidable); the wide machine refuses '
               'to advance the clock to 2^63 ms; TimerPool doAfter/doEvery/doAt refuse an empty std::function at the call (tied: pnull), the pool '
               'destructor is cleanup() (tied: pdestroy, under ASan)']
RULE = ('scripts of timer objects (callback bodies = lists of init/enable/disable/destroy/newTimerEvent on any object, nested scripts for timers '
        'created inside callbacks) + API ops + clock advances with one loop pass each, on the real epoll/select loop under a virtual clock; '
        'TimerPool cases: doAfter/doEvery/doAt/cancel/cleanup from outside and inside callbacks (re-arming, self-cancel, cleanup inside a '
        'callback), system-clock jumps; non-trivial = at least one pass served >= 2 callbacks or a callback changed another armed timer or made '
        'a TimerPool call (driver tags tie/catchup/cb-removed-other/cb-armed-other/cb-doAfter/cb-doEvery/cb-cancel/cb-cleanup/cb-new); '
        'round 3: boundary family (intervals and remaining times 2^31-2..2^31+2, 2^32-2..2^32+2, 25/30/49/50 days, 2^62 ms; the long timer becomes the '
        'heap front; passes with only it pending woken by a next-function or out of the engine wait; clock jumps to R ms / 1 ms before / onto the '
        'deadline; persistent ones fire twice), idle passes (the timeout handed to epoll_wait / select is observed: never for ever, never past the '
        'deadline, valid timeval at property level, exact value at model level), wide cases (any signed interval incl. negative and zero); also '
        'non-trivial: an idle pass with a timer pending, a callback in a wide case, an interval in a boundary class; distinct = distinct op text; '
        'round 4: exit-timer cases (exitLoop(w) from a deferred function / from outside the run / from inside timer callbacks, twice with different '
        'waits, waits 0, 1, equal to and one off the other intervals, 2^31+-2, 2^32+-2, 25..50 days; the loop leaves runLoop exactly in the pass that '
        'reaches the deadline and is run again), state-derived follow-ups (same interval and mode again while enabled, enable twice, re-enable at the '
        'cached deadline, doEvery with interval = elapsed time, cancel of the next / the just-freed token, removal of the due heap front from a '
        'callback), TimerPool with empty callbacks and destruction with pending timers; also non-trivial: the loop left runLoop, a pool destroyed '
        'with pending timers; both model layers run in lock-step on every case (tag lockstep); round 5: last-call-wins histories (3..6 exitLoop '
        'calls with waits derived from each other and from the deadlines already pending, from deferred functions and callbacks, the loop woken '
        'after ALL of the deadlines), wide exit cases (exitLoop with negative counts: |w| <= now exits in the next pass, |w| > now never; 0; '
        'positive boundary counts; mixed with negative / zero / boundary user intervals), cleanup()-then-reuse families (cleanup from outside and '
        'inside callbacks with pending / due / fired timers, stale cancels, first doAfter / doEvery after it alone in the heap); also non-trivial: '
        'an exit timer fired in a wide case')
HARNESS_ENV = None


def gen_case(rng, nops):
    nobj = rng.choice([1, 2, 3, 4, 6, 9, 12])
    ivs = rng.sample([1, 2, 3, 5, 7, 10, 20, 50], rng.choice([1, 2, 3]))   # few distinct intervals => many shared deadlines
    if rng.random() < 0.2: ivs.append(rng.choice(BOUNDS))                  # a long timer that only ever sits in the heap (front, middle, removed)
    ops = ['engine ' + rng.choice(['epoll', 'select'])]

    def act(self, depth=0):
        k = rng.randrange(nobj + (2 if depth else 0))       # nested scripts also aim at objects created later
        r = rng.random()
        if r < 0.3: return 'e%d' % k
        if r < 0.6: return 'd%d' % k
        if r < 0.82: return 'i%d:%d:%s' % (k, rng.choice(ivs), rng.choice('op'))
        if r < 0.88 and depth < 2:                          # newTimerEvent inside a callback, with its own callback script
            return 'n[%s]' % ','.join(act(None, depth + 1) for _ in range(rng.choice([0, 1, 2])))
        return 'x%d' % k if (self is not None and k != self) else 'd%d' % k

    for j in range(nobj):
        n = rng.choice([0, 0, 1, 1, 2, 3])
        ops.append('new ' + (','.join(act(j) for _ in range(n)) or '-'))
    for j in range(nobj):
        if rng.random() < 0.9:
            ops.append('init %d %d %s' % (j, rng.choice(ivs), rng.choice('oppp')))
        if rng.random() < 0.8:
            ops.append('en %d' % j)
    for _ in range(nops):
        r = rng.random()
        j = rng.randrange(nobj)
        if r < 0.08:
            ops.append('%s %d' % (rng.choice(['idle', 'idle', 'idlex']), rng.choice([0, 1, 2, 3, 5, 7, 20])))
        elif r < 0.5:
            ops.append('adv %d' % rng.choice([0, 1, 1, 2, 3, 5, 7, 10, 19, 20, 21, 50, 137]))
        elif r < 0.65: ops.append('en %d' % j)
        elif r < 0.78: ops.append('dis %d' % j)
        elif r < 0.9: ops.append('init %d %d %s' % (j, rng.choice(ivs), rng.choice('op')))
        elif r < 0.95: ops.append('del %d' % j)
        else: ops.append('new ' + (act(99) if rng.random() < 0.7 else '-'))
    return ops


def pool_script(rng, ivs, ntok, depth=0, under_every=False):
    """callback of a pool timer: cancel any token (also its own / not yet issued ones), cleanup, create pool timers
    (re-arming pattern); never a doEvery below a doEvery (the number of timers would explode)"""
    items = []
    for _ in range(rng.choice([0, 0, 1, 1, 2, 3] if depth == 0 else [0, 1, 1, 2])):
        r = rng.random()
        if r < 0.45: items.append('c%d' % rng.randrange(ntok + 3))
        elif r < 0.53: items.append('z')
        elif r < 0.85 and depth < 3:
            items.append('a%d[%s]' % (rng.choice(ivs), pool_script(rng, ivs, ntok + 1, depth + 1, under_every)))
        elif depth < 2 and not under_every:
            items.append('v%d[%s]' % (rng.choice(ivs), pool_script(rng, ivs, ntok + 1, depth + 1, True)))
        else: items.append('c%d' % rng.randrange(ntok + 3))
    return ','.join(items) or ('-' if depth == 0 else '')


def gen_pool_case(rng, nops):
    """TimerPool case: doAfter/doEvery/doAt with callbacks that cancel pool timers (also themselves), call cleanup or
    create new pool timers; cancel, cleanup; jumps of the system clock"""
    ops = ['engine ' + rng.choice(['epoll', 'select'])]
    ivs = rng.sample([1, 2, 3, 5, 7, 10], rng.choice([1, 2, 3]))
    if rng.random() < 0.2: ivs.append(rng.choice(BOUNDS))
    made = 0
    wall = 0
    for _ in range(nops):
        r = rng.random()
        if r < 0.30 or made == 0:
            under = rng.random() < 0.5
            ops.append('%s %d %s' % ('pevery' if under else 'pafter', rng.choice(ivs), pool_script(rng, ivs, made, 0, under))); made += 1
        elif r < 0.36:
            ops.append('pat %d %s' % (max(0, wall + rng.choice([-3, 0, 1, 2, 5, 9])), pool_script(rng, ivs, made))); made += 1
        elif r < 0.40:
            d = rng.choice([-50, -7, -1, 1, 4, 60]); ops.append('wall %d' % d); wall += d
        elif r < 0.8:
            d = rng.choice([0, 1, 1, 2, 3, 5, 7, 10, 21]); ops.append('%s %d' % ('idle' if rng.random() < 0.15 else 'adv', d)); wall += d
        elif r < 0.93: ops.append('pcancel %d' % rng.randrange(made + 2))
        elif r < 0.96: ops.append('pnull %s %d' % (rng.choice('aet'), rng.choice(ivs)))      # empty std::function: refused, nothing created
        elif r < 0.98: ops.append('pdestroy')                                               # ~TimerPool with pending timers, fresh pool
        else: ops.append('pcleanup')
    return ops


def gen_heap_case(rng):
    """many timers armed in shuffled deadline order, then removals from the middle of the heap
    (outside and inside callbacks), then single-millisecond steps: deadline order must survive"""
    n = rng.choice([7, 8, 9, 12, 16])
    ivs = list(range(1, n + 1)); rng.shuffle(ivs)
    ops = ['engine ' + rng.choice(['epoll', 'select'])]
    victim = rng.randrange(n)
    for j in range(n):
        ops.append('new ' + ('d%d' % victim if (j == ivs.index(1) and rng.random() < 0.5) else '-'))
    for j in range(n):
        ops.append('init %d %d %s' % (j, ivs[j], rng.choice('op')))
    for j in range(n):
        ops.append('en %d' % j)
    for _ in range(rng.choice([1, 1, 2, 3])):
        ops.append(rng.choice(['dis %d', 'del %d', 'dis %d']) % rng.randrange(n))
    for _ in range(n + 3):
        ops.append('adv 1')
    return ops


DAY = 86400000
B31, B32, B62 = 2 ** 31, 2 ** 32, 2 ** 62
BOUNDS = [B31 - 2, B31 - 1, B31, B31 + 1, B31 + 2, B32 - 2, B32 - 1, B32, B32 + 1, B32 + 2, 25 * DAY, 30 * DAY, 49 * DAY, 50 * DAY, B62]
REMS = [1, 2, 1000, B31 - 2, B31 - 1, B31, B31 + 1, B31 + 2, B32 - 2, B32 - 1, B32, B32 + 1, B32 + 2]


def gen_boundary_case(rng, kind, L=None):
    """a long timer (interval around 2^31 / 2^32 ms, 25..50 days, 2^62 ms) next to two short one-shots: the short ones fire and
    the long one becomes the heap FRONT; passes with only the long timer pending, woken by a next-function (adv 0) or out of the
    engine's wait (idle: the timeout handed to epoll_wait/select is observed); clock jumps to a remaining time around 2^31/2^32,
    then to one ms before the deadline, then onto it; a persistent one fires twice.  kind: plain | pool | wide"""
    L = L or rng.choice(BOUNDS)
    pers = rng.random() < 0.5
    ops = ['engine ' + rng.choice(['epoll', 'select'])]
    jump = lambda d: '%s %d' % (rng.choice(['adv', 'idle', 'idle', 'idlex']), d)
    if kind == 'pool':
        arm = ['%s %d -' % ('pevery' if pers else 'pafter', L), 'pafter 5 -', 'pafter 9 -']
        rng.shuffle(arm); ops += arm
        long_id = arm.index([a for a in arm if a.split()[1] == str(L)][0])
        stop = 'pcancel %d' % long_id
    else:
        w = 'w' if kind == 'wide' else ''
        ops += ['wnew' if kind == 'wide' else 'new -'] * 3
        ops += ['%sinit 0 %d %s' % (w, L, 'p' if pers else 'o'), '%sinit 1 5 o' % w, '%sinit 2 9 o' % w]
        order = [0, 1, 2]; rng.shuffle(order)
        ops += ['%sen %d' % (w, j) for j in order]
        stop = '%s %d' % (rng.choice([w + 'dis', w + 'del']), 0)
    ops += ['adv 5', 'idle 4', 'adv 0', 'idle 0', 'idle 7']          # elapsed 16: both short timers gone, the long one is the front
    el = 16
    if L > 6 * 10 ** 12:                                            # 2^62: the clock (int64 ns) cannot get there
        ops += ['idle 1000000', 'adv %d' % (6 * 10 ** 12), 'adv 0', 'idle 0', stop, 'idle 3']
        return ops
    R = rng.choice([r for r in REMS if r < L - el])
    ops += [jump(L - el - R), 'idle 0', 'adv 0']                     # remaining time R
    if R > 1: ops += [jump(R - 1), 'adv 0']                          # one ms before the deadline
    ops += [jump(1), 'adv 0']                                        # the deadline: fires exactly now
    if pers:
        ops += [jump(L - 1), 'idle 0', jump(1), jump(3)]             # second period
    else:
        if kind == 'plain': ops += ['en 0', 'adv 0', 'idle 1']       # re-enable: a fresh full interval
        if kind == 'wide': ops += ['wen 0', 'adv 0', 'idle 1']
    ops += [stop, 'idle 2']
    return ops


def gen_wide_case(rng):
    """wide case: flat TimerEvents with ANY signed millisecond count - negative (deadline in the past, or beyond 2^63 when |d| > now),
    zero, boundary values - next to ordinary ones; passes, idle passes, disable/destroy"""
    ops = ['engine ' + rng.choice(['epoll', 'select'])]
    n = rng.choice([2, 3, 4])
    ops += ['wnew'] * n
    now = 1000
    for j in range(n):
        r = rng.random()
        if r < 0.35: d, m = rng.choice([-1, -300, -999, -1000, -1001, -5000, -B31, -B32 - 1, -B62]), 'o'
        elif r < 0.45: d, m = 0, 'o'
        elif r < 0.55: d, m = -rng.choice([400, 501, 1000, 2500]), 'p'       # negative persistent: now/|d| callbacks in one pass, then silent
        elif r < 0.75: d, m = rng.choice(BOUNDS), rng.choice('op')
        else: d, m = rng.choice([1, 3, 7, 20]), 'o'
        ops.append('winit %d %d %s' % (j, d, m))
    for _ in range(rng.choice([4, 8, 14])):
        r = rng.random(); j = rng.randrange(n)
        if r < 0.3: ops.append('wen %d' % j)
        elif r < 0.4: ops.append('wdis %d' % j)
        elif r < 0.45: ops.append('wdel %d' % j)
        elif r < 0.55: ops.append('winit %d %d %s' % (j, rng.choice([-300, 0, 5, B31 + 1, B32]), 'o'))
        elif r < 0.8:
            d = rng.choice([0, 1, 3, 7, 20]); now += d; ops.append('adv %d' % d)
        else:
            d = rng.choice([0, 1, 5]); now += d; ops.append('idle %d' % d)
    return ops


def gen_exit_case(rng):
    """the loop's own exit timer (CommonLoop::exitLoop(wait)): object 0 is the slot; exitLoop from a deferred function (`xl`), from
    outside the run (`xlo`), from inside timer callbacks (`q<w>`), twice with different waits, with waits equal to / one off the
    intervals of the other timers (ties in the heap: the acceptor tries both orders), the loop re-run after every exit"""
    ops = ['engine ' + rng.choice(['epoll', 'select']), 'xslot']
    n = rng.choice([1, 2, 3, 4])
    ivs = rng.sample([1, 2, 3, 5, 7, 10], rng.choice([1, 2, 3]))
    ws = [0, 0, 1, 2] + ivs + [v + 1 for v in ivs] + [2 * v for v in ivs]

    def act(self):
        k = 1 + rng.randrange(n)
        r = rng.random()
        if r < 0.35: return 'q%d' % rng.choice(ws)
        if r < 0.55: return 'e%d' % k
        if r < 0.75: return 'd%d' % k
        if r < 0.9: return 'i%d:%d:%s' % (k, rng.choice(ivs), rng.choice('op'))
        return 'x%d' % k if k != self else 'd%d' % k

    for j in range(1, n + 1):
        ops.append('new ' + (','.join(act(j) for _ in range(rng.choice([0, 0, 1, 1, 2]))) or '-'))
    for j in range(1, n + 1):
        ops.append('init %d %d %s' % (j, rng.choice(ivs), rng.choice('oppp')))
        if rng.random() < 0.8: ops.append('en %d' % j)
    for _ in range(rng.choice([6, 12, 20])):
        r = rng.random()
        j = 1 + rng.randrange(n)
        if r < 0.25: ops.append('xl %d' % rng.choice(ws))
        elif r < 0.30: ops.append('xlo %d' % rng.choice(ws))
        elif r < 0.70: ops.append('%s %d' % (rng.choice(['adv', 'adv', 'adv', 'idle', 'idlex']), rng.choice([0, 1, 1, 2, 3, 5, 7, 10, 21])))
        elif r < 0.80: ops.append('en %d' % j)
        elif r < 0.88: ops.append('dis %d' % j)
        elif r < 0.96: ops.append('init %d %d %s' % (j, rng.choice(ivs), rng.choice('op')))
        else: ops.append('del %d' % j)
    return ops


def gen_exit_boundary(rng, L):
    """exitLoop(L) for L around 2^31 / 2^32 ms (and 25..50 days): the loop must not leave one ms before the deadline, must leave on it;
    the exit timer is the only pending record (its wait is clamped / converted for the engine: W lines); replaced by a second call"""
    jump = lambda d: '%s %d' % (rng.choice(['adv', 'idle', 'idlex']), d)
    ops = ['engine ' + rng.choice(['epoll', 'select']), 'xslot', 'new -', 'init 1 5 o', 'en 1', 'xl %d' % L, 'adv 5', 'idle 0']
    if rng.random() < 0.5:
        ops += [jump(L - 6), 'adv 0', jump(1), 'adv 3']            # leaves exactly at L
    else:
        d = rng.choice([1, 1000, B31 - 1, B31, B31 + 1])
        d = min(d, L - 6)
        ops += [jump(d), 'xl %d' % L, jump(L - 1), 'idle 0', jump(1), 'adv 3']     # replaced: the first one (due d ms earlier) must not stop the loop
    ops += ['xl 1', 'adv 1', 'xl 0', 'adv 1']
    return ops


def gen_last_wins_case(rng):
    """round 5: "only the last exitLoop counts" - 3..6 exitLoop calls (deferred function / callback / outside the run) whose waits are derived
    from each other and from the deadlines already pending (same deadline as the pending exit timer, one before, one after, the user
    timer's next deadline), then the loop is woken AFTER all of these deadlines (one late pass) or exactly on the last one"""
    eng = 'engine ' + rng.choice(['epoll', 'select'])
    d = rng.choice([3, 5, 7])
    ops = [eng, 'xslot', 'new -', 'init 1 %d p' % d, 'en 1']
    now = 0; pend = None; maxdl = 0
    k = rng.choice([3, 4, 5, 6])
    cb = []
    for i in range(k):
        cands = [1, 2, d, d + 1, 2 * d, 3 * d + 1]
        if pend is not None and pend > now: cands += [pend - now, max(1, pend - now - 1), pend - now + 1]   # the cached deadline itself, one off
        w = rng.choice(cands)
        if i == k - 1 and rng.random() < 0.25: w = 0                 # a last exitLoop(0): stops at once, nothing pending may stop it again
        r = rng.random()
        if r < 0.7: ops.append('xl %d' % w)
        elif r < 0.85 and w > 0: ops.append('xlo %d' % w)
        else: ops.append('xl %d' % w)
        pend = now + w if w else None; maxdl = max(maxdl, now + w)
        if w == 0: pend = None
        if i < k - 1:
            a = rng.choice([0, 0, 1, 2]); now += a; ops.append('adv %d' % a)
            if pend is not None and now >= pend: pend = None
    if rng.random() < 0.5:
        ops += ["adv %d" % max(0, maxdl - now + rng.choice([0, 1, d])), "adv 1", "adv %d" % d]     # one late pass over every deadline
    elif pend is not None:
        ops += ['adv %d' % max(0, pend - now - 1), 'idle 0', 'adv 1', 'adv %d' % (maxdl + d)]   # one ms before the last deadline, then on it
    else:
        ops += ['adv %d' % (maxdl + d), 'adv 1']
    return ops


def gen_wide_exit_case(rng):
    """round 5 (goal 3, lessons a/g): exitLoop(milliseconds(w)) with ANY signed count through the real code - negative counts with |w| below /
    equal to / above the clock reading (1000 ms at case start), 0, 1, boundary counts - mixed with user timers of negative / zero / boundary
    intervals; the loop is re-run after every exit"""
    eng = 'engine ' + rng.choice(['epoll', 'select'])
    ops = [eng, 'wxslot', 'wnew', 'wnew']
    now = 1000
    ops += ['winit 1 %d %s' % (rng.choice([3, 5, 50, B31 + 1]), rng.choice('op')), 'wen 1']
    for _ in range(rng.choice([3, 5, 8])):
        r = rng.random()
        if r < 0.5:
            w = rng.choice([-1, -2, -5, -300, -(now - 1), -now, -(now + 1), -(now + 7), -5000, -B31, -B31 - 1, -B32, -B62, 0, 1, 2, 5, B31, B32 + 1])
            ops.append('wxl %d' % w)
        elif r < 0.6: ops.append('winit 2 %d o' % rng.choice([-3, 0, 4, -2000])); ops.append('wen 2')
        elif r < 0.7: ops.append(rng.choice(['wdis 1', 'wen 1', 'wdis 2']))
        elif r < 0.9:
            d = rng.choice([0, 1, 2, 5, 50]); now += d; ops.append('adv %d' % d)
        else:
            d = rng.choice([0, 1, 5]); now += d; ops.append('idle %d' % d)
    ops += ['wxl %d' % rng.choice([-1, 3, 0]), 'adv 3', 'adv 1']
    return ops


def gen_cleanup_reuse_case(rng):
    """round 5 (goal 2): cleanup() with pending / due / already fired timers, from outside and from inside a callback, then the pool is reused:
    the first doAfter / doEvery is alone in the heap (idle pass: the wait is exactly its interval), stale tokens of before stay dead"""
    eng = 'engine ' + rng.choice(['epoll', 'select'])
    d = rng.choice([2, 3, 5, 7]); e = rng.choice([1, 2, 4, 9, B31 + 1])
    n0 = rng.choice([1, 2, 3, 5])
    ops = [eng]
    for i in range(n0):
        ops.append('%s %d %s' % (rng.choice(['pafter', 'pevery']), rng.choice([1, d, d + 1, 2 * d]), rng.choice(['-', '-', 'c%d' % rng.randrange(n0), 'z', 'z,a%d[]' % d, 'a%d[z]' % d])))
    ops.append('adv %d' % rng.choice([0, 1, d - 1, d, 2 * d]))
    ops.append('pcleanup')
    if rng.random() < 0.5: ops.append('idle 0')                                  # empty heap: the loop may sleep for ever
    ops += ['pcancel %d' % rng.randrange(n0 + 2)]
    ops.append('%s %d -' % (rng.choice(['pafter', 'pevery']), e))
    ops.append('idle 0')                                                         # the wait is bounded by the new timer only
    ops += ['pcancel %d' % rng.randrange(n0 + 2), 'adv %d' % (e - 1) if e > 1 else 'adv 0', 'adv 1', 'adv %d' % min(e, 20)]
    ops += ['pafter %d z,a%d[],v%d[]' % (d, d, d), 'adv %d' % d, 'pcancel %d' % (n0 + 8), 'adv %d' % d, 'pcleanup', 'pcleanup', 'adv %d' % (2 * d)]
    return ops


def gen_state_case(rng):
    """lesson (g): follow-up inputs equal to / derived from the state the objects cache - the same interval and mode again while
    enabled, enable() twice, re-enable exactly at the cached deadline, doEvery with an interval equal to the time already elapsed,
    cancel of the token to be issued next / of the one just freed, removal of the heap front while it is due in this very pass"""
    d = rng.choice([2, 3, 5, 7, 10])
    k = rng.randrange(1, d)
    m = rng.choice('op')
    eng = 'engine ' + rng.choice(['epoll', 'select'])
    kind = rng.randrange(8)
    if kind == 0:      # re-initialize with the SAME interval and mode while enabled: disables; nothing at the old deadline; a fresh interval afterwards
        return [eng, 'new -', 'init 0 %d %s' % (d, m), 'en 0', 'adv %d' % k, 'init 0 %d %s' % (d, m), 'adv %d' % (d - k), 'adv %d' % d,
                'en 0', 'adv %d' % (d - 1), 'adv 1', 'init 0 %d %s' % (d, m), 'init 0 %d %s' % (d, m), 'en 0', 'en 0', 'adv %d' % d]
    if kind == 1:      # enable() twice: the second call must not re-arm (fires at the ORIGINAL deadline), also from the timer's own callback
        return [eng, 'new e0', 'init 0 %d %s' % (d, m), 'en 0', 'adv %d' % k, 'en 0', 'adv %d' % (d - k - 1) if d - k - 1 else 'adv 0', 'adv 1',
                'adv %d' % (d - 1), 'adv 1', 'en 0', 'adv %d' % d]
    if kind == 2:      # re-enable right at the cached deadline
        return [eng, 'new -', 'init 0 %d %s' % (d, m), 'en 0', 'adv %d' % k, 'dis 0', 'adv %d' % (d - k), 'en 0', 'adv 0', 'adv %d' % (d - 1), 'adv 1',
                'dis 0', 'en 0', 'adv %d' % d]
    if kind == 3:      # TimerPool: doEvery / doAfter with an interval equal to the time already elapsed, re-created at the old next deadline
        return [eng, 'adv %d' % d, 'pevery %d -' % d, 'pafter %d -' % d, 'adv %d' % (d - 1), 'adv 1', 'pcancel 0', 'adv %d' % d, 'pevery %d -' % d,
                'adv %d' % (d - 1), 'adv 1', 'pcleanup', 'pevery %d -' % d, 'adv %d' % d]
    if kind == 4:      # cancel of the token to be issued NEXT, of the one just freed by its own firing, of a cancelled one; then reuse
        return [eng, 'pafter %d -' % d, 'pcancel 1', 'pafter %d c0,c1,c2' % d, 'pcancel 2', 'adv %d' % d, 'pcancel 0', 'pcancel 1',
                'pafter %d c3' % k, 'pcancel 4', 'adv %d' % k, 'pcancel 3', 'pcleanup', 'pcancel 3', 'pafter 1 -', 'adv 1']
    if kind == 5:      # the heap FRONT is removed while due in this very pass (disable / destroy / re-init from the callback that fires before it)
        a = rng.choice(['d1,d2', 'x1,d2', 'i1:%d:p,d2' % d, 'd2,x1', 'd1,e1', 'i1:%d:o,e1' % d])
        late = rng.choice([0, 1, d, 3 * d])
        return [eng, 'new ' + a, 'new -', 'new d0', 'init 0 %d %s' % (d, m), 'init 1 %d p' % d, 'init 2 %d p' % d] +                rng.sample(['en 0', 'en 1', 'en 2'], 3) + ['adv %d' % (d + late), 'adv %d' % d, 'adv 1']
    if kind == 6:      # the exit timer is the heap front and due in the pass in which a callback replaces / cancels it
        w = rng.choice([d, d + 1])
        return [eng, 'xslot', 'new q%d' % rng.choice([0, 1, d]), 'new -', 'init 1 %d %s' % (d, m), 'init 2 %d o' % d, 'xl %d' % w, 'en 2', 'en 1',
                'adv %d' % (d + rng.choice([0, 1])), 'adv 1', 'adv %d' % d, 'adv 1']
    # TimerPool: empty callbacks refused, destruction with pending timers, reuse after cleanup
    return [eng, 'pnull a %d' % d, 'pnull e %d' % d, 'pnull t %d' % d, 'pevery %d -' % d, 'pafter %d -' % (d + 1), 'pafter %d a1[]' % k, 'adv %d' % k,
            'pdestroy', 'adv %d' % (2 * d), 'pcancel 0', 'pcancel 1', 'pafter %d -' % d, 'pcleanup', 'pevery %d -' % d, 'adv %d' % d, 'pdestroy', 'adv %d' % d,
            'pnull e 1', 'adv 3']


def gen(rng, tier):
    n = 400 if tier == 'quick' else 6000
    yield ['new -', 'init 0 0 o', 'en 5', 'frob', 'new x0', 'init 0 5 q', 'adv x', 'new n[x1]', 'new n[', 'new e0,', 'new c0', 'new n[]]']   # malformed stream
    yield ['new -', 'init 0 10 o', 'en 0', 'adv 9', 'adv 1', 'adv 100', 'en 0', 'adv 10']   # one-shot: not early, once, re-enable fresh
    yield ['new -', 'init 0 3 p', 'en 0', 'adv 10', 'adv 2', 'dis 0', 'adv 50']             # late wake-up: 3 catch-up firings
    yield ['engine select', 'new d1', 'new -', 'init 0 5 p', 'init 1 5 p', 'en 0', 'en 1', 'adv 5', 'adv 5']  # same deadline; one disables the other
    yield ['new x1', 'new -', 'new -', 'init 0 5 o', 'init 1 5 o', 'init 2 6 o', 'en 2', 'en 1', 'en 0', 'adv 6']  # destroy a due timer from a callback; heap middle removal
    yield ['new i0:4:p,e0', 'init 0 3 p', 'en 0', 'adv 3', 'adv 3', 'adv 1', 'init 0 2 o', 'adv 2', 'del 0', 'adv 9']  # re-initialise while enabled (API + own callback); destroy while enabled
    yield ['new n[e0,d0],i1:2:o,e1', 'init 0 3 p', 'en 0', 'adv 3', 'adv 2', 'adv 1', 'adv 3']   # a callback creates, initialises and arms a new TimerEvent
    # TimerPool (eventx/timer_pool.cpp): doAfter / doEvery / cancel (also from callbacks, also of itself) / cleanup
    yield ['pafter 5 -', 'pevery 3 c0', 'adv 2', 'adv 1', 'adv 2', 'pcancel 0', 'pcancel 1', 'pcancel 1', 'adv 10', 'pcancel 7']
    yield ['pevery 2 c0', 'pafter 4 c1', 'pafter 4 c2', 'adv 4', 'adv 4', 'pcleanup', 'pafter 1 -', 'adv 1', 'pcancel 3']
    yield ['pafter 3 a3[a3[]]', 'adv 3', 'adv 3', 'adv 2', 'adv 1', 'adv 5']              # re-arming pattern: doAfter inside a doAfter callback
    yield ['pafter 2 z,a2[]', 'pevery 1 -', 'adv 2', 'adv 1', 'adv 1', 'pcancel 0', 'pcancel 2']   # cleanup + doAfter inside a doAfter callback: the wrapper's stale token must not hit the new timer
    yield ['pevery 2 c0,c0', 'pafter 2 c1,c1,c0', 'adv 2', 'adv 2', 'pcancel 0', 'pcancel 1']     # self-cancel (returns 1, then 0), doEvery and doAfter
    yield ['pevery 3 a1[c0]', 'adv 3', 'adv 1', 'adv 3', 'adv 9']                                # a one-shot created by a periodic callback cancels its creator
    yield ['wall 50', 'pat 60 -', 'wall -30', 'adv 9', 'adv 1', 'pat 30 c0', 'pat 31 -', 'wall 1000', 'adv 1', 'pat 5 -', 'pat 200000 -']   # doAt: system clock differences, fired by the monotonic clock
    yield ['pevery 1 -', 'pafter 3 -', 'adv 10', 'pcleanup', 'adv 10', 'pevery 2 z', 'adv 2', 'adv 2']
    # round 3: widths.  30-day one-shot reaches the heap front, only it pending, woken by a next-function and out of the engine's wait
    yield ['new -', 'new -', 'init 0 2592000000 o', 'init 1 10 o', 'en 0', 'en 1', 'adv 10', 'adv 0', 'idle 0', 'idle 300', 'adv 2591999689', 'adv 1', 'adv 1']
    yield ['engine select', 'pevery 2147484648 -', 'pafter 3 -', 'adv 3', 'adv 0', 'idle 5', 'idle 2147484639', 'idle 1', 'idle 2147484648', 'pcancel 0', 'idle 1']
    yield ['wnew', 'wnew', 'winit 0 -300 o', 'winit 1 -5000 o', 'wen 0', 'adv 0', 'wen 1', 'idle 0', 'idle 5', 'wdis 1', 'idle 1']   # negative intervals
    yield ['engine select', 'wnew', 'winit 0 -400 p', 'wen 0', 'idle 0', 'adv 5', 'wdel 0', 'wnew', 'winit 1 0 o', 'wen 1', 'adv 0', 'winit 1 0 p']
    yield ['new -', 'init 0 7 o', 'en 0', 'idle 3', 'idle 3', 'idle 3', 'idle 1000', 'adv 7000000000000', 'idle 7000000000000', 'adv 6999999998900', 'adv 1']
    # a pass 2^31 / 2^32 ms late with a short timer still pending: `int delay_ms` wraps, the due decision must not (fires once, no skip)
    yield ['new -', 'new -', 'init 0 5 o', 'init 1 2147483700 p', 'en 0', 'en 1', 'adv 2147483653', 'adv 0', 'idlex 4294967300', 'adv 0', 'dis 1']
    yield ['engine select', 'wnew', 'winit 0 5 o', 'wen 0', 'idlex 4294967301', 'idle 3', 'wen 0', 'idlex 2147483653', 'idlex 0']
    # round 4: the loop's exit timer; state-derived follow-ups; TimerPool with empty callbacks / destroyed with pending timers
    yield ['xslot', 'new -', 'init 1 5 p', 'en 1', 'xl 12', 'adv 5', 'adv 5', 'adv 1', 'adv 1', 'adv 5', 'xl 7', 'xl 20', 'adv 7', 'adv 13', 'adv 1', 'xl 0',
           'adv 3', 'xlo 4', 'adv 3', 'adv 1', 'adv 9', 'xlo 0', 'adv 2']
    yield ['engine select', 'xslot', 'new q3', 'new q0', 'new -', 'init 1 5 o', 'init 2 5 o', 'init 3 5 o', 'en 1', 'adv 5', 'adv 3', 'en 2', 'xl 5', 'adv 5', 'adv 5']
    yield ['xslot', 'new -', 'init 1 4 p', 'xl 4', 'en 1', 'adv 4', 'adv 4', 'xl 1', 'idle 1', 'xl 2', 'idle 5', 'idle 1']     # exit deadline == timer deadline; idle waits bounded by the exit timer
    yield ['xslot', 'en 0', 'new e0', 'new q', 'xl', 'xl -3', 'new q5,d0', 'new i0:5:o', 'new n[q1]', 'init 0 5 o', 'del 0', 'xl 5', 'adv 5']   # the slot is not addressable; malformed
    yield ['new -', 'xslot', 'xl 5', 'new q5']                                                   # no slot: bad-op
    yield ['pnull a 5', 'pnull e 5', 'pnull t 5', 'pafter 5 -', 'pevery 2 -', 'pdestroy', 'adv 10', 'pcancel 0', 'pafter 3 -', 'adv 3', 'pnull x 5', 'pnull a 0', 'pdestroy 1']
    # round 5: negative exit waits (wide cases with the exit-timer slot); last exitLoop wins; cleanup then reuse
    yield ['wxslot', 'wnew', 'winit 1 50 o', 'wen 1', 'wxl -5', 'adv 1', 'wxl -5000', 'idle 3', 'adv 5', 'wxl 7', 'wxl -1000', 'adv 1', 'wxl -1012', 'adv 60', 'wxl 0', 'adv 1']
    yield ['engine select', 'wxslot', 'wnew', 'winit 1 -3 o', 'wxl 5', 'wen 1', 'adv 4', 'wxl 2', 'adv 1', 'idle 1', 'wxl -1', 'wxl 0', 'wxl 3', 'adv 3']
    yield ['wxslot', 'winit 0 5 o', 'wen 0', 'wdel 0', 'wxl', 'wxl x', 'wxl 5 5', 'wnew', 'wxl 4611686018427387905', 'adv 1']      # the slot is not addressable; malformed
    yield ['wnew', 'wxslot', 'wxl -5', 'adv 1']                                                                                 # no slot: bad-op
    yield ['engine select', 'wxslot', 'wxl -5000', 'idle 2', 'idle 0', 'wxl -1003', 'adv 0', 'wxl -1002', 'adv 1', 'wxl 0']          # the wrapped exit timer is the ONLY record: wait 0 (the loop spins), never due; |w| = now+1 / now
    yield ['wxslot', 'wxl 2147483649', 'idle 5', 'idlex 2147483643', 'adv 1', 'wxl 4294967297', 'wxl -4294967297', 'idle 1', 'wxl 1', 'adv 1']
    yield ['xslot', 'wxl -5', 'adv 1']                                                                                          # a case never mixes plain and wide ops
    yield ['xslot', 'new -', 'init 1 5 p', 'en 1', 'xl 7', 'adv 5', 'xl 20', 'adv 2', 'xl 3', 'adv 22', 'adv 1', 'adv 30']      # exitDemo of Props.lean: late pass over all three deadlines
    yield ['pafter 5 -', 'pevery 2 -', 'adv 2', 'pcleanup', 'idle 0', 'pafter 4 -', 'idle 0', 'pcancel 0', 'pcancel 1', 'adv 3', 'adv 1', 'pcancel 2']
    for _ in range(n // 8):
        yield gen_last_wins_case(rng)
    for _ in range(n // 8):
        yield gen_wide_exit_case(rng)
    for _ in range(n // 8):
        yield gen_cleanup_reuse_case(rng)
    for L in BOUNDS[:-1]:
        yield gen_exit_boundary(rng, L)
    for _ in range(n // 5):
        yield gen_exit_case(rng)
    for _ in range(n // 4):
        yield gen_state_case(rng)
    for L in BOUNDS:
        for kind in ('plain', 'pool', 'wide'):
            yield gen_boundary_case(rng, kind, L)
    for _ in range(n // 8):
        yield gen_boundary_case(rng, rng.choice(['plain', 'pool', 'wide']))
    for _ in range(n // 8):
        yield gen_wide_case(rng)
    for _ in range(n):
        yield gen_case(rng, rng.choice([6, 12, 25, 50]))
    for _ in range(n // 4):
        yield gen_heap_case(rng)
    for _ in range(n // 3):
        yield gen_pool_case(rng, rng.choice([6, 12, 25]))
    yield ['pafter 5 -', 'new -']     # a case never mixes TimerPool and plain TimerEvent ops: bad-op on both sides
    yield ['new -', 'pevery 5 -', 'new c0', 'wall 3']
    yield ['pafter 0 -', 'pevery 5 e0', 'pafter 5 a0[]', 'pafter 5 a5', 'pafter 5 v5[x]', 'pat x -', 'wall +5', 'wall', 'pafter 3 z,', 'pafter 2 a2[],c0']


def nontrivial(ops, model_lines):
    tags = ' '.join(l for l in model_lines if l.startswith('B '))
    return 1 if any(t in tags for t in ('tie', 'catchup', 'cb-removed-other', 'cb-armed-other', 'passN', 'cb-doAfter', 'cb-doEvery',
                                        'cb-cancel', 'cb-cleanup', 'cb-new', 'idle-wait', 'idle-clamped', 'w-fire', 'iv~2^31', 'iv~2^32',
                                        'iv-25..49d', 'iv>2^32', 'loop-exit', 'exit-fired', 'pool-destroy-pending', 'pool-null', 'w-exit-fired')) else None


LEVEL_TEXT = ('Lean 4 theorems over a model of the loop timer core (addTimer/deleteTimer/handleExpiredTimers + TimerEventImpl) and of TimerPool: an '
              'inductive invariant over every execution (any objects, callback scripts incl. timers created inside callbacks, clock advances, '
              'tie-breaks) yields never-early, no-skip, deadline order, one-shot-once, never-after-disable/destroy, fresh interval on re-enable; '
              'a measure argument yields termination of every pass and the exact catch-up count for intervals >= 1; a per-timer invariant yields '
              'doAfter exactly-once / doEvery n-th not before t+n*d / cancel / cleanup / stale tokens for the TimerPool; a width-faithful layer '
              '(UInt64 deadlines, Int64 intervals and waits, int delay_ms, epoll clamp, select timeval) on an explicit heap used through the C++ '
              'standard contract of push_heap/pop_heap/make_heap: deadlines exact for every 64-bit now/interval below the wrap, due decision at full '
              'width, wait bound for both engines, deleteTimer removes exactly the addressed record, each primitive refines the abstract model and every '
              'whole execution of the width-faithful machine (TimerEventImpl + TimerPool + callback scripts, any conforming heap library) is an '
              'execution of the abstract model with the same callback log (C02_wide_exec_simulates), so never-early / no-skip / order / once / '
              'never-after-disable hold of the machine at width; the loop exit timer (exitLoop) as an object of the model: only the last exitLoop call '
              'counts over every continuation (C02_exit_last_call_wins, C02_exit_zero_final); a TimerPool after cleanup() is a fresh pool '
              '(C02_pool_cleanup_fresh, C02_pool_reuse_after_cleanup); tied '
              'to the real loop on every run by a trace acceptor replaying the callbacks of the real epoll/select loop (virtual clocks) as model steps')
LEVEL_NOTE = ('trusted: Lean kernel, hand-written model + trace-acceptor tie (coverage bounded by the generator, measured), that libstdc++ heap algorithms '
              'meet the standard contract, clock and epoll_wait/select interposition, the cabinet contract (proved in C08); sub-millisecond earliness is '
              'outside a millisecond clock; the select engine hands milliseconds over as tv_usec (wakes early, goes round again, cannot oversleep: '
              'C02_wait_bound_select); the exit timer is modelled as one re-initialised object (the code creates a fresh TimerEventImpl per exitLoop call)')
TECHNIQUE = 'Lean 4 invariant + measure proofs over all executions of a timer model + trace-acceptor correspondence with the real loop'
DESIGN_REF = 'DESIGN.md §6 C02'
