"""C02 — timers never fire early, never skip, never fire after disable (event loop timer core)."""
import vlib
ID = 'C02'
LEAN_MODULES = ['TboxModel.C02.Props']
EXE = 'c02'
MODE = 'trace'
THEOREMS = ['Tbox.C02.C02_callbacks_legit', 'Tbox.C02.C02_never_early', 'Tbox.C02.C02_no_fire_after_disable',
            'Tbox.C02.C02_records_belong_to_enabled', 'Tbox.C02.C02_deadline_order', 'Tbox.C02.C02_oneshot_once',
            'Tbox.C02.C02_oneshot_disabled_in_callback', 'Tbox.C02.C02_no_skip', 'Tbox.C02.C02_reenable_fresh', 'Tbox.C02.C02_destroyed_never_fires',
            'Tbox.C02.exec_inv']
SOURCES = vlib.EVENT_SOURCES + vlib.BASE_SOURCES + ['modules/eventx/timer_pool.cpp']
FLAVOUR = 'asan'
LIBS = ['-ldl']
BATCH = 200
TRUSTED = ['model lean/TboxModel/C02/Model.lean hand-written from common_loop_timer.cpp + timer_event_impl.cpp; the tie is the trace acceptor '
           '(every callback the real loop makes must be an enabled fire step of the model, passes must end with nothing due, '
           'all API results and isEnabled() vectors must agree)',
           'std::push_heap/pop_heap/make_heap (libstdc++) keep the heap property; deleteTimer removes the zeroed record (all live deadlines > 0)',
           'virtual monotonic clock by clock_gettime interposition in the harness (harness/vtime.h)']
ASSUMPTIONS = ['interval >= 1 ms (the property quantifies over d >= 1)', 'a timer object is not destroyed from inside its own callback',
               'uint64 millisecond arithmetic does not overflow']
RULE = ('scripts of timer objects (callback bodies = lists of init/enable/disable/destroy on any object) + API ops + clock advances with one '
        'loop pass each, on the real epoll/select loop under a virtual clock; non-trivial = at least one pass served >= 2 callbacks or a '
        'callback changed another armed timer (driver tags tie/catchup/cb-removed-other/cb-armed-other); distinct = distinct op text')
HARNESS_ENV = None


def gen_case(rng, nops):
    nobj = rng.choice([1, 2, 3, 4, 6, 9, 12])
    ivs = rng.sample([1, 2, 3, 5, 7, 10, 20, 50], rng.choice([1, 2, 3]))   # few distinct intervals => many shared deadlines
    ops = ['engine ' + rng.choice(['epoll', 'select'])]

    def act(self):
        k = rng.randrange(nobj)
        r = rng.random()
        if r < 0.3: return 'e%d' % k
        if r < 0.6: return 'd%d' % k
        if r < 0.85: return 'i%d:%d:%s' % (k, rng.choice(ivs), rng.choice('op'))
        return 'x%d' % k if k != self else 'd%d' % k

    for j in range(nobj):
        n = rng.choice([0, 0, 1, 1, 2, 3])
        ops.append('new ' + (','.join(act(j) for _ in range(n)) or '-'))
    for j in range(nobj):
        if rng.random() < 0.9:
            ops.append('init %d %d %s' % (j, rng.choice(ivs), rng.choice('oppp')))
        if rng.random() < 0.8:
            ops.append('en %d' % j)
    for _ in range(nops):
        r = rng.random()
        j = rng.randrange(nobj)
        if r < 0.5:
            ops.append('adv %d' % rng.choice([0, 1, 1, 2, 3, 5, 7, 10, 19, 20, 21, 50, 137]))
        elif r < 0.65: ops.append('en %d' % j)
        elif r < 0.78: ops.append('dis %d' % j)
        elif r < 0.9: ops.append('init %d %d %s' % (j, rng.choice(ivs), rng.choice('op')))
        elif r < 0.95: ops.append('del %d' % j)
        else: ops.append('new ' + (act(99) if rng.random() < 0.7 else '-'))
    return ops


def gen_pool_case(rng, nops):
    """TimerPool case: doAfter/doEvery with callbacks that cancel pool timers (also themselves), cancel, cleanup"""
    ops = ['engine ' + rng.choice(['epoll', 'select'])]
    ivs = rng.sample([1, 2, 3, 5, 7, 10], rng.choice([1, 2, 3]))
    made = 0
    for _ in range(nops):
        r = rng.random()
        if r < 0.35 or made == 0:
            sc = ','.join('c%d' % rng.randrange(made + 3) for _ in range(rng.choice([0, 0, 1, 1, 2]))) or '-'
            ops.append('%s %d %s' % (rng.choice(['pafter', 'pevery']), rng.choice(ivs), sc)); made += 1
        elif r < 0.8: ops.append('adv %d' % rng.choice([0, 1, 1, 2, 3, 5, 7, 10, 21]))
        elif r < 0.95: ops.append('pcancel %d' % rng.randrange(made + 2))
        else: ops.append('pcleanup')
    return ops


def gen_heap_case(rng):
    """many timers armed in shuffled deadline order, then removals from the middle of the heap
    (outside and inside callbacks), then single-millisecond steps: deadline order must survive"""
    n = rng.choice([7, 8, 9, 12, 16])
    ivs = list(range(1, n + 1)); rng.shuffle(ivs)
    ops = ['engine ' + rng.choice(['epoll', 'select'])]
    victim = rng.randrange(n)
    for j in range(n):
        ops.append('new ' + ('d%d' % victim if (j == ivs.index(1) and rng.random() < 0.5) else '-'))
    for j in range(n):
        ops.append('init %d %d %s' % (j, ivs[j], rng.choice('op')))
    for j in range(n):
        ops.append('en %d' % j)
    for _ in range(rng.choice([1, 1, 2, 3])):
        ops.append(rng.choice(['dis %d', 'del %d', 'dis %d']) % rng.randrange(n))
    for _ in range(n + 3):
        ops.append('adv 1')
    return ops


def gen(rng, tier):
    n = 400 if tier == 'quick' else 6000
    yield ['new -', 'init 0 0 o', 'en 5', 'frob', 'new x0', 'init 0 5 q', 'adv x']           # malformed stream
    yield ['new -', 'init 0 10 o', 'en 0', 'adv 9', 'adv 1', 'adv 100', 'en 0', 'adv 10']   # one-shot: not early, once, re-enable fresh
    yield ['new -', 'init 0 3 p', 'en 0', 'adv 10', 'adv 2', 'dis 0', 'adv 50']             # late wake-up: 3 catch-up firings
    yield ['engine select', 'new d1', 'new -', 'init 0 5 p', 'init 1 5 p', 'en 0', 'en 1', 'adv 5', 'adv 5']  # same deadline; one disables the other
    yield ['new x1', 'new -', 'new -', 'init 0 5 o', 'init 1 5 o', 'init 2 6 o', 'en 2', 'en 1', 'en 0', 'adv 6']  # destroy a due timer from a callback; heap middle removal
    # TimerPool (eventx/timer_pool.cpp): doAfter / doEvery / cancel (also from callbacks, also of itself) / cleanup
    yield ['pafter 5 -', 'pevery 3 c0', 'adv 2', 'adv 1', 'adv 2', 'pcancel 0', 'pcancel 1', 'pcancel 1', 'adv 10', 'pcancel 7']
    yield ['pevery 2 c0', 'pafter 4 c1', 'pafter 4 c2', 'adv 4', 'adv 4', 'pcleanup', 'pafter 1 -', 'adv 1', 'pcancel 3']
    for _ in range(n):
        yield gen_case(rng, rng.choice([6, 12, 25, 50]))
    for _ in range(n // 4):
        yield gen_heap_case(rng)
    for _ in range(n // 4):
        yield gen_pool_case(rng, rng.choice([6, 12, 25]))
    yield ['pafter 5 -', 'new -']     # a case never mixes TimerPool and plain TimerEvent ops: bad-op on both sides
    yield ['new -', 'pevery 5 -', 'new c0']


def nontrivial(ops, model_lines):
    tags = ' '.join(l for l in model_lines if l.startswith('B '))
    return 1 if any(t in tags for t in ('tie', 'catchup', 'cb-removed-other', 'cb-armed-other', 'passN')) else None


LEVEL_TEXT = ('Lean 4 theorems over a model of the loop timer core (addTimer/deleteTimer/handleExpiredTimers + TimerEventImpl): an inductive '
              'invariant over every execution (any objects, callback scripts, clock advances, tie-breaks) yields never-early, no-skip, '
              'deadline order, one-shot-once, never-after-disable/destroy, fresh interval on re-enable; tied to the real loop on every run '
              'by a trace acceptor replaying the callbacks of the real epoll loop (virtual clock) as model steps')
LEVEL_NOTE = ('trusted: Lean kernel, hand-written model + trace-acceptor tie (coverage bounded by the generator, measured), libstdc++ heap algorithms, '
              'clock interposition; sub-millisecond earliness and the select engine\'s tv_usec rounding are outside a millisecond clock')
TECHNIQUE = 'Lean 4 invariant proof over all executions of a timer model + trace-acceptor correspondence with the real loop'
DESIGN_REF = 'DESIGN.md §6 C02'
