// C03 harness: real event loop (epoll or select engine, chosen per case by the op `be`) with real
// FdEvents on socket pairs.  Ops run back to back inside one runNext task; the op `pass` lets the
// loop turn once.  epoll_ctl/epoll_wait/select are interposed (dlsym RTLD_NEXT) so that the kernel's
// interest table and the ready list (in the order the loop will serve it) are observable:
//   K i=<interest of slot 0..5> r=<slot>:<mask>,…     printed when the wait of a `pass` returns
//   F <e> <mask> en=<isEnabled() of every event>       at entry of the callback of event e
//   E <e> rets=<result of each script action> en=…     when its script has run
//   P ret=<r> en=…                                      after every op outside callbacks
//   TF <k> en=… / TE <k> rets=… en=…                    entry / end of the callback of the one-shot timer of callable k
//   NF <k> en=… / NE <k> rets=… en=…                    entry / end of the deferred task (runNext) running callable k
// Callables (`fn <script>`) carry the same scripts as descriptor callbacks; script items `t<k>` arm the 1 ms one-shot
// timer of callable k (due in the next turn: every `pass` advances the virtual clock by 1 ms), `n<k>` posts it with runNext.
// Slots 0-5 are socket pairs on descriptors 200,202,…; slot 6 is the read end of a pipe, slot 7 the write end of a pipe,
// slot 8 a non-blocking TCP socket whose connect() to a bound, not listening loopback port was refused (kindOf in the model);
// slots 1023 and 1024 are socket pairs on exactly those numbers (FD_SETSIZE - 1 and FD_SETSIZE).
// Run-time kernel conditions: `h<f>` closes the peer end (socket pair: hang-up, + error if our send buffer was full; pipe read end:
// hang-up; pipe write end: error), `s<f>` = the peer shuts down its write side.  `E<e>` = enable() while the interposed epoll_ctl
// refuses the EPOLL_CTL_ADD it issues (ENOMEM / ENOSPC / EPERM in turn).
// `D<e>` / `M<e>` = disable() / enable() while the interposed epoll_ctl refuses the EPOLL_CTL_MOD / _DEL it issues (ENOMEM / EINVAL / EIO in turn;
// an ADD issued by the same call goes through).  `y<e>` = delete event object e and create a new one on the same address.
// `eintr` makes the next wait return -1/EINTR without asking the kernel.
// Masks are tbox bits (1 read, 2 write, 4 except).  Format matches lean/Driver/C03.lean.
#include "vh.h"
#include "vtime.h"
#include "loopdrv.h"
#include <dlfcn.h>
#include <fcntl.h>
#include <sys/epoll.h>
#include <sys/select.h>
#include <sys/socket.h>
#include <netinet/in.h>
#include <arpa/inet.h>
#include <poll.h>
#include <sys/resource.h>
#include <unistd.h>
#include <signal.h>
#include <cerrno>
#include <cstring>
#include <map>
#include <memory>
#include <new>
#include <tbox/event/loop.h>
#include <tbox/event/fd_event.h>
#include <tbox/event/timer_event.h>
#include <tbox/base/log_output.h>

using namespace tbox::event;

static const int kSlots = 11;
static const int kSlotNo[kSlots] = {0, 1, 2, 3, 4, 5, 6, 7, 8, 1023, 1024};      // slot numbers as the op files write them
static inline int idx(int f) { return f < 9 ? f : 9 + (f - 1023); }      // index into per-slot tables
static inline int W(int f) { return f < 9 ? 200 + 2 * f : f; }           // watched end of slot f
static inline int Pe(int f) { return f < 9 ? 201 + 2 * f : 990 + (f - 1023); }  // peer end (held by the harness)
static inline int kind_of(int f) { return f == 6 ? 1 : f == 7 ? 2 : f == 8 ? 3 : 0; }   // 0 socket pair, 1 pipe read end, 2 pipe write end, 3 refused connect
static int slot_of(int fd) {
    if (fd == 1023 || fd == 1024) return fd;
    return (fd >= 200 && fd < 218 && (fd % 2) == 0) ? (fd - 200) / 2 : -1;
}
static bool g_eintr = false;              // op `eintr`: the next wait is interrupted
static bool g_fail_add = false;           // script item `E<e>`: the EPOLL_CTL_ADD issued by this enable() is refused
static int g_fail_no = 0;
static bool g_fail_md = false;            // script items `D<e>` / `M<e>`: the EPOLL_CTL_MOD / _DEL issued by this disable() / enable() is refused

// ---------------------------------------------------------------- allocator: address reuse on demand
// Script item `y<e>` = delete event object e and create a new one AT THE SAME ADDRESS (what a plain malloc does for equal sizes
// and ASan's quarantine never does).  The global operator new / delete are replaced (malloc / free underneath, so ASan still sees
// every block): while g_aba_on is set, the block of the object being deleted is held back instead of freed, and the next request
// of the size of an event object (measured when the first event of the process was created) gets exactly that block.
static bool g_aba_on = false, g_measure = false;
static void *g_aba_want = nullptr, *g_aba_held = nullptr;
static size_t g_ev_size = 0;
static void *aba_alloc(size_t n) {
    if (g_measure) { g_measure = false; g_ev_size = n; }
    if (g_aba_on && g_aba_held && n == g_ev_size) { void *p = g_aba_held; g_aba_held = nullptr; return p; }
    void *p = malloc(n ? n : 1);
    if (!p) { fputs("out of memory\n", stderr); _exit(3); }
    return p;
}
static void aba_free(void *p) {
    if (g_aba_on && p && p == g_aba_want) { g_aba_want = nullptr; g_aba_held = p; return; }
    free(p);
}
void *operator new(size_t n) { return aba_alloc(n); }
void *operator new[](size_t n) { return aba_alloc(n); }
void *operator new(size_t n, const std::nothrow_t &) noexcept { return aba_alloc(n); }
void *operator new[](size_t n, const std::nothrow_t &) noexcept { return aba_alloc(n); }
void operator delete(void *p) noexcept { aba_free(p); }
void operator delete[](void *p) noexcept { aba_free(p); }
void operator delete(void *p, size_t) noexcept { aba_free(p); }
void operator delete[](void *p, size_t) noexcept { aba_free(p); }
void operator delete(void *p, const std::nothrow_t &) noexcept { aba_free(p); }
void operator delete[](void *p, const std::nothrow_t &) noexcept { aba_free(p); }

// ---------------------------------------------------------------- interposition
static bool want_k = false;
struct Reg { uint32_t events; uint64_t data; };
static std::map<int, Reg> g_reg;          // what epoll_ctl registered (fd -> events, user data)

static int tbox_bits(uint32_t ev) {
    int m = 0;
    if (ev & (EPOLLIN | EPOLLHUP)) m |= 1;
    if (ev & EPOLLOUT) m |= 2;
    if (ev & (EPOLLERR | EPOLLPRI)) m |= 4;
    return m;
}

extern "C" int epoll_ctl(int epfd, int op, int fd, struct epoll_event *ev) {
    typedef int (*fn_t)(int, int, int, struct epoll_event *);
    static fn_t real = (fn_t)dlsym(RTLD_NEXT, "epoll_ctl");
    if (g_fail_add && op == EPOLL_CTL_ADD && slot_of(fd) >= 0) {
        static const int errs[3] = {ENOMEM, ENOSPC, EPERM};
        errno = errs[g_fail_no++ % 3];
        return -1;
    }
    if (g_fail_md && (op == EPOLL_CTL_MOD || op == EPOLL_CTL_DEL) && slot_of(fd) >= 0) {
        static const int errs[3] = {ENOMEM, EINVAL, EIO};
        errno = errs[g_fail_no++ % 3];
        return -1;
    }
    int r = real(epfd, op, fd, ev);
    if (r == 0) {
        if (op == EPOLL_CTL_DEL) g_reg.erase(fd);
        else if (ev) g_reg[fd] = Reg{ev->events, ev->data.u64};
    }
    return r;
}

extern "C" int epoll_wait(int epfd, struct epoll_event *evs, int maxevents, int timeout) {
    typedef int (*fn_t)(int, struct epoll_event *, int, int);
    static fn_t real = (fn_t)dlsym(RTLD_NEXT, "epoll_wait");
    bool intr = want_k && g_eintr;
    int n = intr ? -1 : real(epfd, evs, maxevents, timeout);
    if (want_k) {
        want_k = false;
        std::string s = "K i=";
        for (int j = 0; j < kSlots; ++j) {
            auto it = g_reg.find(W(kSlotNo[j]));
            s += char('0' + (it == g_reg.end() ? 0 : tbox_bits(it->second.events & ~EPOLLHUP)));
        }
        if (intr) { g_eintr = false; std::cout << s << " r=EINTR\n"; errno = EINTR; return -1; }
        s += " r=";
        bool any = false;
        for (int i = 0; i < n; ++i) {
            int f = -1;
            for (auto &kv : g_reg) if (kv.second.data == evs[i].data.u64) { f = slot_of(kv.first); break; }
            if (f < 0) continue;                        // the loop's own wake-up descriptor
            if (any) s += ",";
            s += std::to_string(f) + ":" + std::to_string(tbox_bits(evs[i].events));
            any = true;
        }
        if (!any) s += "-";
        std::cout << s << "\n";
    }
    return n;
}

extern "C" int select(int nfds, fd_set *r, fd_set *w, fd_set *e, struct timeval *tv) {
    typedef int (*fn_t)(int, fd_set *, fd_set *, fd_set *, struct timeval *);
    static fn_t real = (fn_t)dlsym(RTLD_NEXT, "select");
    bool k = want_k;
    std::string s;
    if (k) {
        want_k = false;
        s = "K i=";
        for (int j = 0; j < kSlots; ++j) {
            int fd = W(kSlotNo[j]), m = 0;
            if (fd < nfds && fd < FD_SETSIZE) { if (r && FD_ISSET(fd, r)) m |= 1; if (w && FD_ISSET(fd, w)) m |= 2; if (e && FD_ISSET(fd, e)) m |= 4; }
            s += char('0' + m);
        }
        if (g_eintr) { g_eintr = false; std::cout << s << " r=EINTR\n"; errno = EINTR; return -1; }
    }
    int n = real(nfds, r, w, e, tv);
    if (k && n < 0) {
        int err = errno;
        std::cout << s << " r=" << (err == EBADF ? "EBADF" : "ERR") << "\n";
        errno = err;
    } else if (k) {
        s += " r=";
        bool any = false;
        if (n > 0) for (int j = 0; j < kSlots; ++j) {
            int f = kSlotNo[j], fd = W(f), m = 0;
            if (fd < nfds && fd < FD_SETSIZE) { if (r && FD_ISSET(fd, r)) m |= 1; if (w && FD_ISSET(fd, w)) m |= 2; if (e && FD_ISSET(fd, e)) m |= 4; }
            if (!m) continue;
            if (any) s += ",";
            s += std::to_string(f) + ":" + std::to_string(m);
            any = true;
        }
        if (!any) s += "-";
        std::cout << s << "\n";
    }
    return n;
}

// ---------------------------------------------------------------- descriptors
static bool slot_open[kSlots];
static bool slot_eof[kSlots];             // POLLIN is permanent (receive side shut down): neither feed nor drain
static bool slot_gone[kSlots];            // the peer end no longer exists
static int g_dead_port_sock = -1;         // bound, never listening: connect() to its port is refused
static struct sockaddr_in g_dead_addr;

// a socket with POLLIN|POLLOUT|POLLERR|POLLHUP: a non-blocking connect() that was refused; where the sandbox has no loopback,
// a socket pair whose peer was closed while our send buffer was full shows exactly the same poll bits
static int refused_socket() {
    if (g_dead_port_sock < 0) {
        g_dead_port_sock = socket(AF_INET, SOCK_STREAM, 0);
        memset(&g_dead_addr, 0, sizeof(g_dead_addr));
        g_dead_addr.sin_family = AF_INET; g_dead_addr.sin_addr.s_addr = htonl(INADDR_LOOPBACK); g_dead_addr.sin_port = 0;
        socklen_t l = sizeof(g_dead_addr);
        if (g_dead_port_sock < 0 || bind(g_dead_port_sock, (struct sockaddr *)&g_dead_addr, sizeof(g_dead_addr)) != 0 ||
            getsockname(g_dead_port_sock, (struct sockaddr *)&g_dead_addr, &l) != 0) { if (g_dead_port_sock >= 0) close(g_dead_port_sock); g_dead_port_sock = -2; }
    }
    if (g_dead_port_sock >= 0) {
        int s = socket(AF_INET, SOCK_STREAM | SOCK_NONBLOCK, 0);
        if (s >= 0) {
            int r = connect(s, (struct sockaddr *)&g_dead_addr, sizeof(g_dead_addr));
            if (r != 0 && errno == EINPROGRESS) {
                for (int k = 0; k < 200; ++k) {               // the RST arrives at once on loopback; wait for the kernel, not for a clock
                    struct pollfd p = {s, POLLOUT, 0};
                    if (poll(&p, 1, 100) > 0 && (p.revents & POLLHUP) && (p.revents & POLLERR)) return s;
                }
            }
            close(s);
        }
    }
    int sv[2];
    if (socketpair(AF_UNIX, SOCK_STREAM | SOCK_NONBLOCK, 0, sv) != 0) { perror("socketpair"); _exit(3); }
    int sz = 4096; setsockopt(sv[0], SOL_SOCKET, SO_SNDBUF, &sz, sizeof(sz));
    char buf[1024]; memset(buf, 'x', sizeof(buf)); while (write(sv[0], buf, sizeof(buf)) > 0) {}
    close(sv[1]);
    return sv[0];
}

static void reopen_slot(int f) {
    int sv[2];
    int k = kind_of(f);
    if (k == 0) {
        if (socketpair(AF_UNIX, SOCK_STREAM | SOCK_NONBLOCK, 0, sv) != 0) { perror("socketpair"); _exit(3); }
        int sz = 4096;
        setsockopt(sv[0], SOL_SOCKET, SO_SNDBUF, &sz, sizeof(sz));
    } else if (k == 3) {
        sv[0] = refused_socket(); sv[1] = -1;
    } else {
        int p[2];
        if (pipe2(p, O_NONBLOCK) != 0) { perror("pipe2"); _exit(3); }
        fcntl(p[1], F_SETPIPE_SZ, 4096);
        sv[0] = p[k == 1 ? 0 : 1]; sv[1] = p[k == 1 ? 1 : 0];
    }
    // dup2 closes the old open file under the same number: the kernel drops it from the epoll set
    dup2(sv[0], W(f)); close(sv[0]);
    if (sv[1] >= 0) { dup2(sv[1], Pe(f)); close(sv[1]); } else close(Pe(f));
    g_reg.erase(W(f));
    slot_open[idx(f)] = true;
    slot_eof[idx(f)] = slot_gone[idx(f)] = (k == 3);
}
// close the watched end and leave its number unused (the peer end stays with the harness)
static bool kill_slot(int f) {
    if (!slot_open[idx(f)]) return false;
    close(W(f)); g_reg.erase(W(f)); slot_open[idx(f)] = false;
    return true;
}
// run-time kernel conditions: c = 0 the peer end is closed, c = 1 the peer shuts down its write side (socket pairs only)
static bool cond_slot(int f, int c) {
    int i = idx(f);
    if (!slot_open[i] || slot_gone[i]) return false;
    if (c == 0) {
        close(Pe(f));
        slot_gone[i] = true;
        if (kind_of(f) == 0) slot_eof[i] = true;
        return true;
    }
    if (kind_of(f) != 0 || slot_eof[i]) return false;
    shutdown(Pe(f), SHUT_WR);
    slot_eof[i] = true;
    return true;
}
// several rounds: a read stops at (and then discards) a pending out-of-band mark
static void drain(int fd) { char buf[4096]; for (int k = 0; k < 4; ++k) while (read(fd, buf, sizeof(buf)) > 0) {} }
static void fill(int fd) { char buf[1024]; memset(buf, 'x', sizeof(buf)); while (write(fd, buf, sizeof(buf)) > 0) {} }

// ---------------------------------------------------------------- events and scripts
struct Act { char kind; int a; int f; int mask; bool oneshot; };
struct Obj { FdEvent *p = nullptr; int slot = -1; std::vector<Act> script; };
static std::vector<Obj> objs;
static Loop *loop = nullptr;
static TimerEvent *g_timer = nullptr;     // op `tm`: a 1 ms persistent timer; every `pass` advances the virtual clock by 1 ms
struct Fn { TimerEvent *timer = nullptr; std::vector<Act> script; };
static std::vector<Fn> fns;               // callables: scripts run by one-shot timers and deferred tasks
static bool g_quiet = false;              // the case is over: tasks still queued in the old loop do nothing
static void run_fn(const char *kind, int k);
static void set_cb(int id);

static std::string bits() {
    std::string s;
    for (auto &o : objs) s.push_back(o.p == nullptr ? 'x' : (o.p->isEnabled() ? '1' : '0'));
    return s.empty() ? "-" : s;
}

static int apply(const Act &a) {
    switch (a.kind) {
        case 'c': reopen_slot(a.f); return 1;             // also while event objects still refer to the number
        case 'k': return kill_slot(a.f) ? 1 : 0;
        // the model's `blocked`: nothing happens where the harness has no means left (peer gone, receive side shut down, kind)
        case 'r': { int i = idx(a.f); if (slot_open[i] && !slot_eof[i] && !slot_gone[i] && kind_of(a.f) != 2) { char c = 'r'; (void)!write(Pe(a.f), &c, 1); } return 1; }
        case 'o': { int i = idx(a.f); if (slot_open[i] && !slot_eof[i] && !slot_gone[i] && kind_of(a.f) == 0) { char c = '!'; (void)!send(Pe(a.f), &c, 1, MSG_OOB); } return 1; }
        case 'u': { int i = idx(a.f); if (slot_open[i] && !slot_eof[i] && kind_of(a.f) != 2) drain(W(a.f)); return 1; }
        case 'b': { int i = idx(a.f); if (slot_open[i] && !slot_gone[i] && kind_of(a.f) != 1) fill(W(a.f)); return 1; }
        case 'w': { int i = idx(a.f); if (slot_open[i] && !slot_gone[i] && kind_of(a.f) != 1) drain(Pe(a.f)); return 1; }
        case 'h': return cond_slot(a.f, 0) ? 1 : 0;
        case 's': return cond_slot(a.f, 1) ? 1 : 0;
        case 't': if (a.a < 0 || (size_t)a.a >= fns.size()) return 0; return fns[a.a].timer->enable() ? 1 : 0;
        case 'n': {
            if (a.a < 0 || (size_t)a.a >= fns.size()) return 0;
            int k = a.a;
            loop->runNext([k] { run_fn("N", k); }, "verif-task");
            return 1;
        }
    }
    if (a.a < 0 || (size_t)a.a >= objs.size() || objs[a.a].p == nullptr) return 0;   // no such object (model: alive = false)
    Obj &o = objs[a.a];
    switch (a.kind) {
        case 'i': {
            bool r = o.p->initialize(W(a.f), (short)a.mask, a.oneshot ? Event::Mode::kOneshot : Event::Mode::kPersist);
            if (r) o.slot = a.f;
            return r;
        }
        case 'e': return o.p->enable();
        case 'E': { g_fail_add = true; bool r = o.p->enable(); g_fail_add = false; return r; }
        case 'd': return o.p->disable();
        case 'D': { g_fail_md = true; bool r = o.p->disable(); g_fail_md = false; return r; }
        case 'M': { g_fail_md = true; bool r = o.p->enable(); g_fail_md = false; return r; }
        case 'x': { FdEvent *p = o.p; o.p = nullptr; delete p; return 1; }
        case 'y': {
            FdEvent *p = o.p; o.p = nullptr;
            void *addr = dynamic_cast<void *>(p);
            g_aba_on = true; g_aba_want = addr; g_aba_held = nullptr;
            delete p;
            FdEvent *q = loop->newFdEvent("verif");
            g_aba_on = false; g_aba_want = nullptr;
            if (g_aba_held) { free(g_aba_held); g_aba_held = nullptr; }
            objs[a.a].p = q; objs[a.a].slot = -1;
            set_cb(a.a);
            if (dynamic_cast<void *>(q) != addr) std::cout << "M aba-address-not-reused\n";
            return 1;
        }
    }
    return 0;
}

static bool num(const std::string &s, int &v, int lim) {
    uint64_t u; if (!vh::to_u64(s, u) || u >= (uint64_t)lim) return false; v = (int)u; return true;
}
static bool slotnum(const std::string &s, int &v) {
    if (!num(s, v, 2000)) return false;
    for (int j = 0; j < kSlots; ++j) if (kSlotNo[j] == v) return true;
    return false;
}

static void run_fn(const char *kind, int k) {
    if (g_quiet || k < 0 || (size_t)k >= fns.size()) return;
    std::cout << kind << "F " << k << " en=" << bits() << "\n";
    std::vector<Act> sc = fns[k].script;
    std::string rets;
    for (auto &a : sc) rets.push_back(apply(a) ? '1' : '0');
    std::cout << kind << "E " << k << " rets=" << (rets.empty() ? "-" : rets) << " en=" << bits() << "\n";
}

// "e1" "d0" "x2" "i3:0:1:o" "c2" "k2" "r0" "o0" "u0" "b1" "w1"
static bool parse_act(const std::string &w, Act &a) {
    if (w.size() < 2) return false;
    a = Act{w[0], -1, -1, 0, false};
    std::string rest = w.substr(1);
    switch (a.kind) {
        case 'i': {
            std::vector<std::string> p; std::stringstream ss(rest); std::string t;
            while (std::getline(ss, t, ':')) p.push_back(t);
            if (p.size() != 4 || rest.back() == ':') return false;
            if (!num(p[0], a.a, 1000) || !slotnum(p[1], a.f) || !num(p[2], a.mask, 65536)) return false;
            if (p[3] != "o" && p[3] != "p") return false;
            a.oneshot = p[3] == "o";
            return true;
        }
        case 'e': case 'd': case 'x': case 'E': case 'y': case 'D': case 'M': return num(rest, a.a, 1000);
        case 'c': case 'k': case 'r': case 'o': case 'u': case 'b': case 'w': case 'h': case 's': return slotnum(rest, a.f);
        case 't': case 'n': return num(rest, a.a, 16);
    }
    return false;
}

static bool parse_script(const std::string &w, std::vector<Act> &out, int self) {
    out.clear();
    if (w == "-") return true;
    if (w.empty() || w.back() == ',') return false;
    std::stringstream ss(w); std::string item;
    while (std::getline(ss, item, ',')) {
        Act a; if (!parse_act(item, a)) return false;
        if ((a.kind == 'x' || a.kind == 'y') && a.a == self) return false;   // deleting oneself inside one's own callback is outside the property
        out.push_back(a);
    }
    return true;
}

static void set_cb(int id) {
    objs[id].p->setCallback([id](short m) {
        std::cout << "F " << id << " " << m << " en=" << bits() << "\n";
        std::vector<Act> sc = objs[id].script;
        std::string rets;
        for (auto &a : sc) rets.push_back(apply(a) ? '1' : '0');
        std::cout << "E " << id << " rets=" << (rets.empty() ? "-" : rets) << " en=" << bits() << "\n";
    });
}

static void reset_all() {
    g_quiet = true; g_eintr = false; g_fail_add = false; g_fail_md = false;
    delete g_timer; g_timer = nullptr;
    for (auto &f : fns) { delete f.timer; f.timer = nullptr; }
    fns.clear();
    for (auto &o : objs) { FdEvent *p = o.p; o.p = nullptr; delete p; }
    objs.clear();
    for (int j = 0; j < kSlots; ++j) reopen_slot(kSlotNo[j]);
}

int main() {
    LogOutput_Disable();
    vt::enable(1000, 1700000000000LL);
    signal(SIGPIPE, SIG_IGN);
    std::cout << std::unitbuf;            // a sanitizer abort must not lose the lines already produced
    struct rlimit rl;
    if (getrlimit(RLIMIT_NOFILE, &rl) == 0 && rl.rlim_cur < 2048) { rl.rlim_cur = rl.rlim_max < 2048 ? rl.rlim_max : 2048; setrlimit(RLIMIT_NOFILE, &rl); }
    for (int j = 0; j < kSlots; ++j) reopen_slot(kSlotNo[j]);
    std::string kind = "epoll";
    bool eof = false, pending_pass = false;
    while (!eof) {
        loop = Loop::New(kind);
        g_quiet = false;
        if (!loop) { std::cerr << "no such engine " << kind << "\n"; return 4; }
        vh::LoopDriver drv(loop);
        drv.step = [&]() -> bool {
            if (pending_pass) { std::cout << "P en=" << bits() << "\n"; pending_pass = false; }
            std::string line;
            for (;;) {
                if (!std::getline(std::cin, line)) { reset_all(); eof = true; return false; }
                auto w = vh::words(line);
                if (w.empty()) continue;
                if (w[0] == "case") {
                    reset_all(); std::cout << line << "\n";
                    kind = "epoll"; return false;             // every case gets a fresh loop (max_loop_entries_ starts over)
                }
                if (w[0] == "be" && w.size() == 2 && (w[1] == "epoll" || w[1] == "select")) {
                    reset_all(); std::cout << "P be=" << w[1] << "\n";
                    kind = w[1]; return false;
                }
                if (w[0] == "cmp" && w.size() == 1) { std::cout << "P cmp\n"; continue; }
                if (w[0] == "pass" && w.size() == 1) { vt::advance_ms(1); want_k = true; pending_pass = true; return true; }
                if (w[0] == "eintr" && w.size() == 1 && !g_eintr) { g_eintr = true; std::cout << "P eintr\n"; continue; }
                if (w[0] == "fn" && w.size() == 2) {
                    int k = (int)fns.size();
                    std::vector<Act> sc;
                    if (k >= 16 || !parse_script(w[1], sc, -1)) { std::cout << "bad-op\n"; continue; }
                    Fn f; f.script = sc;
                    f.timer = loop->newTimerEvent("verif-fn");
                    f.timer->initialize(std::chrono::milliseconds(1), Event::Mode::kOneshot);
                    f.timer->setCallback([k] { run_fn("T", k); });
                    fns.push_back(f);
                    std::cout << "P fn=" << k << "\n";
                    continue;
                }
                if (w[0] == "tm" && w.size() == 1 && g_timer == nullptr) {
                    g_timer = loop->newTimerEvent("verif");
                    g_timer->initialize(std::chrono::milliseconds(1), Event::Mode::kPersist);
                    g_timer->setCallback([] { std::cout << "TM\n"; });
                    g_timer->enable();
                    std::cout << "P tm\n";
                    continue;
                }
                int nb = 0;
                if (w[0] == "bulk" && w.size() == 2 && num(w[1], nb, 201) && nb >= 1) {
                    // nb event objects initialised (never enabled) on nb further descriptor numbers, then all deleted:
                    // nb shared records live at once, then freed - more than the pool keeps parked when nb > 64
                    size_t base = objs.size();
                    for (int i = 0; i < nb; ++i) {
                        Obj o; o.p = loop->newFdEvent("verif-bulk");
                        o.p->initialize(600 + i, 0, Event::Mode::kPersist);
                        objs.push_back(o);
                    }
                    for (int i = 0; i < nb; ++i) { FdEvent *p = objs[base + i].p; objs[base + i].p = nullptr; delete p; }
                    std::cout << "P ret=1 en=" << bits() << "\n";
                    continue;
                }
                if (w[0] == "new" && w.size() == 2) {
                    int id = (int)objs.size();
                    std::vector<Act> sc;
                    if (id >= 64 || !parse_script(w[1], sc, id)) { std::cout << "bad-op\n"; continue; }
                    Obj o; g_measure = (g_ev_size == 0); o.p = loop->newFdEvent("verif"); g_measure = false; o.script = sc;
                    objs.push_back(o);
                    set_cb(id);
                    std::cout << "P ret=1 en=" << bits() << "\n";
                    continue;
                }
                if (w[0] == "do" && w.size() == 2) {
                    Act a;
                    if (!parse_act(w[1], a)) { std::cout << "bad-op\n"; continue; }
                    int r = apply(a);
                    std::cout << "P ret=" << (r ? 1 : 0) << " en=" << bits() << "\n";
                    continue;
                }
                std::cout << "bad-op\n";
            }
        };
        drv.run();
        delete loop; loop = nullptr;
    }
    return 0;
}
