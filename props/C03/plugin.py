"""C03 — fd events fire only when enabled and ready; mutation in callbacks is safe (epoll + select engines)."""
import hashlib, os, re
import vlib
ID = 'C03'
LEAN_MODULES = ['TboxModel.C03.Props']
EXE = 'c03'
MODE = 'trace'
THEOREMS = ['Tbox.C03.C03_only_enabled_ready', 'Tbox.C03.C03_same_open_file_partial', 'Tbox.C03.C03_same_open_file_counterexample',
            'Tbox.C03.C03_badf_pass_safe', 'Tbox.C03.exec_sync', 'Tbox.C03.C03_oneshot_disabled_in_cb', 'Tbox.C03.C03_no_stale_access',
            'Tbox.C03.C03_counts_match', 'Tbox.C03.C03_interest_agree', 'Tbox.C03.C03_backends_agree_partial',
            'Tbox.C03.C03_order_indep_syn', 'Tbox.C03.C03_backends_agree_syn_partial', 'Tbox.C03.orderIndepSyn_sound',
            'Tbox.C03.C03_close_contract',
            'Tbox.C03.exec_inv',
            'Tbox.C03.C03_select_at_counterexample', 'Tbox.C03.C03_epoll_stale_record_counterexample',
            'Tbox.C03.C03_epoll_reused_block_counterexample', 'Tbox.C03.C03_disabled_sibling_counterexample',
            'Tbox.C03.C03_destroyed_sibling_counterexample', 'Tbox.C03.C03_fd_reuse_counterexample',
            'Tbox.C03.C03_badf_partial_disable_counterexample', 'Tbox.C03.C03_except_backends_counterexample',
            # round 3: whole turns of runLoop() (wait -> due timers -> dispatch -> deferred batch), FD_SETSIZE
            'Tbox.C03.C03_loop_pass_is_pass', 'Tbox.C03.C03_scripts_make_no_callback', 'Tbox.C03.C03_backends_agree_loop_partial',
            'Tbox.C03.loopPass_order_indep', 'Tbox.C03.C03_late_snapshot_counterexample',
            'Tbox.C03.C03_select_sets_in_bounds', 'Tbox.C03.C03_select_rejects_high_fd',
            'Tbox.C03.C03_select_high_fd_asfound_counterexample', 'Tbox.C03.exec_evLim',
            'Tbox.C03.C03_failed_wait_is_a_turn', 'Tbox.C03.C03_select_errno_counterexample',
            # event-mask plumbing, over tables regenerated from the source (GenMask.lean)
            'Tbox.C03.C03_mask_tables', 'Tbox.C03.C03_epoll_report_table', 'Tbox.C03.C03_epoll_report_within_interest',
            'Tbox.C03.C03_epoll_request_roundtrip', 'Tbox.C03.C03_select_report_exact', 'Tbox.C03.C03_ready_within_interest',
            'Tbox.C03.C03_sibling_bits_counterexample', 'Tbox.C03.C03_mask_high_bits_inert',
            # round 4: kernel readiness under hang-up / error per engine, refused EPOLL_CTL_ADD, state-derived inputs
            'Tbox.C03.C03_report_is_kernel_then_tables', 'Tbox.C03.C03_report_bounds', 'Tbox.C03.C03_report_select_within_epoll',
            'Tbox.C03.C03_report_backends_counterexample', 'Tbox.C03.C03_hup_backends_counterexample',
            'Tbox.C03.C03_err_backends_counterexample', 'Tbox.C03.C03_hup_unmet_mask_spins', 'Tbox.C03.C03_kernel_conditions',
            'Tbox.C03.C03_ctl_kernel_within_wanted', 'Tbox.C03.C03_refused_add_unnoticed', 'Tbox.C03.C03_refused_add_dead_event',
            'Tbox.C03.C03_ctl_add_restores', 'Tbox.C03.enableEvF_inv', 'Tbox.C03.enableEvF_breach',
            'Tbox.C03.C03_init_while_enabled_refused', 'Tbox.C03.C03_enable_twice', 'Tbox.C03.C03_reinit_same_fd_mask_sets_mode',
            'Tbox.C03.C03_swap_keeps_counts', 'Tbox.C03.C03_pool_block_aba',
            # round 5: where exactly the engines' reports differ; different events called; event-object address reuse
            'Tbox.C03.C03_report_backends_agree_iff', 'Tbox.C03.C03_err_two_subscribers_counterexample',
            'Tbox.C03.C03_reborn_is_fresh', 'Tbox.C03.C03_event_address_aba', 'Tbox.C03.rebornEv_inv',
            # round 5: refused EPOLL_CTL_MOD / _DEL - the kernel's table lags; safety for ANY kernel answer
            'Tbox.C03.C03_any_kernel_answer_safe', 'Tbox.C03.C03_refused_mod_del_unnoticed', 'Tbox.C03.C03_lagging_kernel_example',
            'Tbox.C03.ctlLEv_inv']
SOURCES = vlib.EVENT_SOURCES + vlib.BASE_SOURCES
FLAVOUR = 'asan'
LIBS = ['-ldl']
EXTRA_FLAGS = ['-DDEFAULT_MAX_LOOP_ENTRIES=4']   # EpollLoop starts with room for 4 events per wait and grows by half: observable with 6 descriptors
BATCH = 150
MAX_REPORT = 12          # the corpus (run first) holds one witness per defect class; report each class once
SHRINK_TESTS = 60
TRUSTED = ['model lean/TboxModel/C03/Model.lean hand-written from engines/{epoll,select}/{loop,fd_event}.cpp + object_pool.hpp; the tie is the '
           'trace acceptor: kernel interest and ready list (seen by interposed epoll_ctl/epoll_wait/select) must be what the model says, and '
           'with that ready order every callback, script result and isEnabled() vector of the real loop must equal the model\'s',
           'Linux epoll/select semantics for socket pairs, pipes and a refused TCP connect (level-triggered; epoll: requested ∩ ready plus EPOLLERR/EPOLLHUP always; '
           'select: read set <- IN|HUP|ERR, write set <- OUT|ERR, except set <- PRI), written down as reportOf / condFd in the model and re-measured on the running kernel by '
           'every check (the K line of every wait must be what the model says that engine reports); ASan + pool poisoning hook H3 for raw memory safety',
           'libc interposition of epoll_ctl/epoll_wait/select and a virtual clock in the harness (props/C03/harness.cpp, harness/vtime.h); global operator new / delete replaced in the '
           'harness (malloc/free + a one-slot cache that hands the block of a just deleted event object to the next event object: script item y<e>)',
           'the kernel\'s own epoll table after refused EPOLL_CTL_MOD / _DEL (Driver/C03.lean realAfter) is acceptor code, not proved: it is compared with the interposer\'s record of the '
           'successful epoll_ctl calls at every wait, and with State.kern as long as nothing was refused',
           'the harness is compiled with -DDEFAULT_MAX_LOOP_ENTRIES=4 (default 256) so that the growth of the epoll_wait array is reached with 6 descriptors',
           'timer heap and deferred queue are not in the model state: which timers are due / which tasks are in the batch is an oracle input of Step.loop (theorems hold for '
           'every such input); the trace acceptor keeps both queues (1 ms one-shot timers on the virtual clock, run_next queue in posting order with the harness driver task in it) '
           'and accepts any firing order among equal deadlines',
           'event-mask tables (GenMask.lean) are regenerated on every run from the if-chains of reloadEpoll / OnEventCallback / fillFdSets by regular expressions in pre_lean; '
           'numeric values of the EPOLL* constants are those of <sys/epoll.h> (Linux ABI), FD_SETSIZE = 1024 (glibc)']
ASSUMPTIONS = ['an event object is not deleted from inside its own callback (the code asserts cb_level_ == 0)',
               'the theorem that a callback is on the same open file the kernel reported on assumes the close contract (no descriptor closed while an event object refers to it); everything else holds without it',
               'wait errors: EINTR (both engines, injected by the interposer) and EBADF (select, real) are covered; any other error makes the select loop terminate by design and is not injected; '
               'the loop is not re-entered from a callback',
               'epoll_ctl failures: those the kernel itself produces (ADD on a closed number: EBADF, MOD/DEL after the kernel dropped a closed file or after a refused ADD: ENOENT) and '
               'ENOMEM/ENOSPC/EPERM injected on EPOLL_CTL_ADD by the interposer for any enable() call the op file names (Act.enableF); EEXIST is proved impossible as long as no MOD/DEL '
               'is refused; round 5: ENOMEM/EINVAL/EIO injected on EPOLL_CTL_MOD / _DEL for any enable() / disable() the op file names (Act.ctlL): the loop does not notice, the kernel keeps '
               'its old entry (EEXIST on a later ADD happens then); in the theorems the kernel may answer ANYTHING in such turns (Step.loopLag, C03_any_kernel_answer_safe) and State.kern is the '
               'table the loop believes in; the table the kernel really holds is computed by the trace acceptor (Driver/C03.lean realAfter: Linux epoll_ctl semantics incl. EEXIST/ENOENT/EBADF) '
               'and checked against the interposed epoll_ctl results at every wait - that function is part of the tie, not of the proved model; while nothing was refused it must equal State.kern '
               '(checked at every wait). enable() ignores the result of epoll_ctl: the event reports enabled and is never reported until all '
               'subscribers of the descriptor were disabled and one is enabled again - safe for this property, a liveness loss the API does not report (C03_refused_add_dead_event)',
               'the ghost flag breach (hypothesis of the same-open-file and back-end-agreement theorems) is also set by every use of the fault injector',
               'except condition = out-of-band data on an AF_UNIX socket pair as this kernel reports it (POLLPRI; a drain discards it); hang-up / error conditions are those of '
               'peer close (with and without unread data), peer shutdown(SHUT_WR), pipe ends closed, refused connect; EPOLLRDHUP is never requested by the code, hence never reported',
               'back-end agreement is PROVED for ready descriptors without hang-up / error only (quietFd): elsewhere the engines report different masks (counterexample theorems; '
               'C03_report_backends_agree_iff says exactly where) and the check reports the finding',
               'heap-address ABA of event objects (round 5): a model event id IS the address; Act.reborn = delete + new landing on the same address (+ the same callback), in callbacks, timer '
               'callbacks, deferred tasks and at top level; the harness makes the allocator reuse the block (replaced operator new / delete with a one-slot cache, malloc/free underneath so '
               'that ASan still sees every block) - what a plain glibc malloc does for equal sizes and ASan\'s quarantine never does; a new object on a DIFFERENT address is the old case '
               '(destroy + another id). Other objects are created by top-level ops only',
               'back-end agreement (third sentence): `cmp` judges every order-independent pass, also with descriptors hung up / in error; there the engines differ - known finding '
               'backends-differ-hup-err (the statement has no premise excluding them), at most 3 such cases per run (2 corpus + 1 generated); passes in which the kernel table lags are not compared']
RULE = ('cases = events (scripts of enable/disable/destroy/initialize/close/readiness actions run inside their callbacks) on 1-6 socket pairs, '
        'API ops and loop passes on the real epoll or select loop; non-trivial = some pass served a shared descriptor or >= 2 ready descriptors '
        'while a callback destroyed/disabled/re-initialised events or reused a descriptor number (driver tags shared-fd, multi-ready, skip-*, '
        'loop-break, cb-destroy, cb-init, cb-fd-reuse), or a timer callback that ran between the wait and the dispatch of a ready descriptor destroyed events / reused a '
        'descriptor number / created a record (timer+ready with T-destroy, T-fd-reuse, T-new-record), or a descriptor in hang-up / error was reported with a mask beyond the '
        'subscription or meeting nobody, or a refused EPOLL_CTL_ADD left a dead registration, or a refused EPOLL_CTL_MOD / _DEL left the kernel reporting what nobody wants / a descriptor without record / missing what is '
        'wanted, or an event object reborn on the address of a deleted one was called / skipped in the same pass; distinct = distinct op text')


# values of <sys/epoll.h> (Linux ABI) and of the anonymous enum in modules/event/fd_event.h (read from the header below)
EPOLL_BITS = {'EPOLLIN': 0x1, 'EPOLLPRI': 0x2, 'EPOLLOUT': 0x4, 'EPOLLERR': 0x8, 'EPOLLHUP': 0x10, 'EPOLLRDHUP': 0x2000,
              'EPOLLRDNORM': 0x40, 'EPOLLRDBAND': 0x80, 'EPOLLWRNORM': 0x100, 'EPOLLWRBAND': 0x200, 'EPOLLMSG': 0x400}


def pre_lean(repo, lean):
    """regenerate GenMask.lean: the event-mask plumbing of both engines, transcribed from their if-chains
    (EpollFdEvent::reloadEpoll, EpollFdEvent::OnEventCallback, SelectLoop::fillFdSets, SelectFdEvent::OnEventCallback, ::onEvent)"""
    rd = lambda f: open(os.path.join(repo, f), encoding='utf-8').read()
    hdr, ep, sl, sf = rd('modules/event/fd_event.h'), rd('modules/event/engines/epoll/fd_event.cpp'), rd('modules/event/engines/select/loop.cpp'), rd('modules/event/engines/select/fd_event.cpp')
    tb = {n: int(v, 16) for n, v in re.findall(r'(k\w+Event)\s*=\s*(0x[0-9a-fA-F]+)', hdr)}
    if sorted(tb) != ['kExceptEvent', 'kReadEvent', 'kWriteEvent']: raise RuntimeError('fd_event.h: event enum not understood: %r' % tb)

    def body(src, sig):
        i = src.find(sig)
        if i < 0: raise RuntimeError('function %s not found' % sig)
        j = src.find('\n}\n', i)
        return src[i:j]
    def ebits(expr):
        v = 0
        for n in re.findall(r'EPOLL\w+', expr):
            if n not in EPOLL_BITS: raise RuntimeError('unknown epoll constant ' + n)
            v |= EPOLL_BITS[n]
        return v
    # what the counters ask the kernel for
    ask = [(tb['k%sEvent' % c.capitalize()], ebits(e)) for c, e in
           re.findall(r'if \(d_->(\w+)_event_num > 0\)\s*new_events \|= \(?([A-Z_| ]+)\)?;', body(ep, 'void EpollFdEvent::reloadEpoll()'))]
    # how reported kernel bits become tbox bits (every block must also clear the bit it handles)
    cb = body(ep, 'void EpollFdEvent::OnEventCallback(')
    rep = []
    for m in re.finditer(r'if \(events & (EPOLL\w+)\) \{(.*?)\n    \}', cb, re.S):
        blk = m.group(2)
        if ('events &= ~%s;' % m.group(1)) not in blk: raise RuntimeError('OnEventCallback: %s is not cleared' % m.group(1))
        t = re.findall(r'tbox_events \|= (k\w+Event);', blk)
        if len(t) != 1: raise RuntimeError('OnEventCallback: block of %s not understood' % m.group(1))
        rep.append((EPOLL_BITS[m.group(1)], tb[t[0]]))
    sel_ask = [(tb['k%sEvent' % c.capitalize()], {'read': 1, 'write': 2, 'except': 4}[st]) for c, st in
               re.findall(r'if \(data->(\w+)_event_num > 0\) \{\s*FD_SET\(fd, &(\w+)_set\);', body(sl, 'int SelectLoop::fillFdSets('))]
    sel_rep = [({'readable': 1, 'writable': 2, 'except': 4}[c], tb[t]) for c, t in
               re.findall(r'if \(is_(\w+)\)\s*tbox_events \|= (k\w+Event);', body(sf, 'void SelectFdEvent::OnEventCallback('))]
    guards = [bool(re.search(r'onEvent\(short events\)\s*\{\s*if \(events_ & events\) \{', x)) for x in (ep, sf)]
    if not (len(ask) == 3 and len(rep) >= 3 and len(sel_ask) == 3 and len(sel_rep) == 3): raise RuntimeError('mask chains not understood')
    fmt = lambda l: '[' + ', '.join('(%d, %d)' % x for x in l) + ']'
    text = ('/- GENERATED by props/C03/plugin.py pre_lean from modules/event/fd_event.h, engines/epoll/fd_event.cpp,\n'
            '   engines/select/{loop,fd_event}.cpp — do not edit.  Event-mask plumbing of both engines as (from, to) pairs in source\n'
            '   order; epoll bits are the <sys/epoll.h> values (IN 1, PRI 2, OUT 4, ERR 8, HUP 16), select sets are 1 read, 2 write,\n'
            '   4 except; tbox bits are the values of kReadEvent/kWriteEvent/kExceptEvent read from fd_event.h. -/\n'
            'namespace Tbox.C03.Gen\n\n'
            '/-- `reloadEpoll`: (tbox bit whose counter is positive, epoll bits requested for it) -/\n'
            'def epollAsk : List (Nat × Nat) := %s\n\n'
            '/-- `EpollFdEvent::OnEventCallback`: (epoll bit reported and cleared, tbox bit set) -/\n'
            'def epollReport : List (Nat × Nat) := %s\n\n'
            '/-- `fillFdSets`: (tbox bit whose counter is positive, fd_set the descriptor is put into) -/\n'
            'def selectAsk : List (Nat × Nat) := %s\n\n'
            '/-- `SelectFdEvent::OnEventCallback`: (fd_set the descriptor was found in, tbox bit set) -/\n'
            'def selectReport : List (Nat × Nat) := %s\n\n'
            '/-- `onEvent` of both engines calls the user only under `if (events_ & events)` -/\n'
            'def onEventGuarded : Bool := %s\n\n'
            'def tboxBits : List Nat := %s\n\n'
            'end Tbox.C03.Gen\n' % (fmt(ask), fmt(rep), fmt(sel_ask), fmt(sel_rep), 'true' if all(guards) else 'false',
                                       '[%d, %d, %d]' % (tb['kReadEvent'], tb['kWriteEvent'], tb['kExceptEvent'])))
    path = os.path.join(lean, 'TboxModel/C03/GenMask.lean')
    old = open(path, encoding='utf-8').read() if os.path.exists(path) else None
    if old != text:
        with open(path, 'w', encoding='utf-8') as fh:
            fh.write(text)


NFN = [0]      # number of callables of the case being generated (script items t<k> / n<k> refer to them)


def _act(rng, nev, nfd, self_id, spare):
    """one script action"""
    k = rng.randrange(nev + (1 if rng.random() < 0.05 else 0))
    f = rng.randrange(nfd)
    if NFN[0] and rng.random() < 0.12:
        return rng.choice('tn') + str(rng.randrange(NFN[0] + (1 if rng.random() < 0.1 else 0)))
    r = rng.random()
    if r < 0.03: return 'E%d' % k
    if r < 0.05 and k != self_id: return 'y%d' % k
    if r < 0.075: return rng.choice('DM') + str(k)
    if r < 0.06: return rng.choice('hhs') + str(f)
    if r < 0.22: return 'd%d' % k
    if r < 0.36: return 'e%d' % k
    if r < 0.56: return ('x%d' % k) if k != self_id else ('d%d' % k)
    if r < 0.70:
        j = rng.choice(spare) if spare and rng.random() < 0.7 else k
        return 'i%d:%d:%d:%s' % (j, f, rng.choice([1, 1, 1, 2, 3, 3, 5, 7, 0]), rng.choice('ppo'))
    if r < 0.77: return 'c%d' % f
    if r < 0.80: return 'k%d' % f
    if r < 0.87: return 'u%d' % f
    if r < 0.92: return 'r%d' % f
    if r < 0.95: return 'o%d' % f
    if r < 0.975: return 'b%d' % f
    return 'w%d' % f


def gen_case(rng, nops):
    be = rng.choice(['epoll', 'select'])
    nfd = rng.choice([1, 2, 2, 3, 3, 4, 6, 6, 8, 9])     # 7-9 descriptors: the pipe ends (6, 7) and the refused connection (8) take part
    plan = []                                    # (fd, mask, mode) per initialised event
    for f in range(nfd):
        for _ in range(rng.choice([1, 1, 2, 2, 3, 4])):
            # `short events` is stored in a uint32_t: bits above the three conditions (also the sign bit: 0x8000.. = negative short) are inert
            hi = rng.choice([0, 0, 0, 0, 0, 0, 8, 0x7ff8, 0x8000, 0xfff8])
            plan.append((f, hi + rng.choice([1, 1, 1, 1, 2, 3, 3, 5] + ([0] if hi else [])), rng.choice('pppo')))
    rng.shuffle(plan)
    nspare = rng.choice([0, 1, 2, 3])
    nev = len(plan) + nspare
    spare = list(range(len(plan), nev))
    ops = ['be ' + be] + (['tm'] if rng.random() < 0.3 else [])
    NFN[0] = rng.choice([0, 0, 1, 2, 3])
    for j in range(NFN[0]):              # callables: scripts run by one-shot timers (t<k>) and deferred tasks (n<k>)
        sc = []
        for _ in range(rng.choice([0, 1, 2, 3, 4])):
            a = _act(rng, nev, nfd, -1, spare)
            # at most one post per callable: two would double the deferred queue in every turn (2^turns tasks)
            if a[0] == 'n' and any(x[0] == 'n' for x in sc): a = 't' + a[1:]
            sc.append(a)
            if a[0] == 'i' and rng.random() < 0.8: sc.append('e' + a[1:].split(':')[0])
        ops.append('fn ' + (','.join(sc) or '-'))
    for j in range(nev):
        n = rng.choice([0, 0, 1, 1, 2, 3, 4])
        sc = []
        for _ in range(n):
            a = _act(rng, nev, nfd, j, spare)
            sc.append(a)
            if a[0] == 'i' and rng.random() < 0.8: sc.append('e' + a[1:].split(':')[0])
        ops.append('new ' + (','.join(sc) or '-'))
    for j, (f, m, mode) in enumerate(plan):
        ops.append('do i%d:%d:%d:%s' % (j, f, m, mode))
        if rng.random() < 0.88: ops.append('do e%d' % j)
    for f in range(nfd):
        if rng.random() < 0.5: ops.append('do b%d' % f)       # otherwise every write subscriber fires in every pass
        if rng.random() < 0.75: ops.append('do r%d' % f)
    ops.append('pass')
    for k in range(NFN[0]):
        if rng.random() < 0.6: ops.append('do %s%d' % (rng.choice('ttn'), k))
    for _ in range(nops):
        r = rng.random()
        if r < 0.45: ops += (['eintr'] if rng.random() < 0.04 else []) + ['pass']
        elif NFN[0] and r < 0.52: ops.append('do %s%d' % (rng.choice('ttn'), rng.randrange(NFN[0])))
        elif r < 0.62: ops.append('do ' + rng.choice('rururuwbockhs') + str(rng.randrange(nfd)))
        else: ops.append('do ' + _act(rng, nev, nfd, -1, spare))
    if ops[-1] != 'pass': ops.append('pass')
    NFN[0] = 0
    return ops


def gen_turn(rng):
    """directed: a timer is due in the same turn as one or more ready descriptors (handleExpiredTimers runs between the wait and
    the dispatch); its script destroys the events of a ready descriptor, closes the descriptor, reopens the number and enables a
    fresh event on it - or a milder variant (no close: the same open file gets a new record; only disable; re-home).  The same
    scripts also run as deferred tasks (after the dispatch) and descriptor callbacks arm / post them for the next turn."""
    be = rng.choice(['epoll', 'select'])
    nfd = rng.choice([1, 1, 2, 2, 3])
    per = [rng.choice([1, 1, 2]) for _ in range(nfd)]
    ids, k = [], 0
    for f in range(nfd):
        ids.append(list(range(k, k + per[f]))); k += per[f]
    spare = [k, k + 1]
    nev = k + 2

    def reuse(g, sp):
        how = rng.random()
        vict = ids[g]
        m = rng.choice([1, 1, 1, 3, 2])
        if how < 0.45:   return ['x%d' % v for v in vict] + ['c%d' % g, 'i%d:%d:%d:%s' % (sp, g, m, rng.choice('ppo')), 'e%d' % sp]
        if how < 0.60:   return ['x%d' % v for v in vict] + ['i%d:%d:%d:p' % (sp, g, m), 'e%d' % sp]               # same open file, new record
        if how < 0.70:   return ['d%d' % v for v in vict] + ['c%d' % g] + ['e%d' % v for v in vict]                  # close while referenced (disabled)
        if how < 0.80:   return ['d%d' % v for v in vict] + ['i%d:%d:1:p' % (v, rng.randrange(nfd)) for v in vict] + ['e%d' % v for v in vict]
        if how < 0.90:   return ['x%d' % v for v in vict] + ['k%d' % g, 'c%d' % g, 'i%d:%d:%d:p' % (sp, g, m), 'e%d' % sp, 'r%d' % g]
        return ['d%d' % v for v in vict[:1]] + ['u%d' % g]
    g0 = rng.randrange(nfd)
    fn = [reuse(g0, spare[0]), reuse(rng.randrange(nfd), spare[1]), [rng.choice(['t0', 'n0', 'n1', 't1'])] + (['e%d' % spare[0]] if rng.random() < 0.5 else [])]
    if rng.random() < 0.3: fn[0] += [rng.choice(['n1', 't1', 'n2', 't0'])]
    ops = ['be ' + be] + ['fn ' + ','.join(x) for x in fn]
    for j in range(nev):
        r = rng.random()
        ops.append('new ' + ('-' if r < 0.5 else rng.choice(['t0', 'n0', 'n1', 't1', 'n2', 'u%d' % rng.randrange(nfd), 't0,n1'])))
    for f in range(nfd):
        for j in ids[f]:
            ops += ['do i%d:%d:%d:%s' % (j, f, rng.choice([1, 1, 3, 5]), rng.choice('pppo')), 'do e%d' % j]
        if rng.random() < 0.7: ops.append('do b%d' % f)
    order = list(range(nfd)); rng.shuffle(order)
    ops += ['do r%d' % f for f in order if rng.random() < 0.9]
    ops += ['do ' + rng.choice(['t0', 't0', 't0', 'n0', 't1', 't0', 't2'])]
    if rng.random() < 0.3: ops += ['do ' + rng.choice(['t1', 'n1', 'n0'])]
    ops += ['pass', 'pass']
    for _ in range(rng.choice([0, 1, 2, 3])):
        ops += rng.choice([['do r%d' % rng.randrange(nfd)], ['do t%d' % rng.randrange(3)], ['do n%d' % rng.randrange(3)], ['eintr'], []]) + ['pass']
    return ops


def gen_high(rng):
    """directed: descriptors 1023 and 1024 (FD_SETSIZE - 1 and FD_SETSIZE): epoll serves both, select must refuse 1024 in
    initialize() and never put it into its fd_sets; an event refused there stays what it was"""
    be = rng.choice(['select', 'select', 'epoll'])
    hi = rng.choice([1024, 1024, 1023])
    ops = ['be ' + be, 'fn i2:%d:1:p,e2' % hi, 'new ' + rng.choice(['-', 'u%d' % hi, 'i2:%d:1:p,e2' % hi, 'd1,i1:%d:3:p,e1' % hi]), 'new -', 'new -']
    ops += ['do i0:%d:%d:%s' % (rng.choice([hi, hi, 0, 1023]), rng.choice([1, 3, 5]), rng.choice('ppo')), 'do e0']
    ops += ['do i1:%d:1:p' % rng.choice([0, 1023, 1]), 'do e1']
    if rng.random() < 0.5: ops += ['do d1', 'do i1:%d:3:p' % hi, 'do e1']
    ops += ['do b%d' % hi] if rng.random() < 0.6 else []
    ops += ['do r%d' % hi, 'do r1023', 'do r0', 'do ' + rng.choice(['t0', 'n0', 'r1'])]
    ops += ['pass', 'pass', 'do x0', 'do c%d' % hi, 'do i2:%d:1:p' % hi, 'do e2', 'do r%d' % hi, 'pass']
    return ops


def gen_cross(rng):
    """directed: >= 2 descriptors ready in one pass; the callbacks of one destroy / disable / re-home the events of the others,
    optionally close + reopen the descriptor and put a fresh event on the reused number"""
    be = rng.choice(['epoll', 'select'])
    nfd = rng.choice([2, 2, 3, 4])
    per = [rng.choice([1, 1, 2]) for _ in range(nfd)]
    ids, k = [], 0
    for f in range(nfd):
        ids.append(list(range(k, k + per[f]))); k += per[f]
    spare = k
    nev = k + 1
    ops = ['be ' + be]
    scripts = [[] for _ in range(nev)]
    for f in range(nfd):
        for j in ids[f]:
            g = rng.choice([x for x in range(nfd) if x != f]) if rng.random() < 0.8 else f
            mode = rng.random()
            sc = []
            victims = [v for v in ids[g] if v != j]
            if mode < 0.35:
                sc += ['x%d' % v for v in victims]
            elif mode < 0.5:
                sc += ['d%d' % v for v in victims]
            elif mode < 0.8:
                sc += ['x%d' % v for v in victims] + ['c%d' % g, 'i%d:%d:%d:p' % (spare, g, rng.choice([1, 1, 3])), 'e%d' % spare]
            else:
                sc += ['d%d' % v for v in victims] + ['i%d:%d:1:p' % (v, rng.randrange(nfd)) for v in victims[:1]] + ['e%d' % v for v in victims[:1]]
            if rng.random() < 0.3: sc.append('u%d' % f)
            scripts[j] = sc
    for j in range(nev):
        ops.append('new ' + (','.join(scripts[j]) or '-'))
    for f in range(nfd):
        for j in ids[f]:
            ops.append('do i%d:%d:%d:%s' % (j, f, rng.choice([1, 1, 3, 5]), rng.choice('ppo')))
            ops.append('do e%d' % j)
        ops.append('do b%d' % f) if rng.random() < 0.7 else None
        ops.append('do o%d' % f) if rng.random() < 0.15 else None
    ops = [o for o in ops if o]
    order = list(range(nfd)); rng.shuffle(order)
    for f in order:
        ops.append('do r%d' % f)
    ops += ['pass', 'pass']
    if rng.random() < 0.5:
        ops += ['do r%d' % rng.randrange(nfd), 'pass']
    return ops


def gen_rehome(rng):
    """directed: the shared record of a descriptor disappears (or is replaced) while its own dispatch loop runs: the running
    event moves itself to another descriptor and destroys/moves its siblings, optionally reusing the descriptor number"""
    be = rng.choice(['epoll', 'select'])
    nsib = rng.choice([1, 2, 3])
    spare = nsib + 1
    sc = ['d0', 'i0:1:%d:p' % rng.choice([1, 3])]
    for v in range(1, nsib + 1):
        sc.append(rng.choice(['x%d' % v, 'x%d' % v, 'd%d,i%d:2:1:p' % (v, v)]))
    if rng.random() < 0.6: sc += ['c0', 'i%d:0:1:%s' % (spare, rng.choice('po')), 'e%d' % spare]
    if rng.random() < 0.5: sc.append('e0')
    rng.shuffle(sc) if rng.random() < 0.2 else None
    ops = ['be ' + be, 'new ' + ','.join(sc)] + ['new ' + rng.choice(['-', 'd0', 'u0', 'x0'])] * nsib + ['new -']
    order = list(range(nsib + 1)); rng.shuffle(order)
    for j in order:
        ops += ['do i%d:0:%d:%s' % (j, rng.choice([1, 3]), rng.choice('ppo')), 'do e%d' % j]
    ops += ['do b0', 'do r0', 'do r1', 'pass', 'pass', 'do r0', 'pass']
    return ops


def gen_agree(rng):
    """family satisfying OrderIndepSyn in every pass: callbacks only enable/disable events of their own descriptor and change
    the readiness of their own descriptor; the same ops run on epoll and then on select, `cmp` compares the callbacks pass by pass"""
    nfd = rng.choice([2, 2, 3, 4, 5])
    groups, k = [], 0
    for f in range(nfd):
        n = rng.choice([1, 1, 2, 3])
        groups.append(list(range(k, k + n))); k += n
    body = []
    for f in range(nfd):
        for j in groups[f]:
            sc = []
            for _ in range(rng.choice([0, 1, 1, 2, 3])):
                x = rng.choice(groups[f])
                sc.append(rng.choice(['d%d' % x, 'd%d' % x, 'e%d' % x, 'u%d' % f, 'u%d' % f, 'r%d' % f, 'o%d' % f, 'b%d' % f, 'w%d' % f]))
            body.append('new ' + (','.join(sc) or '-'))
    for f in range(nfd):
        for j in groups[f]:
            body.append('do i%d:%d:%d:%s' % (j, f, rng.choice([1, 1, 1, 3, 5, 2, 7]), rng.choice('pppo')))
            if rng.random() < 0.9: body.append('do e%d' % j)
        if rng.random() < 0.6: body.append('do b%d' % f)
    order = list(range(nfd)); rng.shuffle(order)          # epoll lists ready descriptors in the order they became ready
    for f in order:
        body.append('do ' + rng.choice(['r', 'r', 'r', 'o']) + str(f))
    body.append('pass')
    for _ in range(rng.choice([1, 2, 4, 6])):
        r = rng.random()
        if r < 0.5: body.append('pass')
        elif r < 0.8: body.append('do ' + rng.choice('ruowb') + str(rng.randrange(nfd)))
        else: body.append('do ' + rng.choice('ed') + str(rng.randrange(k)))
    body.append('pass')
    return ['be epoll'] + body + ['be select'] + body + ['cmp']


def gen_wide(rng):
    """directed: all six descriptors ready at once, repeatedly: epoll_wait fills its 4-entry array, the loop grows it by half;
    a 1 ms timer is armed: its callback must come between the wait and the descriptor callbacks"""
    be = rng.choice(['epoll', 'epoll', 'select'])
    ops = ['be ' + be, 'tm']
    for j in range(6): ops.append('new ' + rng.choice(['-', '-', 'u%d' % j, 'd%d' % j, 'x%d' % ((j + 1) % 6)]))
    for j in range(6): ops += ['do i%d:%d:%d:p' % (j, j, rng.choice([1, 3])), 'do e%d' % j]
    order = list(range(6)); rng.shuffle(order)
    ops += ['do b%d' % j for j in range(6) if rng.random() < 0.7]
    ops += ['do r%d' % j for j in order]
    ops += ['pass'] * rng.choice([2, 3, 4, 5])
    ops += ['do r%d' % j for j in order] + ['pass', 'pass']
    return ops


def gen_badf(rng):
    """directed: a descriptor is closed (number left unused, or reopened) while events still refer to it — outside or inside a
    callback; select must take the EBADF path (removeInvalidFds), epoll silently loses the registration"""
    be = rng.choice(['select', 'select', 'epoll'])
    n0 = rng.choice([1, 2, 3, 3, 4, 5])
    n1 = rng.choice([1, 2])
    how = rng.choice(['k0', 'k0', 'c0', 'k0,c0'])
    incb = rng.random() < 0.5
    ops = ['be ' + be]
    for j in range(n0): ops.append('new ' + rng.choice(['-', '-', 'u0', 'd%d' % rng.randrange(n0)]))
    for j in range(n1): ops.append('new ' + ((how + rng.choice(['', ',u1'])) if incb and j == 0 else rng.choice(['-', 'u1'])))
    for j in range(n0): ops += ['do i%d:0:%d:%s' % (j, rng.choice([1, 1, 3, 5]), rng.choice('pppo'))] + (['do e%d' % j] if rng.random() < 0.9 else [])
    for j in range(n1): ops += ['do i%d:1:1:p' % (n0 + j), 'do e%d' % (n0 + j)]
    ops += ['do b0', 'do b1', 'do r0', 'do r1']
    if not incb: ops += ['do ' + a for a in how.split(',')]
    if rng.random() < 0.3: ops += ['do k1']                   # several invalid descriptors in one EBADF turn
    # a timer due in the EBADF turn runs BEFORE removeInvalidFds looks at the descriptors: it may reopen the number (then the
    # events stay enabled), close another one, or make failing system calls (errno must have been saved)
    if rng.random() < 0.5:
        ops.insert(1, 'fn ' + rng.choice(['c0', 'c0,u0', 'k1', 'u1,b1', 'c0,d0,e0', 'x0', 'k0']))
        ops += ['do t0']
    ops += ['pass', 'pass', 'pass']
    ops += rng.choice([['do c0'], ['do c0', 'do e0'], ['do d0', 'do c0', 'do e0'], []]) + ['do r0', 'pass']
    ops += ['do d%d' % j for j in range(n0) if rng.random() < 0.5] + ['do e%d' % j for j in range(n0) if rng.random() < 0.7] + ['do r0', 'pass', 'pass']
    return ops


def gen_hup(rng):
    """directed (round 4): hang-up / error conditions produced at run time - the peer end of a socket pair is closed (with the send
    buffer empty or full: ECONNRESET), the peer shuts down its write side, the writer of a pipe (6) / the reader of a pipe (7) goes
    away, a refused connect (8) - under every interest mask, on both engines, from outside and from inside callbacks; the kernel's
    report (K line) must be what the kernel model says for THAT engine, the callbacks what the model derives from it"""
    be = rng.choice(['epoll', 'select'])
    fds = rng.sample([0, 1, 2, 6, 7, 8], rng.choice([1, 2, 2, 3, 4]))
    evs, ops = [], ['be ' + be]
    for f in fds:
        for _ in range(rng.choice([1, 1, 2, 3])):
            evs.append((f, rng.choice([1, 2, 4, 3, 5, 6, 7, 2, 1]), rng.choice('pppo')))
    n = len(evs)
    def cond(f): return rng.choice(['h%d' % f, 'h%d' % f, 's%d' % f, 'b%d,h%d' % (f, f), 's%d,h%d' % (f, f), 'r%d,h%d' % (f, f), 'o%d,h%d' % (f, f)])
    for j, (f, m, mode) in enumerate(evs):
        r = rng.random()
        g = rng.choice(fds)
        sc = '-' if r < 0.45 else rng.choice([cond(g), 'u%d' % f, 'd%d' % j, 'd%d,e%d' % (j, j), 'c%d' % g if rng.random() < 0.3 else 'u%d' % g,
                                               'd%d' % rng.randrange(n), cond(f) + ',d%d' % j, 'h%d,u%d' % (g, g)])
        ops.append('new ' + sc)
    for j, (f, m, mode) in enumerate(evs):
        ops += ['do i%d:%d:%d:%s' % (j, f, m, mode)] + (['do e%d' % j] if rng.random() < 0.93 else [])
    for f in fds:
        if rng.random() < 0.5: ops.append('do b%d' % f)
        if rng.random() < 0.4: ops.append('do r%d' % f)
    if rng.random() < 0.4: ops.append('pass')
    for f in fds:
        if rng.random() < 0.75: ops += ['do ' + x for x in cond(f).split(',')]
    ops += ['pass', 'pass']
    for _ in range(rng.choice([0, 1, 2, 4])):
        f = rng.choice(fds)
        ops += rng.choice([['do u%d' % f], ['do w%d' % f], ['do h%d' % f], ['do s%d' % f], ['do c%d' % f, 'do r%d' % f],
                           ['do d%d' % rng.randrange(n)], ['do e%d' % rng.randrange(n)], ['do k%d' % f], []]) + ['pass']
    return ops


def _report(be, m, a, hup, err):
    """Model.reportOf: what each engine hands to OnEventCallback (tbox bits)"""
    if be == 'epoll': x = 0 if m == 0 else ((1 if hup else 0) | (4 if err else 0))
    else: x = (1 if (m & 1) and (hup or err) else 0) | (2 if (m & 2) and err else 0)
    return (m & a) | x


def _hup_cmp_body(rng):
    """one persistent event (mask m, empty script) on descriptor f, a second one on descriptor 2; a run-time condition on f between
    two passes.  Returns (body, diverges): the generator's own small copy of condFd / reportOf predicts whether the two engines make
    different callbacks in some pass (the driver's `cmp` is the judge; a wrong prediction shows up as a report, never as silence)"""
    f = rng.choice([0, 1, 6, 7, 8])
    m = rng.choice([1, 2, 3, 4, 6, 5, 7])
    k = 1 if f == 6 else 2 if f == 7 else 3 if f == 8 else 0
    st = dict(rd=(k == 3), wr=(k != 1), er=(k == 3), hu=(k == 3), eo=(k == 3), go=(k == 3))
    pre = rng.choice([[], [], ['b%d' % f], ['r%d' % f], ['b%d' % f, 'r%d' % f]])
    mid = rng.choice([['h%d' % f], ['h%d' % f], ['s%d' % f], ['h2'], ['r%d' % f], ['s%d' % f, 'h%d' % f]])
    div = [False]
    def look():
        a = (1 if st['rd'] else 0) | (2 if st['wr'] else 0)
        re_, rs_ = _report('epoll', m, a, st['hu'], st['er']), _report('select', m, a, st['hu'], st['er'])
        if (re_ if m & re_ else 0) != (rs_ if m & rs_ else 0): div[0] = True
    def do(op):
        c = op[0]
        if int(op[1:]) != f: return
        if c == 'r' and not (st['eo'] or st['go'] or k == 2): st['rd'] = True
        elif c == 'b' and not (st['go'] or k == 1): st['wr'] = False
        elif c == 'h' and not st['go']:
            if k == 0: st.update(er=st['er'] or not st['wr'], rd=True, wr=True, hu=True, eo=True, go=True)
            elif k == 1: st.update(hu=True, go=True)
            else: st.update(er=True, go=True)
        elif c == 's' and k == 0 and not st['eo'] and not st['go']: st.update(rd=True, eo=True)
    body = ['new -', 'new -', 'do i0:%d:%d:p' % (f, m), 'do e0', 'do i1:2:1:p', 'do e1', 'do r2']
    for o in pre: do(o); body.append('do ' + o)
    look(); body.append('pass')
    for o in mid: do(o); body.append('do ' + o)
    look(); body += ['pass', 'pass']
    return body, div[0]


def gen_hup_cmp(rng, diverge=False):
    """the same hang-up / error scenario on epoll and then on select; `cmp` judges every order-independent pass, also where a
    descriptor is hung up / in error (round 5: the statement's third sentence has no premise that excludes them).  The random family
    keeps to the scenarios in which the engines make the same callbacks although their kernel reports differ (read subscribers on a
    hung-up peer, masks that meet nothing); `diverge=True` yields one in which they do not (finding backends-differ-hup-err: at most
    three such cases per run, two in the corpus and one here, so that the finding does not crowd out the report slots)"""
    while True:
        body, d = _hup_cmp_body(rng)
        if d == diverge: return ['be epoll'] + body + ['be select'] + body + ['cmp']


def gen_ctl(rng):
    """directed (round 4): EPOLL_CTL_ADD refused by the kernel (E<e>: ENOMEM / ENOSPC / EPERM in turn) - for the first subscriber of
    a descriptor, then a second subscriber (its MOD fails with ENOENT), disable-all + enable (recovery), refused again, from
    inside callbacks, combined with close / reopen of the number; on select the same ops must behave like plain enables"""
    be = rng.choice(['epoll', 'epoll', 'epoll', 'select'])
    nfd = rng.choice([1, 2, 2])
    ops = ['be ' + be]
    n = 2 * nfd + 1
    sc = [rng.choice(['-', '-', 'E%d' % rng.randrange(n), 'd%d,E%d' % (j, j), 'd%d,e%d' % (j, j), 'd%d' % rng.randrange(n),
                      'x%d,E%d' % ((j + 1) % n, (j + 2) % n)]) for j in range(n)]
    ops += ['new ' + s for s in sc]
    for j in range(n - 1):
        ops.append('do i%d:%d:%d:%s' % (j, j % nfd, rng.choice([1, 1, 3, 2, 5]), rng.choice('ppo')))
    ops.append('do i%d:0:%d:p' % (n - 1, rng.choice([1, 0, 8, 3])))          # mask 0 / 8: enable() issues no ADD at all
    order = list(range(n)); rng.shuffle(order)
    for j in order:
        ops.append('do %s%d' % (rng.choice('EEe'), j))
    ops += ['do b%d' % f for f in range(nfd) if rng.random() < 0.6]
    ops += ['do r%d' % f for f in range(nfd)] + ['pass']
    for _ in range(rng.choice([2, 4, 6, 9])):
        j = rng.randrange(n)
        ops += rng.choice([['do d%d' % j], ['do e%d' % j], ['do E%d' % j], ['do d%d' % j, 'do E%d' % j], ['do d%d' % j, 'do e%d' % j],
                           ['do d%d' % k for k in range(n)], ['do c0', 'do r0'], ['do x%d' % j], ['do r%d' % rng.randrange(nfd)], ['pass']])
        if rng.random() < 0.5: ops.append('pass')
    ops.append('pass')
    return ops


def gen_state(rng):
    """directed (round 4, lesson g): inputs equal to the state an object caches, and member swaps that keep every count -
    initialize() again with THE SAME descriptor and mask (enabled: refused; disabled: the mode still takes effect), enable() twice,
    two events with equal masks on one descriptor one of them one-shot, an event put on a descriptor number closed and reopened in the
    same callback, and inside a callback: disable one not-yet-served sibling + enable a spare one (same vector length, same counters,
    same kernel mask), the same across two descriptors, delete + initialise elsewhere so that the freed record's pool block is reused"""
    be = rng.choice(['epoll', 'select'])
    how = rng.choice(['swap', 'swap', 'swap2', 'aba', 'reinit', 'twice', 'reuse', 'mix'])
    m = rng.choice([1, 1, 3, 2])
    ops = ['be ' + be]
    if how == 'swap':
        # events 0..k-1 enabled on descriptor 0, k..k+1 spare (initialised on 0, disabled); the callback of event c swaps v out, a spare in
        k = rng.choice([2, 3, 4])
        c = rng.randrange(k); v = rng.choice([x for x in range(k) if x != c])
        kind = rng.choice(['d', 'd', 'x'])
        sc = ['%s%d' % (kind, v), 'e%d' % k] + (['d%d' % (k + 1)] if rng.random() < 0.3 else [])
        if rng.random() < 0.3: sc = ['e%d' % k, '%s%d' % (kind, v)]
        for j in range(k + 2): ops.append('new ' + (','.join(sc) if j == c else rng.choice(['-', '-', 'u0'])))
        for j in range(k + 2): ops.append('do i%d:0:%d:%s' % (j, m, 'o' if (j == v and rng.random() < 0.4) else 'p'))
        order = list(range(k)); rng.shuffle(order)
        ops += ['do e%d' % j for j in order] + ['do b0', 'do r0', 'pass', 'pass', 'do r0', 'pass']
    elif how == 'swap2':
        # two ready descriptors: the callback on one disables/deletes an event of the other and enables a spare there (or here)
        sc = [rng.choice(['d2', 'x2']), rng.choice(['e3', 'e4'])]
        ops += ['new ' + ','.join(sc), 'new -', 'new ' + rng.choice(['-', 'd0,e4']), 'new -', 'new -']
        ops += ['do i0:0:%d:p' % m, 'do i1:0:%d:o' % m, 'do i2:1:%d:p' % m, 'do i3:1:%d:p' % m, 'do i4:0:%d:p' % m,
                'do e0', 'do e1', 'do e2', 'do b0', 'do b1'] + rng.choice([['do r0', 'do r1'], ['do r1', 'do r0']]) + ['pass', 'pass']
    elif how == 'aba':
        # the freed record of descriptor 1 and the new record of descriptor g share a pool block (g = 1: same descriptor, same block)
        g = rng.choice([1, 2, 2, 0])
        ops += ['new x1,i2:%d:%d:p,e2' % (g, m) + rng.choice(['', ',r%d' % g]), 'new x0,i2:%d:%d:p,e2' % (g, m), 'new -',
                'do i0:0:%d:p' % m, 'do i1:1:%d:p' % m, 'do e0', 'do e1', 'do b0', 'do b1', 'do b2', 'do r0', 'do r1', 'do r2', 'pass', 'pass', 'pass']
    elif how == 'reinit':
        mode2 = rng.choice('op')
        ops += ['new ' + rng.choice(['-', 'i0:0:%d:%s' % (m, mode2), 'd0,i0:0:%d:%s,e0' % (m, mode2)]), 'new -',
                'do i0:0:%d:p' % m, 'do i0:0:%d:%s' % (m, mode2), 'do e0', 'do i0:0:%d:o' % m, 'do i0:1:%d:p' % m, 'do b0', 'do r0', 'pass', 'pass',
                'do d0', 'do i0:0:%d:%s' % (m, rng.choice('op')), 'do e0', 'do r0', 'pass', 'pass', 'do e0', 'do r0', 'pass',
                'do d0', 'do i0:0:%d:p' % rng.choice([m, m ^ 3, 0]), 'do e0', 'pass']
    elif how == 'twice':
        ops += ['new e0,e1,e0', 'new e1', 'do i0:0:%d:p' % m, 'do i1:0:%d:%s' % (m, rng.choice('op')), 'do e0', 'do e0', 'do e1', 'do e1', 'do b0', 'do r0',
                'pass', 'do d0', 'do d0', 'pass', 'do e0', 'do e0', 'do d0', 'pass', 'do d1', 'do d1', 'pass']
    elif how == 'reuse':
        # an event created on the number that was closed and reopened within the same callback (and read-ready at once)
        ops += ['new x1,c1,i2:1:%d:p,e2,r1' % m, 'new -', 'new -', 'do i0:0:1:p', 'do i1:1:%d:p' % m, 'do e0', 'do e1', 'do b1', 'do r0', 'do r1',
                'pass', 'pass', 'do u1', 'pass']
    else:
        # equal masks on one descriptor, one of them one-shot, re-enabled by the persistent sibling's callback
        ops += ['new e1', 'new -', 'new d0,e0', 'do i0:0:%d:p' % m, 'do i1:0:%d:o' % m, 'do i2:0:%d:p' % m, 'do e0', 'do e1', 'do e2', 'do b0', 'do r0',
                'pass', 'pass', 'pass']
    return ops


def gen_lag(rng):
    """directed (round 5, lesson b): EPOLL_CTL_MOD / EPOLL_CTL_DEL refused by the kernel (`D<e>` = disable(), `M<e>` = enable() whose MOD / DEL
    fails with ENOMEM / EINVAL / EIO in turn) - the kernel keeps the old mask: it reports conditions nobody wants any more (callbacks with
    a mask beyond the subscription, or nobody called), misses conditions that were added, keeps a descriptor whose record is gone
    (served by fd lookup: skipped; a later ADD fails with EEXIST), until a later MOD / DEL succeeds or the descriptor is closed; combined
    with refused ADDs, one-shot events (their own disable is the refused call's neighbour), close / reopen and deletes in callbacks"""
    be = rng.choice(['epoll', 'epoll', 'epoll', 'epoll', 'select'])
    nfd = rng.choice([1, 1, 2])
    n = rng.choice([2, 3, 4])
    ops = ['be ' + be]
    sc = [rng.choice(['-', '-', 'D%d' % j, 'D%d,e%d' % (j, j), 'M%d' % ((j + 1) % n), 'D%d' % ((j + 1) % n), 'd%d,M%d' % (j, j), 'u%d' % (j % nfd),
                      'x%d,M%d' % ((j + 1) % n, (j + 2) % n), 'D%d,c%d' % (j, j % nfd)]) for j in range(n)]
    ops += ['new ' + s for s in sc]
    for j in range(n):
        ops.append('do i%d:%d:%d:%s' % (j, j % nfd, rng.choice([1, 2, 3, 3, 5, 7, 1]), rng.choice('pppo')))
    order = list(range(n)); rng.shuffle(order)
    ops += ['do e%d' % j for j in order[:rng.choice([n, n, n - 1])]]
    ops += ['do b%d' % f for f in range(nfd) if rng.random() < 0.5]
    ops += ['do r%d' % f for f in range(nfd) if rng.random() < 0.8] + ['pass']
    for _ in range(rng.choice([3, 5, 8, 12])):
        j = rng.randrange(n)
        ops += rng.choice([['do D%d' % j], ['do D%d' % j], ['do M%d' % j], ['do M%d' % j], ['do d%d' % j], ['do e%d' % j], ['do E%d' % j],
                           ['do D%d' % k for k in range(n)], ['do x%d' % j], ['do y%d' % j, 'do i%d:%d:%d:p' % (j, rng.randrange(nfd), rng.choice([1, 2, 3]))],
                           ['do c%d' % rng.randrange(nfd)], ['do %s%d' % (rng.choice('ruwbo'), rng.randrange(nfd))],
                           ['do d%d' % j, 'do i%d:%d:%d:%s' % (j, rng.randrange(nfd), rng.choice([1, 2, 4, 6]), rng.choice('po')), 'do M%d' % j]])
        if rng.random() < 0.6: ops.append('pass')
    if rng.random() < 0.3:
        # every subscriber goes while the DEL is refused, the records go too: the kernel keeps reporting a descriptor the loop knows nothing
        # about (fd lookup: skipped); a new event on it meets EEXIST and lives on the stale mask until a MOD succeeds
        ops += ['do D%d' % k for k in range(n)] + ['do r%d' % f for f in range(nfd)] + ['pass'] + ['do x%d' % k for k in range(n - 1)] + ['pass']
        ops += ['do i%d:0:%d:p' % (n - 1, rng.choice([1, 2, 4])), 'do e%d' % (n - 1), 'pass', 'do d%d' % (n - 1), 'do e%d' % (n - 1), 'pass']
    ops += ['pass', 'pass']
    return ops


def gen_eaba(rng):
    """directed (round 5): heap-address ABA of event objects - inside the callback of event c a sibling v (same or another ready
    descriptor, before or after c in the subscriber vector) is deleted and a new event object is created on the same address
    (`y<v>`: the harness's operator new hands the freed block out again), then initialised (same / other descriptor, meeting / missing
    mask, persistent / one-shot) and enabled or not; the dispatch compares addresses, so the NEW object may be called in the same
    pass - only if it is enabled on the descriptor being served with a reported condition"""
    be = rng.choice(['epoll', 'select'])
    k = rng.choice([2, 2, 3, 4])
    c = rng.randrange(k); v = rng.choice([x for x in range(k) if x != c])
    two = rng.random() < 0.4                      # the victim lives on descriptor 1 (also ready)
    g = rng.choice([0, 0, 0, 1, 2]) if not two else rng.choice([1, 1, 0, 2])
    m = rng.choice([1, 1, 1, 3, 2, 4, 0])
    sc = ['y%d' % v] + rng.choice([['i%d:%d:%d:%s' % (v, g, m, rng.choice('ppo')), 'e%d' % v], ['i%d:%d:%d:p' % (v, g, m)], [],
                                   ['i%d:%d:%d:p' % (v, g, m), 'e%d' % v, 'y%d' % v, 'i%d:%d:1:p' % (v, g), 'e%d' % v],
                                   ['e%d' % v], ['i%d:%d:%d:p' % (v, g, m), 'e%d' % v, 'd%d' % v]])
    if rng.random() < 0.2: sc = ['d%d' % v] + sc
    if rng.random() < 0.15: sc += ['u0']
    ops = ['be ' + be]
    for j in range(k): ops.append('new ' + (','.join(sc) if j == c else rng.choice(['-', '-', '-', 'u0', 'd%d' % c])))
    for j in range(k): ops.append('do i%d:%d:%d:%s' % (j, 1 if (two and j == v) else 0, rng.choice([1, 1, 3]), 'o' if (j == v and rng.random() < 0.3) else 'p'))
    order = list(range(k)); rng.shuffle(order)
    ops += ['do e%d' % j for j in order] + ['do b0', 'do b1', 'do r0', 'do r1', 'do r2', 'pass', 'pass']
    ops += rng.choice([[], ['do y%d' % v, 'do i%d:0:1:p' % v, 'do e%d' % v, 'pass'], ['do y%d' % c, 'do e%d' % c, 'pass'], ['do x%d' % v, 'do y%d' % v, 'pass']])
    return ops


# one minimal witness per defect of the tree as found (also in corpus/C03/*.ops)
DIRECTED = [
    # D1/D2: the callback of one ready descriptor destroys the only event of the other ready descriptor (symmetric: either order)
    ['be select', 'new x1', 'new x0', 'do i0:0:1:p', 'do i1:1:1:p', 'do e0', 'do e1', 'do r0', 'do r1', 'pass', 'pass'],
    ['be epoll', 'new x1', 'new x0', 'do i0:0:1:p', 'do i1:1:1:p', 'do e0', 'do e1', 'do r0', 'do r1', 'pass', 'pass'],
    # D2b: … and puts a new event on a third descriptor: the pooled block is reused for it
    ['be epoll', 'new x1,i2:2:1:p,e2', 'new x0,i2:2:1:p,e2', 'new -', 'do i0:0:1:p', 'do i1:1:1:p', 'do e0', 'do e1', 'do r0', 'do r1', 'pass', 'pass'],
    # D3: a sibling on the same descriptor is disabled / destroyed by the first subscriber
    ['be epoll', 'new d1', 'new d0', 'do i0:0:1:p', 'do i1:0:1:p', 'do e0', 'do e1', 'do r0', 'pass', 'pass'],
    ['be select', 'new d1', 'new d0', 'do i0:0:1:p', 'do i1:0:1:p', 'do e0', 'do e1', 'do r0', 'pass', 'pass'],
    ['be epoll', 'new x1', 'new x0', 'do i0:0:1:p', 'do i1:0:1:p', 'do e0', 'do e1', 'do r0', 'pass', 'pass'],
    ['be select', 'new x1', 'new x0', 'do i0:0:1:p', 'do i1:0:1:p', 'do e0', 'do e1', 'do r0', 'pass', 'pass'],
    # D4: descriptor number reused inside a callback: the stale readiness of the old file must not reach the new event
    ['be epoll', 'new x1,c1,i2:1:1:p,e2', 'new x0,c0,i2:0:1:p,e2', 'new -', 'do i0:0:1:p', 'do i1:1:1:p', 'do e0', 'do e1', 'do r0', 'do r1', 'pass', 'pass'],
    ['be select', 'new x1,c1,i2:1:1:p,e2', 'new x0,c0,i2:0:1:p,e2', 'new -', 'do i0:0:1:p', 'do i1:1:1:p', 'do e0', 'do e1', 'do r0', 'do r1', 'pass', 'pass'],
    # same descriptor, whole record replaced while its own dispatch loop runs (re-home the running event, destroy the sibling, reuse the number)
    ['be epoll', 'new d0,i0:1:1:p,x1,c0,i1:0:1:p', 'new -', 'new -', 'do i0:0:1:p', 'do i1:0:1:p', 'do i2:0:1:p', 'do e0', 'do e1', 'do r0', 'pass', 'pass'],
    # D5: select, three events on a descriptor that is closed while they are enabled: EBADF -> removeInvalidFds must disable all three
    ['be select', 'new -', 'new -', 'new -', 'do i0:0:1:p', 'do i1:0:1:p', 'do i2:0:1:p', 'do e0', 'do e1', 'do e2', 'do k0', 'pass', 'pass',
     'do c0', 'do e0', 'do r0', 'pass'],
    # the same from inside the callback of another ready descriptor (the stale ready entry of the closed one is still served)
    ['be select', 'new k1', 'new -', 'new -', 'new -', 'do i0:0:1:p', 'do i1:1:1:p', 'do i2:1:1:p', 'do i3:1:1:p', 'do e0', 'do e1', 'do e2',
     'do e3', 'do r0', 'do r1', 'pass', 'pass', 'pass'],
    # epoll: the kernel drops a closed descriptor silently; after reopening the stale record must be disabled and enabled again
    ['be epoll', 'new -', 'do i0:0:1:p', 'do e0', 'do r0', 'pass', 'do k0', 'pass', 'do c0', 'do r0', 'pass', 'do d0', 'do e0', 'pass'],
    # D6: out-of-band data is the except condition in both back-ends
    ['be epoll', 'new u0', 'new -', 'do i0:0:4:p', 'do i1:0:5:o', 'do e0', 'do e1', 'do o0', 'pass', 'pass', 'do o0', 'do r0', 'pass'],
    ['be select', 'new u0', 'new -', 'do i0:0:4:p', 'do i1:0:5:o', 'do e0', 'do e1', 'do o0', 'pass', 'pass', 'do o0', 'do r0', 'pass'],
    # one-shot sharing a descriptor with a persistent event; write readiness
    ['be select', 'new -', 'new u0', 'do i0:0:3:o', 'do i1:0:1:p', 'do e0', 'do e1', 'do r0', 'pass', 'pass', 'do e0', 'do b0', 'pass', 'do w0', 'pass'],
    # round 4: a write-only subscriber on a hung-up peer (epoll hands it read|write, select write), pipe ends, refused connect
    ['be epoll', 'new -', 'new -', 'new -', 'new -', 'do i0:0:2:p', 'do e0', 'do i1:6:2:p', 'do e1', 'do i2:7:4:p', 'do e2', 'do i3:8:1:p', 'do e3',
     'do h0', 'do h6', 'do h7', 'pass', 'pass'],
    ['be select', 'new -', 'new -', 'new -', 'new -', 'do i0:0:2:p', 'do e0', 'do i1:6:2:p', 'do e1', 'do i2:7:4:p', 'do e2', 'do i3:8:1:p', 'do e3',
     'do h0', 'do h6', 'do h7', 'pass', 'pass'],
    # a refused EPOLL_CTL_ADD: dead event, the second subscriber's MOD fails too, recovery after disable-all + enable
    ['be epoll', 'new -', 'new -', 'do i0:0:1:p', 'do i1:0:1:p', 'do E0', 'do r0', 'pass', 'do e1', 'pass', 'do d0', 'do d1', 'do e1', 'pass',
     'do b1', 'do s1', 'do h1', 'do i0:1:3:o', 'do e0', 'pass', 'pass'],
    # the swap that keeps every count (seeded C03-7 pattern) on both engines, the victim one-shot
    ['be epoll', 'new d1,e2', 'new -', 'new -', 'do i0:0:1:p', 'do i1:0:1:o', 'do i2:0:1:p', 'do e0', 'do e1', 'do r0', 'pass', 'pass'],
    ['be select', 'new d1,e2', 'new -', 'new -', 'do i0:0:1:p', 'do i1:0:1:o', 'do i2:0:1:p', 'do e0', 'do e1', 'do r0', 'pass', 'pass'],
]


def gen(rng, tier):
    n = 500 if tier == 'quick' else 25000
    # malformed stream: both sides must answer bad-op
    yield ['be poll', 'new x0',  'new y0', 'do y', 'do y1000', 'do D', 'do M1000', 'new D0,M0,','new e1,', 'do h9', 'do s', 'do E', 'new E1,h1022', 'do i0:9:1:p', 'do i0:0:65536:p', 'do i0:0:1:q', 'do q1', 'frob', 'do', 'pass 1', 'new -', 'do e', 'do i0:0:1', 'do c6', 'do k6', 'do c1025', 'do r1022', 'do o', 'cmp 1', 'cmp', 'tm', 'tm', 'bulk 0', 'bulk 201', 'bulk x', 'bulk 2',
           'fn', 'fn x0,', 'fn t16', 'fn t0,n3,x0', 'fn -', 'do t0', 'do t5', 'do n1', 'do n9', 'do t', 'eintr', 'eintr', 'eintr 1', 'pass', 'pass', 'pass']
    for d in DIRECTED:
        yield list(d)
    for _ in range(n):
        yield gen_case(rng, rng.choice([4, 8, 14, 24]))
    for _ in range(n):
        yield gen_cross(rng)
    for _ in range(n // 5):
        yield gen_rehome(rng)
    for _ in range(n // 4):
        yield gen_badf(rng)
    for _ in range(n // 2):
        yield gen_agree(rng)
    for _ in range(n // 10):
        yield gen_wide(rng)
    for _ in range(n):
        yield gen_turn(rng)
    for _ in range(n // 10):
        yield gen_high(rng)
    for _ in range(n):
        yield gen_hup(rng)
    for _ in range(n // 5):
        yield gen_hup_cmp(rng)
    yield gen_hup_cmp(rng, diverge=True)
    for _ in range(n // 2):
        yield gen_ctl(rng)
    for _ in range(n // 2):
        yield gen_state(rng)
    for _ in range(n // 2):
        yield gen_eaba(rng)
    for _ in range(n // 2):
        yield gen_lag(rng)
    if tier == 'thorough':
        for k in (64, 65, 70, 130, 200):     # more shared records alive at once than the pool keeps parked (64)
            yield ['be ' + rng.choice(['epoll', 'select']), 'new -', 'do i0:0:1:p', 'do e0', 'bulk %d' % k, 'do r0', 'pass', 'bulk 3', 'new -',
                   'do i%d:1:1:p' % (k + 4), 'do e%d' % (k + 4), 'do r1', 'pass', 'do x0', 'do x%d' % (k + 4), 'bulk 66', 'pass']


def nontrivial(ops, model_lines):
    tags = ' '.join(l for l in model_lines if l.startswith('B '))
    hard = any(t in tags for t in ('skip-', 'loop-break', 'cb-destroy', 'cb-init', 'cb-fd-reuse'))
    if hard and ('shared-fd' in tags or 'multi-ready' in tags): return 1
    # round 4: a descriptor in hang-up / error was reported and the mask exceeded the subscription or met nobody; a refused ADD left a dead registration
    if ('ready-hup' in tags or 'ready-err' in tags) and ('cb-mask-beyond-subscription' in tags or 'hup-unmet-mask' in tags): return 1
    if 'dead-registration' in tags and 'ctl-add-refused' in tags: return 1
    if 'kernel-lags' in tags and any(t in tags for t in ('lag-ready-beyond-wanted', 'lag-ready-without-record', 'lag-kernel-misses-wanted')): return 1
    if 'aba-callback' in tags or 'skip-reborn-elsewhere' in tags: return 1
    # a timer callback ran between the wait and the dispatch of a ready descriptor and destroyed events / reused a number
    return 1 if 'timer+ready' in tags and ('T-destroy' in tags or 'T-fd-reuse' in tags or 'T-new-record' in tags) else None


def fingerprint(ops, d):
    msg = d[1] if d else ''
    m = re.search(r'CRASH ([\w:.-]+)', msg)
    if m: return 'crash-' + re.sub(r'[^A-Za-z0-9_-]+', '_', m.group(1))[:48]
    for key, fp in (('back-ends differ hup-err', 'backends-differ-hup-err'), ('DESTROYED', 'cb-on-destroyed'), ('DISABLED', 'cb-on-disabled'), ('not due here', 'cb-stale-readiness'),
                    ('expected a K line', 'loop-exited'), ('timer phase', 'timer-phase'), ('interrupted wait', 'eintr-mismatch'),
                    ('after EBADF pass', 'ebadf-partial-disable'), ('select EBADF', 'ebadf-mismatch'), ('kernel interest', 'kernel-interest'), ('ready list', 'ready-list'), ('missing from the kernel', 'ready-missing')):
        if key in msg: return fp
    return 'div-' + hashlib.sha1(re.sub(r'\d+', 'N', msg).encode()).hexdigest()[:10]


LEVEL_TEXT = ('Lean 4 theorems over a model of the descriptor-event layer of both back-ends (shared per-descriptor records with reference '
              'and per-condition counters, pool blocks, kernel interest, dispatch with snapshot copy, callbacks as scripts; a loop pass is the whole turn of '
              'runLoop(): wait, callbacks of the due timers, dispatch, batch of deferred tasks, EBADF/EINTR turns; FD_SETSIZE guard of select; event-mask '
              'tables regenerated from the source; kernel readiness under hang-up / error per engine; refused EPOLL_CTL_ADD): an inductive invariant '
              'over every execution yields callbacks only on alive, enabled events whose descriptor (the same open file) was reported ready with a '
              'subscribed condition, one-shot disabled inside its callback, no stale access/exception, counters and kernel interest exact, back-end '
              'agreement for order-independent passes; counterexamples proved on the model of the code as found; tied to the real epoll and select '
              'loops on every run by a trace acceptor (interposed epoll_ctl/epoll_wait/select, ASan with pool poisoning)')
LEVEL_NOTE = ('trusted: Lean kernel, hand-written model + trace-acceptor tie (coverage bounded by the generator, measured), Linux epoll/select '
              'semantics on socket pairs, libc interposition; raw memory safety is observed by ASan on the implementation, the model proves the '
              'handle/liveness logic; "callback on the same open file the kernel reported on" is proved under the close contract only (counterexample '
              'theorem + replay for a descriptor closed while an enabled event refers to it: the loop cannot know); back-end agreement has a decidable '
              'premise (OrderIndepSyn) that excludes initialize/destroy/close inside callbacks, and is PARTIAL: it holds for ready descriptors without hang-up / error '
              'condition only (counterexample theorems + corpus replays 27/28/31: the engines hand over different masks there, for error-only conditions call different events); '
              'a refused EPOLL_CTL_ADD leaves an event that reports enabled and is never called (safe here, not reported by the API); after a refused EPOLL_CTL_MOD / _DEL the kernel answer is '
              'unconstrained in the theorems (safety holds for any answer) and exact only in the acceptor')
TECHNIQUE = 'Lean 4 invariant proof over all executions of an fd-event model (both back-ends) + trace-acceptor correspondence with the real loops'
DESIGN_REF = 'DESIGN.md §6 C03'
