// C04 harness: real event loops (epoll or select engine, chosen per case by `eng e|s`), each loop owned by
// its own worker thread; every op that touches loop l (new/init/enable/disable/delete of its events, one
// loop pass) is executed ON worker l, hand-shaken with the main thread, so the whole run is sequential and
// deterministic while every loop still lives on its own thread.  Signals are delivered with a real raise()
// on the main thread, one at a time; user handlers are sentinel functions that count their invocations.
// After every op the harness prints isEnabled() of every event and sigaction(sig, nullptr, &cur) of the
// six signals field-wise (handler, SA_SIGINFO, other flags, mask).  Signal ids ascend with the signal numbers:
// 0 SIGKILL, 1 SIGUSR1, 2 SIGUSR2, 3 SIGSTOP, 4 SIGRTMIN+1, 5 SIGRTMIN+2 (0 and 3: sigaction fails, never raised).
// Callbacks run scripts (enable/disable/delete of events of the same loop).  A pass line starts with the order
// in which std::set<SignalSubscribuer*> iterates the events alive at the start of the pass (`ord=`): the model
// takes it as its oracle (trace mode).  Format = lean/Driver/C04.lean.
// Round 4: libc interposition (no change to the repository): pipe2 / close / sigprocmask / sigaction made by the library on a
// loop's thread are recorded as tokens (`M sys=`: P pipe2 with O_NONBLOCK|O_CLOEXEC, B block-all, A<id> sigaction, S restore
// of exactly the saved mask, Cw/Cr close of the pipe's ends); the handler's write() to a signal pipe is recorded per loop
// (`M wr=`) and can be answered with an error (`raisew g <loops>`); the reads of CommonLoop::onSignal can be answered with
// short counts / errors (`passc l <answers>`); `cap s` shrinks every signal pipe to one page (1024 numbers) at creation;
// `burst g n` raises n times without a pass.  Signal ids 6..11 = SIGRTMAX, 65, INT_MAX, 0, -3, 32 (all but the first invalid).
// Callback scripts act on events of ANY loop (the call is made on the thread of the loop that runs the callback).
// Round 5: `sa g k f m`: f = bit set over SA_RESTART, SA_NODEFER, SA_RESETHAND, SA_ONSTACK, SA_NOCLDSTOP, SA_NOCLDWAIT (1..32), m = the
// 64-bit kernel sa_mask (decimal, bit k = signal k+1, written into the sigset_t word directly); dispositions are printed with every
// flag bit and the whole mask.  The sentinel handlers record what they see (`M env=`: blocked signals, alternate stack): the kernel
// semantics of SA_NODEFER / sa_mask / SA_ONSTACK of the INSTALLED disposition (tbox's own while chained).  `initd e g m` = the
// initializer_list overload with the same signal twice.  `lost l` destroys loop l WITH its subscriptions (observation; terminal:
// only deliveries are accepted afterwards, the orphaned events are leaked, never touched).
// Round 6: `enp e` / script action `p<j>` = enable() with the kernel answering pipe2 (if the library calls it) with EMFILE / ENFILE
// (`M sys=Px`); the flags / mask of tbox's OWN handler are printed on an `M own=` line (the P line shows `T` only: a maintainer may add
// SA_RESTART there), the application's dispositions stay on the P line whole; `blk g`: a helper thread really blocks in read() on an
// empty pipe, g is delivered to THAT thread (pthread_kill): `M blk=` eintr / restarted / undisturbed (SA_RESTART of the installed disposition).
#include "vh.h"
#include <dlfcn.h>
#include <pthread.h>
#include <sys/syscall.h>
#include <atomic>
#include <fcntl.h>
#include <errno.h>
#include <limits.h>
#include <sys/ioctl.h>
#include <signal.h>
#include <sys/wait.h>
#include <unistd.h>
#include <string.h>
#include <algorithm>
#include <condition_variable>
#include <functional>
#include <mutex>
#include <set>
#include <thread>
#include <tbox/base/log_output.h>
#include <tbox/event/loop.h>
#include <tbox/event/signal_event.h>
#include <tbox/event/signal_event_impl.h>

using namespace tbox::event;

static const int kNSig = 12, kNShow = 7, kNLoop = 3, kNH = 3;
static int kSig[kNSig];
static const int kMaskId[4] = {1, 2, 4, 5};   // sa_mask bit b <-> signal id kMaskId[b] (SIGKILL/SIGSTOP cannot be masked)
static int sig_index(int signo) { for (int i = 0; i < kNSig; ++i) if (kSig[i] == signo) return i; return 99; }

// ---- interposition
static thread_local int t_loop = -1;          // >= 0 on the worker thread of that loop
static const int kMaxFd = 4096;
static volatile int g_wfd_loop[kMaxFd], g_rfd_loop[kMaxFd];   // fd -> loop + 1 of the signal pipe it belongs to (0 = none)
static volatile int g_wfd_block[kMaxFd], g_rfd_block[kMaxFd];      // the end was created WITHOUT O_NONBLOCK
static volatile sig_atomic_t g_would_block = 0; // the handler's write would have blocked for ever (full blocking pipe, nobody reads)
static volatile int g_pfail = 0;              // answer the library's pipe2 with this errno (0 = real call)
static volatile int g_small = 0;              // shrink signal pipes to one page
static volatile int g_wfail[3] = {0, 0, 0};   // answer the handler's write to loop l's pipe with this errno (0 = real write)
static volatile sig_atomic_t g_nwr = 0;
static volatile int g_wr_loop[64], g_wr_res[64];
static std::vector<int> g_rq;                 // answers for the reads of the current pass: >0 count, -1 EINTR, -2 EIO
static size_t g_rq_pos = 0;
static std::vector<std::string> g_sys;        // tokens of the op in progress (worker threads only, hand-shaken)
static bool g_cs_bad = false;
static thread_local sigset_t t_saved_mask; static thread_local bool t_blocked = false;
typedef ssize_t (*write_t)(int, const void *, size_t);
typedef ssize_t (*read_t)(int, void *, size_t);
typedef int (*pipe2_t)(int *, int);
typedef int (*close_t)(int);
typedef int (*sigprocmask_t)(int, const sigset_t *, sigset_t *);
typedef int (*sigaction_t)(int, const struct sigaction *, struct sigaction *);
static write_t r_write; static read_t r_read; static pipe2_t r_pipe2; static close_t r_close; static sigprocmask_t r_sigprocmask; static sigaction_t r_sigaction;
static void resolve() {
    if (r_write) return;
    r_write = (write_t)dlsym(RTLD_NEXT, "write"); r_read = (read_t)dlsym(RTLD_NEXT, "read"); r_pipe2 = (pipe2_t)dlsym(RTLD_NEXT, "pipe2");
    r_close = (close_t)dlsym(RTLD_NEXT, "close"); r_sigprocmask = (sigprocmask_t)dlsym(RTLD_NEXT, "sigprocmask");
    r_sigaction = (sigaction_t)dlsym(RTLD_NEXT, "sigaction");
}
extern "C" ssize_t write(int fd, const void *buf, size_t n) {
    if (!r_write) resolve();
    int l = (fd >= 0 && fd < kMaxFd) ? g_wfd_loop[fd] - 1 : -1;
    if (l < 0) return r_write(fd, buf, n);
    ssize_t r; int e = 0;
    if (g_wfail[l]) { r = -1; e = g_wfail[l]; }
    else {
        int pending = 0, size = fcntl(fd, F_GETPIPE_SZ);
        if (g_wfd_block[fd] && ioctl(fd, FIONREAD, &pending) == 0 && size > 0 && pending + (int)n > size) {
            g_would_block = 1; r = -1; e = EAGAIN;      // the real call would dead-lock the process inside the signal handler
        } else { r = r_write(fd, buf, n); e = r < 0 ? errno : 0; }
    }
    int k = g_nwr; if (k < 64) { g_wr_loop[k] = l; g_wr_res[k] = r == (ssize_t)n ? 0 : (r < 0 ? e : -1000 - (int)r); g_nwr = k + 1; }
    if (r < 0) errno = e;
    return r;
}
extern "C" ssize_t read(int fd, void *buf, size_t n) {
    if (!r_read) resolve();
    int l = (fd >= 0 && fd < kMaxFd) ? g_rfd_loop[fd] - 1 : -1;
    if (l >= 0 && g_rfd_block[fd]) {
        int pending = 0;     // a blocking read end: onSignal's read-until-EAGAIN loop would sleep for ever on the empty pipe
        if (ioctl(fd, FIONREAD, &pending) == 0 && pending == 0) { g_would_block = 1; errno = EAGAIN; return -1; }
    }
    if (l < 0 || t_loop < 0 || g_rq_pos >= g_rq.size()) return r_read(fd, buf, n);
    int a = g_rq[g_rq_pos++];
    if (a == -1) { errno = EINTR; return -1; }
    if (a == -2) { errno = EIO; return -1; }
    size_t want = (size_t)a * sizeof(int);
    return r_read(fd, buf, want < n ? want : n);
}
extern "C" int pipe2(int fds[2], int flags) {
    if (!r_pipe2) resolve();
    if (t_loop >= 0 && g_pfail) { g_sys.push_back("Px"); errno = g_pfail; return -1; }
    int r = r_pipe2(fds, flags);
    if (r == 0 && t_loop >= 0) {
        if (fds[0] < kMaxFd && fds[1] < kMaxFd) { g_rfd_loop[fds[0]] = t_loop + 1; g_wfd_loop[fds[1]] = t_loop + 1; g_wfd_block[fds[1]] = !(flags & O_NONBLOCK); g_rfd_block[fds[0]] = !(flags & O_NONBLOCK); }
        bool ok = (flags & O_NONBLOCK) && (flags & O_CLOEXEC);
        g_sys.push_back(ok ? "P" : "P!");
        if (g_small) fcntl(fds[1], F_SETPIPE_SZ, 4096);
    }
    return r;
}
extern "C" int close(int fd) {
    if (!r_close) resolve();
    if (fd >= 0 && fd < kMaxFd) {
        if (g_wfd_loop[fd]) { g_wfd_loop[fd] = 0; if (t_loop >= 0) g_sys.push_back("Cw"); }
        else if (g_rfd_loop[fd]) { g_rfd_loop[fd] = 0; if (t_loop >= 0) g_sys.push_back("Cr"); }
    }
    return r_close(fd);
}
extern "C" int sigprocmask(int how, const sigset_t *set, sigset_t *old) {
    if (!r_sigprocmask) resolve();
    if (t_loop < 0 || set == nullptr) return r_sigprocmask(how, set, old);
    sigset_t before; r_sigprocmask(SIG_SETMASK, nullptr, &before);
    int r = r_sigprocmask(how, set, old);
    if (how == SIG_BLOCK) {
        bool full = true;
        for (int sgn = 1; sgn < 65; ++sgn) if (sgn != 32 && sgn != 33 && sigismember(set, sgn) != 1) full = false;
        if (t_blocked) g_cs_bad = true;
        t_saved_mask = before; t_blocked = true;
        g_sys.push_back(full ? "B" : "B!");
    } else if (how == SIG_SETMASK) {
        bool same = t_blocked;
        if (same) for (int sgn = 1; sgn < 65; ++sgn) if (sigismember(set, sgn) != sigismember(&t_saved_mask, sgn)) same = false;
        t_blocked = false;
        g_sys.push_back(same ? "S" : "S!");
    } else g_sys.push_back("U!");
    return r;
}
extern "C" int sigaction(int signo, const struct sigaction *act, struct sigaction *old) {
    if (!r_sigaction) resolve();
    int r = r_sigaction(signo, act, old);
    if (t_loop >= 0 && act != nullptr) {
        // the library changes a disposition: must happen with every signal blocked on this thread
        sigset_t cur; r_sigprocmask(SIG_SETMASK, nullptr, &cur);
        bool blocked = t_blocked && sigismember(&cur, SIGUSR1) == 1 && sigismember(&cur, SIGRTMIN + 1) == 1;
        g_sys.push_back("A" + std::to_string(sig_index(signo)) + (r != 0 ? "x" : "") + (blocked ? "" : "!"));
    }
    return r;
}
static std::string show_sys() {
    std::string s;
    for (auto &t : g_sys) { if (!s.empty()) s += ","; s += t; }
    if (g_cs_bad) s += s.empty() ? "BAD" : ",BAD";
    return s.empty() ? "-" : s;
}
static const char *errname(int e) { return e == 0 ? "ok" : e == EAGAIN ? "EAGAIN" : e == EINTR ? "EINTR" : e == EIO ? "EIO" : e == EPIPE ? "EPIPE" : e == EBADF ? "EBADF" : "ERR"; }

// ---- sentinel handlers (async-signal-safe: they only store into a preallocated array)
static volatile sig_atomic_t g_ncalls = 0;
static volatile int g_call_h[256], g_call_g[256];
static volatile unsigned long g_env_seen = 0; static volatile int g_env_st = 0;
static void note_call(int h, int signo) {
    int n = g_ncalls; if (n < 256) { g_call_h[n] = h; g_call_g[n] = signo; g_ncalls = n + 1; }
    sigset_t m; sigemptyset(&m);
    if (r_sigprocmask) r_sigprocmask(SIG_SETMASK, nullptr, &m);
    g_env_seen = m.__val[0];
    stack_t st; memset(&st, 0, sizeof st); sigaltstack(nullptr, &st); g_env_st = (st.ss_flags & SS_ONSTACK) ? 1 : 0;
}
template <int K> static void hfn(int signo) { note_call(K, signo); }
// the three-argument form must receive the kernel's siginfo and context (chained call passes them on): else id + 50
template <int K> static void afn(int signo, siginfo_t *si, void *ctx) { note_call((si != nullptr && si->si_signo == signo && ctx != nullptr) ? K : K + 50, signo); }
typedef void (*h_t)(int);
typedef void (*a_t)(int, siginfo_t *, void *);
static const h_t kH[kNH] = {hfn<0>, hfn<1>, hfn<2>};
static const a_t kA[kNH] = {afn<0>, afn<1>, afn<2>};

// ---- one worker thread per loop
struct Worker {
    std::thread th; std::mutex m; std::condition_variable cv;
    std::function<void()> job; bool has = false, done = false, quit = false;
    std::thread::id tid;
    int id = -1;
    void start() {
        th = std::thread([this] {
            t_loop = id;
            std::unique_lock<std::mutex> lk(m);
            tid = std::this_thread::get_id(); done = true; cv.notify_all();
            for (;;) {
                cv.wait(lk, [this] { return has || quit; });
                if (quit) return;
                has = false; auto j = std::move(job); lk.unlock(); j(); lk.lock();
                done = true; cv.notify_all();
            }
        });
        std::unique_lock<std::mutex> lk(m); cv.wait(lk, [this] { return done; }); done = false;
    }
    void run(std::function<void()> f) {
        std::unique_lock<std::mutex> lk(m);
        job = std::move(f); has = true; cv.notify_all();
        cv.wait(lk, [this] { return done; }); done = false;
    }
    void stop() { { std::unique_lock<std::mutex> lk(m); quit = true; cv.notify_all(); } th.join(); }
};
static Worker workers[kNLoop];
static Loop *loops[kNLoop] = {nullptr, nullptr, nullptr};
static std::string engine = "epoll";

struct CbRec { size_t ev; int sig; bool en; };
struct Act { char kind; size_t j; std::set<int> sigs; bool oneshot; };
static std::vector<SignalEvent *> objs;
static std::vector<bool> orphan;      // the event's loop was destroyed under it: never touched again (leaked)
static bool lost_flag = false;
static std::vector<int> obj_loop;
static std::vector<std::vector<Act>> scripts;
static std::vector<CbRec> cbs;
static bool thr_bad = false;

static std::string disp_of(int g, bool own = false) {
    struct sigaction cur; memset(&cur, 0, sizeof(cur));
    sigaction(kSig[g], nullptr, &cur);
    bool si = (cur.sa_flags & SA_SIGINFO) != 0;
    std::string k = "T";
    void *p = si ? (void *)cur.sa_sigaction : (void *)cur.sa_handler;
    if (cur.sa_handler == SIG_DFL) k = "d";
    else if (cur.sa_handler == SIG_IGN) k = "i";
    else for (int h = 0; h < kNH; ++h) if (p == (void *)kH[h] || p == (void *)kA[h]) k = "h" + std::to_string(h);
    // sa_flags is an int and SA_RESETHAND is its sign bit: take the 32 bits, unsigned
    unsigned long f = (unsigned long)(unsigned int)cur.sa_flags & ~(unsigned long)SA_SIGINFO & ~0x04000000UL /*SA_RESTORER*/;
    unsigned long enc = 0;
    static const unsigned long kFlag[6] = {(unsigned long)SA_RESTART, (unsigned long)SA_NODEFER, (unsigned long)(unsigned int)SA_RESETHAND,
                                           (unsigned long)SA_ONSTACK, (unsigned long)SA_NOCLDSTOP, (unsigned long)SA_NOCLDWAIT};
    for (int b = 0; b < 6; ++b) if (f & kFlag[b]) { enc |= 1ul << b; f &= ~kFlag[b]; }
    std::string fs = std::to_string(enc);
    if (f) { char b[32]; snprintf(b, sizeof b, "+%lx", f); fs += b; }
    // the kernel set has 64 bits = the first word; glibc copies sizeof(sigset_t) from its on-stack kernel struct, the rest is garbage
    // tbox's own handler: its flags and mask are the library's business (M own=), not the property's
    if (k == "T" && !own) return k;
    return k + ":" + (si ? "1" : "0") + ":" + fs + ":" + std::to_string((unsigned long)cur.sa_mask.__val[0]);
}
static std::string show_own() {
    std::string s;
    for (int g = 0; g < kNShow; ++g) {
        std::string d = disp_of(g, true);
        if (d[0] == 'T') { if (!s.empty()) s += ","; s += std::to_string(g) + d.substr(1); }
    }
    return s.empty() ? "-" : s;
}

static std::string show() {
    std::string s = "en=";
    if (objs.empty()) s += "-";
    for (auto *o : objs) s.push_back(o == nullptr ? 'x' : (o->isEnabled() ? '1' : '0'));
    s += " disp=";
    for (int g = 0; g < kNShow; ++g) { if (g) s += "|"; s += disp_of(g); }
    return s;
}

static void make_loops() { for (int l = 0; l < kNLoop; ++l) loops[l] = Loop::New(engine); }

static void reset_all() {
    for (size_t e = 0; e < objs.size(); ++e)
        if (objs[e] && !orphan[e]) { SignalEvent *o = objs[e]; workers[obj_loop[e]].run([o] { delete o; }); objs[e] = nullptr; }
    objs.clear(); obj_loop.clear(); orphan.clear(); lost_flag = false; scripts.clear(); cbs.clear(); thr_bad = false;
    for (int l = 0; l < kNLoop; ++l) { delete loops[l]; loops[l] = nullptr; }
    for (int g = 0; g < kNShow; ++g) {
        struct sigaction sa; memset(&sa, 0, sizeof(sa)); sa.sa_handler = SIG_DFL; sigemptyset(&sa.sa_mask);
        sigaction(kSig[g], &sa, nullptr);   // fails for SIGKILL/SIGSTOP, which never change anyway
    }
    g_ncalls = 0; g_small = 0; g_pfail = 0; g_nwr = 0; g_would_block = 0; g_rq.clear(); g_rq_pos = 0; g_cs_bad = false;
    for (int l = 0; l < kNLoop; ++l) g_wfail[l] = 0;
    engine = "epoll";
    make_loops();
}

static bool idx(const std::string &w, uint64_t bound, size_t &out) {
    uint64_t v; if (!vh::to_u64(w, v) || v >= bound) return false; out = v; return true;
}
static bool parse_sigs(const std::string &w, std::set<int> &out) {
    out.clear();
    if (w == "-") return true;
    std::stringstream ss(w); std::string item; long long prev = LLONG_MIN;
    if (w.empty() || w.back() == ',') return false;
    while (std::getline(ss, item, ',')) {
        size_t g; if (!idx(item, kNSig, g)) return false;
        if ((long long)kSig[g] <= prev) return false;     // strictly ascending by signal number = iteration order of std::set<int>
        prev = kSig[g]; out.insert(kSig[g]);
    }
    return true;
}

// the callbacks of one pass in call order
static std::string show_cbs() {
    if (cbs.empty()) return "-";
    std::string s, prev; size_t run = 0;
    auto flush = [&] { if (run) { if (!s.empty()) s += ","; s += prev; if (run > 1) s += "*" + std::to_string(run); } };
    for (size_t i = 0; i < cbs.size(); ++i) {
        std::string t = std::to_string(cbs[i].sig) + ":e" + std::to_string(cbs[i].ev) + (cbs[i].en ? "+" : "-");
        if (t == prev) { ++run; continue; }
        flush(); prev = t; run = 1;
    }
    flush();
    return s;
}

// "e1" "d0" "x2" "i0:1.2:o"
static bool parse_script(const std::string &w, std::vector<Act> &out, size_t self) {
    out.clear();
    if (w == "-") return true;
    if (w.empty() || w.back() == ',') return false;
    std::stringstream ss(w); std::string item;
    while (std::getline(ss, item, ',')) {
        if (item.size() < 2) return false;
        Act a; a.kind = item[0]; a.oneshot = false;
        uint64_t j;
        if (a.kind == 'i') {
            size_t p1 = item.find(':'), p2 = item.rfind(':');
            if (p1 == std::string::npos || p2 == p1) return false;
            if (!vh::to_u64(item.substr(1, p1 - 1), j) || j >= 64) return false;
            std::string sg = item.substr(p1 + 1, p2 - p1 - 1), m = item.substr(p2 + 1);
            if (m != "o" && m != "p") return false;
            a.oneshot = (m == "o");
            if (sg != "-") {
                if (sg.empty() || sg.back() == '.') return false;
                std::stringstream s2(sg); std::string t; long long prev = LLONG_MIN;
                while (std::getline(s2, t, '.')) {
                    uint64_t g; if (!vh::to_u64(t, g) || g >= (uint64_t)kNSig || (long long)kSig[g] <= prev) return false;
                    prev = kSig[g]; a.sigs.insert(kSig[g]);
                }
            }
        } else {
            if (a.kind != 'e' && a.kind != 'd' && a.kind != 'x' && a.kind != 'p') return false;
            if (!vh::to_u64(item.substr(1), j) || j >= 64) return false;
            if (a.kind == 'x' && j == self) return false;   // deleting oneself inside one's own callback is outside the property
        }
        a.j = (size_t)j;
        out.push_back(a);
    }
    return true;
}

// one script action, executed inside a callback on loop li's thread: an API call on an event of any loop (the other
// loops' threads are parked between ops)
static void apply(const Act &a, int li) {
    (void)li;
    if (a.j >= objs.size() || objs[a.j] == nullptr) return;
    SignalEvent *t = objs[a.j];
    // the pipe a subscription may create belongs to the loop of the event acted on, not to the calling thread's loop
    struct Scope { int saved; Scope(int l) : saved(t_loop) { t_loop = l; } ~Scope() { t_loop = saved; } } scope(obj_loop[a.j]);
    switch (a.kind) {
        case 'e': t->enable(); break;
        case 'p': { int sv = g_pfail; g_pfail = EMFILE; t->enable(); g_pfail = sv; break; }
        case 'd': t->disable(); break;
        case 'x': delete t; objs[a.j] = nullptr; break;
        case 'i': t->initialize(a.sigs, a.oneshot ? Event::Mode::kOneshot : Event::Mode::kPersist); break;
    }
}

// iteration order of std::set<SignalSubscribuer*> over the events that are alive now
static std::string show_ord() {
    std::vector<std::pair<uintptr_t, size_t>> v;
    for (size_t e = 0; e < objs.size(); ++e)
        if (objs[e]) v.push_back({(uintptr_t) static_cast<SignalSubscribuer *>(static_cast<SignalEventImpl *>(objs[e])), e});
    std::sort(v.begin(), v.end());
    std::string s;
    for (auto &p : v) { if (!s.empty()) s += ","; s += "e" + std::to_string(p.second); }
    return s.empty() ? "-" : s;
}

// ---- a thread blocked in a slow system call when the signal arrives
static std::atomic<int> b_stage(0);      // 1 = about to read, 2 = read returned
static std::atomic<int> b_tid(0), b_res(0), b_err(0);
static char task_state(int tid) {
    char path[64], buf[512]; snprintf(path, sizeof path, "/proc/self/task/%d/stat", tid);
    int fd = open(path, O_RDONLY); if (fd < 0) return '?';
    ssize_t n = r_read(fd, buf, sizeof buf - 1); r_close(fd);
    if (n <= 0) return '?';
    buf[n] = 0;
    char *p = strrchr(buf, ')');
    return (p && p[1] == ' ') ? p[2] : '?';
}
static bool wait_sleeping(int tid) {       // until the kernel reports the thread asleep (it only ever sleeps in its read())
    for (long i = 0; i < 20000000; ++i) {
        if (b_stage.load() == 2) return false;
        if (task_state(tid) == 'S') return true;
        sched_yield();
    }
    return false;
}
static std::string blocked_call(int signo, bool ignored) {
    int pfd[2]; if (r_pipe2(pfd, O_CLOEXEC) != 0) return "nopipe";
    b_stage = 0; b_tid = 0; b_res = 0; b_err = 0;
    static char stk[1 << 16];
    int rfd = pfd[0];
    std::thread th([rfd] {
        // SA_ONSTACK of a user disposition needs an alternate stack on THIS thread (ASan gives every thread one and unmaps it at exit: keep that)
        stack_t old; memset(&old, 0, sizeof old); sigaltstack(nullptr, &old);
        bool mine = (old.ss_flags & SS_DISABLE) != 0;
        if (mine) { stack_t ss; memset(&ss, 0, sizeof ss); ss.ss_sp = stk; ss.ss_size = sizeof stk; sigaltstack(&ss, nullptr); }
        b_tid = (int)syscall(SYS_gettid);
        char c; b_stage = 1;
        ssize_t r = r_read(rfd, &c, 1);
        int e = errno;
        if (mine) sigaltstack(&old, nullptr);
        b_res = (int)r; b_err = e; b_stage = 2;
    });
    while (b_stage.load() < 1) sched_yield();
    int tid = b_tid.load();
    std::string out = "lost";
    if (wait_sleeping(tid)) {
        int c0 = g_ncalls, w0 = g_nwr;
        pthread_kill(th.native_handle(), signo);
        if (!ignored) {
            // the handler has run on that thread (sentinel call or tbox's pipe write) ...
            for (long i = 0; i < 20000000 && g_ncalls == c0 && g_nwr == w0 && b_stage.load() != 2; ++i) sched_yield();
            // ... and then the call either came back with EINTR or the thread sleeps in it again
            bool again = wait_sleeping(tid);
            if (!again && b_stage.load() == 2) out = (b_res.load() == -1 && b_err.load() == EINTR) ? "eintr" : "odd";
            else if (again) out = "restarted";
        } else out = "undisturbed";
    }
    char c = 'x';
    if (b_stage.load() != 2) { if (r_write(pfd[1], &c, 1) != 1) out = "odd"; }
    th.join();
    if ((out == "restarted" || out == "undisturbed") && b_res.load() != 1) out = "odd";
    r_close(pfd[0]); r_close(pfd[1]);
    return out;
}

// one case, in a process of its own: the signal bookkeeping under test is process-wide, so a defect hit by one
// case (a leaked subscription) must not leak into the next one
static void run_case(const std::vector<std::string> &lines) {
    std::cout << std::unitbuf;   // a sanitizer abort must not swallow the lines already produced
    LogOutput_Disable();
    kSig[0] = SIGKILL; kSig[1] = SIGUSR1; kSig[2] = SIGUSR2; kSig[3] = SIGSTOP; kSig[4] = SIGRTMIN + 1; kSig[5] = SIGRTMIN + 2;
    kSig[6] = SIGRTMAX; kSig[7] = 65; kSig[8] = INT_MAX; kSig[9] = 0; kSig[10] = -3; kSig[11] = 32;
    resolve();
    static char altstk[1 << 16];      // SA_ONSTACK of a user disposition must have somewhere to go (main thread: raise() runs here)
    stack_t ss; memset(&ss, 0, sizeof ss); ss.ss_sp = altstk; ss.ss_size = sizeof altstk; sigaltstack(&ss, nullptr);
    for (int l = 0; l < kNLoop; ++l) workers[l].id = l;
    for (auto &w : workers) w.start();
    make_loops();
    reset_all();
    for (const std::string &line : lines) {
        auto w = vh::words(line);
        if (w.empty()) continue;
        if (w[0] == "case") { reset_all(); std::cout << line << "\n"; continue; }
        size_t l, e, g, f; uint64_t m64 = 0;
        g_sys.clear(); g_cs_bad = false;
        if (lost_flag && w[0] != "raise" && w[0] != "raisew" && w[0] != "burst" && w[0] != "blk") { std::cout << "bad-op\n"; continue; }
        if (w[0] == "eng" && w.size() == 2 && (w[1] == "e" || w[1] == "s")) {
            if (objs.empty()) {   // engine can only be chosen before the first event of the case
                for (int i = 0; i < kNLoop; ++i) { delete loops[i]; loops[i] = nullptr; }
                engine = (w[1] == "e") ? "epoll" : "select";
                make_loops();
            }
            std::cout << "P eng\n";
        } else if (w[0] == "new" && w.size() == 3 && idx(w[1], kNLoop, l)) {
            size_t id = objs.size();
            std::vector<Act> sc;
            if (!parse_script(w[2], sc, id)) { std::cout << "bad-op\n"; continue; }
            SignalEvent *ev = nullptr;
            workers[l].run([&] { ev = loops[l]->newSignalEvent("verif"); });
            objs.push_back(ev); obj_loop.push_back((int)l); scripts.push_back(sc); orphan.push_back(false);
            int li = (int)l;
            ev->setCallback([id, li](int signo) {
                if (std::this_thread::get_id() != workers[li].tid) thr_bad = true;
                cbs.push_back(CbRec{id, sig_index(signo), objs[id] != nullptr && objs[id]->isEnabled()});
                std::vector<Act> sc = scripts[id];
                for (auto &a : sc) apply(a, li);
            });
            std::cout << "P ret=1 " << show() << "\n";
        } else if (w[0] == "cap" && w.size() == 2 && (w[1] == "s" || w[1] == "d")) {
            if (!objs.empty()) { std::cout << "bad-op\n"; continue; }
            g_small = (w[1] == "s");
            std::cout << "P cap\n";
        } else if (w[0] == "lost" && w.size() == 2 && idx(w[1], kNLoop, l)) {
            // ~Loop with subscribed events: what the destructor does to the signal bookkeeping (nothing)
            Loop *lp = loops[l]; loops[l] = nullptr;
            workers[l].run([lp] { delete lp; });
            for (size_t i = 0; i < objs.size(); ++i) if (objs[i] && obj_loop[i] == (int)l) orphan[i] = true;
            lost_flag = true;
            std::cout << "P lost " << show() << "\n";
            std::cout << "M sys=" << show_sys() << "\n";
            std::cout << "M own=" << show_own() << "\n";
        } else if ((w[0] == "init1" || w[0] == "initl" || w[0] == "initd") && w.size() == 4 && idx(w[1], objs.size(), e)) {
            // the int overload (one signal) and the initializer_list overload: both ADD to the event's set
            std::set<int> ss;
            if (!parse_sigs(w[2], ss) || (w[3] != "o" && w[3] != "p") || ((w[0] == "init1" || w[0] == "initd") && ss.size() != 1)) { std::cout << "bad-op\n"; continue; }
            SignalEvent *o = objs[e];
            bool r = false;
            Event::Mode md = w[3] == "o" ? Event::Mode::kOneshot : Event::Mode::kPersist;
            if (o) workers[obj_loop[e]].run([&] {
                if (w[0] == "init1") r = o->initialize(*ss.begin(), md);
                else if (w[0] == "initd") r = o->initialize({*ss.begin(), *ss.begin()}, md);     // the same signal twice
                else if (ss.size() == 1) r = o->initialize({*ss.begin()}, md);
                else if (ss.size() == 2) r = o->initialize({*ss.rbegin(), *ss.begin()}, md);
                else { auto it = ss.begin(); int a = *it++, b = *it++, c = *it; r = o->initialize({b, a, c}, md); }
            });
            if (ss.size() > 3) { std::cout << "bad-op\n"; continue; }
            std::cout << "P ret=" << (r ? 1 : 0) << " " << show() << "\n";
            std::cout << "M sys=" << show_sys() << "\n";
            std::cout << "M own=" << show_own() << "\n";
        } else if (w[0] == "init" && w.size() == 4 && idx(w[1], objs.size(), e)) {
            std::set<int> ss;
            if (!parse_sigs(w[2], ss) || (w[3] != "o" && w[3] != "p")) { std::cout << "bad-op\n"; continue; }
            SignalEvent *o = objs[e];
            bool r = false;
            if (o) workers[obj_loop[e]].run([&] { r = o->initialize(ss, w[3] == "o" ? Event::Mode::kOneshot : Event::Mode::kPersist); });
            std::cout << "P ret=" << (r ? 1 : 0) << " " << show() << "\n";
            std::cout << "M sys=" << show_sys() << "\n";
            std::cout << "M own=" << show_own() << "\n";
        } else if ((w[0] == "en" || w[0] == "enp" || w[0] == "dis" || w[0] == "del") && w.size() == 2 && idx(w[1], objs.size(), e)) {
            SignalEvent *o = objs[e];
            bool r = false;
            if (o) {
                workers[obj_loop[e]].run([&] {
                    if (w[0] == "en") r = o->enable();
                    else if (w[0] == "enp") { g_pfail = (e % 2) ? ENFILE : EMFILE; r = o->enable(); g_pfail = 0; }
                    else if (w[0] == "dis") r = o->disable();
                    else { delete o; r = true; }
                });
                if (w[0] == "del") objs[e] = nullptr;
            }
            std::cout << "P ret=" << (r ? 1 : 0) << " " << show() << "\n";
            std::cout << "M sys=" << show_sys() << "\n";
            std::cout << "M own=" << show_own() << "\n";
        } else if (w[0] == "sa" && w.size() == 5 && idx(w[1], kNSig, g) && w[2].size() >= 1 && idx(w[3], 64, f) && vh::to_u64(w[4], m64)) {
            struct sigaction sa; memset(&sa, 0, sizeof(sa)); sigemptyset(&sa.sa_mask);
            size_t h = 0; bool ok = true;
            if (w[2] == "d") sa.sa_handler = SIG_DFL;
            else if (w[2] == "i") sa.sa_handler = SIG_IGN;
            else if (w[2].size() == 2 && w[2][0] == 'h' && idx(w[2].substr(1), kNH, h)) sa.sa_handler = kH[h];
            else if (w[2].size() == 2 && w[2][0] == 'a' && idx(w[2].substr(1), kNH, h)) { sa.sa_sigaction = kA[h]; sa.sa_flags |= SA_SIGINFO; }
            else ok = false;
            if (!ok) { std::cout << "bad-op\n"; continue; }
            if (f & 1) sa.sa_flags |= SA_RESTART;
            if (f & 2) sa.sa_flags |= SA_NODEFER;
            if (f & 4) sa.sa_flags |= (int)SA_RESETHAND;
            if (f & 8) sa.sa_flags |= SA_ONSTACK;
            if (f & 16) sa.sa_flags |= SA_NOCLDSTOP;
            if (f & 32) sa.sa_flags |= SA_NOCLDWAIT;
            sa.sa_mask.__val[0] = (unsigned long)m64;      // the kernel's 64-bit set, as given (sigaddset refuses 32/33)
            // the user does not replace the library's handler while it is installed (SIGKILL/SIGSTOP: EINVAL)
            bool r = disp_of((int)g)[0] != 'T';
            if (r) r = sigaction(kSig[g], &sa, nullptr) == 0;
            std::cout << "P ret=" << (r ? 1 : 0) << " " << show() << "\n";
        } else if (((w[0] == "raise" && w.size() == 2) || (w[0] == "raisew" && w.size() == 3) || (w[0] == "burst" && w.size() == 3)) && idx(w[1], kNSig, g)) {
            size_t n = 1;
            if (w[0] == "burst" && (!idx(w[2], 40001, n) || n == 0)) { std::cout << "bad-op\n"; continue; }
            if (w[0] == "raisew") {
                bool ok = w[2] == "-" || (!w[2].empty() && w[2].back() != ',');
                std::stringstream ss(w[2]); std::string item; std::set<size_t> fl;
                if (w[2] != "-") while (ok && std::getline(ss, item, ',')) { size_t x; if (!idx(item, kNLoop, x) || fl.count(x)) ok = false; else fl.insert(x); }
                if (!ok) { std::cout << "bad-op\n"; continue; }
                static const int errs[4] = {EAGAIN, EINTR, EIO, EPIPE}; int k = 0;
                for (size_t x : fl) g_wfail[x] = errs[(k++ + g) % 4];
            }
            char k = disp_of((int)g)[0];
            int before = g_ncalls;
            std::string outcome = k == 'd' ? "killed" : (k == 'i' ? "ignored" : "handled");
            std::string wr;
            size_t ncalls = 0;
            for (size_t i = 0; i < n; ++i) {
                g_nwr = 0;
                if (k != 'd') ::raise(kSig[g]);   // default action would terminate the process: not delivered
                if (i == 0 || i + 1 == n) {
                    // the handler's writes of the first and the last delivery, by loop
                    std::string one;
                    for (int l2 = 0; l2 < kNLoop; ++l2)
                        for (int j = 0; j < g_nwr; ++j) if (g_wr_loop[j] == l2) {
                            if (!one.empty()) one += ",";
                            one += "l" + std::to_string(l2) + ":" + (g_wr_res[j] <= -1000 ? "short" : errname(g_wr_res[j]));
                        }
                    if (one.empty()) one = "-";
                    if (i == 0) wr = one; else wr += "/" + one;
                }
                if (w[0] == "burst") { ncalls += (size_t)(g_ncalls - before); g_ncalls = before; }
            }
            for (int l2 = 0; l2 < kNLoop; ++l2) g_wfail[l2] = 0;
            if (w[0] == "burst") {
                std::cout << "P burst " << outcome << " ncalls=" << ncalls << " " << show() << (g_would_block ? " HANDLER-WOULD-BLOCK" : "") << "\n";
                std::cout << "M wr=" << wr << "\n";
                continue;
            }
            int after = g_ncalls;
            std::string calls;
            for (int i = before; i < after; ++i) { if (!calls.empty()) calls += ","; calls += std::to_string(g_call_h[i]) + ":" + std::to_string(sig_index(g_call_g[i])); }
            if (calls.empty()) calls = "-";
            if (after > 200) g_ncalls = 0;
            std::cout << "P raise " << outcome << " calls=" << calls << " " << show() << (g_would_block ? " HANDLER-WOULD-BLOCK" : "") << "\n";
            std::cout << "M wr=" << wr << "\n";
            if (after > before) std::cout << "M env=" << (unsigned long)g_env_seen << ":" << g_env_st << "\n";
            else std::cout << "M env=-\n";
        } else if (w[0] == "blk" && w.size() == 2 && idx(w[1], kNShow, g) && g != 0 && g != 3) {
            // a thread really blocked in read() on an empty (blocking) pipe of its own gets the signal (pthread_kill): EINTR or restart
            // is decided by SA_RESTART of the INSTALLED disposition.  No timing: the main thread waits for the kernel's own report that
            // the thread sleeps (/proc/self/task/<tid>/stat) and for the handler's invocation count.
            char k = disp_of((int)g)[0];
            int before = g_ncalls;
            std::string outcome = k == 'd' ? "killed" : (k == 'i' ? "ignored" : "handled");
            std::string blk = "killed";
            g_nwr = 0;
            if (k != 'd') blk = blocked_call(kSig[g], k == 'i');
            std::string one;
            for (int l2 = 0; l2 < kNLoop; ++l2)
                for (int j = 0; j < g_nwr; ++j) if (g_wr_loop[j] == l2) {
                    if (!one.empty()) one += ",";
                    one += "l" + std::to_string(l2) + ":" + (g_wr_res[j] <= -1000 ? "short" : errname(g_wr_res[j]));
                }
            if (one.empty()) one = "-";
            int after = g_ncalls;
            std::string calls;
            for (int i = before; i < after; ++i) { if (!calls.empty()) calls += ","; calls += std::to_string(g_call_h[i]) + ":" + std::to_string(sig_index(g_call_g[i])); }
            if (calls.empty()) calls = "-";
            if (after > 200) g_ncalls = 0;
            std::cout << "P raise " << outcome << " calls=" << calls << " " << show() << (g_would_block ? " HANDLER-WOULD-BLOCK" : "") << "\n";
            std::cout << "M wr=" << one << "\n";
            if (after > before) std::cout << "M env=" << (unsigned long)g_env_seen << ":" << g_env_st << "\n";
            else std::cout << "M env=-\n";
            std::cout << "M blk=" << blk << "\n";
        } else if (((w[0] == "pass" && w.size() == 2) || (w[0] == "passc" && w.size() == 3)) && idx(w[1], kNLoop, l)) {
            g_rq.clear(); g_rq_pos = 0;
            if (w[0] == "passc") {
                bool ok = !w[2].empty() && w[2].back() != ',';
                std::stringstream ss(w[2]); std::string item;
                while (ok && std::getline(ss, item, ',')) {
                    size_t c;
                    if (item == "x") g_rq.push_back(-1); else if (item == "e") g_rq.push_back(-2);
                    else if (idx(item, 11, c) && c >= 1) g_rq.push_back((int)c); else ok = false;
                }
                if (!ok || g_rq.size() > 64) { g_rq.clear(); std::cout << "bad-op\n"; continue; }
            }
            cbs.clear(); thr_bad = false;
            std::string ord = show_ord();
            workers[l].run([&] {
                loops[l]->runNext([] {}, "verif-nowait");     // keeps getWaitTime()==0: the pass never sleeps
                loops[l]->runLoop(Loop::Mode::kOnce);
            });
            g_rq.clear(); g_rq_pos = 0;
            bool disc = g_cs_bad;
            for (auto &t : g_sys) if (t.find('!') != std::string::npos) disc = true;
            std::cout << "P pass ord=" << ord << " cbs=" << show_cbs() << " thr=" << (thr_bad ? "BAD" : "ok") << " " << show() << (g_would_block ? " LOOP-WOULD-BLOCK" : "") << "\n";
            std::cout << "M cs=" << (disc ? "BAD" : "ok") << "\n";
            std::cout << "M own=" << show_own() << "\n";
        } else {
            std::cout << "bad-op\n";
        }
    }
    reset_all();
    for (int l = 0; l < kNLoop; ++l) { delete loops[l]; loops[l] = nullptr; }
    for (auto &w : workers) w.stop();
}

int main() {
    std::vector<std::vector<std::string>> cases;
    std::string line;
    while (std::getline(std::cin, line)) {
        auto w = vh::words(line);
        if (w.empty()) continue;
        if (w[0] == "case" || cases.empty()) cases.emplace_back();
        cases.back().push_back(line);
    }
    for (auto &c : cases) {
        std::cout.flush(); fflush(stdout);
        pid_t pid = fork();
        if (pid == 0) { run_case(c); std::cout.flush(); fflush(stdout); _exit(0); }
        int st = 0;
        if (pid < 0 || waitpid(pid, &st, 0) < 0) return 3;
        if (WIFSIGNALED(st)) { signal(WTERMSIG(st), SIG_DFL); ::raise(WTERMSIG(st)); return 4; }
        if (WIFEXITED(st) && WEXITSTATUS(st) != 0) return WEXITSTATUS(st);
    }
    return 0;
}
