// C04 harness: real event loops (epoll or select engine, chosen per case by `eng e|s`), each loop owned by
// its own worker thread; every op that touches loop l (new/init/enable/disable/delete of its events, one
// loop pass) is executed ON worker l, hand-shaken with the main thread, so the whole run is sequential and
// deterministic while every loop still lives on its own thread.  Signals are delivered with a real raise()
// on the main thread, one at a time; user handlers are sentinel functions that count their invocations.
// After every op the harness prints isEnabled() of every event and sigaction(sig, nullptr, &cur) of the
// six signals field-wise (handler, SA_SIGINFO, other flags, mask).  Signal ids ascend with the signal numbers:
// 0 SIGKILL, 1 SIGUSR1, 2 SIGUSR2, 3 SIGSTOP, 4 SIGRTMIN+1, 5 SIGRTMIN+2 (0 and 3: sigaction fails, never raised).
// Callbacks run scripts (enable/disable/delete of events of the same loop).  A pass line starts with the order
// in which std::set<SignalSubscribuer*> iterates the events alive at the start of the pass (`ord=`): the model
// takes it as its oracle (trace mode).  Format = lean/Driver/C04.lean.
#include "vh.h"
#include <signal.h>
#include <sys/wait.h>
#include <unistd.h>
#include <string.h>
#include <algorithm>
#include <condition_variable>
#include <functional>
#include <mutex>
#include <set>
#include <thread>
#include <tbox/base/log_output.h>
#include <tbox/event/loop.h>
#include <tbox/event/signal_event.h>
#include <tbox/event/signal_event_impl.h>

using namespace tbox::event;

static const int kNSig = 6, kNLoop = 3, kNH = 3;
static int kSig[kNSig];
static const int kMaskId[4] = {1, 2, 4, 5};   // sa_mask bit b <-> signal id kMaskId[b] (SIGKILL/SIGSTOP cannot be masked)
static int sig_index(int signo) { for (int i = 0; i < kNSig; ++i) if (kSig[i] == signo) return i; return 99; }

// ---- sentinel handlers (async-signal-safe: they only store into a preallocated array)
static volatile sig_atomic_t g_ncalls = 0;
static volatile int g_call_h[256], g_call_g[256];
static void note_call(int h, int signo) { int n = g_ncalls; if (n < 256) { g_call_h[n] = h; g_call_g[n] = signo; g_ncalls = n + 1; } }
template <int K> static void hfn(int signo) { note_call(K, signo); }
template <int K> static void afn(int signo, siginfo_t *, void *) { note_call(K, signo); }
typedef void (*h_t)(int);
typedef void (*a_t)(int, siginfo_t *, void *);
static const h_t kH[kNH] = {hfn<0>, hfn<1>, hfn<2>};
static const a_t kA[kNH] = {afn<0>, afn<1>, afn<2>};

// ---- one worker thread per loop
struct Worker {
    std::thread th; std::mutex m; std::condition_variable cv;
    std::function<void()> job; bool has = false, done = false, quit = false;
    std::thread::id tid;
    void start() {
        th = std::thread([this] {
            std::unique_lock<std::mutex> lk(m);
            tid = std::this_thread::get_id(); done = true; cv.notify_all();
            for (;;) {
                cv.wait(lk, [this] { return has || quit; });
                if (quit) return;
                has = false; auto j = std::move(job); lk.unlock(); j(); lk.lock();
                done = true; cv.notify_all();
            }
        });
        std::unique_lock<std::mutex> lk(m); cv.wait(lk, [this] { return done; }); done = false;
    }
    void run(std::function<void()> f) {
        std::unique_lock<std::mutex> lk(m);
        job = std::move(f); has = true; cv.notify_all();
        cv.wait(lk, [this] { return done; }); done = false;
    }
    void stop() { { std::unique_lock<std::mutex> lk(m); quit = true; cv.notify_all(); } th.join(); }
};
static Worker workers[kNLoop];
static Loop *loops[kNLoop] = {nullptr, nullptr, nullptr};
static std::string engine = "epoll";

struct CbRec { size_t ev; int sig; bool en; };
struct Act { char kind; size_t j; std::set<int> sigs; bool oneshot; };
static std::vector<SignalEvent *> objs;
static std::vector<int> obj_loop;
static std::vector<std::vector<Act>> scripts;
static std::vector<CbRec> cbs;
static bool thr_bad = false;

static std::string disp_of(int g) {
    struct sigaction cur; memset(&cur, 0, sizeof(cur));
    sigaction(kSig[g], nullptr, &cur);
    bool si = (cur.sa_flags & SA_SIGINFO) != 0;
    std::string k = "T";
    void *p = si ? (void *)cur.sa_sigaction : (void *)cur.sa_handler;
    if (cur.sa_handler == SIG_DFL) k = "d";
    else if (cur.sa_handler == SIG_IGN) k = "i";
    else for (int h = 0; h < kNH; ++h) if (p == (void *)kH[h] || p == (void *)kA[h]) k = "h" + std::to_string(h);
    unsigned long f = (unsigned long)cur.sa_flags & ~(unsigned long)SA_SIGINFO & ~0x04000000UL /*SA_RESTORER*/;
    unsigned long enc = 0;
    if (f & SA_RESTART) { enc |= 1; f &= ~(unsigned long)SA_RESTART; }
    if (f & SA_NODEFER) { enc |= 2; f &= ~(unsigned long)SA_NODEFER; }
    std::string fs = std::to_string(enc);
    if (f) { char b[32]; snprintf(b, sizeof b, "+%lx", f); fs += b; }
    unsigned mask = 0; bool other = false;
    for (int sgn = 1; sgn < 65; ++sgn) {
        if (sigismember(&cur.sa_mask, sgn) != 1) continue;
        bool known = false;
        for (int b = 0; b < 4; ++b) if (kSig[kMaskId[b]] == sgn) { mask |= 1u << b; known = true; }
        if (!known) other = true;
    }
    return k + ":" + (si ? "1" : "0") + ":" + fs + ":" + std::to_string(mask) + (other ? "+" : "");
}

static std::string show() {
    std::string s = "en=";
    if (objs.empty()) s += "-";
    for (auto *o : objs) s.push_back(o == nullptr ? 'x' : (o->isEnabled() ? '1' : '0'));
    s += " disp=";
    for (int g = 0; g < kNSig; ++g) { if (g) s += "|"; s += disp_of(g); }
    return s;
}

static void make_loops() { for (int l = 0; l < kNLoop; ++l) loops[l] = Loop::New(engine); }

static void reset_all() {
    for (size_t e = 0; e < objs.size(); ++e)
        if (objs[e]) { SignalEvent *o = objs[e]; workers[obj_loop[e]].run([o] { delete o; }); objs[e] = nullptr; }
    objs.clear(); obj_loop.clear(); scripts.clear(); cbs.clear(); thr_bad = false;
    for (int l = 0; l < kNLoop; ++l) { delete loops[l]; loops[l] = nullptr; }
    for (int g = 0; g < kNSig; ++g) {
        struct sigaction sa; memset(&sa, 0, sizeof(sa)); sa.sa_handler = SIG_DFL; sigemptyset(&sa.sa_mask);
        sigaction(kSig[g], &sa, nullptr);   // fails for SIGKILL/SIGSTOP, which never change anyway
    }
    g_ncalls = 0;
    engine = "epoll";
    make_loops();
}

static bool idx(const std::string &w, uint64_t bound, size_t &out) {
    uint64_t v; if (!vh::to_u64(w, v) || v >= bound) return false; out = v; return true;
}
static bool parse_sigs(const std::string &w, std::set<int> &out) {
    out.clear();
    if (w == "-") return true;
    std::stringstream ss(w); std::string item; long prev = -1;
    if (w.empty() || w.back() == ',') return false;
    while (std::getline(ss, item, ',')) {
        size_t g; if (!idx(item, kNSig, g)) return false;
        if ((long)g <= prev) return false;
        prev = (long)g; out.insert(kSig[g]);
    }
    return true;
}

// the callbacks of one pass in call order
static std::string show_cbs() {
    if (cbs.empty()) return "-";
    std::string s;
    for (size_t i = 0; i < cbs.size(); ++i) {
        if (i) s += ",";
        s += std::to_string(cbs[i].sig) + ":e" + std::to_string(cbs[i].ev) + (cbs[i].en ? "+" : "-");
    }
    return s;
}

// "e1" "d0" "x2" "i0:1.2:o"
static bool parse_script(const std::string &w, std::vector<Act> &out, size_t self) {
    out.clear();
    if (w == "-") return true;
    if (w.empty() || w.back() == ',') return false;
    std::stringstream ss(w); std::string item;
    while (std::getline(ss, item, ',')) {
        if (item.size() < 2) return false;
        Act a; a.kind = item[0]; a.oneshot = false;
        uint64_t j;
        if (a.kind == 'i') {
            size_t p1 = item.find(':'), p2 = item.rfind(':');
            if (p1 == std::string::npos || p2 == p1) return false;
            if (!vh::to_u64(item.substr(1, p1 - 1), j) || j >= 64) return false;
            std::string sg = item.substr(p1 + 1, p2 - p1 - 1), m = item.substr(p2 + 1);
            if (m != "o" && m != "p") return false;
            a.oneshot = (m == "o");
            if (sg != "-") {
                if (sg.empty() || sg.back() == '.') return false;
                std::stringstream s2(sg); std::string t; long prev = -1;
                while (std::getline(s2, t, '.')) {
                    uint64_t g; if (!vh::to_u64(t, g) || g >= (uint64_t)kNSig || (long)g <= prev) return false;
                    prev = (long)g; a.sigs.insert(kSig[g]);
                }
            }
        } else {
            if (a.kind != 'e' && a.kind != 'd' && a.kind != 'x') return false;
            if (!vh::to_u64(item.substr(1), j) || j >= 64) return false;
            if (a.kind == 'x' && j == self) return false;   // deleting oneself inside one's own callback is outside the property
        }
        a.j = (size_t)j;
        out.push_back(a);
    }
    return true;
}

// one script action, executed inside a callback on loop li's thread: only events of that loop
static void apply(const Act &a, int li) {
    if (a.j >= objs.size() || objs[a.j] == nullptr || obj_loop[a.j] != li) return;
    SignalEvent *t = objs[a.j];
    switch (a.kind) {
        case 'e': t->enable(); break;
        case 'd': t->disable(); break;
        case 'x': delete t; objs[a.j] = nullptr; break;
        case 'i': t->initialize(a.sigs, a.oneshot ? Event::Mode::kOneshot : Event::Mode::kPersist); break;
    }
}

// iteration order of std::set<SignalSubscribuer*> over the events that are alive now
static std::string show_ord() {
    std::vector<std::pair<uintptr_t, size_t>> v;
    for (size_t e = 0; e < objs.size(); ++e)
        if (objs[e]) v.push_back({(uintptr_t) static_cast<SignalSubscribuer *>(static_cast<SignalEventImpl *>(objs[e])), e});
    std::sort(v.begin(), v.end());
    std::string s;
    for (auto &p : v) { if (!s.empty()) s += ","; s += "e" + std::to_string(p.second); }
    return s.empty() ? "-" : s;
}

// one case, in a process of its own: the signal bookkeeping under test is process-wide, so a defect hit by one
// case (a leaked subscription) must not leak into the next one
static void run_case(const std::vector<std::string> &lines) {
    std::cout << std::unitbuf;   // a sanitizer abort must not swallow the lines already produced
    LogOutput_Disable();
    kSig[0] = SIGKILL; kSig[1] = SIGUSR1; kSig[2] = SIGUSR2; kSig[3] = SIGSTOP; kSig[4] = SIGRTMIN + 1; kSig[5] = SIGRTMIN + 2;
    for (auto &w : workers) w.start();
    make_loops();
    reset_all();
    for (const std::string &line : lines) {
        auto w = vh::words(line);
        if (w.empty()) continue;
        if (w[0] == "case") { reset_all(); std::cout << line << "\n"; continue; }
        size_t l, e, g, f, m;
        if (w[0] == "eng" && w.size() == 2 && (w[1] == "e" || w[1] == "s")) {
            if (objs.empty()) {   // engine can only be chosen before the first event of the case
                for (int i = 0; i < kNLoop; ++i) { delete loops[i]; loops[i] = nullptr; }
                engine = (w[1] == "e") ? "epoll" : "select";
                make_loops();
            }
            std::cout << "P eng\n";
        } else if (w[0] == "new" && w.size() == 3 && idx(w[1], kNLoop, l)) {
            size_t id = objs.size();
            std::vector<Act> sc;
            if (!parse_script(w[2], sc, id)) { std::cout << "bad-op\n"; continue; }
            SignalEvent *ev = nullptr;
            workers[l].run([&] { ev = loops[l]->newSignalEvent("verif"); });
            objs.push_back(ev); obj_loop.push_back((int)l); scripts.push_back(sc);
            int li = (int)l;
            ev->setCallback([id, li](int signo) {
                if (std::this_thread::get_id() != workers[li].tid) thr_bad = true;
                cbs.push_back(CbRec{id, sig_index(signo), objs[id] != nullptr && objs[id]->isEnabled()});
                std::vector<Act> sc = scripts[id];
                for (auto &a : sc) apply(a, li);
            });
            std::cout << "P ret=1 " << show() << "\n";
        } else if (w[0] == "init" && w.size() == 4 && idx(w[1], objs.size(), e)) {
            std::set<int> ss;
            if (!parse_sigs(w[2], ss) || (w[3] != "o" && w[3] != "p")) { std::cout << "bad-op\n"; continue; }
            SignalEvent *o = objs[e];
            bool r = false;
            if (o) workers[obj_loop[e]].run([&] { r = o->initialize(ss, w[3] == "o" ? Event::Mode::kOneshot : Event::Mode::kPersist); });
            std::cout << "P ret=" << (r ? 1 : 0) << " " << show() << "\n";
        } else if ((w[0] == "en" || w[0] == "dis" || w[0] == "del") && w.size() == 2 && idx(w[1], objs.size(), e)) {
            SignalEvent *o = objs[e];
            bool r = false;
            if (o) {
                workers[obj_loop[e]].run([&] {
                    if (w[0] == "en") r = o->enable();
                    else if (w[0] == "dis") r = o->disable();
                    else { delete o; r = true; }
                });
                if (w[0] == "del") objs[e] = nullptr;
            }
            std::cout << "P ret=" << (r ? 1 : 0) << " " << show() << "\n";
        } else if (w[0] == "sa" && w.size() == 5 && idx(w[1], kNSig, g) && w[2].size() >= 1 && idx(w[3], 4, f) && idx(w[4], 16, m)) {
            struct sigaction sa; memset(&sa, 0, sizeof(sa)); sigemptyset(&sa.sa_mask);
            size_t h = 0; bool ok = true;
            if (w[2] == "d") sa.sa_handler = SIG_DFL;
            else if (w[2] == "i") sa.sa_handler = SIG_IGN;
            else if (w[2].size() == 2 && w[2][0] == 'h' && idx(w[2].substr(1), kNH, h)) sa.sa_handler = kH[h];
            else if (w[2].size() == 2 && w[2][0] == 'a' && idx(w[2].substr(1), kNH, h)) { sa.sa_sigaction = kA[h]; sa.sa_flags |= SA_SIGINFO; }
            else ok = false;
            if (!ok) { std::cout << "bad-op\n"; continue; }
            if (f & 1) sa.sa_flags |= SA_RESTART;
            if (f & 2) sa.sa_flags |= SA_NODEFER;
            for (int b = 0; b < 4; ++b) if (m & (1u << b)) sigaddset(&sa.sa_mask, kSig[kMaskId[b]]);
            // the user does not replace the library's handler while it is installed (SIGKILL/SIGSTOP: EINVAL)
            bool r = disp_of((int)g)[0] != 'T';
            if (r) r = sigaction(kSig[g], &sa, nullptr) == 0;
            std::cout << "P ret=" << (r ? 1 : 0) << " " << show() << "\n";
        } else if (w[0] == "raise" && w.size() == 2 && idx(w[1], kNSig, g)) {
            char k = disp_of((int)g)[0];
            int before = g_ncalls;
            std::string outcome = k == 'd' ? "killed" : (k == 'i' ? "ignored" : "handled");
            if (k != 'd') ::raise(kSig[g]);   // default action would terminate the process: not delivered
            int after = g_ncalls;
            std::string calls;
            for (int i = before; i < after; ++i) { if (!calls.empty()) calls += ","; calls += std::to_string(g_call_h[i]) + ":" + std::to_string(sig_index(g_call_g[i])); }
            if (calls.empty()) calls = "-";
            if (after > 200) g_ncalls = 0;
            std::cout << "P raise " << outcome << " calls=" << calls << " " << show() << "\n";
        } else if (w[0] == "pass" && w.size() == 2 && idx(w[1], kNLoop, l)) {
            cbs.clear(); thr_bad = false;
            std::string ord = show_ord();
            workers[l].run([&] {
                loops[l]->runNext([] {}, "verif-nowait");     // keeps getWaitTime()==0: the pass never sleeps
                loops[l]->runLoop(Loop::Mode::kOnce);
            });
            std::cout << "P pass ord=" << ord << " cbs=" << show_cbs() << " thr=" << (thr_bad ? "BAD" : "ok") << " " << show() << "\n";
        } else {
            std::cout << "bad-op\n";
        }
    }
    reset_all();
    for (int l = 0; l < kNLoop; ++l) { delete loops[l]; loops[l] = nullptr; }
    for (auto &w : workers) w.stop();
}

int main() {
    std::vector<std::vector<std::string>> cases;
    std::string line;
    while (std::getline(std::cin, line)) {
        auto w = vh::words(line);
        if (w.empty()) continue;
        if (w[0] == "case" || cases.empty()) cases.emplace_back();
        cases.back().push_back(line);
    }
    for (auto &c : cases) {
        std::cout.flush(); fflush(stdout);
        pid_t pid = fork();
        if (pid == 0) { run_case(c); std::cout.flush(); fflush(stdout); _exit(0); }
        int st = 0;
        if (pid < 0 || waitpid(pid, &st, 0) < 0) return 3;
        if (WIFSIGNALED(st)) { signal(WTERMSIG(st), SIG_DFL); ::raise(WTERMSIG(st)); return 4; }
        if (WIFEXITED(st) && WEXITSTATUS(st) != 0) return WEXITSTATUS(st);
    }
    return 0;
}
