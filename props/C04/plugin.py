"""C04 — signal events reach every subscriber; the old disposition is restored (event loop signal machinery)."""
import itertools
import vlib
ID = 'C04'
LEAN_MODULES = ['TboxModel.C04.Props']
EXE = 'c04'
MODE = 'trace'
THEOREMS = ['Tbox.C04.C04_every_subscriber_once', 'Tbox.C04.C04_chain_old_handler', 'Tbox.C04.C04_oneshot_at_most_once',
            'Tbox.C04.C04_disposition_restored', 'Tbox.C04.C04_installed_while_subscribed', 'Tbox.C04.C04_ctx_matches',
            'Tbox.C04.C04_callbacks_legit', 'Tbox.C04.C04_no_callback_on_disabled_or_destroyed', 'Tbox.C04.C04_pass_drains',
            'Tbox.C04.C04_reinit_while_enabled_counterexample', 'Tbox.C04.C04_enable_fails_midway_counterexample',
            'Tbox.C04.C04_callback_on_destroyed_counterexample', 'Tbox.C04.C04_reachable_inv',
            'Tbox.C04.exec_inv', 'Tbox.C04.baseDisp_exec', 'Tbox.C04.cbCount_passes']
SOURCES = vlib.EVENT_SOURCES + vlib.BASE_SOURCES
FLAVOUR = 'asan'
BATCH = 200
TRUSTED = ['model lean/TboxModel/C04/Model.lean hand-written from common_loop_signal.cpp + signal_event_impl.cpp AS REPAIRED by patches/C04-01..03 '
           '(the code as found is kept behind switches and used only by the three _counterexample theorems); tied by a trace acceptor: '
           'after every op isEnabled() of every event and sigaction(sig,nullptr,&cur) of the six signals (handler, SA_SIGINFO, flags, mask), '
           'per raise the sentinel-handler invocations, per loop pass the callbacks in call order (signal, event, isEnabled() inside the callback, thread)',
           'the only thing the model takes from the implementation is the order in which std::set<SignalSubscribuer*> walks the events (`ord=` of a pass line); '
           'the theorems hold for every such order',
           'Linux signal delivery: raise() runs the installed handler synchronously on the calling thread; sigaction/pipe semantics; sigaction fails exactly for SIGKILL/SIGSTOP',
           'a write fd of a loop\'s signal pipe is identified with the loop (fds of open pipes are distinct)',
           'each case runs in a forked child of the harness: the bookkeeping under test is process-wide']
ASSUMPTIONS = ['signals SIGKILL, SIGUSR1, SIGUSR2, SIGSTOP, SIGRTMIN+1, SIGRTMIN+2 (ids 0..5)',
               'initialize() is given a std::set (the int / initializer_list overloads, which accumulate into the set, are not exercised)',
               'the user does not call sigaction() on a signal while tbox\'s handler is installed for it, and never combines SIG_IGN with SA_SIGINFO',
               'fewer than 16384 undelivered signals per loop (pipe capacity)', 'signals are raised one at a time, not concurrently with a subscription change',
               'a callback changes only events of its own loop (its own thread) and does not delete the event it belongs to',
               'C04_every_subscriber_once (exactly once) assumes the callbacks of the subscribers of that signal do not change subscriptions; '
               'with such callbacks C04_no_callback_on_disabled_or_destroyed / C04_callbacks_legit say who may be called']
RULE = ('op sequences (new/init/enable/disable/delete of signal events on 1-3 loops each owned by its own thread, callback scripts that '
        'enable/disable/delete sibling events, re-initialisation of enabled events, signal sets containing SIGKILL/SIGSTOP, user sigaction, real raise(), '
        'single loop passes, both engines) from props/C04/plugin.py; non-trivial = the model run restores at least one saved disposition AND some '
        'pass delivers at least one callback (driver tags restore + pass-cb1/pass-cbN); distinct = distinct op text')

VALID = [1, 2, 4, 5]      # SIGUSR1, SIGUSR2, SIGRTMIN+1, SIGRTMIN+2   (0 = SIGKILL, 3 = SIGSTOP: sigaction fails)


def sigset(rng, pool, bad=0.0):
    k = rng.choice([1, 1, 1, 2, 2, 3])
    s = set(rng.sample(pool, min(k, len(pool))))
    if rng.random() < bad:
        s.add(rng.choice([0, 3]))
    return ','.join(map(str, sorted(s)))


def rand_sa(rng, g):
    k = rng.choice(['d', 'i', 'h0', 'h1', 'h2', 'a0', 'a1', 'a2', 'h0', 'a1'])
    return 'sa %d %s %d %d' % (g, k, rng.randrange(4), rng.choice([0, 0, 1, 5, 10, 15]))


def script(rng, self, n, p=0.35):
    """callback body: enable/disable/delete of other events (never delete oneself)"""
    if rng.random() >= p:
        return '-'
    acts = []
    for _ in range(rng.choice([1, 1, 2, 3])):
        j = self if rng.random() < 0.3 else rng.randrange(max(n, 1))      # re-entrant use: act on oneself
        k = rng.choice('eeddddxxi')
        if k == 'x' and j == self:
            k = 'd'
        if k == 'i':
            sg = sorted(rng.sample(VALID, rng.choice([1, 1, 2])))
            acts.append('i%d:%s:%s' % (j, '.'.join(map(str, sg)), rng.choice('op')))
            if rng.random() < 0.7:
                acts.append('e%d' % j)
        else:
            acts.append('%s%d' % (k, j))
    return ','.join(acts)


def gen_self_scripts():
    """directed: the callback of event 0 acts on event 0 itself (re-arms, re-initialises), one-shot and persistent,
    alone / with another event on the same signal / with another event on another signal of the same loop"""
    scripts = ['e0', 'e0,d0', 'd0,e0', 'd0', 'e0,d0,e0', 'i0:2:o,e0', 'i0:2:p,e0', 'i0:1.2:o,e0', 'i0:1:p,e0', 'i0:2:o', 'i0:4:p,e0,d0']
    for mode in 'op':
        for sc in scripts:
            for ctx in range(3):
                ops = ['eng e', 'sa 1 h0 1 2', 'sa 2 a1 2 1', 'sa 4 i 0 0', 'new 0 ' + sc]
                if ctx: ops.append('new 0 -')
                ops.append('init 0 1 ' + mode)
                if ctx == 1: ops.append('init 1 1 p')
                if ctx == 2: ops.append('init 1 2 p')
                ops.append('en 0')
                if ctx: ops.append('en 1')
                ops += ['raise 1', 'pass 0', 'raise 1', 'raise 2', 'pass 0', 'raise 2', 'raise 4', 'pass 0', 'dis 0']
                if ctx: ops.append('dis 1')
                ops += ['raise 1', 'raise 2', 'raise 4', 'pass 0']
                yield ops


def gen_case(rng, nops, scripts=0.35, bad=0.08):
    ops = ['eng ' + rng.choice('es')]
    nl = rng.choice([1, 2, 2, 3, 3])
    pool = sorted(rng.sample(VALID, rng.choice([1, 2, 2, 3, 4])))   # few signals => much sharing
    for g in pool:
        if rng.random() < 0.7:
            ops.append(rand_sa(rng, g))
    nev = rng.choice([1, 2, 3, 4, 6, 8])
    n = 0
    for _ in range(nev):
        ops.append('new %d %s' % (rng.randrange(nl), script(rng, n, nev, scripts)))
        if rng.random() < 0.93:
            ops.append('init %d %s %s' % (n, sigset(rng, pool, bad), rng.choice('oppp')))
        if rng.random() < 0.8:
            ops.append('en %d' % n)
        n += 1
    for _ in range(nops):
        r = rng.random()
        e = rng.randrange(n)
        if r < 0.20: ops.append('en %d' % e)
        elif r < 0.38: ops.append('dis %d' % e)
        elif r < 0.60: ops.append('raise %d' % (rng.choice(pool) if rng.random() < 0.9 else rng.randrange(6)))
        elif r < 0.80: ops.append('pass %d' % (rng.randrange(nl) if rng.random() < 0.95 else rng.randrange(3)))
        elif r < 0.84: ops.append('del %d' % e)
        elif r < 0.93:   # re-initialise, enabled or not
            ops.append('init %d %s %s' % (e, sigset(rng, pool, bad) if rng.random() < 0.9 else '-', rng.choice('op')))
        elif r < 0.97 and n < 12:
            ops.append('new %d %s' % (rng.randrange(nl), script(rng, n, n + 1, scripts)))
            ops.append('init %d %s %s' % (n, sigset(rng, pool, bad), rng.choice('op'))); n += 1
        else: ops.append(rand_sa(rng, rng.choice(pool) if rng.random() < 0.9 else rng.choice([0, 3])))
    # wind down: every subscription ends (disable or destroy), in random order; dispositions must be the saved ones
    order = list(range(n)); rng.shuffle(order)
    for e in order:
        ops.append(('dis %d' if rng.random() < 0.6 else 'del %d') % e)
    for g in pool:
        ops.append('raise %d' % g)
    for l in range(nl):
        ops.append('pass %d' % l)
    return ops


def gen_dispatch(rng):
    """one loop, one signal, 2-6 subscribers whose callbacks disable/delete/enable each other; several deliveries"""
    ops = ['eng ' + rng.choice('es'), 'sa 1 h0 0 0']
    n = rng.choice([2, 3, 4, 6])
    for e in range(n):
        ops += ['new 0 %s' % script(rng, e, n, 0.7), 'init %d %s %s' % (e, rng.choice(['1', '1', '1,2']), rng.choice('oppp')), 'en %d' % e]
    for _ in range(rng.choice([2, 4, 8])):
        ops += ['raise %d' % rng.choice([1, 1, 2])] * rng.choice([1, 1, 2]) + ['pass 0']
        if rng.random() < 0.5:
            ops.append('en %d' % rng.randrange(n))
    for e in range(n):
        ops.append('dis %d' % e)
    ops += ['raise 1', 'pass 0']
    return ops


def gen_long_history(rng):
    """one signal, several events on several loops, very long subscribe/unsubscribe history with raises in between"""
    ops = ['eng ' + rng.choice('es'), rand_sa(rng, 1).replace(' d ', ' h0 ').replace(' i ', ' a2 ')]
    nl = rng.choice([2, 3])
    n = rng.choice([3, 5, 7])
    for e in range(n):
        ops += ['new %d -' % (e % nl), 'init %d %s %s' % (e, rng.choice(['1', '1', '1,2']), rng.choice('oppp'))]
    for _ in range(rng.choice([60, 150, 300])):
        e = rng.randrange(n)
        ops.append(rng.choice(['en %d' % e, 'dis %d' % e, 'dis %d' % e, 'raise 1', 'raise 1', 'pass %d' % rng.randrange(nl)]))
    for e in range(n):
        ops.append('dis %d' % e)
    ops += ['raise 1'] + ['pass %d' % l for l in range(nl)]
    return ops


DIRECTED = [
    # malformed stream: both sides must answer bad-op (or refuse) identically
    ['eng x', 'new 3 -', 'new 0 -', 'init 0 4 p', 'init 0 2,1 p', 'init 0 1,1 p', 'init 0 0, p', 'init 0 1 q', 'en 1', 'sa 1 h3 0 0', 'sa 4 d 0 0',
     'sa 1 h0 4 0', 'sa 1 h0 0 16', 'raise 4', 'pass 3', 'frob', 'init 0 1 p', 'en 0', 'init 0 2 p', 'del 0', 'en 0', 'dis 0', 'init 0 1 p'],
    # two loops share one signal; one leaves, raise, the other leaves: restored field-wise (handler + flags + mask)
    ['eng e', 'sa 1 h1 3 10', 'new 0 -', 'new 1 -', 'init 0 1 p', 'init 1 1 p', 'en 0', 'en 1', 'raise 1', 'pass 0', 'pass 1', 'dis 0', 'raise 1',
     'pass 0', 'pass 1', 'dis 1', 'raise 1', 'pass 0', 'pass 1'],
    # sa_sigaction-style old handler is chained exactly once; restored with SA_SIGINFO
    ['eng s', 'sa 2 a2 1 5', 'new 0 -', 'init 0 2 p', 'en 0', 'raise 2', 'raise 2', 'pass 0', 'del 0', 'raise 2'],
    # one-shot on two signals, both pending in the pipe: fires once, pipe closed inside the pass
    ['eng e', 'new 0 -', 'init 0 1,2 o', 'en 0', 'raise 1', 'raise 2', 'pass 0', 'raise 1', 'en 0', 'raise 2', 'pass 0', 'pass 0'],
    # stale pipe content: raise, disable, (other signal keeps the pipe open), re-enable, pass
    ['eng e', 'sa 1 i 0 0', 'new 0 -', 'new 0 -', 'init 0 1 p', 'init 1 2 p', 'en 0', 'en 1', 'raise 1', 'dis 0', 'pass 0', 'raise 1', 'en 0',
     'raise 1', 'dis 0', 'en 0', 'pass 0', 'dis 0', 'dis 1', 'raise 1'],
    # more than 10 pending numbers (read chunk of CommonLoop::onSignal), one-shot in the middle
    ['eng e', 'new 0 -', 'new 0 -', 'init 0 1 p', 'init 1 1 o', 'en 0', 'en 1'] + ['raise 1'] * 23 + ['pass 0', 'pass 0', 'dis 0', 'sa 1 d 0 0'],
    # enable of an uninitialised event, enable twice, disable twice, destroy enabled
    ['eng s', 'sa 4 h0 2 0', 'new 1 -', 'en 0', 'dis 0', 'init 0 4,5 p', 'en 0', 'en 0', 'raise 4', 'pass 1', 'dis 0', 'dis 0', 'en 0', 'del 0', 'raise 4'],
    # three loops, disposition ignored before: chain does nothing, all three get the callback, restore to SIG_IGN
    # (C04-01) initialize() on an enabled event: old signal unsubscribed, new signal's sigaction untouched, no dangling subscriber
    ['eng e', 'sa 2 h1 1 0', 'new 0 -', 'init 0 1 p', 'en 0', 'init 0 2 p', 'del 0', 'raise 2', 'new 0 -', 'init 1 1 p', 'en 1', 'raise 1', 'pass 0', 'dis 1'],
    # (C04-02) enable() with SIGSTOP in the set: fails, nothing stays subscribed; SIGKILL first: fails at once
    ['eng e', 'sa 1 h2 0 0', 'new 0 -', 'init 0 1,3,4 p', 'en 0', 'raise 1', 'pass 0', 'del 0', 'raise 1', 'new 0 -', 'init 1 0,1 p', 'en 1', 'sa 0 i 0 0', 'sa 3 h0 0 0', 'raise 0', 'raise 3'],
    # (C04-03) a callback disables / deletes a later subscriber of the same delivery, both directions
    ['eng e', 'sa 1 i 0 0', 'new 0 d1', 'new 0 d0', 'init 0 1 p', 'init 1 1 p', 'en 0', 'en 1', 'raise 1', 'pass 0', 'en 0', 'en 1', 'raise 1', 'pass 0'],
    ['eng s', 'sa 1 i 0 0', 'new 0 x1', 'new 0 x0', 'new 0 e0,e1', 'init 0 1 p', 'init 1 1 p', 'init 2 1 p', 'en 0', 'en 1', 'en 2', 'raise 1', 'pass 0', 'raise 1', 'pass 0'],
    # a callback closes the pipe (last subscriber disabled) with more numbers pending, a later one reopens it
    ['eng e', 'sa 1 i 0 0', 'new 0 d0,d1', 'new 0 -', 'init 0 1 p', 'init 1 2 p', 'en 0', 'en 1'] + ['raise 1', 'raise 2'] * 8 + ['pass 0', 'en 1', 'raise 2', 'pass 0', 'dis 1'],
    ['eng e', 'sa 5 i 1 0', 'new 0 -', 'new 1 -', 'new 2 -', 'init 0 5 p', 'init 1 5 o', 'init 2 5 p', 'en 0', 'en 1', 'en 2', 'raise 5', 'pass 2', 'pass 1',
     'pass 0', 'raise 5', 'pass 0', 'pass 1', 'pass 2', 'del 2', 'del 0', 'raise 5'],
]


def gen(rng, tier):
    n = 350 if tier == 'quick' else 5000
    for d in DIRECTED:
        yield d
    for ops in gen_self_scripts():
        yield ops
    if tier == 'thorough':
        # exhaustive: every op sequence of length <= 4 over a small alphabet (2 loops, one shared signal, one-shot + persistent,
        # a callback that deletes a sibling)
        alpha = ['en 0', 'dis 0', 'en 1', 'dis 1', 'raise 1', 'pass 0', 'pass 1', 'del 1', 'en 2']
        for L in range(1, 5):
            for seq in itertools.product(alpha, repeat=L):
                yield ['eng e', 'sa 1 a1 1 2', 'new 0 -', 'new 1 x2', 'new 1 d1', 'init 0 1 p', 'init 1 1,2 o', 'init 2 1 p'] + list(seq) + \
                      ['raise 1', 'pass 0', 'pass 1', 'dis 0', 'dis 1', 'dis 2', 'raise 1']
    for _ in range(n):
        yield gen_case(rng, rng.choice([6, 12, 25, 50]))
    for _ in range(n // 3):
        yield gen_dispatch(rng)
    for _ in range(n // 10):
        yield gen_long_history(rng)


def fingerprint(ops, d):
    """class of the shrunk failing history (one fingerprint per defect class, so each is reported once)"""
    import hashlib
    inits = [o.split() for o in ops if o.startswith('init ')]
    scripted = any(o.startswith('new ') and not o.endswith(' -') for o in ops)
    bad_sig = any(set(w[2].split(',')) & {'0', '3'} for w in inits if len(w) == 4)
    msg = (d[1] if d else '')
    news = [o.split() for o in ops if o.startswith('new ')]
    import re as _re
    reentrant = any(len(w) == 3 and str(i) in _re.findall(r'[edxi](\d+)', w[2]) for i, w in enumerate(news))
    if reentrant and ('pass' in msg or 'CRASH' in msg): return 'reentrant-callback'
    if scripted and ('pass' in msg or 'CRASH' in msg): return 'callback-on-stale-subscriber'
    if bad_sig: return 'enable-fails-midway'
    seen, en = set(), set()
    for o in ops:
        w = o.split()
        if w[0] == 'en' and len(w) == 2: en.add(w[1])
        if w[0] in ('dis', 'del') and len(w) == 2: en.discard(w[1])
        if w[0] == 'init' and len(w) == 4 and w[1] in en: return 'initialize-on-enabled-event'
    return hashlib.sha1(' '.join(o.split()[0] for o in ops).encode()).hexdigest()[:12]


def nontrivial(ops, model_lines):
    tags = ' '.join(l for l in model_lines if l.startswith('B '))
    return 1 if ('restore' in tags and ('pass-cb1' in tags or 'pass-cbN' in tags)) else None


LEVEL_TEXT = ('Lean 4 theorems over a model of the process-wide signal bookkeeping (subscribeSignal incl. its failure path/unsubscribeSignal/'
              'SignalHandlerFunc/onSignal incl. read chunks + SignalEventImpl with callback scripts): an inductive invariant over every op list '
              '(any signals, events, loops, scripts, walking orders) yields ctx<->per-loop-map<->event consistency, handler installed exactly while '
              'someone is subscribed, saved disposition restored, old handler chained once, no callback on a disabled or destroyed event, every '
              'subscriber called exactly once on its own loop, one-shot at most once, termination of the read loop; tied to the real code on every '
              'run by a trace acceptor (real sigaction/raise, loops on their own threads, both engines, ASan+UBSan build of the working tree)')
LEVEL_NOTE = ('trusted: Lean kernel, hand-written model + trace-acceptor tie (coverage bounded by the generator, measured), kernel signal semantics; '
              'not covered: concurrent delivery vs subscription change, async-signal-safety of the handler\'s std::map access, pipe overflow, '
              'callbacks acting on another loop\'s events')
TECHNIQUE = 'Lean 4 invariant proof over all op lists of a signal-bookkeeping model + model/implementation correspondence check'
DESIGN_REF = 'DESIGN.md §6 C04'
