"""C04 — signal events reach every subscriber; the old disposition is restored (event loop signal machinery)."""
import itertools
import vlib
ID = 'C04'
LEAN_MODULES = ['TboxModel.C04.Props']
EXE = 'c04'
THEOREMS = ['Tbox.C04.C04_every_subscriber_once', 'Tbox.C04.C04_chain_old_handler', 'Tbox.C04.C04_oneshot_at_most_once',
            'Tbox.C04.C04_disposition_restored', 'Tbox.C04.C04_installed_while_subscribed', 'Tbox.C04.C04_ctx_matches',
            'Tbox.C04.C04_callbacks_legit', 'Tbox.C04.C04_reinit_while_enabled_counterexample', 'Tbox.C04.C04_reachable_inv',
            'Tbox.C04.exec_inv', 'Tbox.C04.baseDisp_exec', 'Tbox.C04.cbCount_passes']
SOURCES = vlib.EVENT_SOURCES + vlib.BASE_SOURCES
FLAVOUR = 'asan'
BATCH = 200
TRUSTED = ['model lean/TboxModel/C04/Model.lean hand-written from common_loop_signal.cpp + signal_event_impl.cpp; tied by differential runs: '
           'after every op isEnabled() of every event and sigaction(sig,nullptr,&cur) of the four signals (handler, SA_SIGINFO, flags, mask), '
           'per raise the sentinel-handler invocations, per loop pass the callbacks (signal, event, isEnabled() inside the callback, thread)',
           'Linux signal delivery: raise() runs the installed handler synchronously on the calling thread; sigaction/pipe semantics',
           'a write fd of a loop\'s signal pipe is identified with the loop (fds of open pipes are distinct)']
ASSUMPTIONS = ['signals SIGUSR1, SIGUSR2, SIGRTMIN+1, SIGRTMIN+2 only (sigaction never fails; the EINVAL branch of subscribeSignal is not modelled)',
               'initialize() is given a std::set and is not called on an enabled event (outside the property\'s op alphabet; the code has no guard — '
               'see C04_reinit_while_enabled_counterexample)',
               'the user does not call sigaction() on a signal while tbox\'s handler is installed for it, and never combines SIG_IGN with SA_SIGINFO',
               'fewer than 16384 undelivered signals per loop (pipe capacity)', 'signals are raised one at a time, not concurrently with a subscription change',
               'callbacks do not change subscriptions (the property quantifies over enable/disable/destroy issued between deliveries)']
RULE = ('op sequences (new/init/enable/disable/delete of signal events on 1-3 loops each owned by its own thread, user sigaction, real raise(), '
        'single loop passes, both engines) from props/C04/plugin.py; non-trivial = the model run restores at least one saved disposition AND some '
        'pass delivers at least one callback (driver tags restore + pass-cb1/pass-cbN); distinct = distinct op text')


def sigset(rng, pool):
    k = rng.choice([1, 1, 1, 2, 2, 3])
    s = sorted(rng.sample(pool, min(k, len(pool))))
    return ','.join(map(str, s))


def rand_sa(rng, g):
    k = rng.choice(['d', 'i', 'h0', 'h1', 'h2', 'a0', 'a1', 'a2', 'h0', 'a1'])
    return 'sa %d %s %d %d' % (g, k, rng.randrange(4), rng.choice([0, 0, 1, 5, 10, 15]))


def gen_case(rng, nops):
    ops = ['eng ' + rng.choice('es')]
    nl = rng.choice([1, 2, 2, 3, 3])
    pool = sorted(rng.sample(range(4), rng.choice([1, 2, 2, 3, 4])))   # few signals => much sharing
    for g in pool:
        if rng.random() < 0.7:
            ops.append(rand_sa(rng, g))
    nev = rng.choice([1, 2, 3, 4, 6, 8])
    n = 0
    for _ in range(nev):
        ops.append('new %d' % rng.randrange(nl))
        if rng.random() < 0.93:
            ops.append('init %d %s %s' % (n, sigset(rng, pool), rng.choice('oppp')))
        if rng.random() < 0.8:
            ops.append('en %d' % n)
        n += 1
    for _ in range(nops):
        r = rng.random()
        e = rng.randrange(n)
        if r < 0.20: ops.append('en %d' % e)
        elif r < 0.38: ops.append('dis %d' % e)
        elif r < 0.60: ops.append('raise %d' % (rng.choice(pool) if rng.random() < 0.9 else rng.randrange(4)))
        elif r < 0.80: ops.append('pass %d' % (rng.randrange(nl) if rng.random() < 0.95 else rng.randrange(3)))
        elif r < 0.84: ops.append('del %d' % e)
        elif r < 0.90:
            ops.append('dis %d' % e)
            ops.append('init %d %s %s' % (e, sigset(rng, pool) if rng.random() < 0.9 else '-', rng.choice('op')))
        elif r < 0.93: ops.append('init %d %s %s' % (e, sigset(rng, pool), rng.choice('op')))   # often on an enabled event: refused
        elif r < 0.97 and n < 12:
            ops.append('new %d' % rng.randrange(nl)); ops.append('init %d %s %s' % (n, sigset(rng, pool), rng.choice('op'))); n += 1
        else: ops.append(rand_sa(rng, rng.choice(pool)))
    # wind down: every subscription ends (disable or destroy), in random order; dispositions must be the saved ones
    order = list(range(n)); rng.shuffle(order)
    for e in order:
        ops.append(('dis %d' if rng.random() < 0.6 else 'del %d') % e)
    for g in pool:
        ops.append('raise %d' % g)
    for l in range(nl):
        ops.append('pass %d' % l)
    return ops


def gen_long_history(rng):
    """one signal, several events on several loops, very long subscribe/unsubscribe history with raises in between"""
    ops = ['eng ' + rng.choice('es'), rand_sa(rng, 0).replace(' d ', ' h0 ').replace(' i ', ' a2 ')]
    nl = rng.choice([2, 3])
    n = rng.choice([3, 5, 7])
    for e in range(n):
        ops += ['new %d' % (e % nl), 'init %d %s %s' % (e, rng.choice(['0', '0', '0,1']), rng.choice('oppp'))]
    for _ in range(rng.choice([60, 150, 300])):
        e = rng.randrange(n)
        ops.append(rng.choice(['en %d' % e, 'dis %d' % e, 'dis %d' % e, 'raise 0', 'raise 0', 'pass %d' % rng.randrange(nl)]))
    for e in range(n):
        ops.append('dis %d' % e)
    ops += ['raise 0'] + ['pass %d' % l for l in range(nl)]
    return ops


DIRECTED = [
    # malformed stream: both sides must answer bad-op (or refuse) identically
    ['eng x', 'new 3', 'new 0', 'init 0 4 p', 'init 0 1,0 p', 'init 0 0,0 p', 'init 0 0, p', 'init 0 0 q', 'en 1', 'sa 0 h3 0 0', 'sa 4 d 0 0',
     'sa 0 h0 4 0', 'sa 0 h0 0 16', 'raise 4', 'pass 3', 'frob', 'init 0 0 p', 'en 0', 'init 0 1 p', 'del 0', 'en 0', 'dis 0', 'init 0 0 p'],
    # two loops share one signal; one leaves, raise, the other leaves: restored field-wise (handler + flags + mask)
    ['eng e', 'sa 0 h1 3 10', 'new 0', 'new 1', 'init 0 0 p', 'init 1 0 p', 'en 0', 'en 1', 'raise 0', 'pass 0', 'pass 1', 'dis 0', 'raise 0',
     'pass 0', 'pass 1', 'dis 1', 'raise 0', 'pass 0', 'pass 1'],
    # sa_sigaction-style old handler is chained exactly once; restored with SA_SIGINFO
    ['eng s', 'sa 1 a2 1 5', 'new 0', 'init 0 1 p', 'en 0', 'raise 1', 'raise 1', 'pass 0', 'del 0', 'raise 1'],
    # one-shot on two signals, both pending in the pipe: fires once, pipe closed inside the pass
    ['eng e', 'new 0', 'init 0 0,1 o', 'en 0', 'raise 0', 'raise 1', 'pass 0', 'raise 0', 'en 0', 'raise 1', 'pass 0', 'pass 0'],
    # stale pipe content: raise, disable, (other signal keeps the pipe open), re-enable, pass
    ['eng e', 'sa 0 i 0 0', 'new 0', 'new 0', 'init 0 0 p', 'init 1 1 p', 'en 0', 'en 1', 'raise 0', 'dis 0', 'pass 0', 'raise 0', 'en 0',
     'raise 0', 'dis 0', 'en 0', 'pass 0', 'dis 0', 'dis 1', 'raise 0'],
    # more than 10 pending numbers (read chunk of CommonLoop::onSignal), one-shot in the middle
    ['eng e', 'new 0', 'new 0', 'init 0 0 p', 'init 1 0 o', 'en 0', 'en 1'] + ['raise 0'] * 23 + ['pass 0', 'pass 0', 'dis 0', 'sa 0 d 0 0'],
    # enable of an uninitialised event, enable twice, disable twice, destroy enabled
    ['eng s', 'sa 2 h0 2 0', 'new 1', 'en 0', 'dis 0', 'init 0 2,3 p', 'en 0', 'en 0', 'raise 2', 'pass 1', 'dis 0', 'dis 0', 'en 0', 'del 0', 'raise 2'],
    # three loops, disposition ignored before: chain does nothing, all three get the callback, restore to SIG_IGN
    ['eng e', 'sa 3 i 1 0', 'new 0', 'new 1', 'new 2', 'init 0 3 p', 'init 1 3 o', 'init 2 3 p', 'en 0', 'en 1', 'en 2', 'raise 3', 'pass 2', 'pass 1',
     'pass 0', 'raise 3', 'pass 0', 'pass 1', 'pass 2', 'del 2', 'del 0', 'raise 3'],
]


def gen(rng, tier):
    n = 350 if tier == 'quick' else 5000
    for d in DIRECTED:
        yield d
    if tier == 'thorough':
        # exhaustive: every op sequence of length <= 4 over a small alphabet (2 loops, one shared signal, one-shot + persistent)
        alpha = ['en 0', 'dis 0', 'en 1', 'dis 1', 'raise 0', 'pass 0', 'pass 1', 'del 1', 'en 2']
        for L in range(1, 5):
            for seq in itertools.product(alpha, repeat=L):
                yield ['eng e', 'sa 0 a1 1 2', 'new 0', 'new 1', 'new 1', 'init 0 0 p', 'init 1 0,1 o', 'init 2 0 p'] + list(seq) + \
                      ['raise 0', 'pass 0', 'pass 1', 'dis 0', 'dis 1', 'dis 2', 'raise 0']
    for _ in range(n):
        yield gen_case(rng, rng.choice([6, 12, 25, 50]))
    for _ in range(n // 10):
        yield gen_long_history(rng)


def nontrivial(ops, model_lines):
    tags = ' '.join(l for l in model_lines if l.startswith('B '))
    return 1 if ('restore' in tags and ('pass-cb1' in tags or 'pass-cbN' in tags)) else None


LEVEL_TEXT = ('Lean 4 theorems over a model of the process-wide signal bookkeeping (subscribeSignal/unsubscribeSignal/SignalHandlerFunc/onSignal + '
              'SignalEventImpl): an inductive invariant over every op list (any number of signals, events, loops) yields ctx<->per-loop-map<->event '
              'consistency, handler installed exactly while someone is subscribed, saved disposition restored, old handler chained once, every '
              'subscriber called exactly once on its own loop, one-shot at most once; tied to the real code on every run by differential execution '
              '(real sigaction/raise, loops on their own threads, both engines, ASan+UBSan build of the working tree)')
LEVEL_NOTE = ('trusted: Lean kernel, hand-written model + differential tie (coverage bounded by the generator, measured), kernel signal semantics; '
              'not covered: concurrent delivery vs subscription change, async-signal-safety of the handler\'s std::map access, sigaction failure, '
              'callbacks that change subscriptions, re-initialising an enabled event')
TECHNIQUE = 'Lean 4 invariant proof over all op lists of a signal-bookkeeping model + model/implementation correspondence check'
DESIGN_REF = 'DESIGN.md §6 C04'
