"""C04 — signal events reach every subscriber; the old disposition is restored (event loop signal machinery)."""
import itertools
import vlib
ID = 'C04'
LEAN_MODULES = ['TboxModel.C04.Props']
EXE = 'c04'
MODE = 'trace'
THEOREMS = ['Tbox.C04.C04_every_subscriber_once', 'Tbox.C04.C04_chain_old_handler', 'Tbox.C04.C04_oneshot_at_most_once',
            'Tbox.C04.C04_disposition_restored', 'Tbox.C04.C04_installed_while_subscribed', 'Tbox.C04.C04_ctx_matches',
            'Tbox.C04.C04_callbacks_legit', 'Tbox.C04.C04_no_callback_on_disabled_or_destroyed', 'Tbox.C04.C04_pass_drains',
            'Tbox.C04.C04_reinit_while_enabled_counterexample', 'Tbox.C04.C04_enable_fails_midway_counterexample',
            'Tbox.C04.C04_callback_on_destroyed_counterexample', 'Tbox.C04.C04_reachable_inv',
            'Tbox.C04.exec_inv', 'Tbox.C04.baseDisp_exec', 'Tbox.C04.cbCount_passes',
            # round 4: pipe capacity / bursts / kernel answers to write() and read() / widths / invalid numbers / cross-loop scripts
            'Tbox.C04.C04_burst_pipe', 'Tbox.C04.C04_burst_no_loss_partial', 'Tbox.C04.C04_burst_overflow_counterexample',
            'Tbox.C04.C04_passC_drains_partial', 'Tbox.C04.C04_passC_nil', 'Tbox.C04.C04_read_error_counterexample',
            'Tbox.C04.C04_read_count_width', 'Tbox.C04.C04_invalid_signal_total', 'Tbox.C04.C04_cross_loop_script_example',
            'Tbox.C04.raises_pipe', 'Tbox.C04.passLoopC_drains',
            # round 4: step-level model of the critical sections (every interleaving of threads, deliveries, user sigaction)
            'Tbox.C04.Conc.C04_cs_reachable_inv', 'Tbox.C04.Conc.C04_cs_mutex', 'Tbox.C04.Conc.C04_cs_bookkeeping',
            'Tbox.C04.Conc.C04_cs_mask_discipline', 'Tbox.C04.Conc.C04_cs_deliveries_find_ctx',
            'Tbox.C04.Conc.C04_cs_handler_on_other_thread_counterexample', 'Tbox.C04.Conc.step_inv',
            # round 5: SA_RESETHAND & co. on the saved disposition, whole flag word + 64-bit mask, consumed first page, state-derived histories
            'Tbox.C04.C04_chained_delivery_never_resets', 'Tbox.C04.C04_direct_delivery_resethand', 'Tbox.C04.C04_resethand_chain_counterexample',
            'Tbox.C04.C04_chain_env_counterexample', 'Tbox.C04.C04_mask_kernel', 'Tbox.C04.C04_head_page_capacity',
            'Tbox.C04.C04_consumed_head_counterexample', 'Tbox.C04.C04_sibling_keeps_subscription', 'Tbox.C04.C04_state_derived_histories',
            'Tbox.C04.baseDisp_step',
            # round 6: pipe2 answered with EMFILE / ENFILE (oracle), a thread blocked in a system call (SA_RESTART of the installed disposition)
            'Tbox.C04.C04_pipe2_failure', 'Tbox.C04.C04_pipe2_failure_reachable', 'Tbox.C04.C04_pipe2_failure_example',
            'Tbox.C04.C04_blocked_call_while_subscribed', 'Tbox.C04.C04_restart_env_counterexample', 'Tbox.C04.enableP_inv']
LIBS = ['-ldl']
SOURCES = vlib.EVENT_SOURCES + vlib.BASE_SOURCES
FLAVOUR = 'asan'
BATCH = 200
TRUSTED = ['model lean/TboxModel/C04/Model.lean hand-written from common_loop_signal.cpp + signal_event_impl.cpp AS REPAIRED by patches/C04-01..03 '
           '(the code as found is kept behind switches and used only by the three _counterexample theorems); tied by a trace acceptor: '
           'after every op isEnabled() of every event and sigaction(sig,nullptr,&cur) of the six signals (handler, SA_SIGINFO, flags, mask), '
           'per raise the sentinel-handler invocations, per loop pass the callbacks in call order (signal, event, isEnabled() inside the callback, thread)',
           'the only thing the model takes from the implementation is the order in which std::set<SignalSubscribuer*> walks the events (`ord=` of a pass line); '
           'the theorems hold for every such order',
           'Linux signal delivery: raise() runs the installed handler synchronously on the calling thread; sigaction/pipe semantics; sigaction fails exactly for SIGKILL/SIGSTOP',
           'a write fd of a loop\'s signal pipe is identified with the loop (fds of open pipes are distinct)',
           'libc interposition in the harness (pipe2, close, sigprocmask, sigaction, write, read): the system calls of the critical sections are '
           'recorded as M lines (pipe2 flags, block-all / restore-exactly-the-saved-mask bracket around every sigaction, close of both pipe ends); '
           'the handler\'s write() per loop and the reads of onSignal take injected kernel answers (EAGAIN/EINTR/EIO/EPIPE, short reads)',
           'kernel semantics assumed: a 4-byte write to a pipe is atomic (all or EAGAIN), pipe capacity = F_GETPIPE_SZ/4 numbers when written from empty, '
           'sigprocmask acts on the calling thread only',
           'each case runs in a forked child of the harness: the bookkeeping under test is process-wide',
           'round 5, kernel semantics assumed and checked on every run through the sentinel handlers / sigaction read-back: SA_RESETHAND resets the '
           'HANDLER only (Linux keeps flags and mask) and only when the kernel itself runs that handler; the kernel clears SIGKILL/SIGSTOP from '
           'sa_mask; a handler sees its own signal blocked unless SA_NODEFER plus sa_mask of the INSTALLED disposition and runs on the alternate '
           'stack iff SA_ONSTACK of the installed disposition (`M env=`); a pipe is a ring of pages, a page is reusable once wholly read '
           '(capacity with h numbers of the first page consumed = F_GETPIPE_SZ/4 - h)',
           'round 6: the interposed pipe2 answers EMFILE / ENFILE at the enable() chosen by the op file (`enp e`, script action `p<j>`); the flags / mask of '
           'tbox\'s OWN handler are compared as a model-internal observable (`M own=`; the P line shows only THAT tbox\'s handler is installed), every application '
           'disposition (saved, restored, untouched) stays on the P line with all fields; `blk g`: a helper thread really blocked in read() on an empty pipe receives g '
           '(pthread_kill); kernel semantics assumed and checked on every run: SA_RESTART of the INSTALLED disposition decides between restart and EINTR, an ignored '
           'signal does not disturb the call (`M blk=`; no timing: the harness waits for the kernel\'s own report in /proc/self/task/<tid>/stat that the thread sleeps)']
ASSUMPTIONS = ['signals SIGKILL, SIGUSR1, SIGUSR2, SIGSTOP, SIGRTMIN+1, SIGRTMIN+2, SIGRTMAX (ids 0..6) and the invalid numbers 65, INT_MAX, 0, -3, 32 (ids 7..11)',
               'all three initialize() overloads are exercised; the int / initializer_list overloads ADD to the set of the event (observed, outside the statement)',
               'the user does not call sigaction() on a signal while tbox\'s handler is installed for it, and never combines SIG_IGN with SA_SIGINFO',
               'deliveries beyond the pipe capacity (16384 pending numbers per loop, 1024 with a one-page pipe) are dropped by the handler: '
               'C04_burst_no_loss_partial has the decidable hypothesis n <= capacity, C04_burst_overflow_counterexample shows the loss (both replayed)',
               'signals are raised one at a time, not concurrently with a subscription change (Conc.lean: a delivery on another thread inside a critical section is possible)',
               'a callback may change events of any loop (the other loops\' threads are parked: hand-shaken) but does not delete the event it belongs to',
               'loops are not destroyed while events are subscribed and events do not outlive their loop (API contract of every event type; outside the statement; '
               'round 5 re-examined: ~CommonLoop does not touch the signal bookkeeping - the handler stays installed, the ctx entry keeps the dead loop\'s write fd, both '
               'pipe ends leak - but the orphaned events still report isEnabled() and their loop pointer dangles, so "no enabled event remains" is not the case and any '
               'later disable()/delete of them is a use-after-free whatever the destructor does; the `lost l` op pins the observed behaviour down as M lines)',
               'SA_RESETHAND on the disposition saved at the first subscription: tbox chains that handler on EVERY delivery (the statement: "still invoked") and restores the '
               'saved sigaction whole; the kernel alone would have reset it after the first delivery (C04_resethand_chain_counterexample); its SA_NODEFER / sa_mask / '
               'SA_ONSTACK / SA_RESTART are not in force while tbox\'s handler (SA_SIGINFO, empty mask) is installed (C04_chain_env_counterexample, C04_restart_env_counterexample: '
               'a read() blocked on another thread gets EINTR where the application\'s own SA_RESTART disposition would have restarted it; outside the statement, tied by `blk`)',
               'pipe2 failing (EMFILE / ENFILE) is an oracle of enable() (Op.enableP / Act.enableP): every theorem over reachable states now quantifies over histories with such '
               'failures at any enable(), also inside callbacks; other descriptor-exhaustion effects (epoll_ctl of the pipe\'s FdEvent, new FdEvent allocation) are not injected',
               'C04_disposition_restored: besides the application\'s own sigaction calls only the kernel\'s SA_RESETHAND reset on a DIRECT delivery changes a disposition '
               '(hypothesis kresets = 0: no such delivery in between; never one while somebody is subscribed)',
               'C04_every_subscriber_once (exactly once) assumes the callbacks of the subscribers of that signal do not change subscriptions; '
               'with such callbacks C04_no_callback_on_disabled_or_destroyed / C04_callbacks_legit say who may be called']
RULE = ('op sequences (new/init/enable/disable/delete of signal events on 1-3 loops each owned by its own thread, callback scripts that '
        'enable/disable/delete sibling events, re-initialisation of enabled events, signal sets containing SIGKILL/SIGSTOP, user sigaction, real raise(), '
        'single loop passes, both engines; round 4: bursts of deliveries without a pass around the capacity of a one-page / default pipe, injected '
        'errors of the handler\'s write() per loop, short / failing read() in onSignal, callbacks acting on events of other loops, signal numbers '
        '0 / negative / 32 / 64 / 65 / INT_MAX, the accumulating initialize() overloads; round 5: user dispositions with every sa_flags bit incl. SA_RESETHAND (sign bit) and '
        '64-bit masks around 2^31/2^32/2^63 chained and restored, direct deliveries with kernel reset, partial reads of a full one-page pipe then deliveries '
        '(consumed first page), state-derived follow-ups on one event: enable twice / same set re-initialised while enabled / duplicate signal in one list / '
        'sibling of the same loop and signal leaves / enable-disable-enable inside its own callback, a loop destroyed with subscribers; round 6: enable() with pipe2 answered by '
        'EMFILE / ENFILE (first enable of a loop, after the pipe was closed again, pipe open = not called, inside callbacks, other loops subscribed, invalid first signal) then recovery, '
        'deliveries to a thread blocked in read() under user dispositions with / without SA_RESTART, SIG_IGN, and under tbox\'s handler) from props/C04/plugin.py; non-trivial = the model run restores at least one saved disposition AND some '
        'pass delivers at least one callback (driver tags restore + pass-cb1/pass-cbN); distinct = distinct op text')

INVALID = [0, 3, 7, 8, 9, 10, 11]
RANK = {0: 2, 1: 3, 2: 4, 3: 5, 4: 7, 5: 8, 6: 9, 7: 10, 8: 11, 9: 1, 10: 0, 11: 6}   # order of the signal numbers


def sigs_text(ids, sep=','):
    return sep.join(map(str, sorted(set(ids), key=lambda g: RANK[g]))) if ids else '-'


VALID = [1, 2, 4, 5]      # SIGUSR1, SIGUSR2, SIGRTMIN+1, SIGRTMIN+2   (0 = SIGKILL, 3 = SIGSTOP: sigaction fails)


def sigset(rng, pool, bad=0.0):
    k = rng.choice([1, 1, 1, 2, 2, 3])
    s = set(rng.sample(pool, min(k, len(pool))))
    if rng.random() < bad:
        s.add(rng.choice(INVALID))
    if rng.random() < 0.05:
        s.add(6)
    return sigs_text(s)


# sa_mask values around the widths: bits 30/31/32 (2^31, 2^32), 62/63 (2^63), SIGKILL (bit 8) / SIGSTOP (bit 18) which the kernel
# clears, everything, the loop signals themselves (SIGUSR1 = bit 9, SIGUSR2 = bit 11, SIGRTMIN+1 = bit 34)
WIDE_MASKS = [1 << 30, 1 << 31, 1 << 32, (1 << 31) - 1, (1 << 32) - 1, (1 << 32) + 1, 1 << 62, 1 << 63, (1 << 63) - 1, (1 << 63) + 5,
              (1 << 64) - 1, 1 << 8, 1 << 18, (1 << 8) | (1 << 18) | 5, (1 << 9) | (1 << 11), 1 << 34, 0x8000000080000000]


def rand_sa(rng, g, wide=0.35):
    k = rng.choice(['d', 'i', 'h0', 'h1', 'h2', 'a0', 'a1', 'a2', 'h0', 'a1'])
    if rng.random() < wide:      # round 5: every flag bit (4 = SA_RESETHAND, the sign bit of sa_flags), the whole 64-bit mask
        return 'sa %d %s %d %d' % (g, k, rng.choice([4, 5, 6, 8, 12, 16, 32, 46, 63, rng.randrange(64)]), rng.choice(WIDE_MASKS))
    return 'sa %d %s %d %d' % (g, k, rng.randrange(4), rng.choice([0, 0, 1, 5, 10, 15]))


def gen_flags(rng):
    """round 5: a user disposition with SA_RESETHAND / SA_NODEFER / SA_ONSTACK / SA_RESTART / SA_NOCLD* and a wide mask is saved, chained
    by several deliveries (the kernel alone would reset it after the first), restored whole; direct deliveries before / after
    (kernel reset: handler only); a second subscription round saves the reset disposition"""
    ops = ['eng ' + rng.choice('es')]
    g = rng.choice([1, 2, 4, 6])
    fl = rng.choice([4, 4, 5, 6, 12, 14, 36, 46, 63, 8, 2, 16])
    ops.append('sa %d %s %d %d' % (g, rng.choice(['h0', 'h1', 'a2', 'a0']), fl, rng.choice(WIDE_MASKS + [0, 5])))
    if rng.random() < 0.25:
        ops.append('raise %d' % g)      # direct delivery first: reset before anybody subscribes
        if rng.random() < 0.5:
            ops.append('sa %d %s %d %d' % (g, rng.choice(['h1', 'a1']), fl, rng.choice(WIDE_MASKS)))
    nl = rng.choice([1, 2, 3])
    n = 0
    for l in range(nl):
        for _ in range(rng.choice([1, 1, 2])):
            ops += ['new %d -' % l, 'init %d %d %s' % (n, g, rng.choice('oppp')), 'en %d' % n]
            n += 1
            if rng.random() < 0.5:
                ops.append('raise %d' % g)
    for _ in range(rng.choice([1, 2, 4])):
        ops += ['raise %d' % g] * rng.choice([1, 2, 3])
        for l in range(nl):
            if rng.random() < 0.7: ops.append('pass %d' % l)
        if rng.random() < 0.3: ops.append('sa %d h0 0 0' % g)      # refused while installed
    order = list(range(n)); rng.shuffle(order)
    for e in order:
        ops.append(rng.choice(['dis %d', 'del %d', 'init %d - p']) % e)
    ops += ['raise %d' % g, 'raise %d' % g]      # direct: runs once, reset (if SA_RESETHAND), then "killed"
    if rng.random() < 0.5:
        ops += ['new 0 -', 'init %d %d p' % (n, g), 'en %d' % n, 'raise %d' % g, 'pass 0', 'dis %d' % n, 'raise %d' % g]
    return ops


def gen_state_derived(rng):
    """round 5, lesson (g): follow-up calls equal to / derived from the state one object caches: enable twice then disable once; the same
    signal through two events of one loop, one leaves; initialize() with the SAME set (and mode) while enabled; the same signal twice
    in one initializer list / added again by the accumulating overloads; enable-disable-enable inside the callback of that very signal"""
    ops = ['eng ' + rng.choice('es'), rand_sa(rng, 1).replace(' d ', ' h0 ').replace(' i ', ' a2 '), 'sa 2 h1 1 4294967296']
    mode = rng.choice('op')
    sg = rng.choice(['1', '1', '1,2', '2'])
    sc0 = rng.choice(['-', '-', 'e0,d0,e0', 'd0,e0', 'e0', 'd0,e0,d0', 'i0:%s:%s,e0' % (sg.replace(',', '.'), mode), 'i0:%s:%s' % (sg.replace(',', '.'), mode), 'e0,e0', 'e1,d1,e1', 'd1'])
    ops += ['new 0 ' + sc0, 'new 0 ' + rng.choice(['-', '-', 'd0', 'e0', 'd1,e1']), 'new %d -' % rng.choice([0, 1])]
    ops += ['init 0 %s %s' % (sg, mode), 'init 1 %s %s' % (sg, rng.choice('pp' + mode)), 'init 2 1 p']
    first = int(sg.split(',')[0])
    fam = [
        ['en 0', 'en 0', 'dis 0'],                                        # subscribe twice, unsubscribe once
        ['en 0', 'en 1', 'dis 0'], ['en 0', 'en 1', 'del 0'], ['en 1', 'en 0', 'dis 1'],      # sibling leaves
        ['en 0', 'init 0 %s %s' % (sg, mode)], ['en 0', 'init 0 %s %s' % (sg, mode), 'en 0'],  # same set, same mode, while enabled
        ['en 0', 'init1 0 %d %s' % (first, mode), 'en 0'], ['en 0', 'initd 0 %d %s' % (first, mode), 'en 0'],
        ['initd 0 %d %s' % (first, mode), 'en 0'], ['initl 0 %s %s' % (sg, mode), 'en 0', 'initl 0 %s %s' % (sg, mode), 'en 0'],
        ['en 0', 'en 1', 'en 2', 'dis 1', 'en 1', 'dis 0'],
        ['en 0', 'dis 0', 'en 0'], ['en 0', 'en 0', 'dis 0', 'dis 0', 'en 0'],
    ]
    probe = ['raise 1', 'raise 2', 'pass 0', 'pass 1']
    for _ in range(rng.choice([2, 3, 5])):
        ops += rng.choice(fam) + probe
        if rng.random() < 0.4: ops += ['raise %d' % first] * 2 + ['pass 0']
    ops += ['dis 0', 'dis 1', 'dis 2'] + probe
    return ops


def gen_head(rng, tier):
    """round 5: the consumed part of the pipe's first page: fill (or nearly fill) a one-page pipe, read a few numbers and stop the loop with a
    read error, deliver again: only capacity - consumed fit until the page is wholly read"""
    ops = ['eng ' + rng.choice('es'), 'cap s', rng.choice(['sa 1 h0 0 0', 'sa 1 a1 4 2147483648', 'sa 1 i 0 0'])]
    nl = rng.choice([1, 2])
    for l in range(nl):
        ops += ['new %d -' % l, 'init %d 1 p' % l, 'en %d' % l]
    for _ in range(rng.choice([1, 2, 3])):
        ops.append('burst 1 %d' % rng.choice([1024, 1024, 1023, 1020, 1014, 1000, 1030]))
        for l in range(nl):
            if rng.random() < 0.8:
                k = [str(rng.choice([1, 2, 3, 4, 7, 10])) for _ in range(rng.choice([1, 1, 2, 3]))]
                ops.append('passc %d %s,%s' % (l, ','.join(k), rng.choice('xe')))
        ops += ['raise 1'] * rng.choice([1, 2, 5, 11])
        if rng.random() < 0.5:
            ops.append('burst 1 %d' % rng.choice([3, 10, 24, 1024]))
        for l in range(nl):
            r = rng.random()
            if r < 0.5: ops.append('pass %d' % l)
            elif r < 0.8: ops.append('passc %d %s' % (l, ','.join(rng.choice(['10', '10', '3', 'x']) for _ in range(rng.choice([2, 5, 40])))))
    for l in range(nl): ops.append('pass %d' % l)
    ops += ['burst 1 1025'] + ['pass %d' % l for l in range(nl)] + ['dis %d' % l for l in range(nl)] + ['raise 1']
    return ops



def script(rng, self, n, p=0.35):
    """callback body: enable/disable/delete of other events (never delete oneself)"""
    if rng.random() >= p:
        return '-'
    acts = []
    for _ in range(rng.choice([1, 1, 2, 3])):
        j = self if rng.random() < 0.3 else rng.randrange(max(n, 1))      # re-entrant use: act on oneself
        k = rng.choice('eeddddxxi')
        if k == 'x' and j == self:
            k = 'd'
        if k == 'i':
            sg = sorted(rng.sample(VALID, rng.choice([1, 1, 2])))
            acts.append('i%d:%s:%s' % (j, '.'.join(map(str, sg)), rng.choice('op')))
            if rng.random() < 0.7:
                acts.append('e%d' % j)
        else:
            acts.append('%s%d' % (k, j))
    return ','.join(acts)


def gen_self_scripts():
    """directed: the callback of event 0 acts on event 0 itself (re-arms, re-initialises), one-shot and persistent,
    alone / with another event on the same signal / with another event on another signal of the same loop"""
    scripts = ['e0', 'e0,d0', 'd0,e0', 'd0', 'e0,d0,e0', 'i0:2:o,e0', 'i0:2:p,e0', 'i0:1.2:o,e0', 'i0:1:p,e0', 'i0:2:o', 'i0:4:p,e0,d0']
    for mode in 'op':
        for sc in scripts:
            for ctx in range(3):
                ops = ['eng e', 'sa 1 h0 1 2', 'sa 2 a1 2 1', 'sa 4 i 0 0', 'new 0 ' + sc]
                if ctx: ops.append('new 0 -')
                ops.append('init 0 1 ' + mode)
                if ctx == 1: ops.append('init 1 1 p')
                if ctx == 2: ops.append('init 1 2 p')
                ops.append('en 0')
                if ctx: ops.append('en 1')
                ops += ['raise 1', 'pass 0', 'raise 1', 'raise 2', 'pass 0', 'raise 2', 'raise 4', 'pass 0', 'dis 0']
                if ctx: ops.append('dis 1')
                ops += ['raise 1', 'raise 2', 'raise 4', 'pass 0']
                yield ops


def gen_case(rng, nops, scripts=0.35, bad=0.08):
    ops = ['eng ' + rng.choice('es')]
    nl = rng.choice([1, 2, 2, 3, 3])
    pool = sorted(rng.sample(VALID, rng.choice([1, 2, 2, 3, 4])))   # few signals => much sharing
    for g in pool:
        if rng.random() < 0.7:
            ops.append(rand_sa(rng, g))
    nev = rng.choice([1, 2, 3, 4, 6, 8])
    n = 0
    for _ in range(nev):
        ops.append('new %d %s' % (rng.randrange(nl), script(rng, n, nev, scripts)))
        if rng.random() < 0.93:
            ops.append('init %d %s %s' % (n, sigset(rng, pool, bad), rng.choice('oppp')))
        if rng.random() < 0.8:
            ops.append('en %d' % n)
        n += 1
    for _ in range(nops):
        r = rng.random()
        e = rng.randrange(n)
        if r < 0.20: ops.append('en %d' % e)
        elif r < 0.38: ops.append('dis %d' % e)
        elif r < 0.60: ops.append('raise %d' % (rng.choice(pool) if rng.random() < 0.9 else rng.randrange(6)))
        elif r < 0.80: ops.append('pass %d' % (rng.randrange(nl) if rng.random() < 0.95 else rng.randrange(3)))
        elif r < 0.84: ops.append('del %d' % e)
        elif r < 0.93:   # re-initialise, enabled or not
            ops.append('init %d %s %s' % (e, sigset(rng, pool, bad) if rng.random() < 0.9 else '-', rng.choice('op')))
        elif r < 0.97 and n < 12:
            ops.append('new %d %s' % (rng.randrange(nl), script(rng, n, n + 1, scripts)))
            ops.append('init %d %s %s' % (n, sigset(rng, pool, bad), rng.choice('op'))); n += 1
        else: ops.append(rand_sa(rng, rng.choice(pool) if rng.random() < 0.9 else rng.choice([0, 3])))
    # wind down: every subscription ends (disable or destroy), in random order; dispositions must be the saved ones
    order = list(range(n)); rng.shuffle(order)
    for e in order:
        ops.append(('dis %d' if rng.random() < 0.6 else 'del %d') % e)
    for g in pool:
        ops.append('raise %d' % g)
    for l in range(nl):
        ops.append('pass %d' % l)
    return ops


def gen_dispatch(rng):
    """one loop, one signal, 2-6 subscribers whose callbacks disable/delete/enable each other; several deliveries"""
    ops = ['eng ' + rng.choice('es'), 'sa 1 h0 0 0']
    n = rng.choice([2, 3, 4, 6])
    for e in range(n):
        ops += ['new 0 %s' % script(rng, e, n, 0.7), 'init %d %s %s' % (e, rng.choice(['1', '1', '1,2']), rng.choice('oppp')), 'en %d' % e]
    for _ in range(rng.choice([2, 4, 8])):
        ops += ['raise %d' % rng.choice([1, 1, 2])] * rng.choice([1, 1, 2]) + ['pass 0']
        if rng.random() < 0.5:
            ops.append('en %d' % rng.randrange(n))
    for e in range(n):
        ops.append('dis %d' % e)
    ops += ['raise 1', 'pass 0']
    return ops


def gen_long_history(rng):
    """one signal, several events on several loops, very long subscribe/unsubscribe history with raises in between"""
    ops = ['eng ' + rng.choice('es'), rand_sa(rng, 1).replace(' d ', ' h0 ').replace(' i ', ' a2 ')]
    nl = rng.choice([2, 3])
    n = rng.choice([3, 5, 7])
    for e in range(n):
        ops += ['new %d -' % (e % nl), 'init %d %s %s' % (e, rng.choice(['1', '1', '1,2']), rng.choice('oppp'))]
    for _ in range(rng.choice([60, 150, 300])):
        e = rng.randrange(n)
        ops.append(rng.choice(['en %d' % e, 'dis %d' % e, 'dis %d' % e, 'raise 1', 'raise 1', 'pass %d' % rng.randrange(nl)]))
    for e in range(n):
        ops.append('dis %d' % e)
    ops += ['raise 1'] + ['pass %d' % l for l in range(nl)]
    return ops


def gen_burst(rng, tier):
    """bursts without a loop pass around the capacity of a one-page pipe (1024 numbers) and around the read chunk (10)"""
    ops = ['eng ' + rng.choice('es'), 'cap s', rng.choice(['sa 1 h0 0 0', 'sa 1 a1 1 2', 'sa 1 i 0 0'])]
    nl = rng.choice([1, 2, 3])
    n = 0
    for l in range(nl):
        for _ in range(rng.choice([1, 1, 2])):
            ops += ['new %d -' % l, 'init %d %s %s' % (n, rng.choice(['1', '1', '1,2']), rng.choice('oppp')), 'en %d' % n]
            n += 1
    for _ in range(rng.choice([1, 2, 3])):
        k = rng.choice([1, 9, 10, 11, 19, 20, 21, 23, 100, 1023, 1024, 1025, 1030])
        if rng.random() < 0.3:
            ops += ['burst 1 %d' % rng.choice([1000, 1020]), 'burst 1 %d' % rng.choice([3, 4, 5, 30])]
        else:
            ops.append('burst 1 %d' % k)
        if rng.random() < 0.3:
            ops.append('raise 2')
        order = list(range(nl)); rng.shuffle(order)
        for l in order:
            if rng.random() < 0.85:
                ops.append(rng.choice(['pass %d' % l, 'pass %d' % l, 'passc %d %s' % (l, ','.join(rng.choice(['1', '3', '10', '7', 'x', 'e', '2']) for _ in range(rng.choice([1, 2, 4]))))]))
                # round 5: the model tracks the consumed part of the first page, a read error may leave the loop half drained
        if rng.random() < 0.4:
            ops.append('en %d' % rng.randrange(n))
    for e in range(n):
        ops.append('dis %d' % e)
    ops += ['raise 1'] + ['pass %d' % l for l in range(nl)]
    return ops


def gen_faults(rng):
    """kernel answers: the handler's write fails for some loops, the loop's read is short / fails; cross-loop scripts"""
    ops = ['eng ' + rng.choice('es')]
    if rng.random() < 0.3: ops.append('cap s')
    ops.append(rng.choice(['sa 1 h0 0 0', 'sa 1 a2 3 5', 'sa 1 i 0 0', 'sa 1 d 0 0']))
    nl = 3
    n = rng.choice([3, 4, 6])
    for e in range(n):
        sc = '-'
        if rng.random() < 0.4:
            j = rng.randrange(n)
            sc = rng.choice(['d%d', 'e%d', 'x%d', 'd%d,e%d' % (j, j), 'i%d:2:p,e%d' % (j, j)])
            if '%d' in sc: sc = sc % j
            if sc == 'x%d' % e: sc = 'd%d' % e
        ops += ['new %d %s' % (e % nl, sc), 'init %d %s %s' % (e, rng.choice(['1', '1', '1,2', '2']), rng.choice('oppp')), 'en %d' % e]
    for _ in range(rng.choice([3, 6, 10])):
        r = rng.random()
        if r < 0.45:
            wf = sorted(rng.sample(range(3), rng.choice([0, 1, 1, 2, 3])))
            ops.append('raisew %d %s' % (rng.choice([1, 1, 2]), ','.join(map(str, wf)) if wf else '-'))
        elif r < 0.6:
            ops.append('raise %d' % rng.choice([1, 2]))
        elif r < 0.7:
            ops.append('burst %d %d' % (rng.choice([1, 2]), rng.choice([2, 11, 12])))
        for l in range(nl):
            if rng.random() < 0.6:
                ops.append(rng.choice(['pass %d' % l, 'passc %d %s' % (l, ','.join(rng.choice(['1', '2', '10', 'x', 'e', '5']) for _ in range(rng.choice([1, 2, 3]))))]))
        if rng.random() < 0.3:
            ops.append(rng.choice(['en %d', 'dis %d']) % rng.randrange(n))
    for l in range(nl): ops.append('pass %d' % l)
    for e in range(n): ops.append('dis %d' % e)
    ops += ['raise 1', 'raise 2'] + ['pass %d' % l for l in range(nl)]
    return ops


def gen_numbers(rng):
    """signal numbers at and beyond the valid range, the three initialize() overloads (two of them accumulate)"""
    ops = ['eng ' + rng.choice('es'), 'sa 6 %s 0 0' % rng.choice(['h1', 'a0', 'i', 'd']), 'sa 1 h2 1 0',
           'sa %d h0 0 0' % rng.choice([7, 8, 9, 10, 11])]
    n = rng.choice([2, 3])
    for e in range(n):
        ops.append('new %d -' % rng.randrange(2))
        ids = rng.sample([1, 2, 6], rng.choice([1, 2])) + (rng.sample(INVALID, 1) if rng.random() < 0.5 else [])
        ops.append('init %d %s %s' % (e, sigs_text(ids), rng.choice('op')))
        ops.append('en %d' % e)
    for _ in range(rng.choice([4, 8])):
        e = rng.randrange(n)
        r = rng.random()
        if r < 0.25: ops.append('init1 %d %d %s' % (e, rng.choice([1, 2, 6, 6] + INVALID), rng.choice('op')))
        elif r < 0.45: ops.append('initl %d %s %s' % (e, sigs_text(rng.sample([1, 2, 4, 6, 7, 10], rng.choice([1, 2, 3]))), rng.choice('op')))
        elif r < 0.6: ops.append('init %d %s p' % (e, sigs_text(rng.sample([1, 2, 6], 2))))
        elif r < 0.8: ops.append('en %d' % e)
        else: ops.append('dis %d' % e)
        ops += ['raise %d' % rng.choice([1, 2, 6, 6]), 'pass 0', 'pass 1']
    for e in range(n): ops.append('del %d' % e)
    ops += ['raise 6', 'raise 1']
    return ops


def gen_pipefail(rng):
    """round 6, lesson (b): pipe2 of CreateFdPair answered with EMFILE / ENFILE at an enable() chosen by the op file: first enable of a loop, enable after
    the loop's pipe was closed again, enable of a second event while the pipe is open (pipe2 not called: succeeds), inside a callback (p<j>), with
    other loops subscribed to the same signal (their handler / saved disposition untouched), multi-signal sets incl. an invalid first signal; then
    recovery: the plain enable() succeeds as if nothing had happened"""
    ops = ['eng ' + rng.choice('es'), rand_sa(rng, 1).replace(' d ', ' h0 ').replace(' i ', ' a2 '), 'sa 2 %s %d %d' % (rng.choice(['h1', 'a0', 'i']), rng.choice([0, 1, 5, 36]), rng.choice(WIDE_MASKS))]
    nl = rng.choice([1, 2, 3])
    n = rng.choice([2, 3, 4])
    for e in range(n):
        sc = '-'
        if rng.random() < 0.4:
            j = rng.randrange(n)
            sc = rng.choice(['p%d' % j, 'd%d,p%d' % (j, j), 'p%d,e%d' % (j, j), 'i%d:2:p,p%d' % (j, j)])
        ops += ['new %d %s' % (e % nl, sc), 'init %d %s %s' % (e, rng.choice(['1', '1', '1,2', '2', '0,1', '1,3', '2,6']), rng.choice('oppp'))]
    for _ in range(rng.choice([4, 8, 14])):
        e = rng.randrange(n)
        r = rng.random()
        if r < 0.35: ops.append('enp %d' % e)
        elif r < 0.55: ops.append('en %d' % e)
        elif r < 0.75: ops.append('dis %d' % e)
        elif r < 0.85: ops += ['enp %d' % e, 'en %d' % e]          # failure, then recovery
        else: ops.append('init %d %s %s' % (e, rng.choice(['1', '2', '1,2']), rng.choice('op')))
        if rng.random() < 0.6:
            ops += ['raise %d' % rng.choice([1, 1, 2])] + ['pass %d' % l for l in range(nl) if rng.random() < 0.8]
    for e in range(n): ops.append('en %d' % e)
    ops += ['raise 1', 'raise 2'] + ['pass %d' % l for l in range(nl)]
    order = list(range(n)); rng.shuffle(order)
    for e in order: ops.append(rng.choice(['dis %d', 'del %d']) % e)
    ops += ['enp %d' % order[0], 'raise 1', 'raise 2']
    return ops


def gen_blocked(rng):
    """round 6: a thread really blocked in read() gets the signal: SA_RESTART of the INSTALLED disposition decides (user's own: restarted / EINTR;
    tbox's handler while somebody is subscribed: EINTR even when the saved disposition has SA_RESTART; SIG_IGN: undisturbed)"""
    g = rng.choice([1, 2, 4, 6])
    fl = rng.choice([1, 1, 1, 0, 3, 5, 9, 8, 33])
    ops = ['eng ' + rng.choice('es'), 'sa %d %s %d %d' % (g, rng.choice(['h0', 'a1', 'h2', 'i', 'a2']), fl, rng.choice([0, 0, 5, 1 << 33])), 'blk %d' % g]
    nl = rng.choice([1, 2])
    for l in range(nl):
        ops += ['new %d -' % l, 'init %d %d %s' % (l, g, rng.choice('oppp')), 'en %d' % l]
        if rng.random() < 0.6: ops.append('blk %d' % g)
    ops += ['blk %d' % g] + ['pass %d' % l for l in range(nl)]
    if rng.random() < 0.5: ops += ['raise %d' % g, 'blk %d' % g, 'pass 0']
    for l in range(nl):
        ops.append(rng.choice(['dis %d', 'del %d']) % l)
        if rng.random() < 0.5: ops.append('blk %d' % g)
    ops += ['blk %d' % g, 'blk %d' % g]
    return ops


DIRECTED = [
    # round 6: pipe2 fails (EMFILE / ENFILE) at the first enable of loop 0 while loop 1 is subscribed to the same signal: false, nothing subscribed, handler and saved
    # disposition untouched, the delivery reaches loop 1 only; the plain enable then succeeds; with the pipe open pipe2 is not called; after the pipe is closed it is again
    ['eng e', 'sa 1 h0 1 5', 'sa 2 a1 36 4294967296', 'new 0 -', 'new 1 -', 'new 0 -', 'init 0 1,2 p', 'init 1 1 p', 'init 2 2 o', 'enp 0', 'raise 1', 'pass 0', 'en 1', 'enp 0', 'raise 1',
     'raise 2', 'pass 0', 'pass 1', 'en 0', 'enp 2', 'enp 0', 'raise 2', 'raise 1', 'pass 0', 'pass 1', 'dis 0', 'pass 0', 'enp 2', 'enp 0', 'en 2', 'dis 2', 'dis 1', 'enp 1', 'raise 1', 'raise 2'],
    # pipe2 fails inside a callback (event 1 of loop 1, no pipe there) and for a set whose first signal is invalid (pipe2 comes before sigaction)
    ['eng s', 'sa 1 i 0 0', 'new 0 p1,p2', 'new 1 -', 'new 2 d0,p0', 'init 0 1 p', 'init 1 1 p', 'init 2 0,1 p', 'en 0', 'raise 1', 'pass 0', 'pass 1', 'en 1', 'raise 1', 'pass 0', 'pass 1',
     'enp 2', 'en 2', 'init 2 1 p', 'en 2', 'raise 1', 'pass 2', 'raise 1', 'pass 2', 'pass 0', 'dis 0', 'dis 1', 'dis 2', 'raise 1'],
    # round 6: a thread blocked in read(): the user's SA_RESTART handler restarts the call; with a subscriber tbox's handler (no SA_RESTART) is installed and the same call
    # gets EINTR (C04_restart_env_counterexample); restored afterwards; no SA_RESTART: EINTR either way; SIG_IGN: undisturbed, with a subscriber: EINTR; SIG_DFL: not delivered
    ['eng e', 'sa 1 h0 1 0', 'sa 2 a1 0 0', 'sa 4 i 1 0', 'blk 1', 'blk 2', 'blk 4', 'blk 5', 'new 0 -', 'init 0 1,2,4 p', 'en 0', 'blk 1', 'blk 2', 'blk 4', 'pass 0', 'dis 0', 'blk 1', 'blk 2', 'blk 4',
     'blk 0', 'blk 3', 'blk 7'],
    # round 5: SA_RESETHAND|SA_NODEFER|SA_ONSTACK|SA_NOCLDWAIT + a mask with bits 0, 2, 63 on the OLD disposition: chained by every delivery,
    # restored whole by the last of two loops, then the kernel's own reset on a direct delivery (handler only), then "killed"
    ['eng e', 'sa 1 a2 46 9223372036854775813', 'new 0 -', 'new 1 -', 'init 0 1 p', 'init 1 1 o', 'en 0', 'raise 1', 'en 1', 'raise 1', 'raise 1', 'pass 0',
     'pass 1', 'dis 0', 'del 1', 'raise 1', 'raise 1', 'new 0 -', 'init 2 1 p', 'en 2', 'raise 1', 'pass 0', 'dis 2', 'raise 1'],
    # every flag bit, every mask bit (the kernel drops SIGKILL / SIGSTOP), on a real-time signal and SIGRTMAX
    ['eng s', 'sa 4 h0 63 18446744073709551615', 'sa 6 a1 21 2147483648', 'sa 5 h2 4 4294967296', 'new 0 -', 'init 0 4,5,6 p', 'en 0', 'raise 4', 'raise 5',
     'raise 6', 'raise 5', 'pass 0', 'init 0 4 p', 'en 0', 'raise 5', 'raise 5', 'raise 4', 'pass 0', 'del 0', 'raise 4', 'raise 6', 'raise 6'],
    # the consumed part of the first page (C04_consumed_head_counterexample) and the same after the page is wholly read
    ['eng e', 'cap s', 'sa 1 h0 0 0', 'new 0 -', 'init 0 1 p', 'en 0', 'burst 1 1024', 'passc 0 10,x', 'raise 1', 'passc 0 4,e', 'raise 1', 'pass 0', 'burst 1 1025', 'pass 0',
     'burst 1 1000', 'passc 0 10,10,4,x', 'burst 1 30', 'pass 0', 'dis 0'],
    # lesson (g): enable twice / disable once; same set re-initialised while enabled; the same signal twice in one list; sibling leaves
    ['eng e', 'sa 1 h1 5 4294967297', 'new 0 -', 'new 0 -', 'init 0 1 p', 'init 1 1 p', 'en 0', 'en 0', 'dis 0', 'raise 1', 'en 0', 'en 1', 'dis 0', 'raise 1', 'pass 0',
     'init 1 1 p', 'raise 1', 'en 1', 'initd 1 1 p', 'en 1', 'raise 1', 'pass 0', 'initd 0 2 o', 'en 0', 'raise 2', 'raise 2', 'pass 0', 'dis 1', 'raise 1'],
    ['eng s', 'sa 1 i 0 0', 'new 0 e0,d0,e0', 'new 0 d1,e1,d1', 'init 0 1 o', 'init 1 1 p', 'en 0', 'en 1', 'raise 1', 'pass 0', 'raise 1', 'pass 0', 'en 1', 'raise 1', 'raise 1',
     'pass 0', 'dis 0', 'dis 1', 'raise 1'],
    # observation (outside the statement): a loop destroyed with subscribers - the destructor leaves handler, ctx entry and pipe as they are
    ['eng e', 'sa 1 h0 4 0', 'new 0 -', 'new 1 -', 'init 0 1 p', 'init 1 1 p', 'en 0', 'en 1', 'raise 1', 'pass 0', 'lost 1', 'raise 1', 'pass 0', 'dis 0', 'raisew 1 0', 'burst 1 3', 'lost 0'],
    ['eng s', 'new 2 -', 'init 0 2 o', 'lost 0', 'raise 2', 'new 0 -'],
    # round 4: one delivery more than a one-page pipe holds, loop not running: the 1025th is dropped (C04_burst_overflow_counterexample);
    # the old handler is still invoked 1025 times; the other loop joins later and gets its own full pipe
    ['eng e', 'cap s', 'sa 1 a1 0 0', 'new 0 -', 'new 1 -', 'init 0 1 p', 'init 1 1 p', 'en 0', 'burst 1 1025', 'en 1', 'burst 1 3', 'pass 0', 'pass 1',
     'raise 1', 'pass 0', 'pass 1', 'dis 0', 'dis 1'],
    # the handler's write fails for loop 1 only (EAGAIN/EINTR/EIO/EPIPE injected): loops 0 and 2 deliver, the old handler runs, nothing is retried
    ['eng s', 'sa 2 h1 0 0', 'new 0 -', 'new 1 -', 'new 2 -', 'init 0 2 p', 'init 1 2 p', 'init 2 2 o', 'en 0', 'en 1', 'en 2', 'raisew 2 1', 'pass 0', 'pass 1',
     'pass 2', 'raisew 2 0,1,2', 'pass 0', 'pass 1', 'pass 2', 'raisew 2 -', 'pass 1', 'dis 0', 'dis 1'],
    # read() answers: EINTR leaves the numbers pending for the next pass; short reads of 1 and 3 with a callback that closes the pipe
    ['eng e', 'new 0 -', 'new 0 d0,d1', 'init 0 1 p', 'init 1 2 p', 'en 0', 'en 1', 'burst 1 12', 'passc 0 x', 'passc 0 1,e', 'passc 0 3,10,x', 'pass 0',
     'raise 1', 'raise 1', 'raise 2', 'raise 1', 'passc 0 2,1', 'en 0', 'raise 1', 'pass 0'],
    ['eng e', 'new 0 -', 'new 0 d0,d1', 'init 0 1 p', 'init 1 2 p', 'en 0', 'en 1', 'raise 1', 'raise 1', 'raise 2', 'raise 1', 'passc 0 3', 'en 0', 'raise 1', 'pass 0'],
    # a callback on loop 0 disables / re-initialises / deletes events of loops 1 and 2 (their pending deliveries go with their pipes)
    ['eng e', 'sa 1 h0 0 0', 'new 0 d1,x2', 'new 1 -', 'new 2 -', 'new 1 i0:2:p,e0', 'init 0 1 p', 'init 1 1 p', 'init 2 1 p', 'init 3 2 p', 'en 0', 'en 1', 'en 2', 'en 3',
     'raise 1', 'raise 2', 'pass 0', 'pass 1', 'pass 2', 'raise 2', 'raise 1', 'pass 1', 'pass 0', 'dis 0', 'dis 3'],
    # invalid signal numbers: 65, INT_MAX, 0, negative, 32; SIGRTMAX is valid; the overloads that accumulate
    ['eng e', 'sa 6 a2 1 0', 'sa 7 h0 0 0', 'sa 9 i 0 0', 'new 0 -', 'init 0 10,1,7 p', 'en 0', 'raise 1', 'init 0 6 p', 'en 0', 'raise 6', 'pass 0', 'init1 0 1 p', 'en 0',
     'raise 1', 'raise 6', 'pass 0', 'initl 0 9,2 o', 'en 0', 'init 0 11 p', 'en 0', 'init 0 8 p', 'en 0', 'init 0 9 p', 'en 0', 'init1 0 2 p', 'en 0', 'raise 2',
     'pass 0', 'del 0', 'raise 6', 'raise 7', 'raise 10'],
    # malformed stream: both sides must answer bad-op (or refuse) identically
    ['eng x', 'new 3 -', 'new 0 -', 'init 0 4 p', 'init 0 2,1 p', 'init 0 1,1 p', 'init 0 0, p', 'init 0 1 q', 'en 1', 'sa 1 h3 0 0', 'sa 4 d 0 0',
     'sa 1 h0 4 0', 'sa 1 h0 0 16', 'raise 4', 'pass 3', 'frob', 'init 0 1 p', 'en 0', 'init 0 2 p', 'del 0', 'en 0', 'dis 0', 'init 0 1 p'],
    # two loops share one signal; one leaves, raise, the other leaves: restored field-wise (handler + flags + mask)
    ['eng e', 'sa 1 h1 3 10', 'new 0 -', 'new 1 -', 'init 0 1 p', 'init 1 1 p', 'en 0', 'en 1', 'raise 1', 'pass 0', 'pass 1', 'dis 0', 'raise 1',
     'pass 0', 'pass 1', 'dis 1', 'raise 1', 'pass 0', 'pass 1'],
    # sa_sigaction-style old handler is chained exactly once; restored with SA_SIGINFO
    ['eng s', 'sa 2 a2 1 5', 'new 0 -', 'init 0 2 p', 'en 0', 'raise 2', 'raise 2', 'pass 0', 'del 0', 'raise 2'],
    # one-shot on two signals, both pending in the pipe: fires once, pipe closed inside the pass
    ['eng e', 'new 0 -', 'init 0 1,2 o', 'en 0', 'raise 1', 'raise 2', 'pass 0', 'raise 1', 'en 0', 'raise 2', 'pass 0', 'pass 0'],
    # stale pipe content: raise, disable, (other signal keeps the pipe open), re-enable, pass
    ['eng e', 'sa 1 i 0 0', 'new 0 -', 'new 0 -', 'init 0 1 p', 'init 1 2 p', 'en 0', 'en 1', 'raise 1', 'dis 0', 'pass 0', 'raise 1', 'en 0',
     'raise 1', 'dis 0', 'en 0', 'pass 0', 'dis 0', 'dis 1', 'raise 1'],
    # more than 10 pending numbers (read chunk of CommonLoop::onSignal), one-shot in the middle
    ['eng e', 'new 0 -', 'new 0 -', 'init 0 1 p', 'init 1 1 o', 'en 0', 'en 1'] + ['raise 1'] * 23 + ['pass 0', 'pass 0', 'dis 0', 'sa 1 d 0 0'],
    # enable of an uninitialised event, enable twice, disable twice, destroy enabled
    ['eng s', 'sa 4 h0 2 0', 'new 1 -', 'en 0', 'dis 0', 'init 0 4,5 p', 'en 0', 'en 0', 'raise 4', 'pass 1', 'dis 0', 'dis 0', 'en 0', 'del 0', 'raise 4'],
    # three loops, disposition ignored before: chain does nothing, all three get the callback, restore to SIG_IGN
    # (C04-01) initialize() on an enabled event: old signal unsubscribed, new signal's sigaction untouched, no dangling subscriber
    ['eng e', 'sa 2 h1 1 0', 'new 0 -', 'init 0 1 p', 'en 0', 'init 0 2 p', 'del 0', 'raise 2', 'new 0 -', 'init 1 1 p', 'en 1', 'raise 1', 'pass 0', 'dis 1'],
    # (C04-02) enable() with SIGSTOP in the set: fails, nothing stays subscribed; SIGKILL first: fails at once
    ['eng e', 'sa 1 h2 0 0', 'new 0 -', 'init 0 1,3,4 p', 'en 0', 'raise 1', 'pass 0', 'del 0', 'raise 1', 'new 0 -', 'init 1 0,1 p', 'en 1', 'sa 0 i 0 0', 'sa 3 h0 0 0', 'raise 0', 'raise 3'],
    # (C04-03) a callback disables / deletes a later subscriber of the same delivery, both directions
    ['eng e', 'sa 1 i 0 0', 'new 0 d1', 'new 0 d0', 'init 0 1 p', 'init 1 1 p', 'en 0', 'en 1', 'raise 1', 'pass 0', 'en 0', 'en 1', 'raise 1', 'pass 0'],
    ['eng s', 'sa 1 i 0 0', 'new 0 x1', 'new 0 x0', 'new 0 e0,e1', 'init 0 1 p', 'init 1 1 p', 'init 2 1 p', 'en 0', 'en 1', 'en 2', 'raise 1', 'pass 0', 'raise 1', 'pass 0'],
    # a callback closes the pipe (last subscriber disabled) with more numbers pending, a later one reopens it
    ['eng e', 'sa 1 i 0 0', 'new 0 d0,d1', 'new 0 -', 'init 0 1 p', 'init 1 2 p', 'en 0', 'en 1'] + ['raise 1', 'raise 2'] * 8 + ['pass 0', 'en 1', 'raise 2', 'pass 0', 'dis 1'],
    ['eng e', 'sa 5 i 1 0', 'new 0 -', 'new 1 -', 'new 2 -', 'init 0 5 p', 'init 1 5 o', 'init 2 5 p', 'en 0', 'en 1', 'en 2', 'raise 5', 'pass 2', 'pass 1',
     'pass 0', 'raise 5', 'pass 0', 'pass 1', 'pass 2', 'del 2', 'del 0', 'raise 5'],
]


def gen(rng, tier):
    n = 350 if tier == 'quick' else 5000
    for d in DIRECTED:
        yield d
    for ops in gen_self_scripts():
        yield ops
    if tier == 'thorough':
        # the default 64 KiB pipe: 16384 fit, the 16385th is dropped; one-shot sibling fires once
        yield ['eng e', 'sa 1 h0 0 0', 'new 0 -', 'new 0 -', 'init 0 1 p', 'init 1 1 o', 'en 0', 'en 1', 'burst 1 16385', 'pass 0', 'raise 1', 'pass 0', 'dis 0']
        # exhaustive: every op sequence of length <= 4 over a small alphabet (2 loops, one shared signal, one-shot + persistent,
        # a callback that deletes a sibling)
        alpha = ['en 0', 'dis 0', 'en 1', 'dis 1', 'raise 1', 'pass 0', 'pass 1', 'del 1', 'en 2']
        for L in range(1, 5):
            for seq in itertools.product(alpha, repeat=L):
                yield ['eng e', 'sa 1 a1 1 2', 'new 0 -', 'new 1 x2', 'new 1 d1', 'init 0 1 p', 'init 1 1,2 o', 'init 2 1 p'] + list(seq) + \
                      ['raise 1', 'pass 0', 'pass 1', 'dis 0', 'dis 1', 'dis 2', 'raise 1']
    for _ in range(n):
        yield gen_case(rng, rng.choice([6, 12, 25, 50]))
    for _ in range(n // 3):
        yield gen_dispatch(rng)
    for _ in range(n // 10):
        yield gen_long_history(rng)
    for _ in range(n // 6):
        yield gen_burst(rng, tier)
    for _ in range(n // 3):
        yield gen_faults(rng)
    for _ in range(n // 8):
        yield gen_numbers(rng)
    for _ in range(n // 6):
        yield gen_flags(rng)
    for _ in range(n // 5):
        yield gen_state_derived(rng)
    for _ in range(n // 12):
        yield gen_head(rng, tier)
    for _ in range(n // 5):
        yield gen_pipefail(rng)
    for _ in range(n // 10):
        yield gen_blocked(rng)


def fingerprint(ops, d):
    """class of the shrunk failing history (one fingerprint per defect class, so each is reported once)"""
    import hashlib
    inits = [o.split() for o in ops if o.startswith('init ')]
    scripted = any(o.startswith('new ') and not o.endswith(' -') for o in ops)
    bad_sig = any(set(w[2].split(',')) & {'0', '3', '7', '8', '9', '10', '11'} for w in inits if len(w) == 4)
    if any(o.startswith('burst ') for o in ops) and ('burst' in (d[1] if d else '') or 'pass' in (d[1] if d else '')): return 'burst-or-capacity'
    if any(o.startswith('raisew ') for o in ops): return 'write-failure'
    if any(o.startswith('passc ') for o in ops): return 'read-answers'
    msg = (d[1] if d else '')
    news = [o.split() for o in ops if o.startswith('new ')]
    import re as _re
    reentrant = any(len(w) == 3 and str(i) in _re.findall(r'[edxi](\d+)', w[2]) for i, w in enumerate(news))
    if reentrant and ('pass' in msg or 'CRASH' in msg): return 'reentrant-callback'
    if scripted and ('pass' in msg or 'CRASH' in msg): return 'callback-on-stale-subscriber'
    if bad_sig: return 'enable-fails-midway'
    seen, en = set(), set()
    for o in ops:
        w = o.split()
        if w[0] == 'en' and len(w) == 2: en.add(w[1])
        if w[0] in ('dis', 'del') and len(w) == 2: en.discard(w[1])
        if w[0] == 'init' and len(w) == 4 and w[1] in en: return 'initialize-on-enabled-event'
    return hashlib.sha1(' '.join(o.split()[0] for o in ops).encode()).hexdigest()[:12]


def nontrivial(ops, model_lines):
    tags = ' '.join(l for l in model_lines if l.startswith('B '))
    return 1 if ('restore' in tags and ('pass-cb1' in tags or 'pass-cbN' in tags)) else None


LEVEL_TEXT = ('Lean 4 theorems over a model of the process-wide signal bookkeeping (subscribeSignal incl. its failure path/unsubscribeSignal/'
              'SignalHandlerFunc/onSignal incl. read chunks + SignalEventImpl with callback scripts): an inductive invariant over every op list '
              '(any signals, events, loops, scripts, walking orders) yields ctx<->per-loop-map<->event consistency, handler installed exactly while '
              'someone is subscribed, saved disposition restored, old handler chained once, no callback on a disabled or destroyed event, every '
              'subscriber called exactly once on its own loop (for every kernel answer to the handler\'s pipe writes: a failed write loses that loop\'s '
              'delivery only), one-shot at most once, termination of the read loop (for every sequence of read() answers without an error); bursts: '
              'min(n, capacity) numbers pending per subscribed loop (no loss up to the capacity, counterexample beyond; exact write condition with the consumed '
              'part of the first page); dispositions with all flag bits and the 64-bit mask: restored whole unless the kernel itself reset an SA_RESETHAND handler on '
              'a direct delivery, a chained delivery never does, the saved handler runs on every delivery; a step-level model of the two '
              'critical sections (mutex + per-thread signal mask) with the bookkeeping invariant for every interleaving of threads, deliveries and user '
              'sigaction calls; tied to the real code on every run by a trace acceptor (real sigaction/raise, loops on their own threads, both engines, '
              'interposed pipe2/close/sigprocmask/sigaction/write/read, ASan+UBSan build of the working tree)')
LEVEL_NOTE = ('trusted: Lean kernel, hand-written model + trace-acceptor tie (coverage bounded by the generator, measured), kernel signal semantics; '
              'not covered by the tie: a delivery on another thread while a subscription change is in progress (modelled at step level only; the C++ '
              'data race on std::map/std::set in that window is outside the statement\'s quantifier), destruction of a loop with '
              'subscribed events (observed through `lost`, not modelled: outside the statement), fork()')
TECHNIQUE = 'Lean 4 invariant proof over all op lists of a signal-bookkeeping model + model/implementation correspondence check'
DESIGN_REF = 'DESIGN.md §6 C04'
