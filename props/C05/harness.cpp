// C05 harness: real tbox::eventx::ThreadPool / WorkThread + a real Loop on the main thread.
// Ops are executed ON the loop thread (one per loop pass).  Task bodies record (task, thread,
// global sequence number at start / end) and sleep; completion callbacks record (task, thread,
// sequence number).  Every loop-thread op is bracketed by two sequence numbers (before the call,
// after it returned).  The recorded history is validated by lean/Driver/C05.lean (trace mode).
//
// Schedule perturbation without any change to the repo: pthread_mutex_lock and pthread_cond_wait
// are interposed (extern "C" + dlsym(RTLD_NEXT)).  On WORKER threads only (never the loop thread),
// with PRNG-chosen probability, a sleep of 0-3 ms is inserted
//   * before pthread_mutex_lock      -> widens "popped, not yet inserted into the running set"
//   * on entry of pthread_cond_wait  -> the mutex is held, the wait predicate has just been
//                                       evaluated false: widens "predicate checked, not yet blocked"
// and on the loop thread, only inside cleanup(), after pthread_mutex_unlock (0-1.5 ms): workers get to
// their predicate between cleanup()'s critical section and its next action.
// A watchdog turns a cleanup() that does not return into `P cleanup timeout` + exit(7).
#include "vh.h"
#include "loopdrv.h"
#include <dlfcn.h>
#include <pthread.h>
#include <unistd.h>
#include <atomic>
#include <algorithm>
#include <climits>
#include <chrono>
#include <map>
#include <memory>
#include <mutex>
#include <thread>
#include <tbox/base/log_output.h>
#include <tbox/event/loop.h>
#include <tbox/eventx/thread_pool.h>
#include <tbox/eventx/work_thread.h>

using namespace tbox;
using namespace tbox::eventx;

// ---------------------------------------------------------------- perturbation (interposers)
static pthread_t g_main_thr;
static std::atomic<int> g_perturb{0};           // 0 off; otherwise per-mille probability of a sleep
static std::atomic<uint32_t> g_pseed{1};
static thread_local uint32_t tl_rng = 0;

static inline uint32_t rnd() {
    if (tl_rng == 0) tl_rng = g_pseed.fetch_add(0x9e3779b9u) | 1u;
    uint32_t x = tl_rng; x ^= x << 13; x ^= x >> 17; x ^= x << 5; tl_rng = x; return x;
}
static inline void maybe_sleep(int scale) {
    int p = g_perturb.load(std::memory_order_relaxed);
    if (p == 0 || pthread_equal(pthread_self(), g_main_thr)) return;
    uint32_t r = rnd();
    if ((int)(r % 1000) >= p * scale) return;
    usleep(100 + (r >> 10) % 2900);              // 0.1 .. 3 ms
}
static std::atomic<uint64_t> g_seq{0};
static inline uint64_t seq() { return g_seq.fetch_add(1) + 1; }
// ---- step-level event log (round 5): every critical section of the pool mutex on a worker thread, every
// cond_wait entry / exit, every notify, thread creation and join gets a global sequence number.  The numbers are
// taken with memory_order_relaxed so that the log itself adds no happens-before edge ThreadSanitizer would honour
// (a race on the stop flag must stay visible).  L is stamped right AFTER the mutex was acquired, U right BEFORE it
// is released, CW before the wait releases it, CX after the wait re-acquired it: the stamps of two critical
// sections of the same mutex never interleave, so sorting by stamp gives the exact order of the sections.
static inline uint64_t seq_rlx() { return g_seq.fetch_add(1, std::memory_order_relaxed) + 1; }
enum { EV_L = 1, EV_U, EV_CW, EV_CX, EV_NO, EV_NA, EV_J, EV_TC };
struct Ev { std::atomic<uint64_t> w{0}; std::atomic<uintptr_t> p{0}; };
static const size_t kMaxEv = 1u << 18;
static Ev g_evs[kMaxEv];
static std::atomic<size_t> g_evn{0};
static std::atomic<int> g_evon{0};
static thread_local int tl_api = 0;               // != 0: this thread is inside an API call issued by the harness
static thread_local uint64_t tl_cs = 0;           // stamp of the first acquisition of the pool mutex inside that call
static thread_local int tl_cs_skip = 0;           // … after skipping this many acquisitions (a failing initialize(): its own section, then cleanup()'s)
static thread_local int tl_widx = 0;              // 0 = not a tracked worker; else index into g_w (== thread number)
static thread_local int tl_foreign = 0;           // the harness is driving ANOTHER pool / WorkThread (forge wt|pool): nothing of it is recorded
static inline int me_idx() { return tl_widx ? tl_widx : (pthread_equal(pthread_self(), g_main_thr) ? 0 : -1); }
static inline void ev(int kind, int thr, const void *p, int arg = 0) {
    size_t i = g_evn.fetch_add(1, std::memory_order_relaxed);
    uint64_t q = seq_rlx();
    if (i >= kMaxEv) return;
    g_evs[i].p.store((uintptr_t)p, std::memory_order_relaxed);
    g_evs[i].w.store((q << 24) | ((uint64_t)kind << 20) | ((uint64_t)(thr & 1023) << 10) | (uint64_t)(arg & 1023), std::memory_order_relaxed);
}
static std::atomic<pthread_mutex_t *> g_loop_mutex{nullptr};   // the Loop's lock_ (runInLoop), captured at start-up
// the pool's own mutex (captured from a getTaskStatus() call just before cleanup) and the sequence number taken
// right after the loop thread first unlocks it inside cleanup(): cleanup()'s critical section — where the stop flag
// is set and the waiting tasks are dropped — lies before that number
static std::atomic<int> g_capture{0};
static std::atomic<pthread_mutex_t *> g_cap_mutex{nullptr};
static std::atomic<uint64_t> g_cq1{0};
typedef int (*mlock_t)(pthread_mutex_t *);
typedef int (*cwait_t)(pthread_cond_t *, pthread_mutex_t *);
extern "C" int pthread_mutex_lock(pthread_mutex_t *m) {
    static mlock_t real = (mlock_t)dlsym(RTLD_NEXT, "pthread_mutex_lock");
    maybe_sleep(1);
    int cap = g_capture.load(std::memory_order_relaxed);
    if (cap == 1 && pthread_equal(pthread_self(), g_main_thr) && g_cap_mutex.load() == nullptr)
        g_cap_mutex = m;
    if (cap == 2 && pthread_equal(pthread_self(), g_main_thr) && g_loop_mutex.load() == nullptr)
        g_loop_mutex = m;
    int r = real(m);
    if (g_evon.load(std::memory_order_relaxed)) {
        int me = me_idx();
        if (me >= 0) {
            if (tl_api) { if (m == g_cap_mutex.load(std::memory_order_relaxed)) { if (tl_cs_skip > 0) --tl_cs_skip; else if (tl_cs == 0) tl_cs = seq_rlx(); } }
            else if (me > 0) ev(EV_L, me, m);
        }
    }
    return r;
}
// on the LOOP thread, only while it is inside cleanup(): a pause after each unlock lets workers reach
// their wait predicate between cleanup()'s critical section and what cleanup() does next.
// on WORKER threads: a rare pause after an unlock (the last unlock of a voluntarily exiting worker is
// the one after it removed itself from the cabinet: the thread is still alive for a while).
static std::atomic<int> g_in_cleanup{0};
// `holdpick <us>`: the NEXT unlock of the pool mutex by a worker thread is followed by a pause of <us> microseconds (one shot):
// in an idle pool that unlock ends the critical section in which the worker popped the next task and entered it into the
// running set — the loop thread's next ops (cancel / getTaskStatus of that very task) land between the pop and the body
static std::atomic<unsigned> g_hold_us{0};
static std::atomic<int> g_holding{0};             // 1 while a worker sits in that pause (the next loop-thread op waits for it to begin)
extern "C" int pthread_mutex_unlock(pthread_mutex_t *m) {
    static mlock_t real = (mlock_t)dlsym(RTLD_NEXT, "pthread_mutex_unlock");
    if (g_evon.load(std::memory_order_relaxed) && !tl_api && tl_widx > 0) ev(EV_U, tl_widx, m);
    int r = real(m);
    if (tl_widx > 0 && !tl_api && g_hold_us.load(std::memory_order_relaxed) != 0 && m == g_cap_mutex.load()) {
        unsigned us = g_hold_us.exchange(0);
        if (us) { g_holding = 1; usleep(us); g_holding = 0; }
    }
    if (g_in_cleanup.load(std::memory_order_relaxed) && m == g_cap_mutex.load() && g_cq1.load() == 0
        && pthread_equal(pthread_self(), g_main_thr))
        g_cq1 = seq();
    int p = g_perturb.load(std::memory_order_relaxed);
    if (p != 0) {
        if (pthread_equal(pthread_self(), g_main_thr)) {
            if (g_in_cleanup.load(std::memory_order_relaxed)) {
                uint32_t x = rnd();
                if ((int)(x % 1000) < p) usleep(50 + (x >> 10) % 1500);
            }
        } else {
            uint32_t x = rnd();
            if ((int)(x % 1000) < p / 2) usleep(100 + (x >> 10) % 2900);
        }
    }
    return r;
}
static std::atomic<int> g_in_wait{0};             // worker threads blocked in pthread_cond_wait
extern "C" int pthread_cond_wait(pthread_cond_t *c, pthread_mutex_t *m) {
    static cwait_t real = (cwait_t)dlsym(RTLD_NEXT, "pthread_cond_wait");
    bool worker = !pthread_equal(pthread_self(), g_main_thr);
    maybe_sleep(3);                              // mutex held, predicate already false
    bool log = g_evon.load(std::memory_order_relaxed) && tl_widx > 0 && !tl_api;
    if (log) ev(EV_CW, tl_widx, m);
    if (worker) g_in_wait.fetch_add(1);
    int r = real(c, m);
    if (worker) g_in_wait.fetch_sub(1);
    if (log) ev(EV_CX, tl_widx, c);
    return r;
}
typedef int (*csig_t)(pthread_cond_t *);
extern "C" int pthread_cond_signal(pthread_cond_t *c) {
    static csig_t real = (csig_t)dlsym(RTLD_NEXT, "pthread_cond_signal");
    if (g_evon.load(std::memory_order_relaxed) && !tl_foreign) { int me = me_idx(); if (me >= 0) ev(EV_NO, me, c); }
    return real(c);
}
extern "C" int pthread_cond_broadcast(pthread_cond_t *c) {
    static csig_t real = (csig_t)dlsym(RTLD_NEXT, "pthread_cond_broadcast");
    if (g_evon.load(std::memory_order_relaxed) && !tl_foreign) { int me = me_idx(); if (me >= 0) ev(EV_NA, me, c); }
    return real(c);
}

// worker threads are created by the loop thread (initialize / execute): count creations and ends exactly
static std::atomic<int> g_track{0}, g_created{0}, g_ended{0};
struct WRec { std::atomic<uint64_t> s{0}, e{0}; std::atomic<int> epoch{0}; std::atomic<unsigned long> pt{0}; };
static const int kMaxW = 1024;
static WRec g_w[kMaxW];
static std::atomic<int> g_epoch{0};               // case number: threads of an earlier case do not count
static thread_local int tl_made = 0;              // threads created BY this thread (execute() on it spawned a worker)
static thread_local int tl_failed = 0;            // creations by this thread that were made to fail (EAGAIN)
static std::atomic<int> g_fail_create{0};         // n > 0: the n-th pthread_create from now on fails with EAGAIN
struct Tramp { void *(*fn)(void *); void *arg; int idx; int epoch; };
static void *tramp(void *p) {
    Tramp t = *(Tramp *)p; delete (Tramp *)p;
    tl_widx = t.idx;                                           // 0: beyond the table (only counted)
    if (t.idx > 0 && t.epoch == g_epoch.load()) g_w[t.idx].s = seq();
    void *r = t.fn(t.arg);
    if (t.epoch == g_epoch.load()) { if (t.idx > 0) g_w[t.idx].e = seq(); g_ended.fetch_add(1); }
    return r;
}
typedef int (*pcreate_t)(pthread_t *, const pthread_attr_t *, void *(*)(void *), void *);
extern "C" int pthread_create(pthread_t *th, const pthread_attr_t *attr, void *(*fn)(void *), void *arg) {
    static pcreate_t real = (pcreate_t)dlsym(RTLD_NEXT, "pthread_create");
    if (!g_track.load() || tl_foreign) return real(th, attr, fn, arg);   // workers may be created by a nested execute() too
    ++tl_made;
    int idx = g_created.fetch_add(1) + 1;
    if (idx >= kMaxW) return real(th, attr, tramp, new Tramp{fn, arg, 0, g_epoch.load()});   // counted, not recorded
    g_w[idx].s = 0; g_w[idx].e = 0; g_w[idx].pt = 0;
    // fault schedule: the op file may make the n-th creation of this case fail with EAGAIN
    if (g_fail_create.load() != 0 && g_fail_create.fetch_sub(1) == 1) { g_created.fetch_sub(1); --tl_made; ++tl_failed; return EAGAIN; }
    int r = real(th, attr, tramp, new Tramp{fn, arg, idx, g_epoch.load()});
    if (r == 0) {
        g_w[idx].pt = (unsigned long)*th;
        if (g_evon.load(std::memory_order_relaxed)) { int me = me_idx(); if (me >= 0) ev(EV_TC, me, nullptr, idx); }
    }
    return r;
}
typedef int (*pjoin_t)(pthread_t, void **);
extern "C" int pthread_join(pthread_t th, void **ret) {
    static pjoin_t real = (pjoin_t)dlsym(RTLD_NEXT, "pthread_join");
    int r = real(th, ret);
    if (g_evon.load(std::memory_order_relaxed)) {
        int me = me_idx();
        if (me >= 0) {
            int n = g_created.load();
            for (int i = 1; i <= n && i < kMaxW; ++i)
                if (g_w[i].pt.load() == (unsigned long)th) { ev(EV_J, me, nullptr, i); g_w[i].pt = 0; break; }
        }
    }
    return r;
}

// ---------------------------------------------------------------- recording

struct TaskRec {
    int prio = 0; bool cb = false; unsigned dur_us = 0; bool null_token = false;
    cabinet::Token token;
    std::atomic<int> nbody{0}, ncb{0};
    std::atomic<uint64_t> s{0}, e{0}, cbq{0};
    std::atomic<int> thr{-1}, cbthr{-1};
    std::atomic<int> extra{0};                  // second execution / second callback (never expected)
    std::atomic<bool> cancelled{false};         // some cancel() answered 0
    std::atomic<bool> ready{false};             // nested task: prio/cb/dur are published
    std::atomic<bool> cbdrop{false};            // WorkThread without any loop: the completion callback cannot be delivered
    struct Act { char kind; int prio; bool cb; unsigned dur; size_t k; };
    std::vector<Act> bscript, cscript;          // re-entrant API use from the task body / from the completion callback
};
static const size_t kMaxTasks = 4096;
static const size_t kNestBase = 2048;            // tasks submitted by bodies / callbacks are numbered from here
static std::atomic<size_t> g_nn{0};
static std::unique_ptr<TaskRec[]> g_tasks;
static size_t g_ntasks = 0;
size_t g_ntasks_fwd() { return g_ntasks; }

static std::mutex g_thr_mu;
static std::map<std::thread::id, int> g_thr_ids;
static int thr_index() {                         // loop thread = 0, workers = creation number (1..)
    if (tl_widx != 0) return tl_widx;
    std::lock_guard<std::mutex> lg(g_thr_mu);
    auto id = std::this_thread::get_id();
    auto it = g_thr_ids.find(id);
    if (it != g_thr_ids.end()) return it->second;
    int n = (int)g_thr_ids.size();
    g_thr_ids[id] = n;
    return n;
}

struct ApiScope { ApiScope() { tl_api = 1; tl_cs = 0; } ~ApiScope() { tl_api = 0; } };
static bool g_inited = false, g_cleaned = false;
// ---------------------------------------------------------------- re-entrant API use (bodies / callbacks call the pool)
struct NEv { char kind; size_t k; int r; int thr; size_t parent; int prio; bool cb; uint64_t qb, qa, cs; };
static std::mutex g_nev_mu;
static std::vector<NEv> g_nev;
static void nev(const NEv &e) { std::lock_guard<std::mutex> lg(g_nev_mu); g_nev.push_back(e); }
static tbox::eventx::ThreadPool *g_tp = nullptr;
static tbox::eventx::WorkThread *g_wt = nullptr;
static void run_script(size_t self, const std::vector<TaskRec::Act> &sc);
static void task_body(size_t k);
static void task_cb(size_t k);
static event::Loop *g_loop = nullptr;
// every public execute() overload is used: the variant is a function of the task number
//   0: rvalue functions   1: const-reference functions   2 / 3: the same, WorkThread with the loop passed explicitly
static bool g_wt_noloop = false;                 // WorkThread constructed without a default loop
static std::atomic<uint64_t> g_exec_calls{0};    // execute() calls on the object under test in this case (all lifecycles): bounds its token ids
static std::vector<cabinet::Token> g_prev_tok;   // tokens of the loop-submitted tasks of the PREVIOUS lifecycle (stale now)
static int g_w_base = 0;                         // worker threads created in earlier lifecycles of this case
static cabinet::Token do_execute(size_t k, bool cb, int prio) {
    int v = (int)(k % 4);
    g_exec_calls.fetch_add(1, std::memory_order_relaxed);
    std::function<void()> body = [k] { task_body(k); };
    std::function<void()> cbf = [k] { task_cb(k); };
    ApiScope as;
    if (g_tp) {
        if (cb) return (v & 1) ? g_tp->execute(body, cbf, prio) : g_tp->execute(std::move(body), std::move(cbf), prio);
        return (v & 1) ? g_tp->execute(body, prio) : g_tp->execute(std::move(body), prio);
    }
    if (g_wt) {
        event::Loop *lp = (v & 2) ? g_loop : nullptr;
        if (g_wt_noloop && lp == nullptr) g_tasks[k].cbdrop = true;
        if (cb) return (v & 1) ? g_wt->execute(body, cbf, lp) : g_wt->execute(std::move(body), std::move(cbf), lp);
        return (v & 1) ? g_wt->execute(body) : g_wt->execute(std::move(body));
    }
    return cabinet::Token();
}
static void task_body(size_t k) {
    TaskRec &t = g_tasks[k];
    if (t.nbody.fetch_add(1) > 0) { t.extra.fetch_add(1); return; }
    t.thr = thr_index();
    t.s = seq();
    if (t.dur_us) usleep(t.dur_us);
    if (!t.bscript.empty()) run_script(k, t.bscript);
    t.e = seq();
}
static void task_cb(size_t k) {
    TaskRec &t = g_tasks[k];
    if (t.ncb.fetch_add(1) > 0) { t.extra.fetch_add(1); return; }
    t.cbthr = thr_index();
    t.cbq = seq();
    if (!t.cscript.empty()) run_script(k, t.cscript);
}

// ---- `R<n>` in a callback script: a chain of n tasks whose body AND completion callback are one and the same
// std::function object (const-reference overload); each link is submitted from inside the completion callback of the
// previous one, i.e. while that very object is being invoked by the loop and the worker is releasing the finished item
struct SelfChain { std::function<void()> f; std::atomic<size_t> cur{0}; std::atomic<int> left{0}; size_t parent = 0; };
static std::vector<std::shared_ptr<SelfChain>> g_chains;       // kept alive until the case ends
static std::mutex g_chain_mu;
static void chain_submit(const std::shared_ptr<SelfChain> &c) {
    size_t j = g_nn.fetch_add(1);
    size_t k = kNestBase + j;
    if (k >= kMaxTasks) return;
    TaskRec &t = g_tasks[k];
    t.prio = 0; t.cb = true; t.dur_us = 0;
    t.ready.store(true, std::memory_order_release);
    c->cur = k;
    int thr = thr_index();
    uint64_t qb = seq();
    cabinet::Token tok; uint64_t cs;
    { ApiScope as; g_exec_calls.fetch_add(1, std::memory_order_relaxed);
      tok = g_tp ? g_tp->execute(c->f, c->f, 0) : (g_wt ? g_wt->execute(c->f, c->f, g_loop) : cabinet::Token()); cs = tl_cs; }
    uint64_t qa = seq();
    if (tok.isNull()) nev(NEv{'z', k, 0, thr, c->parent, 0, true, qb, qa, cs});
    else { t.token = tok; nev(NEv{'x', k, 0, thr, c->parent, 0, true, qb, qa, cs}); }
}
static void chain_start(size_t parent, int n) {
    auto c = std::make_shared<SelfChain>();
    c->parent = parent; c->left = n - 1;
    std::weak_ptr<SelfChain> wc = c;
    c->f = [wc] {
        auto c = wc.lock(); if (!c) return;
        size_t k = c->cur.load();
        if (pthread_equal(pthread_self(), g_main_thr)) {            // completion-callback role
            task_cb(k);
            if (c->left.fetch_sub(1) > 0 && !g_cleaned) chain_submit(c);
        } else task_body(k);                                         // body role (worker thread)
    };
    { std::lock_guard<std::mutex> lg(g_chain_mu); g_chains.push_back(c); }
    chain_submit(c);
}

// ---------------------------------------------------------------- watchdog
static std::atomic<int64_t> g_deadline_ms{0};
static int64_t now_ms() {
    return std::chrono::duration_cast<std::chrono::milliseconds>(std::chrono::steady_clock::now().time_since_epoch()).count();
}
static int g_watchdog_ms = 5000;
static void watchdog() {
    for (;;) {
        usleep(20000);
        int64_t d = g_deadline_ms.load();
        if (d != 0 && now_ms() > d) {
            std::cout << "P cleanup timeout" << std::endl;
            fflush(stdout);
            _exit(7);
        }
    }
}

// ---------------------------------------------------------------- the case state

static void run_script(size_t self, const std::vector<TaskRec::Act> &sc) {
    int thr = thr_index();
    long last = -1;                                  // most recent nested child of this script
    for (const auto &a : sc) {
        if (a.kind == 'R') { chain_start(self, (int)a.k); continue; }
        if (a.kind == 'x') {
            size_t j = g_nn.fetch_add(1);
            size_t k = kNestBase + j;
            if (k >= kMaxTasks) return;
            TaskRec &c = g_tasks[k];
            c.prio = a.prio; c.cb = a.cb; c.dur_us = a.dur;
            c.ready.store(true, std::memory_order_release);
            uint64_t qb = seq();
            cabinet::Token tok = do_execute(k, a.cb, a.prio);
            uint64_t cs = tl_cs;
            uint64_t qa = seq();
            if (tok.isNull()) { nev(NEv{'z', k, 0, thr, self, a.prio, a.cb, qb, qa, cs}); }
            else { c.token = tok; last = (long)k; nev(NEv{'x', k, 0, thr, self, a.prio, a.cb, qb, qa, cs}); }
        } else {
            size_t k = (a.kind == 'S' || a.kind == 'C') ? (size_t)last : a.k;
            if ((a.kind == 'S' || a.kind == 'C') && last < 0) continue;
            bool is_cancel = (a.kind == 'c' || a.kind == 'C');
            uint64_t qb = seq();
            int r; uint64_t cs;
            {
                ApiScope as;
                if (is_cancel) r = g_tp ? g_tp->cancel(g_tasks[k].token) : (g_wt ? g_wt->cancel(g_tasks[k].token) : 1);
                else r = g_tp ? (int)g_tp->getTaskStatus(g_tasks[k].token) : (g_wt ? (int)g_wt->getTaskStatus(g_tasks[k].token) : 2);
                cs = tl_cs;
            }
            uint64_t qa = seq();
            if (is_cancel && r == 0) g_tasks[k].cancelled = true;
            nev(NEv{is_cancel ? 'c' : 's', k, r, thr, self, 0, false, qb, qa, cs});
        }
    }
}
template <typename F> static void for_each_task(F f) {
    size_t nn = g_nn.load();
    extern size_t g_ntasks_fwd();
    for (size_t k = 0; k < g_ntasks_fwd(); ++k) f(k);
    for (size_t j = 0; j < nn && kNestBase + j < kMaxTasks; ++j)
        if (g_tasks[kNestBase + j].ready.load(std::memory_order_acquire)) f(kNestBase + j);
}
// bodies that call the API must not overlap cleanup(): wait until every task with a script has finished or was cancelled
static void wait_scripts_done();

static bool g_destroyed = false;
// bulk submissions (10^4..10^5 anonymous tasks sharing one counter): queue / cabinet / cleanup at scale
static std::atomic<uint64_t> g_bulk_ran{0};
static uint64_t g_bulk_n = 0;
static uint64_t g_cleanup_cs = 0;
// destroy = true: run the destructor WITHOUT calling cleanup() first (the destructor has to do it)
static void guarded_cleanup(bool destroy = false) {
    wait_scripts_done();
    g_cap_mutex = nullptr; g_cq1 = 0;
    g_capture = 1;
    if (g_tp) (void)g_tp->getTaskStatus(cabinet::Token());
    if (g_wt) (void)g_wt->getTaskStatus(cabinet::Token());
    g_capture = 0;
    g_deadline_ms = now_ms() + g_watchdog_ms;
    g_in_cleanup = 1;
    {
        ApiScope as;
        if (destroy) { delete g_tp; g_tp = nullptr; delete g_wt; g_wt = nullptr; g_destroyed = true; }
        else { if (g_tp) g_tp->cleanup(); if (g_wt) g_wt->cleanup(); }
        g_cleanup_cs = tl_cs;
    }
    g_in_cleanup = 0;
    g_deadline_ms = 0;
}

static void reset_case() {
    if ((g_tp || g_wt) && !g_cleaned) guarded_cleanup();
    g_perturb = 0;
    g_deadline_ms = now_ms() + g_watchdog_ms;
    delete g_tp; g_tp = nullptr;
    delete g_wt; g_wt = nullptr;
    g_deadline_ms = 0;
    g_inited = false; g_cleaned = false; g_destroyed = false;
    g_ntasks = 0; g_nn = 0;
    g_tasks.reset(new TaskRec[kMaxTasks]);
    { std::lock_guard<std::mutex> lg(g_nev_mu); g_nev.clear(); }
    g_seq = 0;
    g_track = 0; g_epoch.fetch_add(1); g_created = 0; g_ended = 0;
    g_bulk_ran = 0; g_bulk_n = 0;
    g_evon = 0; g_evn = 0; g_fail_create = 0; g_cleanup_cs = 0; g_wt_noloop = false;
    g_exec_calls = 0; g_prev_tok.clear(); g_w_base = 0; g_hold_us = 0; g_holding = 0;
    { std::lock_guard<std::mutex> lg(g_chain_mu); g_chains.clear(); }
    {
        std::lock_guard<std::mutex> lg(g_thr_mu);
        g_thr_ids.clear();
    }
    thr_index();
}

// every tracked worker thread that has not ended is blocked in pthread_cond_wait and no accepted task is unfinished
static bool all_done(bool scripted_only) {
    bool ok = true;
    if (!scripted_only && g_bulk_ran.load() < g_bulk_n) return false;
    for_each_task([&](size_t k) {
        TaskRec &t = g_tasks[k];
        if (scripted_only && t.bscript.empty()) return;
        if (!t.cancelled.load() && t.e.load() == 0) ok = false;
    });
    return ok;
}
static void wait_scripts_done() {
    if (g_cleaned || !g_inited) return;
    int64_t dl = now_ms() + g_watchdog_ms;
    while (!all_done(true) && now_ms() < dl) usleep(200);
}
static bool quiescent() {
    if (g_cleaned) return true;
    if (!all_done(false)) return false;
    int live = g_created.load() - g_ended.load();
    return g_in_wait.load() == live;
}

// "x<prio>:<cb>:<dur>" nested execute | "s<k>" / "c<k>" status / cancel of an earlier loop-submitted task |
// "S" / "C" status / cancel of the most recent nested child of this script; "-" = empty; at most 6 actions
static bool parse_script(const std::string &w, std::vector<TaskRec::Act> &out, size_t ntasks, bool allowR = false) {
    out.clear();
    if (w == "-") return true;
    std::stringstream ss(w); std::string item;
    while (std::getline(ss, item, ',')) {
        TaskRec::Act a{0, 0, false, 0, 0};
        if (item == "S" || item == "C") { a.kind = item[0]; }
        else if (allowR && item.size() == 2 && item[0] == 'R' && item[1] >= '1' && item[1] <= '4') { a.kind = 'R'; a.k = (size_t)(item[1] - '0'); }
        else if (item.size() >= 2 && (item[0] == 's' || item[0] == 'c')) {
            uint64_t k; if (!vh::to_u64(item.substr(1), k) || k >= ntasks) { out.clear(); return false; }
            a.kind = item[0]; a.k = k;
        } else if (item.size() >= 6 && item[0] == 'x') {
            size_t p1 = item.find(':'), p2 = item.rfind(':');
            int64_t pr; uint64_t d;
            if (p1 == std::string::npos || p2 == p1 || !vh::to_i64(item.substr(1, p1 - 1), pr) || pr < -100 || pr > 100) { out.clear(); return false; }
            std::string cbs = item.substr(p1 + 1, p2 - p1 - 1);
            if ((cbs != "0" && cbs != "1") || !vh::to_u64(item.substr(p2 + 1), d) || d > 20000) { out.clear(); return false; }
            a.kind = 'x'; a.prio = (int)pr; a.cb = (cbs == "1"); a.dur = (unsigned)d;
        } else { out.clear(); return false; }
        out.push_back(a);
        if (out.size() > 6) { out.clear(); return false; }
    }
    return !out.empty();
}

int main() {
    LogOutput_Disable();
    g_main_thr = pthread_self();
    if (const char *w = getenv("C05_WATCHDOG_MS")) g_watchdog_ms = atoi(w);
    std::thread(watchdog).detach();
    g_loop = event::Loop::New();
    g_capture = 2; g_loop->runInLoop([] {}, "capture"); g_capture = 0;     // learn which mutex is the loop's lock_
    g_tasks.reset(new TaskRec[kMaxTasks]);
    thr_index();
    vh::LoopDriver drv(g_loop);

    int64_t fin_deadline = 0;                     // != 0: `fin` is waiting for callbacks
    bool fin_done = false;
    bool relife_pending = false; int64_t relife_mn = 0, relife_mx = 0;
    bool at_eof = false; int off_n = 0; unsigned off_dur = 0;

    auto print_events = [&] {
        {
            // step-level event log: only the pool mutex, the pool condition variable and the loop's lock
            size_t n = g_evn.load();
            if (n > kMaxEv || g_bulk_n) std::cout << "S overflow\n";
            else {
                uintptr_t pm = (uintptr_t)g_cap_mutex.load(), lm = (uintptr_t)g_loop_mutex.load(), pc = 0;
                // the pool's condition variable: the one waited on with the pool mutex
                std::vector<std::pair<uint64_t, uintptr_t>> evs;
                for (size_t i = 0; i < n; ++i) evs.push_back({g_evs[i].w.load(std::memory_order_relaxed), g_evs[i].p.load(std::memory_order_relaxed)});
                std::sort(evs.begin(), evs.end());
                std::vector<char> in_pool_wait(1024, 0);
                for (auto &e : evs) {
                    int kind = (int)((e.first >> 20) & 15), thr = (int)((e.first >> 10) & 1023);
                    if (kind == EV_CW) in_pool_wait[thr] = (e.second == pm);
                    else if (kind == EV_CX && in_pool_wait[thr]) { pc = e.second; break; }
                }
                std::fill(in_pool_wait.begin(), in_pool_wait.end(), 0);
                static const char *nm[] = {"?", "L", "U", "CW", "CX", "NO", "NA", "J", "TC"};
                for (auto &e : evs) {
                    uint64_t q = e.first >> 24; int kind = (int)((e.first >> 20) & 15), thr = (int)((e.first >> 10) & 1023), arg = (int)(e.first & 1023);
                    if (kind == EV_L || kind == EV_U) {
                        if (e.second == pm) std::cout << "S " << nm[kind] << " " << thr << " " << q << "\n";
                        else if (e.second == lm && kind == EV_L) std::cout << "S LL " << thr << " " << q << "\n";
                    } else if (kind == EV_CW) { in_pool_wait[thr] = (e.second == pm); if (e.second == pm) std::cout << "S CW " << thr << " " << q << "\n"; }
                    else if (kind == EV_CX) { if (in_pool_wait[thr]) std::cout << "S CX " << thr << " " << q << "\n"; in_pool_wait[thr] = 0; }
                    else if (kind == EV_NO || kind == EV_NA) { if (pc == 0 || e.second == pc) std::cout << "S " << nm[kind] << " " << thr << " " << q << "\n"; }
                    else std::cout << "S " << nm[kind] << " " << thr << " " << q << " " << arg << "\n";
                }
            }
        }
        if (g_bulk_n) std::cout << "E bulk " << g_bulk_n << " " << g_bulk_ran.load() << "\n";
        int nw = g_created.load();
        for (int i = g_w_base + 1; i <= nw && i < kMaxW; ++i)
            std::cout << "W " << i << " " << g_w[i].s.load() << " " << g_w[i].e.load() << "\n";
        {
            std::lock_guard<std::mutex> lg(g_nev_mu);
            for (const auto &e : g_nev) {
                if (e.kind == 'x') std::cout << "N exec " << e.k << " " << e.parent << " " << e.thr << " " << e.prio << " " << (e.cb ? 1 : 0) << " " << e.qb << " " << e.qa << " " << e.cs << "\n";
                else if (e.kind == 'z') std::cout << "N execnull " << e.parent << " " << e.thr << " " << e.qb << " " << e.qa << "\n";
                else if (e.kind == 's') std::cout << "N stat " << e.k << " " << "wen"[e.r] << " " << e.thr << " " << e.qb << " " << e.qa << " " << e.cs << "\n";
                else std::cout << "N cancel " << e.k << " " << e.r << " " << e.thr << " " << e.qb << " " << e.qa << " " << e.cs << "\n";
            }
        }
        for_each_task([&](size_t k) {
            TaskRec &t = g_tasks[k];
            if (t.nbody.load() > 0)
                std::cout << "E body " << k << " " << t.thr.load() << " " << t.s.load() << " " << t.e.load() << "\n";
            if (t.extra.load() > 0)
                std::cout << "E extra " << k << " " << t.extra.load() << "\n";
            if (t.ncb.load() > 0)
                std::cout << "E cb " << k << " " << t.cbthr.load() << " " << t.cbq.load() << "\n";
        });
    };
    auto expected_cbs_arrived = [&]() -> bool {
        bool ok = true;
        for_each_task([&](size_t k) {
            TaskRec &t = g_tasks[k];
            if (t.cb && !t.cbdrop.load() && t.nbody.load() > 0 && t.e.load() != 0 && t.ncb.load() == 0) ok = false;
            if (t.nbody.load() > 0 && t.e.load() == 0) ok = false;   // body still running
        });
        return ok;
    };

    drv.step = [&]() -> bool {
        if (fin_deadline != 0) {
            if (!expected_cbs_arrived() && now_ms() < fin_deadline) { usleep(200); return true; }
            // a few more passes so that posted join tasks run too
            static int extra_pass = 0;
            if (extra_pass < 3) { ++extra_pass; usleep(200); return true; }
            extra_pass = 0; fin_deadline = 0;
            print_events();
            std::cout << "P fin\n";
            if (relife_pending) {
                // ---- second lifecycle on the SAME object: the records of the finished lifecycle were printed above (the
                // driver validates them as a history of their own); task numbers restart, thread numbers, sequence numbers
                // and the step log's stamps continue; the finished lifecycle's tokens stay addressable (`ostat` / `ocancel`)
                relife_pending = false; fin_done = false;
                g_prev_tok.clear();
                for (size_t k = 0; k < g_ntasks; ++k) g_prev_tok.push_back(g_tasks[k].token);
                g_ntasks = 0; g_nn = 0;
                g_tasks.reset(new TaskRec[kMaxTasks]);
                { std::lock_guard<std::mutex> lg(g_nev_mu); g_nev.clear(); }
                g_evn = 0; g_bulk_ran = 0; g_bulk_n = 0; g_cleanup_cs = 0; g_cq1 = 0;
                g_w_base = g_created.load();
                g_cleaned = false;
                uint64_t qb = seq();
                bool ok = false, threw = false;
                bool willfail = g_fail_create.load() != 0;   // the op parser admits a pending failspawn only if it hits this initialize()
                uint64_t ccs = 0, qa = 0;
                if (willfail) {
                    // initialize() creates k-1 workers, fails at the k-th, and calls cleanup() itself: stamp cleanup()'s own
                    // critical section (the SECOND acquisition of the pool mutex inside the call) and the return
                    g_deadline_ms = now_ms() + g_watchdog_ms;
                    g_in_cleanup = 1;
                    {
                        ApiScope as;
                        tl_cs_skip = 1;
                        try { ok = g_tp->initialize((ssize_t)relife_mn, (ssize_t)relife_mx); } catch (const std::exception &) { threw = true; }
                        ccs = tl_cs; tl_cs_skip = 0;
                    }
                    g_in_cleanup = 0; g_deadline_ms = 0; g_cq1 = 0;
                    qa = seq();
                } else {
                    try { ok = g_tp->initialize((ssize_t)relife_mn, (ssize_t)relife_mx); } catch (const std::exception &) { threw = true; }
                }
                g_inited = ok;
                if (!ok) { g_cleaned = true; int64_t dl = now_ms() + 300; while (g_created.load() != g_ended.load() && now_ms() < dl) usleep(200); }
                if (threw) std::cout << "P init threw " << (g_created.load() - g_ended.load()) << "\n";
                else if (willfail) std::cout << "P initf " << (ok ? 1 : 0) << " " << (g_created.load() - g_ended.load()) << " " << qb << " " << ccs << " " << qa << "\n";
                else std::cout << "P init " << (ok ? 1 : 0) << " " << (g_created.load() - g_ended.load()) << " " << qb << "\n";
            }
            return true;
        }
        std::string line;
        if (!std::getline(std::cin, line)) { reset_case(); at_eof = true; return false; }
        auto w = vh::words(line);
        if (w.empty()) return true;
        if (w[0] == "case") { reset_case(); fin_done = false; std::cout << line << "\n"; return true; }
        uint64_t a = 0, b = 0, c = 0, d = 0; int64_t pr = 0;
        const std::string &op = w[0];
        int64_t smn = 0, smx = 0;
        if (op == "cfg" && w.size() == 6 && (w[1] == "pool" || w[1] == "wt" || w[1] == "wt0") && vh::to_i64(w[2], smn) && vh::to_i64(w[3], smx)
            && vh::to_u64(w[4], c) && vh::to_u64(w[5], d) && !(smn > 64 && smn <= smx) && d <= 1000 && !g_tp && !g_wt && !g_destroyed) {
            g_pseed = (uint32_t)c * 2654435761u + 12345u;
            g_perturb = (int)d;
            g_track = 1;
            g_evon = 1;
            bool ok = false, threw = false;
            if (w[1] == "pool") {
                g_tp = new ThreadPool(g_loop);
                try { ok = g_tp->initialize((ssize_t)smn, (ssize_t)smx); } catch (const std::exception &) { threw = true; }
            }
            else { g_wt = new WorkThread(w[1] == "wt" ? g_loop : nullptr); g_wt_noloop = (w[1] == "wt0"); ok = true; }
            g_inited = ok;
            g_cap_mutex = nullptr; g_capture = 1;
            if (g_tp) (void)g_tp->getTaskStatus(cabinet::Token());
            if (g_wt) (void)g_wt->getTaskStatus(cabinet::Token());
            g_capture = 0;
            // a refused initialize() must not leave worker threads behind
            if (!ok) { int64_t dl = now_ms() + 300; while (g_created.load() != g_ended.load() && now_ms() < dl) usleep(200); }
            if (threw) std::cout << "P init threw " << (g_created.load() - g_ended.load()) << "\n";
            else std::cout << "P init " << (ok ? 1 : 0) << " " << (g_created.load() - g_ended.load()) << "\n";
        } else if (op == "reinit" && w.size() == 3 && vh::to_i64(w[1], smn) && vh::to_i64(w[2], smx) && g_tp && !g_cleaned && g_inited) {
            // initialize() on a pool that is ready: refused, nothing changes
            bool ok = g_tp->initialize((ssize_t)smn, (ssize_t)smx);
            std::cout << "P init " << (ok ? 1 : 0) << "\n";
        } else if (op == "bulk" && w.size() == 3 && vh::to_u64(w[1], a) && a >= 1 && a <= 200000 && vh::to_i64(w[2], pr) && pr >= INT32_MIN && pr <= INT32_MAX
                   && (g_tp || g_wt) && !fin_done && g_bulk_n == 0) {
            g_evon = 0;                                  // the step log would overflow: history-level checks only
            g_perturb = 0;                               // no injected delays at this scale (10^5 x 1.5 ms would dwarf any watchdog)
            uint64_t qb = seq(), acc = 0;
            for (uint64_t i = 0; i < a; ++i) {
                cabinet::Token tok = g_tp ? g_tp->execute([] { g_bulk_ran.fetch_add(1, std::memory_order_relaxed); }, (int)pr)
                                          : g_wt->execute([] { g_bulk_ran.fetch_add(1, std::memory_order_relaxed); });
                if (!tok.isNull()) ++acc;
            }
            g_bulk_n = acc;
            uint64_t qa = seq();
            std::cout << "P bulk " << acc << " " << qb << " " << qa << "\n";
        } else if (op == "failspawn" && w.size() == 2 && vh::to_u64(w[1], a) && a >= 1 && a <= 8 && !g_wt && !g_destroyed) {
            // fault schedule: the a-th pthread_create from now on answers EAGAIN
            g_fail_create = (int)a;
            std::cout << "P failspawn\n";
        } else if ((op == "exec" || op == "execs") && (w.size() == 4 || (op == "execs" && w.size() == 6)) && w.size() == (op == "exec" ? 4u : 6u)
                   && vh::to_i64(w[1], pr) && pr >= INT32_MIN && pr <= INT32_MAX && (w[2] == "0" || w[2] == "1")
                   && vh::to_u64(w[3], c) && c <= 20000 && (g_tp || g_wt) && g_ntasks < kNestBase && !fin_done
                   && (op == "exec" || (parse_script(w[4], g_tasks[g_ntasks].bscript, g_ntasks) && parse_script(w[5], g_tasks[g_ntasks].cscript, g_ntasks, !g_wt_noloop)
                                        && (w[2] == "1" || g_tasks[g_ntasks].cscript.empty())))) {
            size_t k = g_ntasks;
            TaskRec &t = g_tasks[k];
            t.prio = (int)pr; t.cb = (w[2] == "1"); t.dur_us = (unsigned)c;
            if (op == "exec") { t.bscript.clear(); t.cscript.clear(); }
            // worker-level observation for the spawn rule: is the pool quiescent (every live worker blocked in
            // the wait), what does snapshot() say just before, how many threads does execute() create
            bool quiet = quiescent();
            size_t thr0 = 0, idle0 = 0, undo0 = 0;
            if (g_tp) { auto ss = g_tp->snapshot(); thr0 = ss.thread_num; idle0 = ss.idle_thread_num;
                        for (size_t i = 0; i < THREAD_POOL_PRIO_SIZE; ++i) undo0 += ss.undo_task_num[i]; }
            int created0 = tl_made, failed0 = tl_failed;
            uint64_t qb = seq();
            cabinet::Token tok; bool threw = false;
            try { tok = do_execute(k, t.cb, (int)pr); } catch (const std::exception &) { threw = true; tl_api = 0; }
            uint64_t cs = tl_cs;
            uint64_t qa = seq();
            int spawned = tl_made - created0, failed = tl_failed - failed0;
            // `holdpick` armed: let the worker reach the pause behind its pop before the next op is read (no output depends on it)
            if (g_hold_us.load() != 0) { int64_t dl = now_ms() + 100; while (g_hold_us.load() != 0 && now_ms() < dl) usleep(50); }
            if (threw) { t.bscript.clear(); t.cscript.clear(); std::cout << "P exec threw " << qb << " " << qa << " " << cs << "\n"; }
            else if (tok.isNull()) { t.bscript.clear(); t.cscript.clear(); std::cout << "P exec null " << qb << " " << qa << " " << cs << "\n"; }
            else { t.token = tok; ++g_ntasks; std::cout << "P exec " << k << " " << qb << " " << qa << " " << cs << "\n"; }
            std::cout << "M spawn " << spawned << " " << (quiet ? 1 : 0) << " " << thr0 << " " << idle0 << " " << undo0 << " " << failed << "\n";
        } else if (op == "stat" && w.size() == 2 && vh::to_u64(w[1], a) && a < g_ntasks && (g_tp || g_wt)) {
            uint64_t qb = seq();
            int st; uint64_t cs;
            { ApiScope as; st = g_tp ? (int)g_tp->getTaskStatus(g_tasks[a].token) : (int)g_wt->getTaskStatus(g_tasks[a].token); cs = tl_cs; }
            uint64_t qa = seq();
            std::cout << "P stat " << a << " " << "wen"[st] << " " << qb << " " << qa << " " << cs << "\n";
        } else if (op == "cancel" && w.size() == 2 && vh::to_u64(w[1], a) && a < g_ntasks && (g_tp || g_wt)) {
            uint64_t qb = seq();
            int r; uint64_t cs;
            { ApiScope as; r = g_tp ? g_tp->cancel(g_tasks[a].token) : g_wt->cancel(g_tasks[a].token); cs = tl_cs; }
            uint64_t qa = seq();
            if (r == 0) g_tasks[a].cancelled = true;
            std::cout << "P cancel " << a << " " << r << " " << qb << " " << qa << " " << cs << "\n";
        } else if (op == "snap" && w.size() == 1 && g_tp) {
            uint64_t qb = seq();
            ThreadPool::Snapshot ss; uint64_t cs;
            { ApiScope as; ss = g_tp->snapshot(); cs = tl_cs; }
            uint64_t qa = seq();
            std::cout << "P snap " << ss.thread_num << " " << ss.idle_thread_num << " " << ss.doing_task_num;
            for (size_t i = 0; i < THREAD_POOL_PRIO_SIZE; ++i) std::cout << " " << ss.undo_task_num[i];
            std::cout << " " << qb << " " << qa << " " << cs << " " << ss.undo_task_peak_num << "\n";
        } else if (op == "hammer" && w.size() == 2 && vh::to_u64(w[1], a) && a <= 200000 && (g_tp || g_wt)) {
            // for `a` microseconds query every task over and over; print an answer only when it changed
            std::vector<int> last(g_ntasks, -1);
            auto t_end = std::chrono::steady_clock::now() + std::chrono::microseconds(a);
            do {
                for (size_t k = 0; k < g_ntasks; ++k) {
                    uint64_t qb = seq();
                    int st; uint64_t cs;
                    { ApiScope as; st = g_tp ? (int)g_tp->getTaskStatus(g_tasks[k].token) : (int)g_wt->getTaskStatus(g_tasks[k].token); cs = tl_cs; }
                    uint64_t qa = seq();
                    if (st != last[k]) { last[k] = st; std::cout << "P stat " << k << " " << "wen"[st] << " " << qb << " " << qa << " " << cs << "\n"; }
                }
            } while (std::chrono::steady_clock::now() < t_end);
            std::cout << "P hammer\n";
        } else if (op == "offloop" && w.size() == 3 && vh::to_u64(w[1], a) && a >= 1 && a <= 64 && vh::to_u64(w[2], b) && b <= 20000
                   && (g_tp || g_wt) && g_ntasks + a < kNestBase && !fin_done) {
            // leave runLoop(); the main thread then submits `a` tasks WITH completion callbacks while the loop is not
            // running, waits for their bodies, and runs the loop again (see main)
            off_n = (int)a; off_dur = (unsigned)b;
            return false;
        } else if (op == "sleep" && w.size() == 2 && vh::to_u64(w[1], a) && a <= 200000) {
            usleep(a);
            std::cout << "P sleep\n";
        } else if (op == "drain" && w.size() == 1 && (g_tp || g_wt)) {
            // wait until every accepted, not cancelled task has finished its body (only meaningful before cleanup)
            int64_t dl = now_ms() + g_watchdog_ms + (int64_t)(g_bulk_n / 5);
            bool ok = false;
            while (!g_cleaned) {
                ok = all_done(false);
                if (ok || now_ms() > dl) break;
                usleep(200);
            }
            std::cout << "P drain " << ((ok || g_cleaned) ? "ok" : "timeout") << "\n";
        } else if (op == "settle" && w.size() == 1 && (g_tp || g_wt)) {
            // wait until the pool is quiescent: no unfinished task, every live worker blocked in the wait, then
            // let the loop run the posted joins (next passes) — report what snapshot() says
            int64_t dl = now_ms() + g_watchdog_ms + (int64_t)(g_bulk_n / 5);
            bool ok = false;
            while (!(ok = quiescent()) && now_ms() < dl) usleep(200);
            std::cout << "P settle " << (ok ? "ok" : "timeout") << "\n";
            if (g_tp && ok) {
                auto ss = g_tp->snapshot(); size_t u = 0;
                for (size_t i = 0; i < THREAD_POOL_PRIO_SIZE; ++i) u += ss.undo_task_num[i];
                std::cout << "M quiet " << ss.thread_num << " " << ss.idle_thread_num << " " << ss.doing_task_num << " " << u
                          << " " << (g_created.load() - g_ended.load()) << "\n";
            } else std::cout << "M quiet -\n";
        } else if (op == "cleanup" && w.size() == 1 && (g_tp || g_wt)) {
            uint64_t qb = seq();
            guarded_cleanup();
            uint64_t qa = seq();
            int live = g_created.load() - g_ended.load();     // worker threads whose thread function has not returned
            g_cleaned = true;
            std::cout << "P cleanup ok " << qb << " " << qa << " " << live << " " << g_cq1.load() << " " << g_cleanup_cs << "\n";
        } else if (op == "destroy" && w.size() == 1 && (g_tp || g_wt)) {
            uint64_t qb = seq();
            guarded_cleanup(true);
            uint64_t qa = seq();
            int live = g_created.load() - g_ended.load();
            g_cleaned = true;
            std::cout << "P destroy ok " << qb << " " << qa << " " << live << " " << g_cq1.load() << " " << g_cleanup_cs << "\n";
        } else if (op == "relife" && w.size() == 3 && vh::to_i64(w[1], smn) && vh::to_i64(w[2], smx) && !(smn > 64 && smn <= smx)
                   && g_tp && g_cleaned && !g_destroyed && !fin_done && g_bulk_n == 0
                   && (g_fail_create.load() == 0 || (!(smx < 0 || smn < 0 || smn > smx || smx == 0) && (int64_t)g_fail_create.load() <= smn))) {
            // initialize() again after cleanup() has returned: flush this lifecycle's records first (like `fin`)
            relife_pending = true; relife_mn = smn; relife_mx = smx;
            fin_done = true;
            wait_scripts_done();
            fin_deadline = now_ms() + 2000;
        } else if ((op == "ostat" || op == "ocancel") && w.size() == 2 && vh::to_u64(w[1], a) && a < g_prev_tok.size() && g_tp && !g_destroyed) {
            // a token of the PREVIOUS lifecycle of this object: stale
            uint64_t qb = seq(); int r; uint64_t cs;
            { ApiScope as; r = (op == "ostat") ? (int)g_tp->getTaskStatus(g_prev_tok[a]) : g_tp->cancel(g_prev_tok[a]); cs = tl_cs; }
            uint64_t qa = seq();
            if (op == "ostat") std::cout << "P ostat " << a << " " << "wen"[r] << " " << qb << " " << qa << " " << cs << "\n";
            else std::cout << "P ocancel " << a << " " << r << " " << qb << " " << qa << " " << cs << "\n";
        } else if (op == "holdpick" && w.size() == 2 && vh::to_u64(w[1], a) && a >= 1 && a <= 20000 && (g_tp || g_wt)) {
            g_hold_us = (unsigned)a;
            std::cout << "P holdpick\n";
        } else if (op == "forge" && w.size() == 3 && vh::to_u64(w[2], a) && (g_tp || (g_wt && !g_cleaned)) && g_bulk_n == 0
                   && (w[1] == "pos" || w[1] == "posbig" || w[1] == "idbig" || w[1] == "idmax" || w[1] == "null" || w[1] == "wt" || w[1] == "pool")
                   && ((w[1] == "wt" || w[1] == "pool") ? a == 0 : a < g_ntasks)) {
            // well-formed tokens this object never issued.  Derived from the token of task a: the same id at another position,
            // an id far beyond every id issued at the same position, a null id at a live position; or taken from ANOTHER
            // pool / WorkThread that has issued more tokens than this object (so the id is unknown here while the position
            // is one this object uses too).  Every one must answer not-found / 1 and change nothing.
            cabinet::Token tok;
            if (w[1] == "wt" || w[1] == "pool") {
                tl_foreign = 1;
                uint64_t n = g_exec_calls.load() + 8;
                std::atomic<uint64_t> ran{0};
                if (w[1] == "wt") {
                    WorkThread other(g_loop);
                    for (uint64_t i = 0; i < n; ++i) tok = other.execute([&ran] { ran.fetch_add(1); });
                } else {
                    ThreadPool other(g_loop);
                    other.initialize(1, 2);
                    for (uint64_t i = 0; i < n; ++i) tok = other.execute([&ran] { ran.fetch_add(1); }, 0);
                    other.cleanup();
                }
                tl_foreign = 0;
            } else {
                const cabinet::Token &t0 = g_tasks[a].token;
                if (w[1] == "pos") tok = cabinet::Token(t0.id(), t0.pos() + 1);
                else if (w[1] == "posbig") tok = cabinet::Token(t0.id(), t0.pos() + ((size_t)1 << 32));
                else if (w[1] == "idbig") tok = cabinet::Token(t0.id() + 1000000, t0.pos());
                else if (w[1] == "idmax") tok = cabinet::Token(~(size_t)0, t0.pos());
                else tok = cabinet::Token(0, t0.pos());
            }
            uint64_t qb = seq(); int st = 2, r = 1; uint64_t cs1 = 0, cs2 = 0; bool threw = false;
            try {
                { ApiScope as; st = g_tp ? (int)g_tp->getTaskStatus(tok) : (int)g_wt->getTaskStatus(tok); cs1 = tl_cs; }
                { ApiScope as; r = g_tp ? g_tp->cancel(tok) : g_wt->cancel(tok); cs2 = tl_cs; }
            } catch (const std::exception &) { threw = true; tl_api = 0; }
            uint64_t qa = seq();
            if (threw) std::cout << "P forge threw " << qb << " " << qa << "\n";
            else std::cout << "P forge " << "wen"[st] << " " << r << " " << qb << " " << qa << " " << cs1 << " " << cs2 << "\n";
        } else if (op == "fin" && w.size() == 1 && !fin_done) {
            fin_done = true;
            wait_scripts_done();                   // bodies that call the API finish first (their records are printed below)
            fin_deadline = now_ms() + 2000;
        } else {
            if (g_ntasks < kMaxTasks) { g_tasks[g_ntasks].bscript.clear(); g_tasks[g_ntasks].cscript.clear(); }
            std::cout << "bad-op\n";
        }
        return true;
    };
    for (;;) {
        drv.run();                                 // returns at EOF or when an `offloop` op stopped the loop
        if (at_eof) break;
        // ---- the loop is NOT running: workers post their completion callbacks to a stopped loop
        size_t first = g_ntasks;
        for (int i = 0; i < off_n; ++i) {
            size_t k = g_ntasks;
            TaskRec &t = g_tasks[k];
            t.prio = 0; t.cb = true; t.dur_us = off_dur;
            bool quiet = quiescent();
            size_t thr0 = 0, idle0 = 0, undo0 = 0;
            if (g_tp) { auto ss = g_tp->snapshot(); thr0 = ss.thread_num; idle0 = ss.idle_thread_num;
                        for (size_t j = 0; j < THREAD_POOL_PRIO_SIZE; ++j) undo0 += ss.undo_task_num[j]; }
            int created0 = tl_made;
            uint64_t qb = seq();
            cabinet::Token tok = do_execute(k, true, 0);
            uint64_t cs = tl_cs;
            uint64_t qa = seq();
            int spawned = tl_made - created0;
            if (tok.isNull()) std::cout << "P exec null " << qb << " " << qa << " " << cs << "\n";
            else { t.token = tok; ++g_ntasks; std::cout << "P exec " << k << " " << qb << " " << qa << " " << cs << "\n"; }
            std::cout << "M spawn " << spawned << " " << (quiet ? 1 : 0) << " " << thr0 << " " << idle0 << " " << undo0 << " 0\n";
        }
        int64_t dl = now_ms() + g_watchdog_ms;
        bool ok = false;
        while (!g_cleaned) {
            ok = true;
            for (size_t k = first; k < g_ntasks && ok; ++k) if (g_tasks[k].e.load() == 0) ok = false;
            if (ok || now_ms() > dl) break;
            usleep(100);
        }
        usleep(3000);                              // the workers post the callbacks right after the bodies
        std::cout << "P offloop " << ((ok || g_cleaned) ? "ok" : "timeout") << "\n";
        off_n = 0;
    }
    delete g_loop;
    return 0;
}
