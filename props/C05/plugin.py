"""C05 — thread pool / work thread: tasks run once on workers; consistent answers; cleanup terminates."""
import types
import vlib

ID = 'C05'
LEAN_MODULES = ['TboxModel.C05.Props', 'TboxModel.C05.ReplayProofs', 'TboxModel.C05.PropsLife', 'TboxModel.C05.CabProofs', 'TboxModel.C05.CabRefine',
                'TboxModel.C05.InitFail']
EXE = 'c05'
MODE = 'trace'
THEOREMS = ['Tbox.C05.C05_waiting_at_cleanup_never_runs', 'Tbox.C05.C05_cancel_running_noop', 'Tbox.C05.C05_execute_after_cleanup',
            'Tbox.C05.C05_workthread_instance', 'Tbox.C05.C05_execute_appends', 'Tbox.C05.C05_accounted', 'Tbox.C05.C05_final_accounting', 'Tbox.C05.C05_cleanup_joins_all',
            'Tbox.C05.C05_no_lost_wakeup', 'Tbox.C05.C05_no_stranded_task', 'Tbox.C05.C05_cleanup_joins_all_counterexample',
            'Tbox.C05.C05_no_stranded_task_counterexample',
            'Tbox.C05.C05_exactly_once', 'Tbox.C05.C05_worker_only', 'Tbox.C05.C05_callback_once',
            'Tbox.C05.C05_cancel_sound', 'Tbox.C05.C05_status_consistent', 'Tbox.C05.C05_priority_fifo',
            'Tbox.C05.C05_max_workers', 'Tbox.C05.C05_no_deadlock', 'Tbox.C05.C05_cleanup_progress',
            'Tbox.C05.C05_no_null_join',
            'Tbox.C05.C05_status_consistent_counterexample', 'Tbox.C05.C05_cancel_counterexample',
            'Tbox.C05.C05_no_deadlock_counterexample', 'Tbox.C05.C05_no_null_join_counterexample',
            'Tbox.C05.C05_prio_width', 'Tbox.C05.C05_prio_add_before_clamp_counterexample', 'Tbox.C05.C05_initialize_width',
            'Tbox.C05.C05_spawn_failure_reported', 'Tbox.C05.C05_spawn_failure_counterexample',
            'Tbox.C05.Replay.C05_replay_sound', 'Tbox.C05.Replay.C05_replay_steps_sound',
            # round 6: lifecycles, stale / forged tokens, the cabinet lock-step
            'Tbox.C05.C05_cleanup_resets', 'Tbox.C05.C05_stale_idle_counterexample', 'Tbox.C05.C05_lifecycles_safe',
            'Tbox.C05.C05_lifecycles_cleanup', 'Tbox.C05.C05_doing_only_held', 'Tbox.C05.C05_unissued_token', 'Tbox.C05.C05_stale_token_dead',
            'Tbox.C05.Cab.C05_cabinet_lockstep', 'Tbox.C05.Cab.C05_status_cabinet_eq_deques', 'Tbox.C05.Cab.C05_cancel_answers',
            'Tbox.C05.Cab.C05_pop_resolves', 'Tbox.C05.Cab.C05_forged_token', 'Tbox.C05.Cab.C05_cleanup_empties',
            'Tbox.C05.Cab.C05_withdraw_restores', 'Tbox.C05.Cab.C05_cabinet_desync_counterexample',
            # round 7: the token layer REFINES the abstract queue (simulation, not only a per-step comparison)
            'Tbox.C05.Cab.C05_cab_refines_model', 'Tbox.C05.Cab.C05_cab_run_refines', 'Tbox.C05.Cab.C05_cab_priority_fifo',
            'Tbox.C05.Cab.C05_model_steps_are_abstract', 'Tbox.C05.Cab.C05_model_pop_is_abstract', 'Tbox.C05.Cab.C05_model_execute_is_abstract',
            'Tbox.C05.Cab.C05_answers_ren', 'Tbox.C05.Cab.C05_cab_answers_are_models', 'Tbox.C05.Cab.C05_replay_lockstep_kept',
            'Tbox.C05.Cab.C05_abs_unique', 'Tbox.C05.Cab.C05_abs_run_sorted',
            # round 7: a failing thread creation inside a second initialize() (reinitF) reduces to an accepted initialize(k, max k 1) + cleanup()
            'Tbox.C05.C05_failed_initialize_reduces', 'Tbox.C05.C05_failed_initialize_joins_all']
SOURCES = ['modules/eventx/thread_pool.cpp', 'modules/eventx/work_thread.cpp'] + vlib.EVENT_SOURCES + vlib.BASE_SOURCES
import os
FLAVOUR = os.environ.get('C05_FLAVOUR', 'tsan')     # tsan in both tiers (fast enough); override only for experiments
LIBS = ['-ldl']
BATCH = 40
BATCH_TIMEOUT = 300
CASE_TIMEOUT = 60
SHRINK_TESTS = 12
MAX_REPORT = 3
HARNESS_ENV = {'C05_WATCHDOG_MS': '3000'}

TRUSTED = ['model lean/TboxModel/C05/Model.lean is hand-written from thread_pool.cpp / work_thread.cpp (atomic regions = critical sections and the gaps '
           'between them); the theorems are about that model',
           'the tie to the real code has two layers on every case: (1) a HISTORY acceptor (lean/TboxModel/C05/Spec.lean: the property clauses on the recorded '
           'history; a failure is a property-level violation) and (2) a STEP-LEVEL REPLAY (lean/TboxModel/C05/Replay.lean): the harness stamps every critical '
           'section of the pool mutex, cond_wait entry/exit, notify_one/notify_all, runInLoop post, thread create/start/end/join with one global counter; '
           'the driver maps each event to model steps, checks each with `valid`, lets the MODEL decide what the section does (exit / wait / which task is '
           'popped / spawn or not / status, cancel, snapshot answers) and requires the next event of that thread to agree; the reconstructed step list is '
           're-run with `exec`; a failed reconstruction is a model-internal divergence, a wrong pick against the exactly known queue is property-level',
           'round 6: the replay runs across lifecycles (`execL`: an accepted initialize() after cleanup() is a `validL`-checked step; whole-`replay` soundness is the '
           'theorem C05_replay_steps_sound) and carries the token layer of Cab.lean (deques + cabinet + running set as the code has them) in lock-step with '
           'the abstract queue: after every replayed step sizes per level, cabinet size, running-set size and the cancel / status / pop answers of the two '
           'layers are compared (model-internal class; round 7: that they cannot differ is the simulation theorem C05_cab_refines_model / C05_cab_answers_are_models / C05_replay_lockstep_kept); the cabinet itself is trusted through the contract C08 proves (finite map, ids never reissued)',
           'std::mutex gives atomic critical sections; condition_variable::notify_all wakes every current waiter; spurious wake-ups allowed',
           'one atomic counter linearises the recorded events (stamps inside a critical section are ordered like the sections); the stamps of the step '
           'log are taken with memory_order_relaxed so that the log adds no happens-before edge ThreadSanitizer would honour; pthread_mutex_lock / '
           'pthread_cond_wait interposition only adds delays on worker threads; pthread_create answers EAGAIN where the op file says so',
           'ThreadSanitizer (FLAVOUR tsan) reports data races on the schedules actually run; data-race freedom is not a theorem']
ASSUMPTIONS = ['no API call overlaps cleanup() (the property quantifies over calls from the loop thread; execute/cancel/getTaskStatus may also come from task bodies '
               'and callbacks, cleanup() may not be called from a task body: a worker would join itself - std::system_error(EDEADLK) - outside the quantifier)',
               'task bodies terminate; fair scheduling of worker threads (needed for "cleanup terminates" on top of deadlock freedom)',
               'cabinet ids do not wrap (2^64 tasks); the cabinet itself is used through its contract (finite map, ids never reissued: the C08 theorems)',
               'a second initialize() whose thread creation fails is replayed through the stand-in initialize(k, max k 1) + cleanup() '
               '(exact by C05_failed_initialize_reduces as long as no task is submitted in between: none can be, the loop thread is inside the call and no task exists)',
               'a WorkThread constructed without a loop delivers a completion callback only when execute() is given a loop (no loop, no loop thread: '
               'the callback is dropped by the code and by the model alike)']
RULE_OLD = ('cases = (pool min/max in {0..4}x{1..6} incl. invalid, or WorkThread) x 1-200 tasks (priorities -3..3, bodies 0-3 ms, callbacks) interleaved '
        'with status/cancel/snapshot/hammer ops, cleanup at a random point, PRNG-seeded worker delays (before mutex lock, between predicate and '
        'wait); non-trivial = at least one task ran AND (an answer waiting/executing/cancelled was observed OR >= 2 workers ran bodies OR the '
        'pick-order clause was asserted on >= 1 pair); distinct = distinct op text')


RULE = ('cases = (pool min/max in {0..4}x{1..6} incl. invalid, or WorkThread) x 1-200 tasks (priorities -3..3, bodies 0-3 ms, callbacks) interleaved '
        'with status/cancel/snapshot/hammer/settle ops re-entrant API use (task bodies on workers and completion callbacks calling execute/cancel/getTaskStatus of the same pool), offloop phases (the loop is stopped, a burst of tasks with callbacks is submitted and finishes, the loop runs again), cleanup at a random point, PRNG-seeded delays (worker: before mutex lock, between predicate and '
        'wait, after unlock; loop thread inside cleanup: after unlock); worker-level records (threads created per execute, quiescent snapshots, thread '
        'start/end) checked against the model\'s spawn / voluntary-exit decisions as model-internal observables; non-trivial = at least one task ran AND '
        '(an answer waiting/executing/cancelled was observed OR >= 2 workers ran bodies OR the pick-order clause was asserted on >= 1 pair OR a spawn / '
        'exit decision was checked at a quiescent point OR the step-level replay confirmed a pick / an answer); round 5 families: priorities on both sides of the '
        'clamp and of 2^15/2^16/2^31 (INT_MIN..INT_MAX) behind gates, initialize() with negative / SSIZE_MIN / SSIZE_MAX arguments and the default (0, SSIZE_MAX), '
        'initialize() on a ready pool, cleanup() twice, every execute() overload (rvalue / const-reference, WorkThread with and without explicit loop, WorkThread '
        'without default loop), pthread_create failing with EAGAIN at a chosen creation inside initialize() or execute(), bulk submissions of 3*10^4..10^5 '
        'anonymous tasks (history-level checks only); round 6 families: several lifecycles of one object (cleanup, initialize again with another / an invalid '
        'configuration, up to three lifecycles; each finished lifecycle is validated as a history of its own, the step replay runs across them; tokens of the '
        'previous lifecycle queried and cancelled in the next), forged tokens derived from a live token (same id at another position, position + 2^32, id + 10^6, '
        'id 2^64-1, null id at a live position) and tokens of ANOTHER ThreadPool / WorkThread that issued more ids (must be not-found / 1, nothing may change), '
        'cancel / getTaskStatus of the task a worker has just popped and not yet started (holdpick), chains of tasks whose body and completion callback are ONE '
        'std::function object resubmitted from inside its own callback; round 7 family: pthread_create failing at a chosen creation inside an initialize() AFTER cleanup() (k-1 workers created, rolled back by the cleanup() the call runs itself, refused; refused calls in between; then an accepted initialize()); distinct = distinct op text')


BOUNDARY_PRIOS = [-2147483648, -2147483647, -2147483646, -65537, -65536, -32769, -32768, -101, -3, -2, -1, 0, 1, 2, 3, 101, 32767, 32768,
                  65535, 65536, 2147483645, 2147483646, 2147483647]
BAD_CFGS = [(-1, 3), (0, -1), (-1, -1), (-9223372036854775808, 5), (2, -9223372036854775808), (3, 2), (0, 0), (5, 1), (1, 0),
            (9223372036854775807, 1), (-9223372036854775808, 9223372036854775807)]


def gen_boundary(rng, tier):
    """width / sign families (tools/narrowing/C05.txt): priorities on both sides of the clamp and of 2^15/2^16/2^31 queued behind
    gates so that the exact pick order is replayed; initialize() with negative / extreme ssize_t arguments, the default
    configuration (0, SSIZE_MAX), initialize() on a ready pool, cleanup() twice"""
    r = rng.random()
    if r < 0.25:
        mn, mx = rng.choice(BAD_CFGS)
        ops = ['cfg pool %d %d %d 0' % (mn, mx, rng.randrange(1 << 30)), 'exec 0 0 0', 'snap', 'stat 0', 'cleanup', 'fin']
        return ops
    mn, mx = rng.choice([(1, 1), (1, 1), (2, 2), (0, 1), (0, 9223372036854775807), (1, 9223372036854775807)])
    ops = ['cfg pool %d %d %d %d' % (mn, mx, rng.randrange(1 << 30), rng.choice([0, 0, 300]))]
    if mx > 4:
        # the default configuration: the pool grows by one worker per waiting task
        for _ in range(rng.choice([2, 5, 9])): ops.append('exec %d %d %d' % (rng.choice(BOUNDARY_PRIOS), rng.randrange(2), rng.choice([0, 500, 3000])))
        ops += ['snap', rng.choice(['drain', 'settle']), 'snap']
    else:
        for _ in range(mx): ops.append('exec 0 0 %d' % rng.choice([8000, 15000, 20000]))
        n = rng.choice([3, 6, 10, 16])
        for _ in range(n): ops.append('exec %d %d 0' % (rng.choice(BOUNDARY_PRIOS), rng.randrange(2)))
        if rng.random() < 0.5: ops.append('snap')
        if rng.random() < 0.3: ops.append('cancel %d' % rng.randrange(mx, mx + n))
        if rng.random() < 0.3: ops.append('reinit %d %d' % rng.choice([(1, 1), (0, 3), (-1, 2), (9, 9)]))
        ops.append(rng.choice(['drain', 'drain', 'hammer 2000']))
    if rng.random() < 0.3: ops.append('reinit %d %d' % rng.choice([(1, 1), (0, 3), (-1, 2)]))
    ops.append('cleanup')
    if rng.random() < 0.5: ops += ['cleanup'] + (['exec 0 1 0'] if rng.random() < 0.5 else [])
    ops.append('fin')
    return ops


def gen_failspawn(rng, tier):
    """fault schedule for pthread_create (EAGAIN at a chosen creation): inside initialize() (roll back, refuse), inside execute()
    with workers present (the task waits for them) or with none (the task is refused with a null token)"""
    r = rng.random()
    if r < 0.3:
        mn = rng.randrange(1, 5); mx = mn + rng.randrange(0, 3)
        k = rng.randrange(1, mn + 1)
        return ['failspawn %d' % k, 'cfg pool %d %d %d %d' % (mn, mx, rng.randrange(1 << 30), rng.choice([0, 300])), 'exec 0 1 0', 'snap',
                rng.choice(['cleanup', 'destroy']), 'fin']
    mn = rng.choice([0, 0, 1, 2]); mx = mn + rng.randrange(1, 4)
    ops = ['cfg pool %d %d %d %d' % (mn, mx, rng.randrange(1 << 30), rng.choice([0, 0, 300]))]
    n = 0
    for _ in range(rng.choice([1, 2, 3])):
        for _ in range(rng.choice([0, 1, 2])):
            ops.append('exec %d %d %d' % (rng.choice([-1, 0, 0, 1]), rng.randrange(2), rng.choice([0, 300, 3000]))); n += 1
        ops.append('failspawn %d' % rng.choice([1, 1, 1, 2]))
        for _ in range(rng.choice([1, 2, 4])):
            ops.append('exec %d %d %d' % (rng.choice([-1, 0, 0, 1]), rng.randrange(2), rng.choice([0, 300, 3000]))); n += 1
        if rng.random() < 0.5: ops.append('snap')
        if rng.random() < 0.5: ops.append(rng.choice(['drain', 'settle']))
    ops += [rng.choice(['drain', 'settle', 'snap']), 'cleanup', 'fin']
    return ops


def gen_lifecycles(rng, tier):
    """several lifecycles of ONE pool object: cleanup(), initialize() again (another, the same or an invalid configuration),
    stale tokens of the previous lifecycle, spawn / exit decisions at quiescent points of the new lifecycle (a counter that
    survived cleanup() shows there)"""
    def cfgpair():
        r = rng.random()
        if r < 0.3: mx = rng.randrange(1, 5); return mx, mx
        if r < 0.6: return 0, rng.randrange(1, 5)
        mx = rng.randrange(1, 6); return rng.randrange(0, min(mx, 3) + 1), mx
    mn, mx = cfgpair()
    ops = ['cfg pool %d %d %d %d' % (mn, mx, rng.randrange(1 << 30), rng.choice([0, 0, 150, 300, 600]))]
    nlife = rng.choice([2, 2, 2, 3])
    prev_n = 0
    for life in range(nlife):
        n = 0
        shape = rng.random()
        if shape < 0.35:
            # everybody idle (or gone) when cleanup() comes
            for _ in range(rng.choice([0, 1, 2, 4, 6])):
                ops.append('exec %d %d %d' % (rng.choice([-1, 0, 0, 1]), rng.randrange(2), rng.choice([0, 0, 300, 1000]))); n += 1
            ops.append(rng.choice(['settle', 'drain', 'settle']))
            if rng.random() < 0.4: ops.append('snap')
            if rng.random() < 0.3: ops.append('sleep %d' % rng.choice([500, 3000, 6000]))
        elif shape < 0.7:
            # workers busy, a backlog waiting: dropped tasks, tokens that die at cleanup
            for _ in range(max(1, min(mx, 3))): ops.append('exec 0 %d %d' % (rng.randrange(2), rng.choice([3000, 8000, 12000]))); n += 1
            for _ in range(rng.choice([1, 2, 4, 7])):
                ops.append('exec %d %d 0' % (rng.choice([-2, -1, 0, 0, 1, 2]), rng.randrange(2))); n += 1
            if rng.random() < 0.5: ops.append('cancel %d' % rng.randrange(n))
            if rng.random() < 0.5: ops.append('stat %d' % rng.randrange(n))
            if rng.random() < 0.3: ops.append('snap')
        else:
            for _ in range(rng.choice([2, 4, 8])):
                ops.append('exec %d %d %d' % (rng.choice([-1, 0, 0, 1]), rng.randrange(2), rng.choice([0, 100, 500]))); n += 1
                if rng.random() < 0.3: ops.append(rng.choice(['stat %d' % rng.randrange(n), 'cancel %d' % rng.randrange(n), 'snap']))
            if rng.random() < 0.6: ops.append('settle')
        if life > 0 and prev_n and rng.random() < 0.5:
            ops.append(rng.choice(['ostat %d', 'ocancel %d']) % rng.randrange(prev_n))
        ops.append('cleanup')
        if rng.random() < 0.3 and n: ops.append(rng.choice(['stat %d', 'cancel %d']) % rng.randrange(n))
        if life == nlife - 1: break
        if rng.random() < 0.12:
            ops.append('relife %d %d' % rng.choice([(3, 2), (0, 0), (-1, 2), (1, 0), (-9223372036854775808, 5), (2, -9223372036854775808), (9223372036854775807, 1)]))      # refused: the object stays unusable
            ops += ['exec 0 0 0', 'snap'] + (['ostat 0'] if n else [])
            mn, mx = cfgpair()
            ops.append('relife %d %d' % (mn, mx))
            prev_n = 0
        elif rng.random() < 0.3:
            # round 7: the k-th thread creation inside THIS initialize() fails (EAGAIN): k-1 workers exist, initialize() must stop and
            # join them itself and refuse (model: reinitF; the replay takes initialize(k-1, max(k-1,1)) + cleanup()); the object stays
            # usable: refused calls in between, then an accepted initialize()
            fmn = rng.randrange(1, 5); fmx = fmn + rng.randrange(0, 3); k = rng.randrange(1, fmn + 1)
            ops += ['failspawn %d' % k, 'relife %d %d' % (fmn, fmx)]
            ops += rng.choice([[], ['exec 0 0 0'], ['exec 0 1 0', 'snap'], ['snap']]) + (['ostat %d' % rng.randrange(n)] if n and rng.random() < 0.5 else [])
            if rng.random() < 0.25: ops += ['failspawn 1', 'relife 1 %d' % rng.randrange(1, 4)]
            mn, mx = cfgpair()
            ops.append('relife %d %d' % (mn, mx))
            prev_n = 0
        else:
            mn, mx = cfgpair()
            ops.append('relife %d %d' % (mn, mx))
            prev_n = n
        # the very first thing the new lifecycle does is observed at worker level: quiescent snapshot, spawn decision
        if rng.random() < 0.7: ops.append('settle')
        if rng.random() < 0.5: ops.append('snap')
        if prev_n:
            for _ in range(rng.choice([1, 2, 3])):
                ops.append(rng.choice(['ostat %d', 'ocancel %d']) % rng.randrange(prev_n))
    ops.append('fin')
    return ops


def gen_tokens(rng, tier):
    """tokens this object never issued (lesson g: inputs derived from the cached state — here from live tokens), the window
    between a worker's pop and the start of the body, one function object as body AND callback resubmitted from its own callback"""
    r = rng.random()
    kind = 'pool' if rng.random() < 0.8 else 'wt'
    if r < 0.25:
        # holdpick: an idle pool, the next pick is held after its critical section; cancel / status of that very task
        mn = rng.choice([1, 1, 2]); mx = mn + rng.choice([0, 0, 1])
        ops = ['cfg %s %d %d %d 0' % (kind, mn, mx, rng.randrange(1 << 30)), 'settle']
        n = 0
        for _ in range(rng.choice([1, 2, 3])):
            ops.append('holdpick %d' % rng.choice([2000, 4000, 8000]))
            ops.append('exec %d %d %d' % (rng.choice([-1, 0, 1]), rng.randrange(2), rng.choice([0, 0, 500])))
            k = n; n += 1
            for _ in range(rng.choice([1, 2, 3])): ops.append(rng.choice(['cancel %d', 'stat %d', 'cancel %d']) % k)
            if rng.random() < 0.4: ops.append('forge %s %d' % (rng.choice(['pos', 'idbig', 'null']), k))
            ops.append(rng.choice(['settle', 'drain']))
        ops += ['cleanup', 'fin']
        return ops
    if r < 0.45:
        # the same std::function object as body and callback, resubmitted from inside its own completion callback
        mn = rng.choice([0, 1, 2]); mx = max(1, mn) + rng.choice([0, 1, 2])
        ops = ['cfg %s %d %d %d %d' % (kind, mn, mx, rng.randrange(1 << 30), rng.choice([0, 0, 300]))]
        n = 0
        for _ in range(rng.choice([1, 2, 4])):
            sc = ['R%d' % rng.randrange(1, 5)]
            if rng.random() < 0.4: sc.append(rng.choice(['S', 'C', 'x0:1:0']))
            if rng.random() < 0.3: sc.insert(0, 'x0:0:0')
            ops.append('execs %d 1 %d - %s' % (rng.choice([-1, 0, 0, 1]), rng.choice([0, 200, 1000]), ','.join(sc))); n += 1
            if rng.random() < 0.4: ops.append('exec 0 %d 0' % rng.randrange(2)); n += 1
            if rng.random() < 0.3: ops.append('stat %d' % rng.randrange(n))
        ops += [rng.choice(['drain', 'settle']), 'sleep 2000', rng.choice(['settle', 'drain'])]
        if kind == 'pool' and rng.random() < 0.5: ops.append('snap')
        ops += ['cleanup', 'fin']
        return ops
    # forged / foreign tokens against waiting, running and finished tasks
    mn = rng.choice([1, 1, 2, 0]); mx = max(1, mn) + rng.choice([0, 0, 1])
    ops = ['cfg %s %d %d %d %d' % (kind, mn, mx, rng.randrange(1 << 30), rng.choice([0, 0, 300]))]
    ng = 1 if kind != 'pool' else mx
    for _ in range(ng): ops.append('exec 0 %d %d' % (rng.randrange(2), rng.choice([8000, 12000, 20000])))
    nb = rng.choice([1, 2, 4, 6])
    for _ in range(nb): ops.append('exec %d %d 0' % (rng.choice([-1, 0, 0, 1]), rng.randrange(2)))
    tot = ng + nb
    for _ in range(rng.choice([2, 3, 5])):
        q = rng.random()
        if q < 0.7: ops.append('forge %s %d' % (rng.choice(['pos', 'posbig', 'idbig', 'idmax', 'null']), rng.randrange(tot)))
        else: ops.append('forge %s 0' % rng.choice(['wt', 'pool']))
        if rng.random() < 0.4: ops.append(rng.choice(['stat %d' % rng.randrange(tot), 'cancel %d' % rng.randrange(ng, tot)] + (['snap'] if kind == 'pool' else [])))
    ops.append(rng.choice(['drain', 'settle']))
    if kind == 'pool': ops.append('snap')
    ops.append('forge %s %d' % (rng.choice(['pos', 'idbig', 'null']), rng.randrange(tot)))
    ops.append('cleanup')
    if kind == 'pool' and rng.random() < 0.6: ops.append('forge %s %d' % (rng.choice(['pos', 'idbig', 'null']), rng.randrange(tot)))
    ops.append('fin')
    return ops


def gen_case(rng, tier):
    r0 = rng.random()
    if r0 < 0.10: return gen_boundary(rng, tier)
    if r0 < 0.16: return gen_failspawn(rng, tier)
    if r0 < 0.27: return gen_lifecycles(rng, tier)
    if r0 < 0.35: return gen_tokens(rng, tier)
    ops = []
    kind = 'wt' if rng.random() < 0.15 else 'pool'
    if kind == 'wt' and rng.random() < 0.3: kind = 'wt0'
    r = rng.random()
    if r < 0.06:
        mn, mx = rng.choice([(3, 2), (0, 0), (5, 1), (1, 0)])          # initialize() must refuse
    elif r < 0.3:
        mx = rng.randrange(1, 7); mn = mx                              # fixed size
    elif r < 0.6:
        mn = 0; mx = rng.randrange(1, 7)
    else:
        mx = rng.randrange(1, 7); mn = rng.randrange(0, min(mx, 4) + 1)
    pert = rng.choice([0, 150, 300, 300, 600, 900])
    ops.append('cfg %s %d %d %d %d' % (kind, mn, mx, rng.randrange(1 << 30), pert))
    shape = rng.random()
    nt = rng.choice([1, 2, 3, 5, 8, 8, 13, 20, 30]) if rng.random() < 0.93 else rng.choice([60, 120, 200])
    if tier == 'quick' and nt > 60: nt = 60
    durs = rng.choice([[0], [0, 100, 500], [0, 300, 1000, 3000], [1000, 2000, 3000]])
    n = [0]

    def ex():
        ops.append('exec %d %d %d' % (rng.choice([-3, -2, -1, 0, 0, 0, 1, 2, 3]) if rng.random() < 0.9 else rng.choice(BOUNDARY_PRIOS), rng.randrange(2), rng.choice(durs)))
        n[0] += 1

    def probe():
        if n[0] == 0: return
        q = rng.random()
        k = rng.randrange(n[0]) if rng.random() < 0.6 else n[0] - 1
        if q < 0.45: ops.append('stat %d' % k)
        elif q < 0.65: ops.append('cancel %d' % k)
        elif q < 0.8 and kind == 'pool': ops.append('snap')
        elif q < 0.92: ops.append('hammer %d' % rng.choice([200, 1000, 3000]))
        else: ops.append('sleep %d' % rng.choice([100, 1000, 3000]))

    if shape < 0.18:
        # (b) cleanup while workers are between predicate and wait: right after start / right after the work ran out
        for _ in range(rng.choice([0, 0, 1, 2, 4])): ex()
        if n[0] and rng.random() < 0.7: ops.append('drain')
        if rng.random() < 0.5: ops.append('sleep %d' % rng.choice([0, 300, 1000, 2500]))
    elif shape < 0.30:
        # (c)/(d) voluntarily exiting workers against cleanup: is every worker joined when cleanup() returns?
        for _ in range(rng.choice([1, 2, 3, 6])): ex()
        ops.append('drain')
        ops.append('sleep %d' % rng.choice([0, 100, 500, 1500, 4000, 6000, 8000, 10000]))
    elif shape < 0.33:
        # re-entrant API use: task bodies (on workers) and completion callbacks call execute / cancel / getTaskStatus
        def script(allow_ref):
            acts = []
            for _ in range(rng.choice([1, 1, 2, 3, 4])):
                q = rng.random()
                if q < 0.55: acts.append('x%d:%d:%d' % (rng.choice([-2, -1, 0, 0, 0, 1, 2]), rng.randrange(2), rng.choice([0, 0, 100, 500])))
                elif q < 0.7 and allow_ref and n[0]: acts.append('%s%d' % (rng.choice('sc'), rng.randrange(n[0])))
                else: acts.append(rng.choice('SC'))
            return ','.join(acts)
        if rng.random() < 0.5:
            ops.append('exec 0 0 %d' % rng.choice([1000, 3000, 5000])); n[0] += 1      # a gate: the queue builds up behind it
        for _ in range(rng.choice([2, 4, 8, 12])):
            if rng.random() < 0.6:
                cb = rng.randrange(2)
                ops.append('execs %d %d %d %s %s' % (rng.choice([-1, 0, 0, 0, 1]), cb, rng.choice([0, 200, 1000, 3000]),
                                                   script(True) if rng.random() < 0.8 else '-',
                                                   script(True) if cb and rng.random() < 0.6 else '-'))
                n[0] += 1
            else: ex()
            if rng.random() < 0.25: probe()
        ops.append(rng.choice(['drain', 'settle', 'drain']))
    elif shape < 0.38:
        # completion callbacks posted while the loop is NOT running (between two runLoop() calls): several workers
        # finish tiny tasks with callbacks about together and post to a stopped loop
        for _ in range(rng.choice([0, 0, 1, 3])): ex()
        for _ in range(rng.choice([1, 2, 3])):
            ops.append('offloop %d %d' % (rng.choice([2, 4, 8, 16, 32]), rng.choice([0, 0, 0, 50, 300])))
            if rng.random() < 0.5: probe()
        if rng.random() < 0.5: ops.append('settle')
    elif shape < 0.44:
        # (e) a task submitted while the last worker is on its way out must still be executed
        for _ in range(rng.choice([1, 1, 2, 3])): ex()
        for _ in range(rng.choice([1, 2, 3])):
            ops.append('drain')
            ops.append('sleep %d' % rng.choice([500, 1500, 3000, 4000, 5000, 6000, 8000]))
            for _ in range(rng.choice([1, 1, 2])): ex()
        ops.append(rng.choice(['drain', 'settle']))
    elif shape < 0.52:
        # spawn rule / voluntary-exit rule at quiescent points (worker-level records, M-class)
        ops.append('settle')
        for _ in range(rng.choice([2, 4, 8])):
            for _ in range(rng.choice([1, 1, 2, 4])): ex()
            if rng.random() < 0.3: probe()
            ops.append('settle')
            if rng.random() < 0.4 and kind == 'pool': ops.append('snap')
    elif shape < 0.62:
        # priority / FIFO: block the worker(s) with long bodies, then queue up mixed priorities
        for _ in range(rng.choice([1, 2, 3])): ops.append('exec 0 0 3000'); n[0] += 1
        for _ in range(nt): ex()
        if rng.random() < 0.5: ops.append('hammer 2000')
        for _ in range(rng.choice([0, 2, 5])): probe()
        if rng.random() < 0.8: ops.append('drain')
    else:
        for _ in range(nt):
            ex()
            while rng.random() < 0.35: probe()
        for _ in range(rng.choice([0, 1, 3, 8])): probe()
        if rng.random() < 0.5:
            ops.append('drain')
            for _ in range(rng.choice([0, 2])): probe()
    if (kind == 'pool' and shape >= 0.96) or (kind != 'pool' and rng.random() < 0.3):
        gmn, gmx = (mn, mx) if (mx > 0 and mn <= mx) else (1, 2)
        return gen_gate(rng, kind, gmn, min(gmx, 4), rng.choice(['cleanup', 'destroy']))
    if rng.random() < 0.1:
        ops.append('destroy'); ops.append('fin'); return ops
    if rng.random() < 0.93: ops.append('cleanup')
    for _ in range(rng.choice([0, 0, 1, 3])):
        q = rng.random()
        if q < 0.4 and n[0]: ops.append('stat %d' % rng.randrange(n[0]))
        elif q < 0.6 and n[0]: ops.append('cancel %d' % rng.randrange(n[0]))
        elif q < 0.8: ops.append('exec 0 1 0')
        elif kind == 'pool': ops.append('snap')
    if 'cleanup' not in ops[-5:] and 'cleanup' not in ops: ops.append('cleanup')
    ops.append('fin')
    return ops


def gen_gate(rng, kind, mn, mx, how):
    """worker(s) held busy by long gate task(s), a backlog queued behind them, then cleanup() / the destructor:
    every task still waiting at that moment must never run.  Also: status of the backlog (waiting) and of the gate
    (executing), cancel of a waiting task (0) and of the running gate (2), API calls after cleanup."""
    ops = ['cfg %s %d %d %d %d' % (kind, mn, mx, rng.randrange(1 << 30), rng.choice([0, 0, 150, 300]))]
    ng = 1 if kind != 'pool' else mx
    for _ in range(ng): ops.append('exec 0 %d %d' % (rng.randrange(2), rng.choice([12000, 15000, 20000])))
    nb = rng.choice([1, 2, 3, 5, 8])
    for _ in range(nb): ops.append('exec %d %d %d' % (rng.choice([-1, 0, 0, 1]), rng.randrange(2), rng.choice([0, 0, 300])))
    tot = ng + nb
    for _ in range(rng.choice([0, 1, 3])): ops.append('stat %d' % rng.randrange(tot))
    if rng.random() < 0.5: ops.append('cancel %d' % rng.randrange(ng, tot))      # a waiting task
    if rng.random() < 0.4: ops.append('cancel %d' % rng.randrange(ng))           # a running gate
    if rng.random() < 0.3: ops.append('hammer 500')
    ops.append(how)
    if how == 'cleanup':
        for _ in range(rng.choice([0, 2, 3])):
            ops.append(rng.choice(['stat %d' % rng.randrange(tot), 'cancel %d' % rng.randrange(tot), 'exec 0 1 0']))
    else:
        ops.append(rng.choice(['stat 0', 'exec 0 0 0', 'cleanup']))                # the object is gone: bad-op on both sides
    ops.append('fin')
    return ops


def gen(rng, tier):
    n = 220 if tier == 'quick' else 2500
    # malformed stream: both sides answer bad-op
    yield ['cfg pool 1 1 5 0', 'execs 0 0 0 s0 -', 'execs 0 0 0 - x0:0:0', 'execs 0 1 0 x0:0 -', 'execs 0 1 0 x0:0:0,,S -', 'execs 0 1 0 S,C,S,C,S,C,S -',
           'execs 0 1 0 x0:0:0 c0', 'exec 0 0 0', 'execs 0 1 0 s0,c0 S', 'drain', 'cleanup', 'fin', 'exec 0 0 0']
    yield ['offloop 4 0', 'cfg pool 2 2 5 0', 'offloop 0 0', 'offloop 65 0', 'offloop 2 x', 'offloop 2 0', 'cleanup', 'offloop 2 0', 'fin']
    yield ['exec 0 0 0', 'cfg pool 1 x 1 0', 'cfg pool 2 2 5 0', 'cfg pool 1 1 1 0', 'exec 0 2 0', 'exec 101 0 0', 'stat 0', 'exec 1 1 100',
           'stat 1', 'cancel x', 'snap 1', 'frob', 'hammer 999999', 'cleanup', 'fin', 'fin']
    # directed
    yield ['cfg wt 0 0 11 900', 'cleanup', 'fin']
    yield ['cfg pool 3 3 12 900', 'cleanup', 'fin']
    yield ['cfg pool 1 1 13 600', 'exec 0 1 2000', 'exec 2 0 0', 'exec -2 1 0', 'exec 0 0 0', 'exec -2 0 0', 'hammer 3000', 'cancel 3', 'drain',
           'stat 0', 'snap', 'cleanup', 'stat 1', 'exec 0 0 0', 'fin']
    yield ['cfg pool 0 3 14 600', 'exec 0 0 300', 'exec 0 0 300', 'exec 0 0 300', 'drain', 'sleep 1500', 'cleanup', 'fin']
    yield ['cfg pool 3 2 15 0', 'exec 0 0 0', 'snap', 'cleanup', 'fin']
    yield ['cfg pool 0 1 17 900', 'exec 0 0 100', 'drain', 'sleep 4000', 'exec 0 0 100', 'drain', 'sleep 6000', 'exec 0 1 100', 'settle', 'cleanup', 'fin']
    yield ['cfg pool 1 3 18 300', 'settle', 'exec 0 0 300', 'settle', 'exec 0 0 300', 'exec 0 0 300', 'exec 0 0 300', 'settle', 'snap',
           'exec 0 1 100', 'settle', 'cleanup', 'fin']
    yield ['cfg pool 0 3 19 900', 'exec 0 0 100', 'exec 0 0 100', 'exec 0 0 100', 'drain', 'sleep 8000', 'cleanup', 'fin']
    # gate + backlog + cleanup / destructor, WorkThread and pools (directed family)
    for kind, mn, mx in (('wt', 0, 0), ('pool', 1, 1), ('pool', 2, 2), ('pool', 0, 2), ('wt', 0, 0), ('pool', 1, 3)):
        for how in ('cleanup', 'destroy'):
            yield gen_gate(rng, kind, mn, mx, how)
    yield ['cfg wt 0 0 41 0', 'exec 0 1 15000', 'exec 0 1 0', 'exec 0 0 0', 'stat 1', 'stat 0', 'cancel 2', 'cancel 0', 'cleanup', 'stat 1', 'cancel 1',
           'exec 0 0 0', 'fin']
    yield ['cfg wt 0 0 42 0', 'exec 0 0 15000', 'exec 0 1 0', 'exec 0 1 0', 'destroy', 'stat 0', 'fin']
    yield ['cfg wt 0 0 43 600', 'exec 0 1 0', 'exec 0 1 0', 'exec 0 0 0', 'hammer 3000', 'destroy', 'fin']
    # deterministic: (1,1) pool, a 20 ms gate task whose body submits two same-priority tasks and one of higher priority
    # after its sleep; meanwhile the loop thread queues A, B behind the gate.  Order is fully determined:
    # gate, nested(-1), A, B, nested#1, nested#2.
    yield ['cfg pool 1 1 31 0', 'execs 0 0 20000 x0:0:0,x0:1:0,x-1:0:0 -', 'exec 0 0 0', 'exec 0 1 0', 'drain', 'settle', 'cleanup', 'fin']
    yield ['cfg wt 0 0 32 0', 'execs 0 0 20000 x0:0:0,x0:0:0,S -', 'exec 0 0 0', 'drain', 'cleanup', 'fin']
    yield ['cfg pool 1 1 33 0', 'exec 0 0 20000', 'execs 0 1 0 x0:0:0,C,x0:0:0,s0 x0:0:0,s0,c0', 'exec 0 0 0', 'exec 1 0 0', 'drain', 'settle',
           'stat 1', 'cleanup', 'fin']
    yield ['cfg pool 2 3 34 300', 'exec 0 0 3000', 'execs 0 1 500 x0:0:100,C,x1:1:0,s0 x0:0:0,S', 'execs -1 0 0 x0:0:0,x0:0:0,x0:0:0 -', 'exec 0 0 0',
           'hammer 2000', 'drain', 'cleanup', 'fin']
    yield ['cfg pool 4 4 21 0', 'offloop 16 0', 'offloop 32 0', 'settle', 'offloop 8 100', 'cleanup', 'fin']
    yield ['cfg pool 0 6 22 150', 'offloop 32 0', 'stat 3', 'offloop 16 50', 'drain', 'cleanup', 'fin']
    yield ['cfg pool 2 3 23 300', 'exec 0 1 500', 'offloop 8 0', 'hammer 1000', 'offloop 24 0', 'settle', 'cleanup', 'fin']
    yield ['cfg wt 0 0 24 0', 'offloop 8 0', 'offloop 8 100', 'cleanup', 'fin']
    yield ['cfg wt 0 0 16 300', 'exec 0 1 1000', 'exec 0 1 0', 'exec 0 0 0', 'hammer 2000', 'cancel 2', 'drain', 'cleanup', 'cancel 0', 'stat 1', 'exec 0 0 0', 'fin']
    # round 5 directed: widths, wt0 (WorkThread without a default loop: callbacks only with an explicit loop), re-initialize, double cleanup
    yield ['cfg pool 1 1 51 0', 'exec 0 0 15000', 'exec 2147483647 1 0', 'exec -2147483648 1 0', 'exec 3 0 0', 'exec 2 0 0', 'exec -3 1 0', 'exec -2 0 0',
           'exec 65536 0 0', 'exec -65536 0 0', 'snap', 'drain', 'reinit 1 1', 'cleanup', 'cleanup', 'exec 0 0 0', 'fin']
    yield ['cfg pool 0 9223372036854775807 52 0', 'exec 0 1 2000', 'exec 0 1 2000', 'exec 0 1 2000', 'exec 0 0 2000', 'snap', 'drain', 'settle', 'snap', 'cleanup', 'fin']
    yield ['cfg pool -1 3 53 0', 'exec 0 0 0', 'cleanup', 'fin']
    yield ['cfg pool 0 -9223372036854775808 54 0', 'snap', 'cleanup', 'fin']
    yield ['cfg wt0 0 0 55 0', 'exec 0 1 1000', 'exec 0 1 0', 'exec 0 1 0', 'exec 0 1 0', 'exec 0 1 0', 'exec 0 0 0', 'stat 1', 'cancel 4', 'drain', 'cleanup', 'fin']
    yield ['cfg wt0 0 0 56 300', 'exec 0 1 15000', 'exec 0 1 0', 'exec 0 1 0', 'exec 0 1 0', 'destroy', 'fin']
    yield ['cfg pool 65 70 57 0', 'cfg pool 1 1 57 0', 'cfg wt 0 0 1 0', 'reinit 1 1', 'reinit x 1', 'failspawn 0', 'failspawn 9', 'cleanup', 'reinit 1 1', 'fin']
    # 10^5 queued tasks: queue / cabinet / object pool at scale, snapshot counters, cleanup() drops the backlog (linear: a quadratic
    # cleanup runs into the watchdog), every accepted task executed exactly once when drained
    yield ['cfg pool 2 2 58 0', 'exec 0 0 20000', 'exec 0 0 20000', 'bulk 100000 1', 'snap', 'exec -1 1 0', 'stat 2', 'snap', 'cleanup', 'snap', 'fin']
    yield ['cfg pool 1 4 59 0', 'bulk 100000 -2147483648', 'snap', 'drain', 'snap', 'cleanup', 'fin']
    yield ['cfg wt 0 0 60 0', 'exec 0 1 20000', 'bulk 60000 0', 'exec 0 1 0', 'stat 1', 'destroy', 'fin']
    yield ['cfg pool 0 3 61 0', 'bulk 30000 2', 'bulk 5 0', 'settle', 'cleanup', 'bulk 10 0', 'fin']
    # round 6 directed: lifecycles, stale / forged / foreign tokens, the pick window, one function object as body and callback
    yield ['cfg pool 2 2 71 0', 'exec 0 1 300', 'exec 0 0 0', 'settle', 'cleanup', 'relife 0 2', 'settle', 'snap', 'exec 0 1 300', 'ostat 0', 'ocancel 1',
           'settle', 'snap', 'exec 0 0 0', 'exec 1 0 0', 'drain', 'cleanup', 'relife 1 1', 'ostat 0', 'exec 0 1 0', 'settle', 'cleanup', 'fin']
    yield ['cfg pool 1 1 72 0', 'exec 0 0 12000', 'exec 0 1 0', 'exec -1 0 0', 'cleanup', 'relife 3 3', 'snap', 'ostat 1', 'ocancel 2', 'ostat 0',
           'exec 0 1 0', 'exec 0 0 0', 'stat 0', 'drain', 'ocancel 1', 'cleanup', 'fin']
    yield ['cfg pool 0 3 73 300', 'exec 0 0 300', 'exec 0 0 300', 'exec 0 0 300', 'drain', 'sleep 3000', 'cleanup', 'relife 3 2', 'exec 0 0 0', 'snap',
           'relife 0 1', 'settle', 'exec 0 1 100', 'settle', 'exec 0 1 100', 'settle', 'cleanup', 'fin']
    yield ['cfg pool 1 2 74 0', 'exec 0 0 15000', 'exec 0 0 15000', 'exec 0 1 0', 'exec 1 0 0', 'forge pos 2', 'forge posbig 3', 'forge idbig 0',
           'forge idmax 2', 'forge null 3', 'forge wt 0', 'forge pool 0', 'snap', 'stat 2', 'stat 0', 'drain', 'forge pos 0', 'cleanup', 'forge idbig 1', 'fin']
    yield ['cfg wt 0 0 75 0', 'exec 0 1 15000', 'exec 0 1 0', 'exec 0 0 0', 'forge pool 0', 'forge wt 0', 'forge pos 1', 'forge null 2', 'forge idbig 0',
           'stat 1', 'cancel 2', 'drain', 'cleanup', 'forge pos 0', 'fin']
    yield ['cfg pool 1 1 76 0', 'settle', 'holdpick 6000', 'exec 0 1 0', 'cancel 0', 'stat 0', 'settle', 'holdpick 6000', 'exec 0 0 500', 'stat 1',
           'cancel 1', 'forge pos 1', 'drain', 'cleanup', 'fin']
    yield ['cfg pool 1 2 77 0', 'execs 0 1 0 - R4', 'exec 0 1 0', 'execs 0 1 200 - x0:0:0,R2,S', 'drain', 'sleep 3000', 'settle', 'snap', 'cleanup', 'fin']
    yield ['cfg wt 0 0 78 0', 'execs 0 1 0 - R3', 'exec 0 0 0', 'drain', 'sleep 2000', 'settle', 'cleanup', 'fin']
    yield ['cfg wt0 0 0 79 0', 'execs 0 1 0 - R3', 'relife 1 1', 'ostat 0', 'forge frob 0', 'forge pos 9', 'holdpick 0', 'cfg pool 1 1 1 0', 'cleanup', 'fin']
    yield ['cfg pool 1 1 80 0', 'relife 1 1', 'ostat 0', 'exec 0 0 0', 'cleanup', 'relife 1 x', 'relife 65 70', 'relife 1 1', 'ostat 0', 'ostat 1', 'forge wt 1',
           'cleanup', 'fin', 'relife 1 1']
    for _ in range(n):
        yield gen_case(rng, tier)


M_DIVERGENCES = []      # (ops, text): model-internal (policy) divergences seen by the driver in this run


def nontrivial(ops, model_lines):
    for l in model_lines:
        if l.startswith('mdiv '):
            M_DIVERGENCES.append((list(ops), l[5:]))
            break
    tags = ' '.join(l for l in model_lines if l.startswith('B ')).split()
    if 'ran' not in tags: return None
    return 1 if any(t in tags for t in ('stat-w', 'stat-e', 'cancel-0', 'cancel-2', 'multi-worker', 'order-checked', 'spawn-checked-0',
                                       'spawn-checked-1', 'exit-rule-checked', 'offloop', 'nested-exec', 'worker-query', 'worker-cancel', 'cleanup-cs', 'pick-replayed',
                                       'answer-replayed', 'spawn-failed', 'bulk', 'lifecycles-replayed', 'stale-token', 'forged-token', 'foreign-token')) else None


def fingerprint(ops, d):
    if not d: return 'schedule-dependent-not-reproduced'
    txt = d[1] or ''
    if 'output ends' in txt: return 'crash-or-sanitizer-report'
    for key, fp in (('threw an exception', 'spawn-failure-throws'), ('left worker threads running', 'spawn-failure-throws'), ('still waiting when cleanup', 'ran-after-cleanup-began'), ('not joined', 'cleanup-unjoined-worker'), ('had not finished', 'cleanup-unjoined-worker'),
                    ('drain:', 'task-never-executed'), ('settle:', 'task-never-executed'), ('DEADLOCK', 'cleanup-deadlock'), ('NOT FOUND', 'status-not-found-then-runs'), ('cancellable', 'waiting-after-start'),
                    ('tsan', 'tsan-data-race'), ('signal6', 'abort'), ('signal11', 'segv'), ('pick order', 'pick-order'),
                    ('more than once', 'twice'), ('exceed the maximum', 'max-workers'), ('timeout', 'cleanup-deadlock'),
                    ('cancel reported success', 'cancelled-ran'), ('stale token', 'stale-token-alias'), ('never issued', 'forged-token-resolves'),
                    ('after cleanup()', 'second-lifecycle'), ('callback', 'callback')):
        if key in txt: return fp
    import hashlib
    return hashlib.sha1(txt.encode()).hexdigest()[:12]


def check(tier, seed, replay=None):
    g = dict(globals())
    g.pop('check', None)
    g['HARNESS_ENV'] = {'C05_WATCHDOG_MS': '3000' if tier == 'quick' else '5000'}
    del M_DIVERGENCES[:]
    rc = vlib.standard_check(types.SimpleNamespace(**g), tier, seed, replay)
    if rc == 0 and M_DIVERGENCES:
        # model-internal observable (spawn rule / voluntary-exit rule / thread accounting): the correspondence is
        # broken although no property-level failing input was found
        ops, text = M_DIVERGENCES[0]
        body = vlib.case_text(0, ops) + '# correspondence broken on a model-internal observable (seed=%d)\n# %s\n# %d case(s) diverge\n' % (
            seed, text, len(M_DIVERGENCES))
        path = vlib.write_replay(ID, 'correspondence.ops', body)
        print('VIOLATION property=%s replay=%s no-failing-input-found' % (ID, path), flush=True)
        vlib.log('  -> model-internal divergence: ' + text[:300])
        return 1
    return rc


LEVEL_TEXT = ('Lean 4 theorems over an interleaving model of ThreadPool/WorkThread (shared state + per-worker program counters; steps = the code\'s '
              'critical sections and the gaps between them; condvar = waiter set): inductive invariants proved for EVERY step list give '
              'exactly-once, worker-only, callback-once-after-body, cancel soundness, status consistency, priority/FIFO pick, max workers, '
              'deadlock freedom + bounded progress after cleanup\'s notify; counterexample interleavings of the code as found are proved by '
              'decide. Tied to the real code on every run by a history acceptor AND a step-level replay (every recorded run is reconstructed as a '
              '`valid`-checked execution of the model from global sequence numbers at the interposed pthread calls) over runs of the real pool with a real '
              'loop under PRNG-seeded delays and pthread_create fault schedules (ThreadSanitizer build).')
LEVEL_NOTE = ('partial in two respects, said rather than worked around: (1) data-race freedom cannot be exhibited by the Lean model — it is searched with '
              'ThreadSanitizer on the schedules actually run, never claimed as proved; (2) "cleanup always terminates" is proved as deadlock freedom '
              '(no worker blocked after notify_all, every worker step strictly decreases a rank <= 5) under the stated fairness assumption. '
              'The step-level replay covers what the interposed pthread calls show: the order of runInLoop posts is exact, the moment the loop executes a join '
              'that cleanup() made unnecessary is not observable and is placed by the model.')
TECHNIQUE = 'Lean 4 invariant proofs over all interleavings of a step model + history acceptor on the real pool under schedule perturbation (TSan)'
DESIGN_REF = 'DESIGN.md §6 C05, §7 row 13'
