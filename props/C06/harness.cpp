// C06 harness: a real tbox::network::BufferedFd (or TcpConnection) on one end of a socket pair, on
// the real epoll loop.  write(2), readv(2) and epoll_wait(2) are interposed for the descriptor under
// test: the op file carries the kernel's answers (partial write of k bytes, EAGAIN, error, read
// chunk sizes, reads that end exactly at the buffer boundary) and says which readiness a loop
// pass reports, so the run is deterministic and the Lean model (lean/Driver/C06.lean) can be
// executed on the same file.  The other end of the pair is the peer: what arrives there is `wire`.
#include "vh.h"
#include "vtime.h"
#include <deque>
#include <functional>
#include <map>
#include <memory>
#include <dlfcn.h>
#include <errno.h>
#include <fcntl.h>
#include <signal.h>
#include <stdarg.h>
#include <poll.h>
#include <sys/ioctl.h>
#include <linux/sockios.h>
#include <netinet/in.h>
#include <arpa/inet.h>
#include <sys/epoll.h>
#include <sys/socket.h>
#include <sys/uio.h>
#include <sys/un.h>
#include <unistd.h>
#include <tbox/base/log_output.h>
#include <tbox/event/loop.h>
#include <tbox/event/fd_event.h>
#include <tbox/util/fd.h>
#include <tbox/util/buffer.h>
#include <tbox/network/byte_stream.h>
#include <tbox/network/socket_fd.h>
#include <tbox/network/sockaddr.h>
// the M line (model-internal observables) and the TcpConnection constructor need private members
#define private public
#define protected public
#include <tbox/network/buffered_fd.h>
#include <tbox/network/tcp_connection.h>
#undef private
#undef protected
#include <tbox/event/timer_event.h>
#include <tbox/network/tcp_acceptor.h>
#include <tbox/network/tcp_client.h>
#include <tbox/network/tcp_connector.h>
#include <tbox/network/tcp_server.h>

using namespace tbox;
using network::BufferedFd;
using network::TcpConnection;

// ---------------------------------------------------------------- the scripted kernel
struct WAns { char kind; size_t k; char site; int err; };   // 'a' accept k, 'e' EAGAIN, 'x' errno err; site 0 = either write site, 's' = send(), 'c' = write-ready callback
struct RAns { char kind; size_t k; };            // 'c' chunk k, 'f' fill+k, 'e' EAGAIN, 'i' EINTR, 'x' error
static int g_fd = -1, g_peer = -1;
static std::deque<WAns> g_wq;
static std::deque<RAns> g_rq;
static size_t g_wmax = 0, g_rmax = 0, g_pending = 0;
static bool g_drain = false;
static uint32_t g_mask = 0;
static bool g_filter = false;
static std::string g_wire_new;
static std::map<std::string, uint64_t> g_faults;
static bool g_in_send = false;       // a send() call of the object under test is on the stack: its write(2) is the one of the send site
                                     // (send() calls no user callback, so every other write(2) on the descriptor is the write-ready callback's)
static int g_nevents = 0;            // fd events delivered by the filtered epoll_wait (quiescence detection)
// the kernel queue as the peer application sees it: bytes that arrived at the peer socket and were not yet
// read by the peer application (`pread`), and how the transport ended (first terminal result of read(2))
static std::string g_stash;
static char g_tr_end = 'o', g_app_end = 'o';      // 'o' open, 'e' EOF, 'r' reset
static std::vector<std::string> g_sys;             // system calls on the descriptor under test besides write/readv (M line)
static bool g_closed = false;                      // close(2) was called on the descriptor under test
static bool g_shut = false, g_refused = false;     // shutdown(SHUT_WR) was called / write(2) was asked to accept bytes afterwards

typedef ssize_t (*write_t)(int, const void *, size_t);
typedef ssize_t (*read_t)(int, void *, size_t);
typedef ssize_t (*readv_t)(int, const struct iovec *, int);
typedef int (*epoll_wait_t)(int, struct epoll_event *, int, int);
static write_t real_write() { static write_t f = (write_t)dlsym(RTLD_NEXT, "write"); return f; }
static read_t real_read() { static read_t f = (read_t)dlsym(RTLD_NEXT, "read"); return f; }
static readv_t real_readv() { static readv_t f = (readv_t)dlsym(RTLD_NEXT, "readv"); return f; }
static epoll_wait_t real_epoll_wait() { static epoll_wait_t f = (epoll_wait_t)dlsym(RTLD_NEXT, "epoll_wait"); return f; }

static void drain_peer() {
    static char buf[1 << 16];
    if (g_peer < 0) return;
    for (;;) {
        ssize_t r = real_read()(g_peer, buf, sizeof(buf));
        if (r > 0) { g_wire_new.append(buf, r); g_stash.append(buf, r); continue; }
        // how the transport ended: an error (ECONNRESET is reported by one read only, so it sticks) or, so far, EOF
        if (r == 0) { if (g_tr_end == 'o') g_tr_end = 'e'; }
        else if (errno != EAGAIN && errno != EINTR) g_tr_end = 'r';
        break;
    }
}

extern "C" ssize_t write(int fd, const void *p, size_t n) {
    if (fd < 0 || fd != g_fd) return real_write()(fd, p, n);
    WAns a; a.kind = 'a'; a.k = (g_wmax == 0 || g_wmax > n) ? n : g_wmax; a.site = 0; a.err = 0;
    // the first queued answer that is for this call site (or for either); answers for the other site are passed by
    char site = g_in_send ? 's' : 'c';
    for (auto it = g_wq.begin(); it != g_wq.end(); ++it)
        if (it->site == 0 || it->site == site) { a = *it; g_wq.erase(it); break; }
    if (a.kind == 'e') { errno = EAGAIN; return -1; }
    if (a.kind == 'x') { errno = a.err; return -1; }
    size_t k = a.k < n ? a.k : n, done = 0;
    if (g_shut && k > 0) { g_refused = true; errno = EPIPE; return -1; }     // not an execution of the kernel: the case ends here
    while (done < k) {      // the kernel takes exactly k bytes: make room by letting the peer read
        ssize_t r = real_write()(fd, (const char *)p + done, k - done);
        if (r > 0) { done += r; continue; }
        if (r < 0 && (errno == EAGAIN || errno == EINTR)) { drain_peer(); continue; }
        fprintf(stderr, "harness: real write failed errno=%d\n", errno); abort();
    }
    return (ssize_t)k;
}

extern "C" ssize_t readv(int fd, const struct iovec *iov, int cnt) {
    if (fd < 0 || fd != g_fd) return real_readv()(fd, iov, cnt);
    RAns a; a.kind = 'n'; a.k = 0;
    if (!g_drain && !g_rq.empty()) { a = g_rq.front(); g_rq.pop_front(); }
    if (a.kind == 'e') { g_drain = false; errno = EAGAIN; return -1; }
    if (a.kind == 'i') { g_drain = false; errno = EINTR; return -1; }
    if (a.kind == 'x') { g_drain = false; errno = ECONNRESET; return -1; }
    size_t limit = (size_t)-1;
    if (a.kind == 'c') limit = a.k;
    else if (a.kind == 'f') { limit = (cnt > 0 ? iov[0].iov_len : 0) + a.k; if (limit == 0) limit = 1; g_drain = true; }
    else if (g_rmax) limit = g_rmax;
    struct iovec v[8]; int m = 0; size_t left = limit;
    for (int i = 0; i < cnt && i < 8 && left > 0; ++i) {
        size_t len = iov[i].iov_len < left ? iov[i].iov_len : left;
        if (len == 0) continue;
        v[m].iov_base = iov[i].iov_base; v[m].iov_len = len; ++m; left -= len;
    }
    ssize_t r = real_readv()(fd, v, m);
    if (r <= 0) g_drain = false; else g_pending -= (size_t)r;
    // how the bytes of this read were split between the writable space and the 1 KiB spill buffer (not compared: the
    // capacity is the buffer's business; read by the plugin's coverage count)
    if (r > 0 && cnt == 2 && iov[0].iov_len > 0 && (size_t)r >= iov[0].iov_len && (size_t)r - iov[0].iov_len <= 1024) {
        size_t sp = (size_t)r - iov[0].iov_len;
        if (sp <= 1 || sp >= 1023) std::cout << "B spill=" << sp << "\n";
    }
    return r;
}

extern "C" int epoll_wait(int epfd, struct epoll_event *ev, int max, int timeout) {
    if (!g_filter) return real_epoll_wait()(epfd, ev, max, timeout);
    int n = real_epoll_wait()(epfd, ev, max, 0);          // a pass never sleeps
    int m = 0;
    for (int i = 0; i < n; ++i) {
        uint32_t e = ev[i].events & g_mask;
        if (e) { ev[m] = ev[i]; ev[m].events = e; ++m; }
    }
    g_nevents += m;
    return m;
}

// system calls on the descriptor under test are recorded (M line `sys=`)
typedef int (*fcntl_t)(int, int, ...);
typedef int (*setsockopt_t)(int, int, int, const void *, socklen_t);
typedef int (*shutdown_t)(int, int);
typedef int (*close_t)(int);
typedef int (*listen_t)(int, int);
static int fcntl_common(const char *name, int fd, int cmd, long arg) {
    static fcntl_t real = nullptr, real64 = nullptr;
    if (!real) { real = (fcntl_t)dlsym(RTLD_NEXT, "fcntl"); real64 = (fcntl_t)dlsym(RTLD_NEXT, "fcntl64"); if (!real64) real64 = real; }
    if (fd >= 0 && fd == g_fd) {
        // only what the byte stream depends on is recorded: the blocking mode (other fcntl commands change nothing the property speaks about)
        if (cmd == F_SETFL) g_sys.push_back((arg & O_NONBLOCK) ? "nonblock" : "blocking");
    }
    return (name[5] == '6' ? real64 : real)(fd, cmd, arg);
}
extern "C" int fcntl(int fd, int cmd, ...) { va_list ap; va_start(ap, cmd); long a = va_arg(ap, long); va_end(ap); return fcntl_common("fcntl", fd, cmd, a); }
extern "C" int fcntl64(int fd, int cmd, ...) { va_list ap; va_start(ap, cmd); long a = va_arg(ap, long); va_end(ap); return fcntl_common("fcntl64", fd, cmd, a); }
static int g_tcp_fd = -1;          // the library-side connection of the AF_INET scenario (accepted / connected there)
static std::vector<std::string> g_tcp_sys;
extern "C" int setsockopt(int fd, int level, int name, const void *val, socklen_t len) {
    static setsockopt_t real = (setsockopt_t)dlsym(RTLD_NEXT, "setsockopt");
    // SO_LINGER decides what close(2) does with the send queue; other options do not touch the stream
    if (fd >= 0 && (fd == g_fd || fd == g_tcp_fd) && level == SOL_SOCKET && name == SO_LINGER && val && len >= sizeof(struct linger)) {
        const struct linger *l = (const struct linger *)val;
        (fd == g_fd ? g_sys : g_tcp_sys).push_back("linger:" + std::to_string(l->l_onoff != 0) + ":" + std::to_string(l->l_linger));
    }
    return real(fd, level, name, val, len);
}
extern "C" int shutdown(int fd, int how) {
    static shutdown_t real = (shutdown_t)dlsym(RTLD_NEXT, "shutdown");
    if (fd >= 0 && fd == g_fd) { g_sys.push_back("shutdown:" + std::to_string(how)); if (how == SHUT_WR || how == SHUT_RDWR) g_shut = true; }
    if (fd >= 0 && fd == g_tcp_fd) g_tcp_sys.push_back("shutdown:" + std::to_string(how));
    return real(fd, how);
}
extern "C" int close(int fd) {
    static close_t real = (close_t)dlsym(RTLD_NEXT, "close");
    if (fd >= 0 && fd == g_fd) { g_sys.push_back("close"); g_fd = -1; g_closed = true; }      // the number may be reused: interposition ends here
    if (fd >= 0 && fd == g_tcp_fd) { g_tcp_sys.push_back("close"); g_tcp_fd = -1; }
    return real(fd);
}
static int g_listen_fd = -1;
extern "C" int listen(int fd, int backlog) {
    static listen_t real = (listen_t)dlsym(RTLD_NEXT, "listen");
    g_listen_fd = fd;
    return real(fd, backlog);
}

// fault switches for the plumbing ops: the next n calls fail / report as asked
static int g_sock_fail = 0;        // socket(2) -> EMFILE
static int g_accept_fail = 0;      // accept(2) -> EMFILE
static int g_late_fail = 0;        // getsockopt(SO_ERROR) on a connecting socket -> ECONNREFUSED
static bool g_inprogress = false;  // connect(2) -> EINPROGRESS although the connection is made
static int g_accept_errno = EMFILE;   // what a failing accept(2) answers (EMFILE / EAGAIN / ECONNABORTED), the connection stays pending
static int g_accept_abort = 0;     // accept(2) -> ECONNABORTED and the pending connection is gone
static int g_conn_refuse = 0;      // connect(2) -> ECONNREFUSED at once
static int g_inprogress_errno = EINPROGRESS;   // EINPROGRESS or EINTR
static bool g_tcp_want_fd = false;  // the next accepted / connecting AF_INET descriptor is the one of the scenario
typedef int (*socket_t)(int, int, int);
typedef int (*accept_t)(int, struct sockaddr *, socklen_t *);
typedef int (*connect_t)(int, const struct sockaddr *, socklen_t);
typedef int (*getsockopt_t)(int, int, int, void *, socklen_t *);
extern "C" int socket(int d, int t, int p) {
    static socket_t real = (socket_t)dlsym(RTLD_NEXT, "socket");
    if (g_sock_fail > 0 && d == AF_UNIX) { --g_sock_fail; errno = EMFILE; return -1; }
    return real(d, t, p);
}
extern "C" int accept(int fd, struct sockaddr *a, socklen_t *l) {
    static accept_t real = (accept_t)dlsym(RTLD_NEXT, "accept");
    if (g_accept_fail > 0) { --g_accept_fail; errno = g_accept_errno; return -1; }
    int r = real(fd, a, l);
    if (r >= 0 && g_accept_abort > 0) { --g_accept_abort; close(r); errno = ECONNABORTED; return -1; }
    if (r >= 0 && g_tcp_want_fd) { g_tcp_fd = r; g_tcp_want_fd = false; }
    return r;
}
extern "C" int connect(int fd, const struct sockaddr *a, socklen_t l) {
    static connect_t real = (connect_t)dlsym(RTLD_NEXT, "connect");
    if (g_conn_refuse > 0 && a && a->sa_family == AF_UNIX) { --g_conn_refuse; errno = ECONNREFUSED; return -1; }
    int r = real(fd, a, l);
    if (g_tcp_want_fd && a && a->sa_family == AF_INET) { int e = errno; g_tcp_fd = fd; g_tcp_want_fd = false; errno = e; }
    if (r == 0 && g_inprogress && a && a->sa_family == AF_UNIX) { errno = g_inprogress_errno; return -1; }
    return r;
}
extern "C" int getsockopt(int fd, int level, int name, void *val, socklen_t *len) {
    static getsockopt_t real = (getsockopt_t)dlsym(RTLD_NEXT, "getsockopt");
    int r = real(fd, level, name, val, len);
    if (r == 0 && level == SOL_SOCKET && name == SO_ERROR && g_late_fail > 0 && val && *(int *)val == 0) {
        --g_late_fail; *(int *)val = ECONNREFUSED;
    }
    return r;
}

// ---------------------------------------------------------------- the object under test
struct Act { char kind; std::vector<uint8_t> d; };   // 's' send, 'e' enable, 'd' disable, 'x' disconnect
struct Script { bool set = false; std::vector<Act> acts; };

static event::Loop *g_loop = nullptr;
static util::Fd g_fdobj;
static BufferedFd *g_b = nullptr;
static TcpConnection *g_c = nullptr;
static bool g_conn = false, g_eof = false;
static std::vector<std::string> g_ev;
static Script g_rcb, g_scb, g_zcb, g_recb, g_wecb, g_dcb;
static size_t g_consume = 0;
static const uint8_t g_dummy = 0;

static uint32_t fnv(const uint8_t *p, size_t n) {
    uint32_t h = 2166136261u;
    for (size_t i = 0; i < n; ++i) { h ^= p[i]; h *= 16777619u; }
    return h;
}
static std::string digest(const uint8_t *p, size_t n) {
    if (n <= 16) return vh::hex(p, n);
    char b[40]; snprintf(b, sizeof(b), "%zu#%08x", n, fnv(p, n));
    return b;
}

// the payload is handed over in a heap block of exactly its size whose end touches the ASan redzone, starting at
// every alignment 0..7 in turn: a read before the start or past the end of what the caller passed is a report
static bool api_send(const std::vector<uint8_t> &d) {
    static unsigned turn = 0;
    size_t off = (turn++) % 8;
    uint8_t *blk = (uint8_t *)malloc(d.size() + off + (d.empty() && off == 0 ? 1 : 0));
    uint8_t *p = blk + off;
    if (!d.empty()) memcpy(p, d.data(), d.size());
    g_in_send = true;
    bool r = g_conn ? g_c->send(p, d.size()) : g_b->send(p, d.size());
    g_in_send = false;
    free(blk);
    return r;
}

static void run_acts(const Script &s) {
    std::vector<Act> acts = s.acts;
    for (auto &a : acts) {
        switch (a.kind) {
            case 's': api_send(a.d); break;
            case 'e': if (!g_conn) g_b->enable(); break;
            case 'd': if (!g_conn) g_b->disable(); break;
            case 'x': if (g_conn) g_c->disconnect(); break;
        }
    }
}

static void install_rcb(network::ByteStream *bs, size_t thr) {
    if (!g_rcb.set) { bs->setReceiveCallback(nullptr, thr); return; }
    bs->setReceiveCallback([](network::Buffer &b) {
        g_ev.push_back("R:" + digest(b.readableBegin(), b.readableSize()) + ":" + std::to_string(g_consume));
        b.hasRead(g_consume);
        run_acts(g_rcb);
    }, thr);
}
static std::function<void()> plain_cb(Script *s, const char *name) {
    if (!s->set) return nullptr;
    return [s, name] { g_ev.push_back(name); run_acts(*s); };
}
static std::function<void(int)> errno_cb(Script *s, const char *name) {
    if (!s->set) return nullptr;
    return [s, name](int e) { g_ev.push_back(name + std::to_string(e)); run_acts(*s); };
}

namespace net { static void destroy(); }

static void flush_loop() {       // run deferred deletions
    g_filter = true; g_mask = 0;
    g_loop->runLoop(event::Loop::Mode::kOnce);
    g_filter = false;
}

static void reset_case() {
    net::destroy();
    int fd = g_fd;
    g_fd = -1;                   // interposers off
    if (g_c) { delete g_c; g_c = nullptr; }
    if (g_b) { delete g_b; g_b = nullptr; }
    flush_loop();
    g_fdobj = util::Fd();        // last reference: closes the descriptor
    (void)fd;
    if (g_peer >= 0) { close(g_peer); g_peer = -1; }
    g_wq.clear(); g_rq.clear(); g_wmax = g_rmax = g_pending = 0; g_drain = false; g_in_send = false;
    g_wire_new.clear(); g_ev.clear();
    g_stash.clear(); g_tr_end = g_app_end = 'o'; g_sys.clear(); g_shut = g_refused = g_closed = false;
    g_rcb = g_scb = g_zcb = g_recb = g_wecb = g_dcb = Script();
    g_consume = 0; g_conn = false; g_eof = false;
}

static void new_case() {
    reset_case();
    int sv[2];
    if (socketpair(AF_UNIX, SOCK_STREAM, 0, sv) != 0) { perror("socketpair"); exit(2); }
    fcntl(sv[1], F_SETFL, fcntl(sv[1], F_GETFL, 0) | O_NONBLOCK);
    g_fdobj = util::Fd(sv[0]);
    g_fd = sv[0]; g_peer = sv[1];
    g_b = new BufferedFd(g_loop);
}

// ---------------------------------------------------------------- parsing
static bool data(const std::string &w, std::vector<uint8_t> &out) {
    if (!w.empty() && w[0] == 'g') {
        size_t c = w.find(':');
        uint64_t seed, len;
        if (c == std::string::npos || !vh::to_u64(w.substr(1, c - 1), seed) || !vh::to_u64(w.substr(c + 1), len)) return false;
        if (seed >= 256 || len > 8388608) return false;
        out.resize(len);
        for (uint64_t i = 0; i < len; ++i) out[i] = (uint8_t)((seed + 31 * i + i / 256) % 256);
        return true;
    }
    return vh::unhex(w, out);
}

static bool parse_act(const std::string &w, Act &a) {
    a.d.clear();
    if (w == "en") { a.kind = 'e'; return !g_conn; }
    if (w == "dis") { a.kind = 'd'; return !g_conn; }
    if (w == "disc") { a.kind = 'x'; return g_conn; }
    if (w.size() >= 2 && w[0] == 's' && w[1] == ':') { a.kind = 's'; return data(w.substr(2), a.d); }
    return false;
}

static bool parse_script(const std::string &w, Script &s) {
    s = Script();
    if (w == "none") return true;
    s.set = true;
    if (w == "-") return true;
    size_t pos = 0;
    for (;;) {
        size_t c = w.find(',', pos);
        Act a;
        if (!parse_act(w.substr(pos, c == std::string::npos ? std::string::npos : c - pos), a)) return false;
        s.acts.push_back(a);
        if (c == std::string::npos) break;
        pos = c + 1;
    }
    return true;
}

static bool parse_wans(const std::string &w0, WAns &a) {
    uint64_t k;
    std::string w = w0;
    a.site = 0; a.err = 0; a.k = 0;
    if (w.size() >= 2 && w[1] == ':' && (w[0] == 's' || w[0] == 'c')) { a.site = w[0]; w = w.substr(2); }
    if (w == "ea") { a.kind = 'e'; return true; }
    if (w == "er") { a.kind = 'x'; a.err = EPIPE; return true; }
    if (w.size() >= 2 && w[0] == 'e' && vh::to_u64(w.substr(1), k)
        && (k == EINTR || k == EIO || k == ENOMEM || k == ENOSPC || k == EPIPE || k == ECONNRESET || k == ENOBUFS
            || k == EBADF || k == EFAULT || k == EFBIG || k == ENETUNREACH || k == ENOTCONN || k == ETIMEDOUT || k == EHOSTUNREACH || k == EDQUOT)) { a.kind = 'x'; a.err = (int)k; return true; }
    if (w.size() >= 2 && w[0] == 'a' && vh::to_u64(w.substr(1), k)) { a.kind = 'a'; a.k = k; return true; }
    return false;
}
static bool parse_rans(const std::string &w, RAns &a) {
    uint64_t k;
    if (w == "ea") { a.kind = 'e'; a.k = 0; return true; }
    if (w == "ei") { a.kind = 'i'; a.k = 0; return true; }
    if (w == "er") { a.kind = 'x'; a.k = 0; return true; }
    if (w.size() >= 2 && w[0] == 'f' && vh::to_u64(w.substr(1), k) && k <= 1025) { a.kind = 'f'; a.k = k; return true; }
    if (w.size() >= 2 && w[0] == 'c' && vh::to_u64(w.substr(1), k) && k >= 1 && k <= 1024) { a.kind = 'c'; a.k = k; return true; }
    return false;
}

static BufferedFd *bfd() { return g_conn ? g_c->sp_buffered_fd_ : g_b; }

static void report(int ret) {
    drain_peer();
    BufferedFd *b = bfd();
    std::string st = "X", rq = "x";
    if (b) {
        switch (b->state()) {
            case BufferedFd::State::kEmpty: st = "E"; break;
            case BufferedFd::State::kInited: st = "I"; break;
            case BufferedFd::State::kRunning: st = "R"; break;
        }
        network::Buffer *rb = g_conn ? g_c->getReceiveBuffer() : g_b->getReceiveBuffer();
        rq = rb ? digest(rb->readableBegin(), rb->readableSize()) : "x";
    }
    std::string ev;
    for (auto &e : g_ev) { if (!ev.empty()) ev += ","; ev += e; }
    if (ev.empty()) ev = "-";
    std::cout << "P ret=" << ret << " st=" << st << " ev=" << ev
              << " wire+=" << digest((const uint8_t *)g_wire_new.data(), g_wire_new.size()) << " rq=" << rq << "\n";
    std::string sys;
    for (auto &e : g_sys) { if (!sys.empty()) sys += ","; sys += e; }
    if (sys.empty()) sys = "-";
    if (b)
        std::cout << "M armed=" << (b->sp_write_event_ && b->sp_write_event_->isEnabled() ? 1 : 0)
                  << " ron=" << (b->sp_read_event_ && b->sp_read_event_->isEnabled() ? 1 : 0)
                  << " sq=" << b->send_buff_.readableSize() << " sys=" << sys << "\n";
    else
        std::cout << "M gone sys=" << sys << "\n";
    g_ev.clear(); g_wire_new.clear(); g_sys.clear();
}


// ---------------------------------------------------------------- end-to-end (no interposition)
// e2e <sc|ac> <n1> <c1> <n2> <c2> <thr> <c|s|h> <sndbuf>
// A real TcpServer + TcpClient (sc) or TcpAcceptor + TcpConnector (ac, SO_SNDBUF = sndbuf on both
// connections) over a Unix-domain socket on the real loop.  The client sends gen(11, n1) in chunks of
// c1 bytes, the server gen(23, n2) in chunks of c2, all queued in the connected callbacks.  The server
// receives with threshold thr, both sides leave up to 2 bytes unconsumed while more is expected.
// closer: c = the client closes actively once it has everything and its sends completed, s = the
// server does, h = the client half-closes (shutdown WR) at that point.
struct E2ESide {
    std::vector<uint8_t> got; size_t expect = 0; bool send_done = false; int disc = 0; int presentations = 0;
};
static void gen_bytes(uint64_t seed, uint64_t len, std::vector<uint8_t> &out) {
    out.resize(len);
    for (uint64_t i = 0; i < len; ++i) out[i] = (uint8_t)((seed + 31 * i + i / 256) % 256);
}
static void e2e_take(E2ESide &side, network::Buffer &b) {
    size_t sz = b.readableSize(), k = sz;
    ++side.presentations;
    if (side.got.size() + sz < side.expect) k = sz - (sz < 2 ? sz : 2);      // leave a tail for the next presentation
    side.got.insert(side.got.end(), b.readableBegin(), b.readableBegin() + k);
    b.hasRead(k);
}

static void run_e2e(bool sc, uint64_t n1, uint64_t c1, uint64_t n2, uint64_t c2, uint64_t thr, char closer, uint64_t sndbuf) {
    using namespace network;
    std::string path = "/tmp/C06-e2e-" + std::to_string(getpid()) + ".sock";
    SockAddr addr{DomainSockPath(path)};
    std::vector<uint8_t> s1, s2; gen_bytes(11, n1, s1); gen_bytes(23, n2, s2);
    E2ESide srv, cli; srv.expect = n1; cli.expect = n2;
    srv.send_done = (n2 == 0); cli.send_done = (n1 == 0);
    bool closing = false, finishing = false;
    std::string late = "-";
    event::TimerEvent *fin = g_loop->newTimerEvent("fin");
    event::TimerEvent *dog = g_loop->newTimerEvent("dog");
    fin->initialize(std::chrono::milliseconds(40), event::Event::Mode::kOneshot);
    fin->setCallback([] { g_loop->exitLoop(); });
    dog->initialize(std::chrono::seconds(20), event::Event::Mode::kOneshot);
    dog->setCallback([&] { late += "+watchdog"; g_loop->exitLoop(); });
    dog->enable();
    auto send_chunks = [](const std::vector<uint8_t> &d, uint64_t c, const std::function<bool(const void *, size_t)> &snd) {
        for (size_t off = 0; off < d.size(); off += c) snd(d.data() + off, std::min<size_t>(c, d.size() - off));
    };
    int want_sdisc = (closer == 's') ? 0 : 1, want_cdisc = (closer == 'c') ? 0 : 1;
    auto check_finish = [&] {
        if (!finishing && closing && srv.disc >= want_sdisc && cli.disc >= want_cdisc && srv.got.size() >= n1 && cli.got.size() >= n2) {
            finishing = true; fin->enable();       // a little longer: a second notification would still be counted
        }
    };

    if (sc) {
        TcpServer server(g_loop); TcpClient client(g_loop);
        TcpServer::ConnToken tok;
        std::function<void()> maybe_close = [&] {
            if (closing) return;
            if (closer == 's') {
                if (srv.got.size() == n1 && srv.send_done) {
                    closing = true;
                    bool r1 = server.disconnect(tok), r2 = server.disconnect(tok);
                    late = std::string("sd=") + (r1 ? "1" : "0") + (r2 ? "1" : "0") + " ssend=" + (server.send(tok, "x", 1) ? "1" : "0")
                         + " valid=" + (server.isClientValid(tok) ? "1" : "0");
                }
            } else if (cli.got.size() == n2 && cli.send_done) {
                closing = true;
                if (closer == 'c') { client.stop(); late = std::string("csend=") + (client.send("x", 1) ? "1" : "0"); }
                else late = std::string("shut=") + (client.shutdown(SHUT_WR) ? "1" : "0");
            }
            check_finish();
        };
        server.initialize(addr, 2);
        server.setConnectedCallback([&](const TcpServer::ConnToken &t) {
            tok = t;
            send_chunks(s2, c2, [&](const void *p, size_t n) { return server.send(t, p, n); });
        });
        server.setReceiveCallback([&](const TcpServer::ConnToken &, Buffer &b) { e2e_take(srv, b); maybe_close(); }, thr);
        server.setSendCompleteCallback([&](const TcpServer::ConnToken &) { srv.send_done = true; maybe_close(); });
        server.setDisconnectedCallback([&](const TcpServer::ConnToken &t) {
            ++srv.disc;
            late += std::string(" svalid=") + (server.isClientValid(t) ? "1" : "0");
            check_finish();
        });
        client.initialize(addr);
        client.setAutoReconnect(false);
        client.setConnectedCallback([&] { send_chunks(s1, c1, [&](const void *p, size_t n) { return client.send(p, n); }); maybe_close(); });
        client.setReceiveCallback([&](Buffer &b) { e2e_take(cli, b); maybe_close(); }, 0);
        client.setSendCompleteCallback([&] { cli.send_done = true; maybe_close(); });
        client.setDisconnectedCallback([&] { ++cli.disc; late += std::string(" csend2=") + (client.send("x", 1) ? "1" : "0"); check_finish(); });
        server.start(); client.start();
        g_loop->runLoop(event::Loop::Mode::kForever);
        dog->disable();
        client.cleanup(); server.cleanup();
        flush_loop();
    } else {
        TcpAcceptor acceptor(g_loop); TcpConnector connector(g_loop);
        TcpConnection *sconn = nullptr, *cconn = nullptr;
        std::function<void()> maybe_close = [&] {
            if (closing || !sconn || !cconn) return;
            if (closer == 's') {
                if (srv.got.size() == n1 && srv.send_done) {
                    closing = true;
                    bool r1 = sconn->disconnect(), r2 = sconn->disconnect();
                    late = std::string("sd=") + (r1 ? "1" : "0") + (r2 ? "1" : "0") + " ssend=" + (sconn->send("x", 1) ? "1" : "0")
                         + " sexp=" + (sconn->isExpired() ? "1" : "0");
                }
            } else if (cli.got.size() == n2 && cli.send_done) {
                closing = true;
                if (closer == 'c') {
                    bool r1 = cconn->disconnect(), r2 = cconn->disconnect();
                    late = std::string("cd=") + (r1 ? "1" : "0") + (r2 ? "1" : "0") + " csend=" + (cconn->send("x", 1) ? "1" : "0");
                } else late = std::string("shut=") + (cconn->shutdown(SHUT_WR) ? "1" : "0");
            }
            check_finish();
        };
        acceptor.initialize(addr, 2);
        acceptor.setNewConnectionCallback([&](TcpConnection *c) {
            sconn = c;
            if (sndbuf) c->socketFd().setSendBufferSize((int)sndbuf);
            c->setReceiveCallback([&](Buffer &b) { e2e_take(srv, b); maybe_close(); }, thr);
            c->setSendCompleteCallback([&] { srv.send_done = true; maybe_close(); });
            c->setDisconnectedCallback([&] {
                ++srv.disc;
                late += std::string(" sexp=") + (sconn->isExpired() ? "1" : "0") + " ssend2=" + (sconn->send("x", 1) ? "1" : "0");
                check_finish();
            });
            send_chunks(s2, c2, [&](const void *p, size_t n) { return c->send(p, n); });
            maybe_close();
        });
        connector.initialize(addr);
        connector.setConnectedCallback([&](TcpConnection *c) {
            cconn = c;
            if (sndbuf) c->socketFd().setSendBufferSize((int)sndbuf);
            c->setReceiveCallback([&](Buffer &b) { e2e_take(cli, b); maybe_close(); }, 0);
            c->setSendCompleteCallback([&] { cli.send_done = true; maybe_close(); });
            c->setDisconnectedCallback([&] {
                ++cli.disc;
                late += std::string(" cexp=") + (cconn->isExpired() ? "1" : "0") + " csend2=" + (cconn->send("x", 1) ? "1" : "0");
                check_finish();
            });
            send_chunks(s1, c1, [&](const void *p, size_t n) { return c->send(p, n); });
            maybe_close();
        });
        acceptor.start(); connector.start();
        g_loop->runLoop(event::Loop::Mode::kForever);
        dog->disable();
        connector.cleanup(); acceptor.cleanup();
        delete sconn; delete cconn;
        flush_loop();
    }
    dog->disable(); fin->disable();
    delete dog; delete fin;
    unlink(path.c_str());
    std::cout << "P e2e c2s=" << digest(srv.got.data(), srv.got.size()) << " s2c=" << digest(cli.got.data(), cli.got.size())
              << " sdisc=" << srv.disc << " cdisc=" << cli.disc << " late=" << late << "\n";
    std::cout << "M e2e spres=" << (srv.presentations > 0) << " cpres=" << (cli.presentations > 0) << "\n";
}


// ---------------------------------------------------------------- AF_INET loopback, active close (no interposed I/O)
// tcp <sd|ss|cs> <cb|op|opu|opuS> <rcvbuf> <chunk> <seed:len,seed:len,...>
// (opu: 100 inbound bytes are unread at the close, compared with what the code + kernel do: end=reset; opuS: the same run
//  judged against the property itself: every byte, then EOF - the recorded finding active-close-unread-inbound)
// A real TcpServer (sd: TcpServer::disconnect(token), ss: TcpServer::stop()) or TcpClient (cs: TcpClient::stop())
// on 127.0.0.1, ephemeral port, against a raw non-blocking peer socket with SO_RCVBUF = rcvbuf.  The library side
// queues all payloads in its connected callback and closes actively at send-complete: from inside that callback
// (cb) or from the main flow right after the loop pass that delivered it (op).  The peer is as slow as a peer can
// be without stalling the sender for ever: it reads one chunk only when a loop pass of the library found nothing
// to do (its kernel buffers are full); after the close it reads until EOF or an error.  No step depends on
// wall-clock time (a 120 s watchdog turns a hang into `end=timeout`).
static uint64_t g_tcp_outq_at_close = 0;
static void run_tcp(const std::string &closer, bool in_cb, bool unread, bool spec, uint64_t rcvbuf, uint64_t chunk,
                    const std::vector<std::pair<uint64_t, uint64_t>> &sizes) {
    using namespace network;
    std::vector<std::vector<uint8_t>> payloads(sizes.size());
    size_t total = 0;
    for (size_t i = 0; i < sizes.size(); ++i) { gen_bytes(sizes[i].first, sizes[i].second, payloads[i]); total += payloads[i].size(); }
    int sc = 0, disc = 0;
    bool want_close = false, closed = false;
    int raw = -1, lst = -1;
    std::string got; got.reserve(total + 16);
    char end = 'o';
    std::vector<char> buf(chunk);
    g_tcp_sys.clear(); g_tcp_fd = -1; g_tcp_outq_at_close = 0;
    auto peer_read_once = [&]() -> bool {       // true if something happened
        if (raw < 0 || end != 'o') return false;
        ssize_t r = real_read()(raw, buf.data(), buf.size());
        if (r > 0) { got.append(buf.data(), r); return true; }
        if (r == 0) { end = 'e'; return true; }
        if (errno == EAGAIN || errno == EINTR) return false;
        end = 'r'; return true;
    };
    auto note_outq = [&] { int q = 0; if (g_tcp_fd >= 0 && ioctl(g_tcp_fd, SIOCOUTQ, &q) == 0 && q > 0) g_tcp_outq_at_close = (uint64_t)q; };
    struct timespec t0; clock_gettime(CLOCK_MONOTONIC, &t0);
    auto expired = [&] { struct timespec t; clock_gettime(CLOCK_MONOTONIC, &t); return t.tv_sec - t0.tv_sec > 120; };
    auto one_pass = [&] { g_filter = true; g_mask = 0xffffffffu; g_nevents = 0; g_loop->runLoop(event::Loop::Mode::kOnce); g_filter = false; g_mask = 0; };

    TcpServer *server = nullptr; TcpClient *client = nullptr;
    TcpServer::ConnToken tok;
    std::function<void()> do_close;
    if (closer != "cs") {
        server = new TcpServer(g_loop);
        g_listen_fd = -1;
        server->initialize(SockAddr(IPAddress::Loop(), 0), 4);
        struct sockaddr_in sa; socklen_t sl = sizeof(sa); memset(&sa, 0, sizeof(sa));
        getsockname(g_listen_fd, (struct sockaddr *)&sa, &sl);
        do_close = [&] { note_outq(); if (closer == "sd") server->disconnect(tok); else server->stop(); closed = true; };
        server->setConnectedCallback([&](const TcpServer::ConnToken &t) {
            tok = t;
            for (auto &d : payloads) server->send(t, d.empty() ? (const void *)&g_dummy : (const void *)d.data(), d.size());
        });
        server->setReceiveCallback([&](const TcpServer::ConnToken &, Buffer &b) { b.hasReadAll(); }, 0);
        server->setSendCompleteCallback([&](const TcpServer::ConnToken &) { ++sc; if (closed) return; if (in_cb) do_close(); else want_close = true; });
        server->setDisconnectedCallback([&](const TcpServer::ConnToken &) { ++disc; });
        server->start();
        raw = socket(AF_INET, SOCK_STREAM | SOCK_NONBLOCK, 0);
        int rb = (int)rcvbuf; setsockopt(raw, SOL_SOCKET, SO_RCVBUF, &rb, sizeof(rb));
        ::connect(raw, (struct sockaddr *)&sa, sl);
        g_tcp_want_fd = true;                      // the descriptor the server accepts is the one under observation
    } else {
        lst = socket(AF_INET, SOCK_STREAM | SOCK_NONBLOCK, 0);
        int rb = (int)rcvbuf; setsockopt(lst, SOL_SOCKET, SO_RCVBUF, &rb, sizeof(rb));
        struct sockaddr_in sa; socklen_t sl = sizeof(sa); memset(&sa, 0, sizeof(sa));
        sa.sin_family = AF_INET; sa.sin_addr.s_addr = htonl(INADDR_LOOPBACK); sa.sin_port = 0;
        bind(lst, (struct sockaddr *)&sa, sl); listen(lst, 4); getsockname(lst, (struct sockaddr *)&sa, &sl);
        client = new TcpClient(g_loop);
        client->initialize(SockAddr(IPAddress::Loop(), ntohs(sa.sin_port)));
        client->setAutoReconnect(false);
        do_close = [&] { note_outq(); client->stop(); closed = true; };
        client->setConnectedCallback([&] {
            for (auto &d : payloads) client->send(d.empty() ? (const void *)&g_dummy : (const void *)d.data(), d.size());
        });
        client->setReceiveCallback([&](Buffer &b) { b.hasReadAll(); }, 0);
        client->setSendCompleteCallback([&] { ++sc; if (closed) return; if (in_cb) do_close(); else want_close = true; });
        client->setDisconnectedCallback([&] { ++disc; });
        g_tcp_want_fd = true;
        client->start();
    }
    // phase 1: until the library side has closed and the pass that runs its deferred tasks is over
    int after_close = 0;
    while (after_close < 2 && !expired()) {
        one_pass();
        if (lst >= 0 && raw < 0) {
            static accept_t real_accept = (accept_t)dlsym(RTLD_NEXT, "accept");
            int r = real_accept(lst, nullptr, nullptr);
            if (r >= 0) { raw = r; fcntl(raw, F_SETFL, fcntl(raw, F_GETFL, 0) | O_NONBLOCK); }
        }
        if (want_close && !closed) {
            if (unread && raw >= 0) {
                // the peer writes 100 bytes and the close follows before any loop pass can read them: wait (no pass in
                // between) until they have arrived in the library side's socket
                char in[100]; memset(in, 0x5a, sizeof(in));
                if (real_write()(raw, in, sizeof(in)) != (ssize_t)sizeof(in)) { fprintf(stderr, "harness: inbound write failed errno=%d\n", errno); abort(); }
                int avail = 0;
                while (!expired()) { if (g_tcp_fd >= 0 && ioctl(g_tcp_fd, FIONREAD, &avail) == 0 && avail > 0) break; sched_yield(); }
            }
            do_close(); continue;
        }
        if (closed) { ++after_close; continue; }
        if (g_nevents == 0) peer_read_once();     // the sender is stuck: let the peer take one chunk
    }
    // phase 2: the peer reads to the end
    while (end == 'o' && !expired()) {
        if (!peer_read_once()) {
            struct pollfd pf; pf.fd = raw; pf.events = POLLIN; pf.revents = 0;
            poll(&pf, 1, 20);
            one_pass();
        }
    }
    if (end == 'o') end = 't';
    if (raw >= 0) close(raw);
    if (lst >= 0) close(lst);
    if (server) { server->cleanup(); delete server; }
    if (client) { client->cleanup(); delete client; }
    flush_loop();
    g_tcp_want_fd = false; g_tcp_fd = -1;
    std::string sys;
    for (auto &e : g_tcp_sys) { if (!sys.empty()) sys += ","; sys += e; }
    // with unread inbound data at the close how much still arrives is the kernel's business (oracle `keep`): as coded (`opu`)
    // it is not compared; judged against the property itself (`opuS`) an incomplete stream is named as what it is - an
    // in-order prefix of what was sent, or not even that
    std::string gots = digest((const uint8_t *)got.data(), got.size());
    if (unread && !spec) gots = "*";
    else if (spec && got.size() != total) {
        std::string all; all.reserve(total);
        for (auto &d : payloads) all.append((const char *)d.data(), d.size());
        gots = (got.size() < total && all.compare(0, got.size(), got) == 0 ? "prefix:" : "corrupt:") + std::to_string(got.size());
    }
    std::cout << "P tcp got=" << gots
              << " end=" << (end == 'e' ? "eof" : end == 'r' ? "reset" : "timeout") << " sc=" << sc << " disc=" << disc << "\n";
    std::cout << "M tcp sys=" << (sys.empty() ? "-" : sys) << "\n";
    std::cout << "B tcp-outq-at-close=" << g_tcp_outq_at_close << " tcp-got=" << got.size() << "/" << total << "\n";
}

// ---------------------------------------------------------------- the TCP plumbing ("net" ops)
// One TcpServer, two TcpClients, one bare TcpConnector and one raw peer socket on a Unix-domain
// socket, real loop, virtual clock.  After every op the loop runs passes (epoll timeout 0) until
// nothing happens any more; the callbacks seen are printed grouped per object / per connection
// (order inside a connection kept), so the line does not depend on the order in which epoll
// reports different descriptors.
namespace net {
using namespace network;
struct NAct { char kind; std::vector<uint8_t> d; };       // 'p' stop, 'c' cleanup, 'd' disconnect (this token), 's' send, 't' start
typedef std::vector<NAct> NScript;
struct NEv { char kind; std::string bytes; };             // 'C' connected, 'R' received, 'S' send complete, 'D' disconnected, 'F' connect failed

static std::string g_path;
static TcpServer *sv = nullptr;
static std::vector<TcpServer::ConnToken> toks;            // every token ever handed out, in order
static std::map<size_t, std::vector<NEv>> sv_ev;          // token index -> events of this op
static NScript sv_conn, sv_disc, sv_recv, sv_sc;
static TcpClient *cl[2] = {nullptr, nullptr};
static std::vector<NEv> cl_ev[2];
static NScript cl_conn[2], cl_disc[2], cl_recv[2], cl_sc[2];
static TcpConnector *kn = nullptr;
static std::vector<NEv> kn_ev;
static NScript kn_fail, kn_conn;
static int raw_fd = -1;
static std::string raw_got; static bool raw_eof = false, raw_hold = false;
static int g_activity = 0;
static int g_budget = 0;

static void add(std::vector<NEv> &v, char kind, const uint8_t *p = nullptr, size_t n = 0) {
    ++g_activity;
    if (kind == 'R' && !v.empty() && v.back().kind == 'R') { v.back().bytes.append((const char *)p, n); return; }
    NEv e; e.kind = kind; if (p) e.bytes.assign((const char *)p, n); v.push_back(e);
}
static size_t tok_index(const TcpServer::ConnToken &t) {
    for (size_t i = 0; i < toks.size(); ++i) if (toks[i] == t) return i;
    toks.push_back(t); return toks.size() - 1;
}
static void sv_run(const NScript &sc, const TcpServer::ConnToken &t) {
    NScript acts = sc;
    for (auto &a : acts) {
        if (!sv) return;
        switch (a.kind) {
            case 'p': sv->stop(); break;
            case 'c': sv->cleanup(); break;
            case 'd': sv->disconnect(t); break;
            case 's': sv->send(t, a.d.empty() ? (const void *)&g_dummy : (const void *)a.d.data(), a.d.size()); break;
            case 'm': if (g_budget > 0) { --g_budget; sv->send(t, a.d.empty() ? (const void *)&g_dummy : (const void *)a.d.data(), a.d.size()); } break;
            case 'h': sv->shutdown(t, SHUT_WR); break;
        }
    }
}
static void cl_run(int i, const NScript &sc) {
    NScript acts = sc;
    for (auto &a : acts) {
        switch (a.kind) {
            case 'p': cl[i]->stop(); break;
            case 'c': cl[i]->cleanup(); break;
            case 't': cl[i]->start(); break;
            case 's': cl[i]->send(a.d.empty() ? (const void *)&g_dummy : (const void *)a.d.data(), a.d.size()); break;
            case 'm': if (g_budget > 0) { --g_budget; cl[i]->send(a.d.empty() ? (const void *)&g_dummy : (const void *)a.d.data(), a.d.size()); } break;
            case 'h': cl[i]->shutdown(SHUT_WR); break;
        }
    }
}
static void kn_run(const NScript &sc) {
    NScript acts = sc;
    for (auto &a : acts) {
        switch (a.kind) {
            case 'p': kn->stop(); break;
            case 'c': kn->cleanup(); break;
            case 't': kn->start(); break;
        }
    }
}
// Every callback object carries state on the heap of its std::function and touches it after the
// script ran: a call that destroys the std::function while it is executing is seen by ASan.
struct Guard { char pad[64]; Guard() { memset(pad, 7, sizeof(pad)); } void touch() const { volatile char c = pad[13]; (void)c; } };

static void sv_install() {
    Guard g;
    sv->setConnectedCallback([g](const TcpServer::ConnToken &t) { add(sv_ev[tok_index(t)], 'C'); sv_run(sv_conn, t); g.touch(); });
    sv->setDisconnectedCallback([g](const TcpServer::ConnToken &t) { add(sv_ev[tok_index(t)], 'D'); sv_run(sv_disc, t); g.touch(); });
    sv->setReceiveCallback([g](const TcpServer::ConnToken &t, Buffer &b) {
        add(sv_ev[tok_index(t)], 'R', b.readableBegin(), b.readableSize()); b.hasReadAll(); sv_run(sv_recv, t); g.touch(); }, 0);
    sv->setSendCompleteCallback([g](const TcpServer::ConnToken &t) { add(sv_ev[tok_index(t)], 'S'); sv_run(sv_sc, t); g.touch(); });
}
// The script of a client callback is captured BY VALUE: a script change (`nccb`) is a call of the TcpClient setter, which has
// to install the new callback on the live connection and keep it for the connections made after a reconnect.
// which: -1 all, 0 connected, 1 disconnected, 2 receive, 3 send-complete
static void cl_install(int i, int which = -1) {
    Guard g;
    NScript s_conn = cl_conn[i], s_disc = cl_disc[i], s_recv = cl_recv[i], s_sc = cl_sc[i];
    if (which < 0 || which == 0) cl[i]->setConnectedCallback([i, g, s_conn] { add(cl_ev[i], 'C'); cl_run(i, s_conn); g.touch(); });
    if (which < 0 || which == 1) cl[i]->setDisconnectedCallback([i, g, s_disc] { add(cl_ev[i], 'D'); cl_run(i, s_disc); g.touch(); });
    if (which < 0 || which == 2) cl[i]->setReceiveCallback([i, g, s_recv](Buffer &b) { add(cl_ev[i], 'R', b.readableBegin(), b.readableSize()); b.hasReadAll(); cl_run(i, s_recv); g.touch(); }, 0);
    if (which < 0 || which == 3) cl[i]->setSendCompleteCallback([i, g, s_sc] { add(cl_ev[i], 'S'); cl_run(i, s_sc); g.touch(); });
}
static void kn_install() {
    Guard g;
    kn->setConnectedCallback([g](TcpConnection *c) {
        add(kn_ev, 'C');
        c->disconnect();                                     // the bare connector's connections are not kept
        g_loop->runNext([c] { delete c; }, "verif");
        kn_run(kn_conn); g.touch();
    });
    kn->setConnectFailCallback([g] { add(kn_ev, 'F'); kn_run(kn_fail); g.touch(); });
}

static void raw_poll() {
    if (raw_fd < 0 || raw_hold) return;
    char buf[4096];
    for (;;) {
        ssize_t r = real_read()(raw_fd, buf, sizeof(buf));
        if (r > 0) { raw_got.append(buf, r); ++g_activity; }
        else { if (r == 0 && !raw_eof) { raw_eof = true; ++g_activity; } break; }
    }
}
static bool g_livelock = false;
static void drain() {
    g_filter = true; g_mask = 0xffffffffu;
    int idle = 0;
    for (int i = 0; idle < 3; ++i) {
        if (i >= 600) { g_livelock = true; break; }      // callback scripts feeding each other: never at rest
        g_nevents = 0; g_activity = 0;
        g_loop->runLoop(event::Loop::Mode::kOnce);
        raw_poll();
        if (g_nevents == 0 && g_activity == 0) ++idle; else idle = 0;
    }
    g_filter = false; g_mask = 0;
}
static void create() {
    if (sv) return;
    g_path = "/tmp/C06-net-" + std::to_string(getpid()) + ".sock";
    unlink(g_path.c_str());
    sv = new TcpServer(g_loop); sv_install();
    for (int i = 0; i < 2; ++i) { cl[i] = new TcpClient(g_loop); cl_install(i); }
    kn = new TcpConnector(g_loop);
}
static void destroy() {
    if (!sv) return;
    if (raw_fd >= 0) { close(raw_fd); raw_fd = -1; }
    for (int i = 0; i < 2; ++i) { delete cl[i]; cl[i] = nullptr; cl_ev[i].clear(); cl_conn[i].clear(); cl_disc[i].clear(); cl_recv[i].clear(); cl_sc[i].clear(); }
    delete kn; kn = nullptr; kn_ev.clear(); kn_fail.clear(); kn_conn.clear();
    delete sv; sv = nullptr;
    drain();
    toks.clear(); sv_ev.clear(); sv_conn.clear(); sv_disc.clear(); sv_recv.clear(); sv_sc.clear();
    raw_got.clear(); raw_eof = false; raw_hold = false; g_livelock = false;
    g_sock_fail = g_accept_fail = g_late_fail = g_accept_abort = g_conn_refuse = 0; g_inprogress = false; g_budget = 0;
    g_accept_errno = EMFILE; g_inprogress_errno = EINPROGRESS;
    unlink(g_path.c_str());
}
// canonical form of the callbacks of one connection in one op: C? R<all bytes>? S? D?  (how many
// receive / send-complete callbacks the bytes were spread over is the kernel's business); "!order"
// if connected was not first / disconnected not last / either came twice
static std::string show(const std::vector<NEv> &v) {
    std::string all; int nc = 0, nd = 0, ns = 0, nr = 0; bool bad = false;
    for (size_t i = 0; i < v.size(); ++i) {
        char k = v[i].kind;
        if (k == 'F') return "F";
        if (k == 'C') { ++nc; if (i != 0) bad = true; }
        if (k == 'D') { ++nd; if (i + 1 != v.size()) bad = true; }
        if (k == 'S') ++ns;
        if (k == 'R') { ++nr; all += v[i].bytes; }
    }
    if (nc > 1 || nd > 1) bad = true;
    std::string s;
    auto put = [&s](const std::string &t) { if (!s.empty()) s += ","; s += t; };
    if (nc) put("C");
    if (nr) put("R" + digest((const uint8_t *)all.data(), all.size()));
    if (ns) put("S");
    if (nd) put("D");
    if (bad) put("!order");
    return s.empty() ? "-" : s;
}
static std::string show_kn(const std::vector<NEv> &v) {
    std::string s;
    for (auto &e : v) { if (!s.empty()) s += ","; s.push_back(e.kind); }
    return s.empty() ? "-" : s;
}
static bool parse_script(const std::string &w, const std::string &allowed, NScript &out) {
    out.clear();
    if (w == "-") return true;
    size_t pos = 0;
    for (;;) {
        size_t c = w.find(',', pos);
        std::string t = w.substr(pos, c == std::string::npos ? std::string::npos : c - pos);
        NAct a;
        if (t == "stop") a.kind = 'p'; else if (t == "cleanup") a.kind = 'c'; else if (t == "disc") a.kind = 'd';
        else if (t == "start") a.kind = 't';
        else if (t == "shut") a.kind = 'h';
        else if (t.size() >= 2 && t[0] == 'm' && t[1] == ':') { a.kind = 'm'; if (!vh::unhex(t.substr(2), a.d) || a.d.size() > 64) return false; }
        else if (t.size() >= 2 && t[0] == 's' && t[1] == ':') { a.kind = 's'; if (!vh::unhex(t.substr(2), a.d) || a.d.size() > 64) return false; }
        else return false;
        if (allowed.find(a.kind) == std::string::npos) return false;
        out.push_back(a);
        if (c == std::string::npos) break;
        pos = c + 1;
    }
    return out.size() <= 3;
}
// "-" (empty) or up to four decimal numbers 0 … INT_MAX separated by commas
static bool parse_delays(const std::string &w, std::vector<int> &out) {
    out.clear();
    if (w == "-") return true;
    size_t pos = 0;
    for (;;) {
        size_t c = w.find(',', pos);
        uint64_t v = 0;
        if (!vh::to_u64(w.substr(pos, c == std::string::npos ? std::string::npos : c - pos), v) || v > 2147483647ull) return false;
        out.push_back((int)v);
        if (c == std::string::npos) break;
        pos = c + 1;
    }
    return out.size() <= 4;
}
static void report(int ret) {
    drain();
    if (g_livelock) { std::cout << "P livelock\n"; return; }
    std::cout << "P ret=" << ret << " S" << (int)sv->state();
    for (auto &kv : sv_ev) std::cout << " t" << kv.first << "=" << show(kv.second);
    for (int i = 0; i < 2; ++i) {
        std::string g; std::vector<NEv> cur;                      // one group per connection: a connected callback opens a new one
        for (auto &e : cl_ev[i]) {
            if (e.kind == 'C' && !cur.empty()) { g += (g.empty() ? "" : "|") + show(cur); cur.clear(); }
            cur.push_back(e);
        }
        if (!cur.empty()) g += (g.empty() ? "" : "|") + show(cur);
        std::cout << " C" << i << ":" << (int)cl[i]->state();
        if (Buffer *rb = cl[i]->getReceiveBuffer()) std::cout << "b" << rb->readableSize();       // null unless there is a connection
        std::cout << "=" << (g.empty() ? "-" : g);
    }
    std::cout << " K" << (int)kn->state() << "=" << show_kn(kn_ev);
    std::cout << " raw=" << digest((const uint8_t *)raw_got.data(), raw_got.size()) << (raw_eof ? "|eof" : "") << "\n";
    sv_ev.clear(); cl_ev[0].clear(); cl_ev[1].clear(); kn_ev.clear(); raw_got.clear();
}
// returns false for bad-op
static bool op(const std::vector<std::string> &w) {
    create();
    if (g_livelock) { std::cout << "P livelock\n"; return true; }     // nothing more is compared in this case
    const std::string &o = w[0];
    SockAddr addr{DomainSockPath(g_path)};
    uint64_t k = 0, n = 0; std::vector<uint8_t> d; NScript sc; int ret = 1; std::vector<int> dl;
    auto cidx = [&](size_t pos) { return w.size() > pos && vh::to_u64(w[pos], k) && k < 2; };
    if (o == "nsinit" && w.size() == 1) { if (sv->state() == TcpServer::State::kNone) sv_install(); ret = sv->initialize(addr, 8); }
    else if (o == "nsstart" && w.size() == 1) ret = sv->start();
    else if (o == "nsstop" && w.size() == 1) sv->stop();
    else if (o == "nscleanup" && w.size() == 1) { sv->cleanup(); sv_install(); }
    else if (o == "nssend" && w.size() == 3 && vh::to_u64(w[1], k) && k < 16 && vh::unhex(w[2], d) && d.size() <= 1024)
        ret = k < toks.size() ? sv->send(toks[k], d.empty() ? (const void *)&g_dummy : (const void *)d.data(), d.size())
                              : sv->send(TcpServer::ConnToken(1000 + k, k), "x", 1);        // a token this server never issued
    else if (o == "nsdisc" && w.size() == 2 && vh::to_u64(w[1], k) && k < 16)
        ret = k < toks.size() ? sv->disconnect(toks[k]) : sv->disconnect(TcpServer::ConnToken(1000 + k, k));
    else if (o == "nsshut" && w.size() == 2 && vh::to_u64(w[1], k) && k < 16)
        ret = k < toks.size() ? sv->shutdown(toks[k], SHUT_WR) : sv->shutdown(TcpServer::ConnToken(1000 + k, k), SHUT_WR);
    else if (o == "ncshut" && w.size() == 2 && cidx(1)) ret = cl[k]->shutdown(SHUT_WR);
    else if (o == "nbudget" && w.size() == 2 && vh::to_u64(w[1], n) && n <= 8) g_budget = (int)n;
    else if (o == "nsvalid" && w.size() == 2 && vh::to_u64(w[1], k) && k < 16)
        ret = k < toks.size() ? sv->isClientValid(toks[k]) : sv->isClientValid(TcpServer::ConnToken(1000 + k, k));
    else if (o == "nscb" && w.size() == 3 && (w[1] == "conn" || w[1] == "disc" || w[1] == "recv" || w[1] == "sc")
             && parse_script(w[2], w[1] == "sc" ? "pdchm" : "pdschm", sc)) {
        if (w[1] == "conn") sv_conn = sc; else if (w[1] == "disc") sv_disc = sc; else if (w[1] == "recv") sv_recv = sc; else sv_sc = sc;
    }
    else if (o == "ncinit" && w.size() == 2 && cidx(1)) { if (cl[k]->state() == TcpClient::State::kNone) cl_install((int)k); ret = cl[k]->initialize(addr); }
    else if (o == "ncstart" && w.size() == 2 && cidx(1)) ret = cl[k]->start();
    else if (o == "ncstop" && w.size() == 2 && cidx(1)) cl[k]->stop();
    else if (o == "nccleanup" && w.size() == 2 && cidx(1)) { cl[k]->cleanup(); cl_install((int)k); }
    else if (o == "ncrec" && w.size() == 3 && cidx(1) && vh::to_u64(w[2], n) && n <= 1) cl[k]->setAutoReconnect(n == 1);
    else if (o == "ncsend" && w.size() == 3 && cidx(1) && vh::unhex(w[2], d) && d.size() <= 1024)
        ret = cl[k]->send(d.empty() ? (const void *)&g_dummy : (const void *)d.data(), d.size());
    else if (o == "nccb" && w.size() == 4 && cidx(1) && (w[2] == "conn" || w[2] == "disc" || w[2] == "recv" || w[2] == "sc")
             && parse_script(w[3], (w[2] == "conn" || w[2] == "disc") ? "ptschm" : "ptchm", sc)) {
        if (w[2] == "conn") cl_conn[k] = sc; else if (w[2] == "disc") cl_disc[k] = sc; else if (w[2] == "recv") cl_recv[k] = sc; else cl_sc[k] = sc;
        cl_install((int)k, w[2] == "conn" ? 0 : w[2] == "disc" ? 1 : w[2] == "recv" ? 2 : 3);      // the TcpClient setter, in whatever state the client is
    }
    else if (o == "nkinit" && w.size() == 2 && vh::to_u64(w[1], n) && n <= 5) { kn->initialize(addr); kn_install(); kn->setTryTimes((int)n); }
    else if (o == "nkstart" && w.size() == 1) ret = kn->start();
    else if (o == "nkstop" && w.size() == 1) kn->stop();
    else if (o == "nkcleanup" && w.size() == 1) kn->cleanup();
    else if (o == "nkdelay" && w.size() == 2 && parse_delays(w[1], dl)) {
        // setReconnectDelayCalcFunc: seconds after the k-th failure from the table, 1 beyond it
        kn->setReconnectDelayCalcFunc([dl](int k) { return (k >= 1 && (size_t)(k - 1) < dl.size()) ? dl[k - 1] : 1; });
    }
    else if (o == "nkdelayact" && w.size() == 4 && parse_delays(w[1], dl) && vh::to_u64(w[2], n) && n >= 1 && n <= 5
             && (w[3] == "stop" || w[3] == "cleanup" || (w[3] == "restart" && n >= 2))) {
        // … a delay function that calls stop() / cleanup() of its own connector when it is asked about the n-th failure
        // … or stop() and start(): the connect(2) of that start() is refused at once (the function is asked again, about failure 1,
        // from inside itself; afterwards the timer object is not the one the outer call made)
        bool cleanup = w[3] == "cleanup", restart = w[3] == "restart"; int at = (int)n; Guard g;
        kn->setReconnectDelayCalcFunc([dl, at, cleanup, restart, g](int k) {
            int r = (k >= 1 && (size_t)(k - 1) < dl.size()) ? dl[k - 1] : 1;
            if (k == at) {
                if (cleanup) kn->cleanup();
                else if (restart) { kn->stop(); int before = g_conn_refuse; ++g_conn_refuse; kn->start(); if (g_conn_refuse > before) g_conn_refuse = before; }   // (socket() failed instead)
                else kn->stop();
            }
            g.touch();
            return r; });
    }
    else if (o == "nkcb" && w.size() == 3 && (w[1] == "fail" || w[1] == "conn") && parse_script(w[2], "pc", sc)) {
        if (w[1] == "fail") kn_fail = sc; else if (w[1] == "conn") kn_conn = sc; else return false;
    }
    else if (o == "nrconn" && w.size() == 1 && raw_fd < 0) {
        int sf = g_sock_fail, cr = g_conn_refuse; bool ip = g_inprogress; g_sock_fail = 0; g_conn_refuse = 0; g_inprogress = false;     // the faults are for the library's calls
        raw_fd = socket(AF_UNIX, SOCK_STREAM | SOCK_NONBLOCK, 0);
        struct sockaddr_un a; socklen_t len = addr.toSockAddr(a);
        ret = ::connect(raw_fd, (struct sockaddr *)&a, len) == 0;
        g_sock_fail = sf; g_inprogress = ip; g_conn_refuse = cr;
        if (!ret) { close(raw_fd); raw_fd = -1; } else raw_eof = false;
    }
    else if (o == "nrsend" && w.size() == 2 && raw_fd >= 0 && vh::unhex(w[1], d) && d.size() <= 1024 && !d.empty())
        ret = real_write()(raw_fd, d.data(), d.size()) == (ssize_t)d.size();
    else if (o == "nrclose" && w.size() == 1 && raw_fd >= 0) { close(raw_fd); raw_fd = -1; }
    else if (o == "nrhold" && w.size() == 3 - 1 && vh::to_u64(w[1], n) && n <= 1) raw_hold = (n == 1);
    else if (o == "nfault" && w.size() == 3 && vh::to_u64(w[2], n) && n <= 8 &&
             (w[1] == "socket" || w[1] == "accept" || w[1] == "late" || w[1] == "inprog" || w[1] == "eintr" || w[1] == "again"
              || w[1] == "abortkeep" || w[1] == "refuse" || w[1] == "abort")) {
        if (w[1] == "socket") g_sock_fail = (int)n;
        else if (w[1] == "accept") { g_accept_fail = (int)n; g_accept_errno = EMFILE; }
        else if (w[1] == "again") { g_accept_fail = (int)n; g_accept_errno = EAGAIN; }
        else if (w[1] == "abortkeep") { g_accept_fail = (int)n; g_accept_errno = ECONNABORTED; }
        else if (w[1] == "abort") g_accept_abort = (int)n;
        else if (w[1] == "refuse") g_conn_refuse = (int)n;
        else if (w[1] == "late") g_late_fail = (int)n;
        else if (w[1] == "eintr") { g_inprogress = n != 0; g_inprogress_errno = EINTR; }
        else { g_inprogress = n != 0; g_inprogress_errno = EINPROGRESS; }
    }
    else if (o == "nadv" && w.size() == 2 && vh::to_u64(w[1], n) && n <= 100000) vt::advance_ms((int64_t)n);
    else return false;
    report(ret);
    return true;
}
}  // namespace net

static void pass(uint32_t mask) {
    g_filter = true; g_mask = mask;
    g_loop->runLoop(event::Loop::Mode::kOnce);
    g_filter = false; g_mask = 0;
}

int main() {
    signal(SIGPIPE, SIG_IGN);
    LogOutput_Disable();
    vt::enable(1000, 1700000000000LL);
    g_loop = event::Loop::New("epoll");
    std::string line;
    new_case();
    while (std::getline(std::cin, line)) {
        auto w = vh::words(line);
        if (w.empty()) continue;
        if (w[0] == "case") { new_case(); std::cout << line << "\n"; continue; }
        const std::string &op = w[0];
        if (op.size() >= 2 && op[0] == 'n' && std::string("sckrabf").find(op[1]) != std::string::npos) {
            int saved = g_fd; g_fd = -1;
            bool okn = net::op(w);
            g_fd = saved;
            if (!okn) std::cout << "bad-op\n";
            continue;
        }
        std::vector<uint8_t> d; uint64_t n = 0, k = 0; Script sc;
        bool ok = true; int ret = 1;
        if (g_refused) { std::cout << "P kernel-refuses\n"; continue; }      // nothing more is compared in this case
        if (op == "pread" && w.size() == 2 && vh::to_u64(w[1], n) && n >= 1) {
            // the peer application reads at most n bytes of what has arrived; with nothing there it learns how the stream ended
            drain_peer();
            std::string got;
            if (g_app_end == 'o') {
                if (!g_stash.empty()) { got = g_stash.substr(0, n); g_stash.erase(0, got.size()); }
                else g_app_end = g_tr_end;
            }
            std::cout << "P pread got=" << digest((const uint8_t *)got.data(), got.size())
                      << " end=" << (g_app_end == 'o' ? "open" : g_app_end == 'e' ? "eof" : "reset") << "\n";
            continue;
        }
        if (op == "init" && w.size() == 2 && vh::to_u64(w[1], n) && n <= 7 && !g_conn) {
            ret = g_b->initialize(g_fdobj, (short)n);
        } else if (op == "initnull" && w.size() == 1 && !g_conn) {
            ret = g_b->initialize(util::Fd(), BufferedFd::kReadWrite);
        } else if (op == "cinit" && w.size() == 1 && !g_conn && g_b->state() == BufferedFd::State::kEmpty) {
            g_c = new TcpConnection(g_loop, network::SocketFd(g_fdobj), network::SockAddr());
            g_c->enable();                      // as TcpAcceptor / TcpConnector do
            g_conn = true;
            g_fdobj = util::Fd();               // the connection holds the only reference: its deferred delete closes the descriptor
        } else if (op == "en" && w.size() == 1 && !g_conn) {
            ret = g_b->enable();
        } else if (op == "dis" && w.size() == 1 && !g_conn) {
            ret = g_b->disable();
        } else if (op == "send" && w.size() == 2 && data(w[1], d)) {
            ret = api_send(d);
        } else if (op == "rcb" && w.size() == 3 && w[2] == "none" && vh::to_u64(w[1], n)) {
            if (!(g_conn && g_c->isExpired())) g_rcb = Script();
            install_rcb(g_conn ? (network::ByteStream *)g_c : (network::ByteStream *)g_b, n);
        } else if (op == "rcb" && w.size() == 4 && vh::to_u64(w[1], n) && vh::to_u64(w[2], k) && parse_script(w[3], sc) && sc.set) {
            if (!(g_conn && g_c->isExpired())) { g_rcb = sc; g_consume = k; }
            install_rcb(g_conn ? (network::ByteStream *)g_c : (network::ByteStream *)g_b, n);
        } else if (op == "scb" && w.size() == 2 && parse_script(w[1], sc)) {
            if (!(g_conn && g_c->isExpired())) g_scb = sc;
            if (g_conn) g_c->setSendCompleteCallback(plain_cb(&g_scb, "SC")); else g_b->setSendCompleteCallback(plain_cb(&g_scb, "SC"));
        } else if (op == "zcb" && w.size() == 2 && !g_conn && parse_script(w[1], sc)) {
            g_zcb = sc; g_b->setReadZeroCallback(plain_cb(&g_zcb, "Z"));
        } else if (op == "recb" && w.size() == 2 && !g_conn && parse_script(w[1], sc)) {
            g_recb = sc; g_b->setReadErrorCallback(errno_cb(&g_recb, "RE"));
        } else if (op == "wecb" && w.size() == 2 && !g_conn && parse_script(w[1], sc)) {
            g_wecb = sc; g_b->setWriteErrorCallback(errno_cb(&g_wecb, "WE"));
        } else if (op == "dcb" && w.size() == 2 && g_conn && parse_script(w[1], sc)) {
            g_dcb = sc; g_c->setDisconnectedCallback(plain_cb(&g_dcb, "DC"));
        } else if (op == "disc" && w.size() == 1 && g_conn) {
            ret = g_c->disconnect();
        } else if (op == "shut" && w.size() == 1 && g_conn) {
            ret = g_c->shutdown(SHUT_WR);
        } else if (op == "defer" && w.size() == 1) {
            flush_loop();                       // a loop pass without events on the descriptor: the deferred tasks run
        } else if (op == "feed" && w.size() == 2 && data(w[1], d) && !g_eof && !g_closed && g_pending + d.size() <= 65536) {
            size_t done = 0;
            while (done < d.size()) {
                ssize_t r = real_write()(g_peer, d.data() + done, d.size() - done);
                if (r > 0) done += r; else { fprintf(stderr, "harness: feed failed errno=%d\n", errno); abort(); }
            }
            g_pending += d.size();
        } else if (op == "peof" && w.size() == 1) {
            shutdown(g_peer, SHUT_WR); g_eof = true;
        } else if (op == "kw" && w.size() >= 2) {
            std::vector<WAns> l(w.size() - 1);
            for (size_t i = 1; i < w.size() && ok; ++i) ok = parse_wans(w[i], l[i - 1]);
            if (ok) for (auto &a : l) { g_wq.push_back(a); ++g_faults[a.kind == 'a' ? "w-accept" : a.kind == 'e' ? "w-eagain" : "w-error"]; }
        } else if (op == "kr" && w.size() >= 2) {
            std::vector<RAns> l(w.size() - 1);
            for (size_t i = 1; i < w.size() && ok; ++i) ok = parse_rans(w[i], l[i - 1]);
            if (ok) for (auto &a : l) g_rq.push_back(a);
        } else if (op == "wmax" && w.size() == 2 && vh::to_u64(w[1], n)) {
            g_wmax = n;
        } else if (op == "rmax" && w.size() == 2 && vh::to_u64(w[1], n)) {
            g_rmax = n;
        } else if (op == "shr" && w.size() == 1) {
            if (BufferedFd *b = bfd()) { b->shrinkRecvBuffer(); b->shrinkSendBuffer(); }
        } else if (op == "rd" && w.size() == 1) {
            pass(EPOLLIN | EPOLLHUP | EPOLLERR | EPOLLRDHUP);
        } else if (op == "wr" && w.size() == 1) {
            pass(EPOLLOUT);
        } else if (op == "rw" && w.size() == 1) {
            pass(EPOLLIN | EPOLLHUP | EPOLLERR | EPOLLRDHUP | EPOLLOUT);
        } else if (op == "tcp" && w.size() == 6) {
            uint64_t rb, ch; std::vector<std::pair<uint64_t, uint64_t>> sizes; bool good = true;
            if ((w[1] != "sd" && w[1] != "ss" && w[1] != "cs") || (w[2] != "cb" && w[2] != "op" && w[2] != "opu" && w[2] != "opuS") || !vh::to_u64(w[3], rb) || !vh::to_u64(w[4], ch)
                || rb < 1024 || rb > 1048576 || ch < 256 || ch > 1048576) good = false;
            size_t pos = 0, total = 0;
            while (good) {
                size_t c = w[5].find(',', pos);
                std::string t = w[5].substr(pos, c == std::string::npos ? std::string::npos : c - pos);
                size_t colon = t.find(':'); uint64_t sd, ln;
                if (colon == std::string::npos || !vh::to_u64(t.substr(0, colon), sd) || !vh::to_u64(t.substr(colon + 1), ln) || sd >= 256 || ln == 0 || ln > 8388608) { good = false; break; }
                sizes.push_back({sd, ln}); total += ln;
                if (c == std::string::npos) break;
                pos = c + 1;
            }
            if (!good || sizes.size() > 16 || total > 33554432) { std::cout << "bad-op\n"; continue; }
            int saved = g_fd; g_fd = -1;           // no interposed I/O, real clock
            vt::disable();
            run_tcp(w[1], w[2] == "cb", w[2] == "opu" || w[2] == "opuS", w[2] == "opuS", rb, ch, sizes);
            vt::enabled = true;
            g_fd = saved;
            continue;
        } else if (op == "e2e" && w.size() == 9) {
            uint64_t n1, c1, n2, c2, thr, sb;
            bool sc = w[1] == "sc";
            if ((w[1] != "sc" && w[1] != "ac") || !vh::to_u64(w[2], n1) || !vh::to_u64(w[3], c1) || !vh::to_u64(w[4], n2) || !vh::to_u64(w[5], c2)
                || !vh::to_u64(w[6], thr) || w[7].size() != 1 || std::string("csh").find(w[7][0]) == std::string::npos || !vh::to_u64(w[8], sb)
                || c1 == 0 || c2 == 0 || n1 == 0 || n2 == 0 || n1 > 16777216 || n2 > 16777216 || (sc && sb != 0) || (w[7][0] == 's' && thr > 1)) {
                std::cout << "bad-op\n"; continue;
            }
            int saved = g_fd; g_fd = -1;           // no interposition, real clock for the end-to-end run
            vt::disable();
            run_e2e(sc, n1, c1, n2, c2, thr, w[7][0], sb);
            vt::enabled = true;
            g_fd = saved;
            continue;
        } else ok = false;
        if (!ok) { std::cout << "bad-op\n"; continue; }
        if (g_refused) { std::cout << "P kernel-refuses\n"; continue; }
        report(ret);
    }
    reset_case();
    delete g_loop;
    return 0;
}
