"""C06 — buffered descriptor / TCP connection preserves the byte stream."""
import vlib
ID = 'C06'
LEAN_MODULES = ['TboxModel.C06.Props']
EXE = 'c06'
THEOREMS = []
SOURCES = ['modules/network/buffered_fd.cpp', 'modules/network/tcp_connection.cpp', 'modules/network/socket_fd.cpp',
           'modules/network/sockaddr.cpp', 'modules/network/ip_address.cpp', 'modules/util/fd.cpp', 'modules/util/buffer.cpp'] \
          + vlib.EVENT_SOURCES + vlib.BASE_SOURCES
FLAVOUR = 'asan'
LIBS = ['-ldl']


def gen(rng, tier):
    yield ['init 3', 'send 010203', 'en', 'wr', 'wr']
