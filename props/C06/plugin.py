"""C06 — buffered descriptor / TCP connection preserves the byte stream (BufferedFd, TcpConnection)."""
import vlib
ID = 'C06'
LEAN_MODULES = ['TboxModel.C06.Props', 'TboxModel.C06.NetProps', 'TboxModel.C06.NetPropsCl', 'TboxModel.C06.NetPropsRc', 'TboxModel.C06.KernelProps']
EXE = 'c06'
THEOREMS = ['Tbox.C06.C06_send_stream', 'Tbox.C06.C06_send_ghost', 'Tbox.C06.C06_send_drop_only_on_error',
            'Tbox.C06.C06_send_refused_only_on_lasting_error', 'Tbox.C06.C06_send_transient_error_queues',
            'Tbox.C06.C06_send_drop_counterexample_unpatched', 'Tbox.C06.C06_send_progress_any_answers',
            'Tbox.C06.C06_write_error_keeps_queue', 'Tbox.C06.C06_write_error_reported', 'Tbox.C06.C06_write_error_each_pass', 'Tbox.C06.C06_send_progress_counterexample_disarm',
            'Tbox.C06.C06_write_sites_separate', 'Tbox.C06.C06_send_eventually_drains', 'Tbox.C06.C06_read_eintr_harmless',
            'Tbox.C06.C06_read_eintr_counterexample_unpatched', 'Tbox.C06.C06_spill_keeps_order', 'Tbox.C06.C06_spill_bound',
            'Tbox.C06.C06_send_progress', 'Tbox.C06.C06_send_drains', 'Tbox.C06.C06_send_complete_only_when_empty',
            'Tbox.C06.C06_send_progress_counterexample_unpatched', 'Tbox.C06.C06_recv_stream',
            'Tbox.C06.C06_recv_presentation', 'Tbox.C06.C06_close_after_data',
            'Tbox.C06.C06_close_after_data_counterexample', 'Tbox.C06.C06_close_once', 'Tbox.C06.C06_close_reported',
            'Tbox.C06.C06_close_once_counterexample',
            'Tbox.C06.Net.C06_net_server_conn_order', 'Tbox.C06.Net.C06_net_server_live_tokens', 'Tbox.C06.Net.C06_net_stale_token',
            'Tbox.C06.Net.C06_net_tokens_unique', 'Tbox.C06.Net.C06_net_accept_token', 'Tbox.C06.Net.C06_net_no_use_after_free',
            'Tbox.C06.Net.C06_net_server_stop_counterexample', 'Tbox.C06.Net.C06_net_connector_fail_counterexample',
            'Tbox.C06.Net.C06_net_server_stop_clears', 'Tbox.C06.Net.C06_net_server_quiet', 'Tbox.C06.Net.C06_net_one_attempt',
            'Tbox.C06.Net.C06_net_stop_cancels',
            'Tbox.C06.Net.C06_net_client_conn_order', 'Tbox.C06.Net.C06_net_client_quiet', 'Tbox.C06.Net.C06_net_client_view',
            'Tbox.C06.Net.C06_net_connector_idle_unless_connecting',
            'Tbox.C06.Net.C06_net_client_no_stale_events', 'Tbox.C06.Net.C06_net_client_no_stale_after_reconnect',
            'Tbox.C06.Net.C06_net_client_link_ids_fresh', 'Tbox.C06.Net.C06_net_client_no_events_of_earlier_link',
            'Tbox.C06.Net.C06_net_connect_fresh_link', 'Tbox.C06.Net.C06_net_default_delay', 'Tbox.C06.Net.C06_net_retry_delay',
            'Tbox.C06.Net.C06_net_retry_on_time', 'Tbox.C06.Net.C06_net_adv_idle', 'Tbox.C06.Net.C06_net_stale_write_event',
            'Tbox.C06.Net.C06_net_delay_func_stops', 'Tbox.C06.Net.C06_net_delay_func_restarts', 'Tbox.C06.Net.C06_net_delay_func_stops_counterexample',
            'Tbox.C06.Kern.C06_kernel_stream', 'Tbox.C06.Kern.C06_active_close_delivers_partial', 'Tbox.C06.Kern.C06_kernel_over_model',
            'Tbox.C06.Kern.C06_peer_reads_to_eof', 'Tbox.C06.Kern.C06_abortive_close_resets', 'Tbox.C06.Kern.C06_unix_close_keeps_queue',
            'Tbox.C06.Kern.C06_linger_close_counterexample', 'Tbox.C06.Kern.C06_close_unread_inbound_counterexample',
            'Tbox.C06.Kern.C06_width_cast', 'Tbox.C06.Kern.C06_width_remainder', 'Tbox.C06.Kern.C06_width_negative_cast_counterexample']
SOURCES = ['modules/network/buffered_fd.cpp', 'modules/network/tcp_connection.cpp', 'modules/network/socket_fd.cpp',
           'modules/network/sockaddr.cpp', 'modules/network/ip_address.cpp', 'modules/util/fd.cpp', 'modules/util/buffer.cpp',
           'modules/network/tcp_server.cpp', 'modules/network/tcp_client.cpp', 'modules/network/tcp_acceptor.cpp',
           'modules/network/tcp_connector.cpp', 'modules/util/fs.cpp'] \
          + vlib.EVENT_SOURCES + vlib.BASE_SOURCES
FLAVOUR = 'asan'
LIBS = ['-ldl']
BATCH = 100
BATCH_TIMEOUT = 300
TRUSTED = ['model lean/TboxModel/C06/Model.lean is hand-written from buffered_fd.cpp + tcp_connection.cpp (with patches/C06-01..03, 09, 10); tied by '
           'differential runs of the real classes on a socket pair and the real epoll loop',
           'send_buff_/recv_buff_ are taken as FIFO byte queues (that is C07_refines_fifo)',
           'harness interposes write/readv/epoll_wait for the descriptor under test (extern "C" definitions forwarding with '
           'dlsym(RTLD_NEXT)): the op file dictates the kernel answers and which readiness (read, write, both) a pass reports; a write(2) made while a send() call of '
           'the object under test is on the stack is the write of the send site, every other one the write of the write-ready callback (send() calls no user callback)',
           'how one readv is split between the writable space of the receive buffer and the 1 KiB spill buffer depends on the capacity, which is not in the model: the model '
           'proves the split harmless for every writable size (C06_spill_keeps_order) and the harness counts the splits that occurred (evidence: spill_buffer_bytes_in_real_reads)',
           'plumbing model lean/TboxModel/C06/NetModel.lean (TcpServer table, TcpClient, TcpConnector, accept loop; with patches/C06-04/05) is hand-written; '
           'a TcpConnection is used there through what Props.lean proves about it; the loop is modelled as passes over a ready list in epoll order '
           '(level-triggered re-queue, read before write per descriptor, deferred tasks at the end of a pass, writes of one pass coalesced); tied by '
           'differential runs to quiescence on a Unix-domain socket under a virtual clock, callbacks printed per connection in canonical form',
           'the end-to-end runs (TcpServer+TcpClient, TcpAcceptor+TcpConnector over a Unix-domain socket, no interposition) are judged against the '
           'stream/close specification directly (driver e2eLine), not against the BufferedFd model',
           'private members are read for the M line and the private TcpConnection constructor is called via `#define private public` in the harness only',
           'kernel-queue model lean/TboxModel/C06/Kernel.lean (bytes accepted by write(2) stay queued until the peer application reads; close by the deferred '
           'delete of the BufferedFd: graceful = queue then EOF, SO_LINGER{on,0} on AF_INET or unread inbound data = abortive; shutdown(SHUT_WR) = EOF after '
           'the queue) is hand-written from Linux tcp_close()/unix_release_sock() semantics; tied (a) on the interposed AF_UNIX pair: the peer application '
           'reads only through `pread`, the real kernel decides EOF vs ECONNRESET, fcntl/setsockopt/shutdown/close on the descriptor are interposed and '
           'compared as `M … sys=`; (b) on a real AF_INET loopback connection (`tcp` lines: TcpServer::disconnect / TcpServer::stop / TcpClient::stop at '
           'send-complete, raw peer with a small SO_RCVBUF that reads one chunk only when the sender is stuck, no interposed I/O)']
ASSUMPTIONS = ['plumbing cases: at most one connector retries or reconnects at a time (two-client cases run without auto-reconnect), callback scripts '
               'do not call cleanup(), callbacks that would feed each other for ever are cut off on both sides (`P livelock`)',
               'the kernel delivers bytes of a stream socket in order and reports EOF only after them (oracle: `pending`, `eof`)',
               'a write(2) answer accepts at most the bytes offered; readv(2) returns 0 only at EOF',
               'callbacks do not destroy the object they are called from; TcpConnection objects are deleted only by deferred tasks',
               'inside one epoll dispatch the events subscribed at its start are served in subscription order, each only if still subscribed (C03)',
               'the kernel delivers a stream socket\'s send queue in order; close(2) without SO_LINGER and without unread inbound data delivers the queue, then FIN; '
               'with SO_LINGER{on,0} (AF_INET) or unread inbound data it discards what has not reached the peer and the peer reads ECONNRESET',
               'C06_active_close_delivers_partial assumes no inbound data is unread at the close (C06_close_unread_inbound_counterexample, replayed on the real code by the `tcp … opu` line; '
               'the same scenario judged against the statement itself, `tcp … opuS`, is the recorded finding active-close-unread-inbound)',
               'write(2) errno values are oracle inputs (`e<n>`: EINTR 4, EIO 5, EBADF 9, ENOMEM 12, EFAULT 14, EFBIG 27, ENOSPC 28, EPIPE 32, ENETUNREACH 101, ECONNRESET 104, ENOBUFS 105, ENOTCONN 107, ETIMEDOUT 110, EHOSTUNREACH 113, EDQUOT 122; `ea` EAGAIN), each answer addressed '
               'to the write in send() (`s:`), to the write in the write-ready callback (`c:`) or to whichever comes first; readv: `ea` EAGAIN, `ei` EINTR, `er` ECONNRESET '
               '(other lasting readv errors are not distinguished by the code)',
               'the model is the code with patches/C06-09 (send() keeps the payload on a transient write error, returns false on a lasting one) and C06-10 (EINTR from readv is not a '
               'read error) applied: until the lead has applied them the check reports the as-found behaviour on /repo as violations (replays corpus/C06/18.., 19..)',
               'a reconnect-delay function that restarts its connector (`nkdelayact … restart`: stop() + start() from inside the function) does so when asked about failure k >= 2 and the '
               'connect() of that start() is refused at once (forced by the harness); a restart whose connect succeeds or stays in progress is not modelled; timer objects released by '
               'stop() are deleted by a deferred task, i.e. not before the function has returned (so the address compare of the recheck of patches/C06-11 cannot see a reused address)']
RULE = ('op sequences on one BufferedFd or TcpConnection generated by props/C06/plugin.py: sends of 0 B..256 KiB (thorough: 4 MiB) before '
        'enable / while running / after disable, scripted kernel answers (partial accept, a0, EAGAIN, EINTR, ENOBUFS, ENOMEM, EPIPE, ECONNRESET, EIO, ENOSPC, '
        'each for the write in send(), for the write in the write-ready callback or for either; read chunks, fills ending 0/1/2/1023/1024/1025 bytes behind the '
        'writable space of the receive buffer, EAGAIN, EINTR, error), thresholds 0..N, callbacks consuming 0/some/all and calling send/enable/disable/disconnect, peer close at any point, '
        'peer-application reads of 1 B..everything at any point, shutdown(SHUT_WR), active close with bytes still in the kernel queue / with unread inbound data; '
        'AF_INET loopback runs of 2-4 MiB (thorough 8-12 MiB) with sends of 1 B..3 MiB closed actively at send-complete; plumbing op lists with fault schedules on '
        'socket/connect/accept/SO_ERROR; '
        'non-trivial = the model run takes at least two distinct fault/boundary branches (partial or EAGAIN write, queued send, enable with '
        'queued bytes, leftover re-presentation, multi-chunk read, below-threshold read, EOF, write stall, transient / lasting write error at either site, EINTR read); distinct = distinct op text')

INTERESTING = {'close-with-queue', 'close-unread', 'shut-with-queue', 'pread-left', 'pread-end-eof', 'pread-end-reset', 'tcp-2MiB', 'net-connect-refused', 'net-accept-aborted',
               'net-stop-while-established', 'net-backlog-reset', 'net-delayfunc-stop', 'net-delayfunc-cleanup', 'net-delayfunc-restart', 'net-reconnect-twice-in-op', 'net-kndelay-armed', 'net-retry-zero-delay', 'net-kndelay-set-in-delay', 'net-stale-after-newer',
               'send-partial', 'send-eagain', 'send-before-enable', 'send-append', 'send-transient-queued', 'send-eintr', 'send-error-refused', 'enable-with-queued',
               'send-passes-cb-answer', 'wr-passes-send-answer', 'wr-error-transient', 'wr-error-lasting', 'wr-eintr', 'wr-eagain', 'rd-eintr', 'rd-eintr-midstream',
               'rd-with-leftover', 'rd-multi-chunk', 'rd-below-threshold', 'rd-eof', 'rd-fault', 'rd-stopped-early',
               'flush-at-close', 'rw-both', 'rw-write-skipped', 'rw-armed-in-dispatch', 'e2e-threshold', 'e2e-sndbuf',
               'net-svstop-live', 'net-svcleanup-live', 'net-stale-token', 'net-svdisc', 'net-retry-timer', 'net-sv-disconnected',
               'net-cl-disconnected', 'net-stop-in-callback', 'net-cleanup-in-callback', 'net-shutdown', 'net-send-more', 'net-socket-fail', 'net-accept-fail', 'net-late-fail', 'net-reconnect', 'net-connect-failed', 'net-clstop-2', 'net-clstop-3', 'net-knstop-2', 'net-knstop-3',
               'wr-partial', 'wr-stalled', 'wr-drained', 'consume-some', 'consume-none', 'discard', 'disconnected'}
FAULTS = {}


def _count(k, n=1):
    FAULTS[k] = FAULTS.get(k, 0) + n


def rbytes(rng, n):
    return ''.join('%02x' % rng.randrange(256) for _ in range(n)) or '-'


def payload(rng, tier, small=False):
    r = rng.random()
    if small or r < 0.55:
        n = rng.choice([0, 1, 1, 2, 3, 5, 8, 16, 17, 31])
        return rbytes(rng, n), n
    if r < 0.85:
        n = rng.choice([64, 255, 256, 257, 1000, 1023, 1024, 1025, 2048, 4096, 5000])
    elif r < 0.96:
        n = rng.choice([16384, 65536, 100000, 262144])
    else:
        n = rng.choice([1048576, 4194304]) if (tier == 'thorough' and rng.random() < 0.04) else 300000
    return 'g%d:%d' % (rng.randrange(256), n), n


def script(rng, tier, conn, allow_none=True):
    r = rng.random()
    if allow_none and r < 0.12: return 'none'
    if r < 0.55: return '-'
    acts = []
    for _ in range(rng.choice([1, 1, 2])):
        q = rng.random()
        if q < 0.6: acts.append('s:' + payload(rng, tier, small=rng.random() < 0.8)[0])
        elif conn: acts.append('disc')
        elif q < 0.8: acts.append('dis')
        else: acts.append('en')
    return ','.join(acts)


WERRNO = [4, 4, 4, 105, 12, 32, 104, 5, 28,     # EINTR, ENOBUFS, ENOMEM (transient); EPIPE, ECONNRESET, EIO, ENOSPC (lasting)
          110, 113, 107, 101, 9, 14, 27, 122]  # ETIMEDOUT, EHOSTUNREACH, ENOTCONN, ENETUNREACH, EBADF, EFAULT, EFBIG, EDQUOT (lasting)
WERRNO_ALL = sorted(set(WERRNO))


def wsite(rng, tok):
    """address the answer to the write in send() / in the write-ready callback / to whichever comes first"""
    r = rng.random()
    if r < 0.25: _count('w-site-send'); return 's:' + tok
    if r < 0.5: _count('w-site-cb'); return 'c:' + tok
    return tok


def wanswers(rng, n):
    out = []
    for _ in range(rng.choice([1, 1, 2, 3, 5])):
        q = rng.random()
        if q < 0.5:
            k = rng.choice([0, 1, 1, 2, 3, 7, max(n - 1, 0), n, n + 1, n // 2, 1000, 4096, 2147483647, 2147483648, 4294967296, 9223372036854775807, 18446744073709551615])
            out.append(wsite(rng, 'a%d' % k)); _count('w-partial' if k < n else 'w-accept')
        elif q < 0.72:
            out.append(wsite(rng, 'ea')); _count('w-eagain')
        elif q < 0.93:
            e = rng.choice(WERRNO)
            out.append(wsite(rng, 'e%d' % e)); _count('w-eintr' if e == 4 else 'w-transient' if e in (12, 105) else 'w-error')
        else:
            out.append(wsite(rng, 'er')); _count('w-error')
    return out


def ranswers(rng):
    out = []
    for _ in range(rng.choice([1, 1, 2, 3, 6])):
        q = rng.random()
        if q < 0.6:
            out.append('c%d' % rng.choice([1, 1, 1, 2, 3, 7, 64, 1023, 1024])); _count('r-chunk')
        elif q < 0.75:
            out.append('f%d' % rng.choice([0, 0, 1, 2, 1023, 1024, 1024, 1025])); _count('r-boundary')
        elif q < 0.86:
            out.append('ea'); _count('r-eagain')
        elif q < 0.94:
            out.append('ei'); _count('r-eintr')
        else:
            out.append('er'); _count('r-error')
    return out


def rcb(rng, tier, conn):
    thr = rng.choice([0, 0, 0, 1, 1, 2, 3, 5, 16, 100])
    if rng.random() < 0.06: return 'rcb %d none' % thr
    k = rng.choice([0, 0, 1, 1, 2, 3, 7, 100000, 100000])
    return 'rcb %d %d %s' % (thr, k, script(rng, tier, conn, allow_none=False))


def flush(rng):
    return ['wmax 0'] + ['wr'] * 5 + ['rw', 'wr', 'rd', 'rd', 'rw', 'wr'] + ['defer', 'pread %d' % rng.choice([1, 3, 70000, 9999999]), 'pread 9999999', 'pread 1']


def pread(rng):
    return 'pread %d' % rng.choice([1, 1, 2, 3, 7, 100, 1024, 65536, 9999999])


def gen_case(rng, tier, nops):
    conn = rng.random() < 0.3
    ops = []
    last_n = 8
    if conn:
        ops.append('cinit')
        if rng.random() < 0.8: ops.append('dcb ' + script(rng, tier, True))
        if rng.random() < 0.9: ops.append(rcb(rng, tier, True))
        if rng.random() < 0.6: ops.append('scb ' + script(rng, tier, True))
    else:
        if rng.random() < 0.5: ops.append(rcb(rng, tier, False))
        if rng.random() < 0.5: ops.append('scb ' + script(rng, tier, False))
        if rng.random() < 0.06: ops.append('send ' + payload(rng, tier, True)[0])       # send in state Empty: refused
        ops.append('init %d' % rng.choice([3, 3, 3, 3, 3, 3, 1, 2, 0, 7]))
        for name in ('zcb', 'recb', 'wecb'):
            if rng.random() < 0.6: ops.append('%s %s' % (name, script(rng, tier, False)))
        if rng.random() < 0.5: ops.append(rcb(rng, tier, False))
        for _ in range(rng.choice([0, 0, 0, 1, 1, 2])):                                  # sends before enable()
            d, last_n = payload(rng, tier)
            ops.append('send ' + d)
        if rng.random() < 0.92: ops.append('en')
    if rng.random() < 0.2: ops.append('wmax %d' % rng.choice([1, 2, 7, 1000, 65536]))
    if rng.random() < 0.3: ops.append('rmax %d' % rng.choice([1, 1, 2, 255, 1024]))
    for _ in range(nops):
        r = rng.random()
        if r < 0.24:
            if rng.random() < 0.5: ops.append('kw ' + ' '.join(wanswers(rng, last_n)))
            d, last_n = payload(rng, tier)
            ops.append('send ' + d)
        elif r < 0.40:
            if rng.random() < 0.4: ops.append('kw ' + ' '.join(wanswers(rng, last_n)))
            ops.append('wr')
        elif r < 0.52:
            d, n = payload(rng, tier, small=rng.random() < 0.6)
            if n > 60000: d = 'g%d:%d' % (rng.randrange(256), 60000)
            ops.append('feed ' + d)
            if rng.random() < 0.7:
                if rng.random() < 0.5: ops.append('kr ' + ' '.join(ranswers(rng)))
                ops.append('rd')
        elif r < 0.60:
            if rng.random() < 0.4: ops.append('kr ' + ' '.join(ranswers(rng)))
            ops.append('rd')
        elif r < 0.66:
            if rng.random() < 0.3: ops.append('kr ' + ' '.join(ranswers(rng)))
            if rng.random() < 0.3: ops.append('kw ' + ' '.join(wanswers(rng, last_n)))
            ops.append('rw')
        elif r < 0.71:
            ops.append('peof'); ops.append(rng.choice(['rd', 'rd', 'rw']))
        elif r < 0.77:
            ops.append(rcb(rng, tier, conn))
        elif r < 0.80:
            ops.append('scb ' + script(rng, tier, conn))
        elif r < 0.86:
            ops.append(rng.choice(['disc']) if conn else rng.choice(['dis', 'en', 'en', 'dis', 'init 3', 'initnull']))
        elif r < 0.89:
            ops.append('wmax %d' % rng.choice([0, 0, 1, 3, 4096]))
        elif r < 0.92:
            ops.append('rmax %d' % rng.choice([0, 1, 2, 1024]))
        elif r < 0.94:
            ops.append(rng.choice(['shr', 'defer', pread(rng), pread(rng)] + (['shut'] if conn and rng.random() < 0.3 else [])))
        elif r < 0.97 and not conn:
            ops.append('%s %s' % (rng.choice(['zcb', 'recb', 'wecb']), script(rng, tier, False)))
        elif conn:
            ops.append('dcb ' + script(rng, tier, True))
        else:
            ops += ['dis', 'send ' + payload(rng, tier, True)[0], 'en']                  # send after disable()
    if not conn and rng.random() < 0.8: ops.append('en')
    return ops + flush(rng)


def gen_directed(rng, tier):
    """send-before-enable / send-after-disable with every fault in front of the drain"""
    d1, n1 = payload(rng, tier); d2, n2 = payload(rng, tier); d3, _ = payload(rng, tier, True)
    ops = ['init 3', 'scb -', 'wecb -', 'send ' + d1]
    if rng.random() < 0.5: ops.append('send ' + d3)
    ops += ['en', 'kw ' + ' '.join(wanswers(rng, n1)), 'wr', 'send ' + d2, 'wr', 'wr']
    if rng.random() < 0.5: ops += ['dis', 'send ' + d3, 'wr', 'en']
    return ops + flush(rng)


def gen_recv(rng, tier):
    """threshold / consumption / chunking / close at every point"""
    thr = rng.choice([0, 1, 2, 3, 4, 8]); k = rng.choice([0, 1, 2, 3, 100])
    ops = ['init %d' % rng.choice([3, 1]), 'rcb %d %d %s' % (thr, k, rng.choice(['-', '-', 's:aa', 'dis'])),
           'zcb ' + rng.choice(['-', 'dis', 'none']), 'recb -', 'en']
    cut = rng.randrange(0, 5)
    for i in range(5):
        if i == cut: ops.append('peof')
        if i < cut:
            ops.append('feed ' + rbytes(rng, rng.choice([1, 1, 2, 3, 5, 300, 1024, 1500])))
        if rng.random() < 0.6: ops.append('kr ' + ' '.join(ranswers(rng)))
        ops.append(rng.choice(['rd', 'rd', 'rd', 'rw']))
    return ops + ['rd', 'dis', 'en', 'rd', 'rw']


def gen_rw(rng, tier):
    """read and write readiness in one dispatch, with callbacks that arm / disarm the sibling event"""
    conn = rng.random() < 0.4
    acts = ['s:' + rbytes(rng, rng.choice([1, 3, 300]))] + (['disc'] if conn else ['dis', 'en', 'dis,en'])
    ops = ['cinit'] if conn else ['init 3']
    ops += ['rcb %d %d %s' % (rng.choice([0, 0, 1, 4]), rng.choice([0, 1, 100]), rng.choice(acts + ['-'])), 'scb ' + rng.choice(['-', 's:bb', 'none'])]
    if conn: ops.append('dcb ' + rng.choice(['-', 's:cc']))
    else: ops += ['zcb ' + rng.choice(['-', 'dis', 'dis,en', 'none']), 'wecb -', 'en']
    for _ in range(rng.choice([2, 4, 6])):
        r = rng.random()
        if r < 0.4: ops.append('kw ' + ' '.join(wanswers(rng, 8)))
        if r < 0.7: ops.append('send ' + payload(rng, tier, small=rng.random() < 0.7)[0])
        if rng.random() < 0.7: ops.append('feed ' + rbytes(rng, rng.choice([1, 2, 5, 700])))
        if rng.random() < 0.15: ops.append('peof')
        if rng.random() < 0.3: ops.append('kr ' + ' '.join(ranswers(rng)))
        ops.append(rng.choice(['rw', 'rw', 'rw', 'wr', 'rd']))
    return ops + ['peof', 'rw', 'rw'] + flush(rng)


def gen_wfaults(rng, tier):
    """fault schedules on the two write sites, scheduled separately: short count / EAGAIN / EINTR / ENOBUFS / ENOMEM / EPIPE at a
    chosen call index of the write in send() and of the write in the write-ready callback, combinations (short count, then a
    lasting error, then recovery), sends between the passes, a write-error callback that sends / disables / re-enables"""
    conn = rng.random() < 0.3
    ops = ['cinit', 'dcb -'] if conn else ['init 3', 'wecb ' + rng.choice(['-', '-', 'none', 's:ee', 'dis,en', 'dis'])]
    ops += ['scb ' + rng.choice(['-', '-', 's:aa'])] + ([] if conn else ['en'])
    last_n = 8
    for _ in range(rng.choice([2, 3, 5])):
        sched = []
        for site in 'sc':
            for _ in range(rng.choice([0, 1, 1, 2, 3])):
                q = rng.random()
                tok = ('a%d' % rng.choice([0, 1, 2, 3, last_n // 2, max(last_n - 1, 0)]) if q < 0.3 else 'ea' if q < 0.45
                       else 'e%d' % rng.choice(WERRNO))
                sched.append('%s:%s' % (site, tok)); _count('w-site-' + ('send' if site == 's' else 'cb'))
        rng.shuffle(sched)
        if sched: ops.append('kw ' + ' '.join(sched))
        for _ in range(rng.choice([1, 2, 3])):
            d, last_n = payload(rng, tier, small=rng.random() < 0.7)
            ops.append('send ' + d)
            for _ in range(rng.choice([0, 1, 2])): ops.append(rng.choice(['wr', 'wr', 'rw', pread(rng)]))
    return ops + flush(rng)


def gen_we_errno(rng, tier, e):
    """the write in the write-ready callback fails with errno e (every errno the op file may name, EPIPE / ECONNRESET / ETIMEDOUT
    among them) once, twice in a row, mixed with another errno and with EAGAIN, behind a short count, on a raw BufferedFd with the
    write-error callback doing nothing / not set / sending / disabling (+ enabling again) and on a TcpConnection (which sets no
    write-error callback); the answers of the send() site stay separate; afterwards the kernel lets the queue through.  The
    `P WE<errno>` lines are the errno handed to the callback."""
    e2 = rng.choice(WERRNO_ALL)
    conn = rng.random() < 0.2
    cb = rng.choice(['-', '-', '-', 'none', 's:ee', 'dis,en', 'dis', 'en', 's:0102,dis'])
    ops = ['cinit', 'dcb -', 'scb -'] if conn else ['init 3', 'scb ' + rng.choice(['-', '-', 's:aa']), 'wecb ' + cb, 'en']
    d, n = payload(rng, tier, small=True)
    k = rng.choice([0, 1, max(n - 1, 0), n // 2])
    sched = ['s:a%d' % k, 'c:e%d' % e] + rng.choice([[], ['c:e%d' % e], ['c:e%d' % e2], ['c:ea', 'c:e%d' % e], ['c:a1', 'c:e%d' % e2, 'c:e%d' % e]])
    if rng.random() < 0.3: sched.insert(rng.randrange(len(sched) + 1), 's:e%d' % e2)
    _count('w-cb-e%d' % e); _count('w-site-cb', len([x for x in sched if x.startswith('c:')])); _count('w-error')
    ops += ['kw ' + ' '.join(sched), 'send ' + d] + ['wr'] * rng.choice([1, 2, 3]) + ['send ' + rbytes(rng, 2)]
    ops += [rng.choice(['wr', 'rw'])] * rng.choice([2, 4])
    if cb in ('dis', 's:0102,dis') and not conn: ops += ['en', 'wr', 'wr']
    return ops + flush(rng)


def gen_spill(rng, tier):
    """the 1 KiB spill buffer of onReadCallback: reads that end exactly at the end of the writable space of the receive buffer
    (`f0`: the spill gets 0 bytes), one byte behind it, 1023 / 1024 bytes behind it (spill full), and asked for one more
    (`f1025`: the kernel cannot return it, it is read by the next readv of the loop); the writable space is whatever the
    buffer has at that moment (state-derived: leftover kept, everything consumed, shrunk), EINTR / EAGAIN / ECONNRESET
    in the middle of the read loop"""
    thr = rng.choice([0, 0, 1, 5000]); k = rng.choice([0, 7, 100000, 100000, 100000])
    ops = ['init %d' % rng.choice([3, 1]), 'rcb %d %d -' % (thr, k), 'zcb -', 'recb -', 'en']
    for _ in range(rng.choice([3, 5, 8])):
        n = rng.choice([1, 100, 1023, 1024, 1025, 2048, 3000, 9000, 20000, 60000])
        ops.append('feed g%d:%d' % (rng.randrange(256), n))
        ans = ['f%d' % rng.choice([0, 0, 1, 1, 2, 1023, 1024, 1024, 1025])]
        if rng.random() < 0.3: ans = ['c%d' % rng.choice([1, 64, 1024])] + ans
        if rng.random() < 0.25: ans.append(rng.choice(['ei', 'ea', 'er']))
        ops += ['kr ' + ' '.join(ans), 'rd']; _count('r-boundary')
        r = rng.random()
        if r < 0.15: ops.append('shr')
        elif r < 0.3: ops.append('rcb %d %d -' % (rng.choice([0, 1, 5000]), rng.choice([0, 7, 100000])))
        elif r < 0.4: ops += ['kr ei', 'rd', 'rd']
    return ops + ['rcb 0 100000 -', 'rd', 'peof', 'rd', 'rd']


def gen_same(rng, tier):
    """state-derived inputs on ONE object: what a maintainer's 'unchanged? then skip' shortcut would compare with - the same
    payload again (equal to what is queued / to what was just written / its prefix), the same threshold with a different
    callback and the same callback with a different threshold, enable/disable twice, inbound bytes equal to the leftover
    in the receive buffer, the same kernel answer twice"""
    d, n = payload(rng, tier, small=rng.random() < 0.7)
    if n > 5000: d, n = 'g7:5000', 5000
    pre = d if d.startswith('g') or n < 2 else d[:2 * (n // 2)]
    thr = rng.choice([0, 1, 3])
    ops = ['init 3', 'rcb %d 1 -' % thr, 'rcb %d 2 s:01' % thr, 'rcb %d 2 s:01' % (thr + 1), 'scb -', 'scb -', 'zcb -', 'send ' + d, 'send ' + d, 'en', 'en']
    a = rng.choice(['a1', 'ea', 'e4', 'c:e4', 's:e105', 'a0'])
    ops += ['kw %s %s' % (a, a), 'wr', 'send ' + d, 'wr', 'send ' + pre, 'wr', 'wr', 'wr', 'wr', 'send ' + d, 'send ' + d]
    inb = rbytes(rng, rng.choice([2, 3, 5]))
    ops += ['feed ' + inb, 'rd', 'feed ' + inb, 'rd', 'feed ' + inb[2:] if len(inb) > 2 else 'feed 00', 'rd']
    ops += ['dis', 'dis', 'send ' + d, 'en', 'en', 'wr', 'wr', 'rcb %d 2 s:01' % (thr + 1), 'feed ' + inb, 'rd']
    return ops + flush(rng)


def gen_close(rng, tier):
    """active close of a TcpConnection with bytes still in the kernel queue: every accept pattern in front of it, the
    peer application reading before / between / after at every pace, disconnect from the main flow or from inside the
    send-complete / receive callback, close by a pass or by a deferred-only pass, unread inbound data at the close,
    shutdown(SHUT_WR) instead of / before the close, the peer closing first"""
    ops = ['cinit', 'dcb ' + rng.choice(['-', '-', 'none', 's:01'])]
    how = rng.choice(['op', 'op', 'scb', 'rcb', 'shut', 'shut+op', 'peer'])
    ops.append('scb ' + ('disc' if how == 'scb' else rng.choice(['-', '-', 'none', 's:aabb'])))
    ops.append('rcb %d %d %s' % (rng.choice([0, 0, 1, 4]), rng.choice([0, 1, 100000]), 'disc' if how == 'rcb' else rng.choice(['-', 's:cc'])))
    last_n = 8
    for _ in range(rng.choice([1, 2, 3, 5])):
        if rng.random() < 0.6: ops.append('kw ' + ' '.join(wanswers(rng, last_n)))
        d, last_n = payload(rng, tier, small=rng.random() < 0.5)
        ops.append('send ' + d)
        if rng.random() < 0.4: ops.append(pread(rng))
        if rng.random() < 0.5: ops.append('wr')
    for _ in range(rng.choice([0, 1, 3, 6])):
        ops.append(rng.choice(['wr', 'wr', 'wr', pread(rng), 'rw']))
    if rng.random() < 0.7: ops += ['wmax 0', 'wr', 'wr', 'wr', 'wr']               # everything written: send-complete
    if rng.random() < 0.3: ops.append('feed ' + rbytes(rng, rng.choice([1, 2, 300])))   # inbound data, unread at the close unless a pass reads it
    if how == 'rcb': ops += ['feed 05', 'rd']
    elif how == 'peer': ops += ['peof', rng.choice(['rd', 'rw'])]
    elif how in ('shut', 'shut+op'): ops.append('shut')
    if how in ('op', 'shut+op'): ops.append('disc')
    for _ in range(rng.choice([0, 1, 2])): ops.append(pread(rng))
    ops.append(rng.choice(['defer', 'defer', 'wr', 'rd', 'rw']))
    if rng.random() < 0.3: ops += ['send 0102', 'disc', 'shut', 'defer']
    for _ in range(rng.choice([1, 2, 4])): ops.append(pread(rng))
    return ops + ['pread 9999999', 'pread 9999999', 'defer', 'pread 1']


def gen_tcp(rng, tier, closer, how=None):
    """AF_INET loopback, slow raw peer with a small SO_RCVBUF, active close right after send-complete"""
    big = tier == 'thorough'
    total = rng.choice([8, 8, 10, 12] if big else [2, 3, 3, 4]) * 1048576 + rng.choice([0, 1, 4095, 70001])
    sizes = [1, rng.choice([2, 1000, 4097]), rng.choice([65536, 65537, 300000])]
    if rng.random() < 0.7: sizes.append(rng.choice([1048576, 2097153, 3145728]) if not big else rng.choice([3145728, 4194305]))
    rest = total - sum(sizes)
    while rest > 0:
        k = min(rest, 8388608 if big else 3145728, rng.choice([rest, rest, 1048577, 2000000]))
        sizes.append(k); rest -= k
    rng.shuffle(sizes)
    return 'tcp %s %s %d %d %s' % (closer, how or rng.choice(['cb', 'op']), rng.choice([2048, 4096, 16384, 65536]), rng.choice([1024, 16384, 65536, 262144]),
                                   ','.join('%d:%d' % (rng.randrange(256), k) for k in sizes))


def gen_e2e(rng, tier):
    mode = rng.choice(['sc', 'ac'])
    closer = rng.choice('csh')
    big = tier == 'thorough'
    n1 = rng.choice([1, 2, 1000, 65537, 300000] + ([1048577, 4000000] if big else []))
    n2 = rng.choice([1, 3, 4096, 70001, 250000] + ([2097153] if big else []))
    c1 = rng.choice([1, 7, 1000, 65536, n1]) if n1 <= 70000 else rng.choice([4096, 65536, 100000, n1])
    c2 = rng.choice([1, 5, 1024, n2]) if n2 <= 70001 else rng.choice([8192, 65536, n2])
    thr = 0 if closer == 's' else rng.choice([0, 1, 2, 1000, 4096, 100000])
    sb = 0 if mode == 'sc' else rng.choice([0, 1, 2048, 4096, 65536])
    return 'e2e %s %d %d %d %d %d %s %d' % (mode, n1, c1, n2, c2, thr, closer, sb)


NFAULTS = ['socket', 'late', 'accept', 'inprog', 'eintr', 'again', 'abortkeep', 'refuse', 'abort']


def nscript(rng, allowed):
    """script for a plumbing callback; allowed = subset of 'ptds' (stop, start, disc, send)"""
    if rng.random() < 0.55: return '-'
    acts = []
    for _ in range(rng.choice([1, 1, 2])):
        k = rng.choice(allowed)
        acts.append({'p': 'stop', 't': 'start', 'd': 'disc', 's': 's:' + rbytes(rng, rng.choice([1, 2, 5])), 'c': 'cleanup', 'h': 'shut',
                     'm': 'm:' + rbytes(rng, rng.choice([1, 3]))}[k])
    return ','.join(acts)


def ndelays(rng):
    """setReconnectDelayCalcFunc of the bare connector: seconds after the 1st, 2nd, … failure (1 beyond the table)"""
    if rng.random() < 0.1: return 'nkdelay -'
    if rng.random() < 0.12:     # … that calls stop() and start() (the connect() of that start() is refused at once): the recheck after the function
        return 'nkdelayact %s %d restart' % (','.join(str(rng.choice([0, 1, 2, 3, 5])) for _ in range(rng.choice([1, 2, 3, 4]))), rng.choice([2, 2, 3]))
    if rng.random() < 0.3:      # a delay function that calls stop() / cleanup() of its connector (patches/C06-11)
        return 'nkdelayact %s %d %s' % (','.join(str(rng.choice([0, 1, 2, 3])) for _ in range(rng.choice([1, 2, 3]))), rng.choice([1, 1, 2, 2, 3]), rng.choice(['stop', 'stop', 'cleanup']))
    return 'nkdelay ' + ','.join(str(rng.choice([0, 0, 1, 2, 2, 3, 5, 100, 2147483647])) for _ in range(rng.choice([1, 2, 3, 4])))


def gen_restart(rng, tier):
    """a delay function that calls stop() + start() at the k-th failure (that connect() refused at once) with a server listening, so
    the moment a retry fires is seen as a connected callback: the time is advanced to one millisecond before / exactly to the
    deadline of the NEW series (delay of failure 1) and to the deadline a re-armed outer timer would have (delay of failure k)"""
    k = rng.choice([2, 2, 3])
    tbl = [rng.choice([1, 2, 3, 5, 7]) for _ in range(k)]
    while tbl[k - 1] == tbl[0]: tbl[k - 1] = rng.choice([0, 1, 2, 3, 4, 6])
    ops = ['nsinit', 'nsstart', 'nkinit %d' % rng.choice([0, 0, 5]), 'nkdelayact %s %d restart' % (','.join(map(str, tbl)), k), 'nfault refuse 1', 'nkstart']
    for j in range(1, k):      # failures 2..k by refused retries
        ops += ['nfault refuse 1', 'nadv %d' % (1000 * tbl[j - 1])]
    if rng.random() < 0.25: ops.insert(len(ops) - 1, 'nfault socket 1')
    marks = sorted(set([1000 * tbl[0], 1000 * tbl[k - 1]]))
    t = 0
    for m in marks:
        if m - 1 > t: ops.append('nadv %d' % (m - 1 - t)); t = m - 1
        if m > t: ops.append('nadv %d' % (m - t)); t = m
    return ops + ['nadv 1000', rng.choice(['nkstop', 'nkcleanup', 'nkstart']), 'nadv 5000']


def gen_net(rng, tier, flavour):
    """TcpServer / TcpClient / TcpConnector plumbing on a Unix-domain socket under virtual time.
    flavour 1: one client (+ raw peer), everything allowed; 2: two clients without auto-reconnect and without
    connect retries (so that no two connectors ever race for the accept order); 3: bare connector with try limit"""
    ops = []
    ntok = [0]

    two = flavour == 2
    # with auto-reconnect a script that closes or writes on every new connection would never come to rest
    sv_allowed = {'conn': 'pdschm' if two else 'pscm', 'disc': 'pdschm', 'recv': 'pdschm', 'sc': 'pdchm' if two else 'pcm'}
    cl_allowed = {'conn': 'ptschm' if two else 'ptcm', 'disc': 'ptschm', 'recv': 'ptchm', 'sc': 'ptchm'}

    def sv_cbs():
        for w in ('conn', 'disc', 'recv', 'sc'):
            if rng.random() < 0.45: ops.append('nscb %s %s' % (w, nscript(rng, sv_allowed[w])))

    def cl_cbs(i):
        for w in ('conn', 'disc', 'recv', 'sc'):
            if rng.random() < 0.4: ops.append('nccb %d %s %s' % (i, w, nscript(rng, cl_allowed[w])))

    def tok():
        return rng.choice([0, 0, 1, 1, 2, 3, 5, 9])

    if flavour == 3:
        tries = rng.choice([0, 1, 2, 2, 3])
        pre = rng.random() < 0.5
        if pre: ops += ['nsinit'] + (['nsstart'] if rng.random() < 0.7 else [])
        ops += ['nkinit %d' % tries, 'nkcb fail ' + rng.choice(['-', 'stop', 'stop', 'cleanup']), 'nkcb conn ' + rng.choice(['-', '-', 'stop', 'cleanup'])]
        if rng.random() < 0.3: ops.append('nfault %s %d' % (rng.choice(NFAULTS), rng.choice([1, 1, 2])))
        if rng.random() < 0.5: ops.append(ndelays(rng))
        if rng.random() < 0.5: sv_cbs()
        for _ in range(rng.choice([4, 8, 14])):
            r = rng.random()
            if r < 0.25: ops.append('nkstart')
            elif r < 0.5: ops.append('nadv %d' % rng.choice([1, 500, 999, 1000, 1000, 1001, 2000, 2000, 3000, 5000, 100000]))
            elif r < 0.6: ops.append('nkstop')
            elif r < 0.65: ops.append('nkcleanup')
            elif r < 0.7: ops.append('nkinit %d' % rng.choice([0, 1, 2]))
            elif r < 0.78: ops.append('nsinit')
            elif r < 0.86: ops.append('nsstart')
            elif r < 0.9: ops.append('nsstop')
            elif r < 0.93: ops.append('nscleanup')
            elif r < 0.96: ops.append('nfault %s %d' % (rng.choice(['socket', 'late', 'accept', 'again', 'abortkeep', 'refuse', 'abort']), rng.choice([1, 2, 3])))
            elif r < 0.98: ops.append('nkcb fail ' + rng.choice(['-', 'stop', 'cleanup']))
            else: ops.append(ndelays(rng))
        return ops + ['nadv 1000', 'nkstop', 'nadv 1000', 'nscleanup']

    if flavour == 4:
        # reconnect: one client with auto-reconnect under a server that keeps going away; stop() / start() from the
        # disconnected callback right after the auto-reconnect's start() (the connect is already made by the kernel, its
        # write event not served yet), callbacks replaced while connected, tokens of earlier connections used again
        ops += ['nsinit', 'nsstart', 'ncinit 0']
        if rng.random() < 0.5: ops.append('nscb conn ' + rng.choice(['m:' + rbytes(rng, 2), '-', 'm:' + rbytes(rng, 1)]))
        ops.append('nccb 0 disc ' + rng.choice(['stop', 'stop,start', 'stop,start,stop', 'start,stop', 'stop', '-', 's:' + rbytes(rng, 1) + ',stop']))
        ops += ['nbudget %d' % rng.choice([2, 4, 8]), 'ncstart 0']
        for _ in range(rng.choice([6, 10, 16, 24])):
            r = rng.random()
            if r < 0.16: ops.append('nsstop')
            elif r < 0.32: ops.append('nsstart')
            elif r < 0.40: ops.append('nsdisc %d' % tok())
            elif r < 0.48: ops.append('ncstart 0')
            elif r < 0.54: ops.append('ncstop 0')
            elif r < 0.62: ops.append('ncsend 0 ' + rbytes(rng, rng.choice([1, 2, 9])))
            elif r < 0.72: ops.append('nssend %d %s' % (tok(), rbytes(rng, rng.choice([1, 3]))))
            elif r < 0.76: ops.append('nsvalid %d' % tok())
            elif r < 0.80: ops.append('nsshut %d' % tok())
            elif r < 0.86: ops.append('nccb 0 disc ' + rng.choice(['stop', 'stop,start', 'stop,start,stop', 'start,stop', '-', 'cleanup']))
            elif r < 0.92: ops.append('nccb 0 %s %s' % (rng.choice(['recv', 'sc']), rng.choice(['-', 'm:' + rbytes(rng, 1), 'm:' + rbytes(rng, 2) + ',stop', 'stop,start'])))
            elif r < 0.94: ops.append('ncrec 0 %d' % rng.randrange(2))
            elif r < 0.96: ops.append('nbudget %d' % rng.choice([1, 3, 8]))
            elif r < 0.98: ops.append('nadv %d' % rng.choice([999, 1000, 2000]))
            else: ops += ['nccleanup 0', 'ncinit 0']
        return ops + ['nsstop', 'nscleanup', 'nadv 1000', 'ncstop 0', 'nadv 1000']

    nclients = 2 if two else 1
    if two or rng.random() < 0.6:
        ops.append('nsinit')
        if rng.random() < 0.8: ops.append('nsstart')
    sv_cbs()
    for i in range(nclients):
        ops.append('ncinit %d' % i)
        if two: ops.append('ncrec %d 0' % i)
        elif rng.random() < 0.3: ops.append('ncrec 0 0')
        cl_cbs(i)
    cleaned = False
    if rng.random() < 0.35: ops.append('nbudget %d' % rng.choice([1, 2, 3, 8]))
    for _ in range(rng.choice([6, 12, 20, 30])):
        r = rng.random()
        i = rng.randrange(nclients)
        if r < 0.14:
            if not (two and cleaned): ops.append('ncstart %d' % i)
        elif r < 0.26: ops.append('ncsend %d %s' % (i, rbytes(rng, rng.choice([0, 1, 2, 7, 300]))))
        elif r < 0.38: ops.append('nssend %d %s' % (tok(), rbytes(rng, rng.choice([0, 1, 3, 500]))))
        elif r < 0.44: ops.append('nsdisc %d' % tok())
        elif r < 0.46: ops.append('nsvalid %d' % tok())
        elif r < 0.47: ops.append('nsshut %d' % tok())
        elif r < 0.48: ops.append('ncshut %d' % i)
        elif r < 0.55: ops.append('ncstop %d' % i)
        elif r < 0.58: ops.append('nccleanup %d' % i); ops.append('ncinit %d' % i); ops += (['ncrec %d 0' % i] if two else [])
        elif r < 0.64: ops.append('nsstop')
        elif r < 0.70: ops.append('nsstart')
        elif r < 0.73 and not two: ops += ['nscleanup']
        elif r < 0.77 and not two: ops.append('nsinit')
        elif r < 0.83 and not two: ops.append('nadv %d' % rng.choice([1, 999, 1000, 1000, 1001, 3000]))
        elif r < 0.845 and not two: ops.append('ncrec 0 %d' % rng.randrange(2))
        elif r < 0.86 and not two: ops.append('nfault %s %d' % (rng.choice(NFAULTS), rng.choice([1, 1, 2, 3])))
        elif r < 0.90: w = rng.choice(['conn', 'disc', 'recv']); ops.append('nscb %s %s' % (w, nscript(rng, sv_allowed[w])))
        elif r < 0.93: w = rng.choice(['conn', 'disc', 'recv', 'sc']); ops.append('nccb %d %s %s' % (i, w, nscript(rng, cl_allowed[w])))
        elif not two:
            q = rng.random()
            if q < 0.35: ops.append('nrconn')
            elif q < 0.6: ops.append('nrsend ' + rbytes(rng, rng.choice([1, 4, 200])))
            elif q < 0.85: ops.append('nrclose')
            else: ops.append('nrhold %d' % rng.randrange(2))
    ops += ['nsstop', 'nscleanup']
    if not two: ops += ['nadv 1000', 'ncstop 0', 'nadv 1000']
    return ops


def gen(rng, tier):
    n = 220 if tier == 'quick' else 1500
    # malformed stream: both sides must answer bad-op (unknown op, ill-typed operands, ops the object does not offer)
    yield ['frob', 'send 0g', 'init 9', 'kw', 'kw a', 'kr c0', 'kr c1025', 'kr f1026', 'rcb 1', 'rcb x 1 -', 'rcb 0 1 none', 'scb s:zz',
           'disc', 'dcb -', 'scb disc', 'init 3', 'feed g0:70000', 'cinit', 'send g256:1', 'send g1:9999999', 'peof', 'feed 01']
    yield ['cinit', 'init 3', 'en', 'dis', 'zcb -', 'scb en', 'rcb 0 0 dis', 'cinit', 'disc', 'disc', 'send 01', 'rcb 0 0 -', 'rd', 'wr']
    # the §7-3 replay and its neighbours
    yield ['init 3', 'send 010203', 'en', 'wr', 'wr']
    yield ['init 3', 'send 010203', 'en', 'send 0405', 'wr', 'wr', 'wr']
    yield ['init 3', 'en', 'kw ea', 'send 0102', 'dis', 'send 03', 'en', 'wr', 'wr']
    yield ['init 2', 'send 01', 'en', 'wr', 'rd'] + ['init 1', 'send 01']
    yield ['init 3', 'scb -', 'en', 'send -', 'wr', 'kw ea', 'send -', 'wr', 'wr']
    yield ['init 3', 'en', 'kw a0 a0 a1', 'send 010203', 'wr', 'wr', 'wr', 'wr']
    yield ['init 3', 'rcb 2 0 -', 'zcb -', 'en', 'feed 07', 'rd', 'peof', 'rd', 'rd']      # C06_close_after_data_counterexample
    yield ['init 3', 'zcb -', 'en', 'peof', 'rd', 'rd', 'rd', 'dis', 'en', 'rd', 'rw']     # C06_close_once_counterexample
    yield ['cinit', 'dcb -', 'rcb 5 0 disc', 'feed 0102', 'rd', 'peof', 'rd', 'rd']        # flush at EOF, callback disconnects: no report
    yield ['init 3', 'rcb 9 1 -', 'recb -', 'en', 'feed 0102', 'rd', 'kr er', 'rd', 'rd']  # flush before a read error
    yield ['init 3', 'rcb 0 9 s:01', 'en', 'kw ea', 'feed 05', 'rw', 'wr', 'rw']           # write armed inside the dispatch
    yield ['init 3', 'rcb 0 9 dis', 'scb -', 'en', 'kw a1', 'send 0102', 'feed 05', 'rw', 'wr', 'en', 'rw']   # write event disabled by the read callback
    yield ['malformed: e2e', 'e2e xx 1 1 1 1 0 c 0', 'e2e sc 1 1 1 1 2 s 0', 'e2e sc 0 1 1 1 0 c 0', 'e2e ac 1 0 1 1 0 c 0', 'e2e sc 1 1 1 1 0 c 5', 'e2e sc 1 1 1']
    yield ['e2e sc 5000 7 20 20 0 s 0', 'e2e ac 70000 1000 5 5 1000 c 4096', 'e2e sc 3000 3000 100000 65536 4096 h 0']
    yield ['init 3', 'zcb -', 'en', 'feed 0102', 'rd', 'feed 03', 'rd', 'rcb 0 1 -', 'feed 04', 'rd']   # no callback: discard
    yield ['init 3', 'rcb 0 0 -', 'en', 'feed g3:3000', 'kr f0', 'rd', 'feed g9:5000', 'kr f1', 'rd', 'feed g1:100', 'kr c1 f2', 'rd']
    yield ['init 3', 'rcb 0 100000 -', 'rmax 1', 'en', 'feed g3:300', 'rd', 'feed g3:2000', 'rmax 1024', 'rd']
    # peer half-close while bytes are still queued: a raw BufferedFd keeps writing, a TcpConnection drops the suffix
    yield ['init 3', 'scb -', 'zcb -', 'en', 'kw ea a1', 'send 01020304', 'peof', 'rd', 'wr', 'wr', 'wr', 'wr']
    yield ['init 3', 'scb -', 'zcb -', 'en', 'kw ea', 'send 0102', 'peof', 'rw', 'rw', 'rw']
    yield ['cinit', 'dcb -', 'scb -', 'kw a1 ea', 'send 010203', 'peof', 'rd', 'wr', 'wr']
    yield ['cinit', 'dcb -', 'scb -', 'kw a1', 'send 010203', 'peof', 'rw', 'wr']
    # EAGAIN / short write at every byte position of a short send (quick: one length; thorough: all lengths up to 7)
    for ln in ([4] if tier == 'quick' else [1, 2, 3, 4, 5, 6, 7]):
        data = ''.join('%02x' % (0x10 + i) for i in range(ln))
        for k in range(ln + 1):
            for second in ('ea', 'a1', 'a0', 'er', 'e4', 's:e105', 'c:e4', 'c:e12'):
                yield ['init 3', 'scb -', 'wecb -', 'en', 'kw a%d %s' % (k, second), 'send ' + data, 'wr', 'wr', 'send ' + data, 'wr', 'wr', 'wr', 'wr']
            yield ['init 3', 'scb -', 'send ' + data, 'en', 'kw a%d ea' % k, 'wr', 'wr', 'wr']
    if tier == 'thorough':
        for big in (1048576, 4194304, 8388608):
            yield ['init 3', 'scb -', 'send g7:%d' % big, 'en', 'kw a1 ea a65536 a1000000', 'wr', 'wr', 'wr', 'wr', 'wr', 'wr', 'send g8:%d' % big, 'wr', 'wr']
        # exhaustive small scope: every placement of one fault in a 3-send run, before/after enable
        import itertools
        for pre, a1, a2 in itertools.product([0, 1, 2], ['a0', 'a1', 'a2', 'a3', 'ea', 'er', 'e4', 's:e4', 'c:e4', 's:e105'], ['a0', 'a1', 'a5', 'ea', 'er', 'e4', 'c:e12', 's:er']):
            ops = ['init 3', 'scb -', 'wecb -'] + ['send 0a0b'] * pre + ['en', 'kw %s %s' % (a1, a2)] + ['send 010203'] * (3 - pre)
            yield ops + ['wr'] * 6
    for _ in range(n):
        yield gen_case(rng, tier, rng.choice([4, 8, 16, 30]))
    for _ in range(n // 2):
        yield gen_directed(rng, tier)
    for _ in range(n // 2):
        yield gen_recv(rng, tier)
    for _ in range(n // 2):
        yield gen_rw(rng, tier)
    # fault schedules per write site; the spill buffer boundary; state-derived inputs
    yield ['init 3', 'scb -', 'wecb -', 'en', 'kw c:e4 s:a1', 'send 010203', 'wr', 'wr', 'wr']                  # EINTR in the write-ready callback: still armed
    yield ['init 3', 'scb -', 'wecb -', 'en', 'kw c:a1 c:e32 c:e4 c:ea', 'send 010203', 'wr', 'wr', 'wr', 'wr', 'wr', 'wr']   # short, lasting error, transient, recovery
    yield ['init 3', 'scb -', 'en', 'kw s:e105', 'send 0102', 'kw s:e12', 'send 03', 'wr', 'wr']                # ENOBUFS / ENOMEM in send(): queued, in order
    yield ['cinit', 'dcb -', 'scb -', 'kw s:e4', 'send 0102', 'send 03', 'wr', 'wr', 'pread 9']                   # EINTR in send() on a TcpConnection
    yield ['init 3', 'scb -', 'en', 'kw s:er', 'send 0102', 'send 03', 'wr', 'wr', 'kw s:e104 s:e5 s:e28', 'send 04', 'send 05', 'send 06', 'send 07', 'wr']   # lasting errors: refused, told
    yield ['init 3', 'rcb 0 9 -', 'recb -', 'en', 'feed 07', 'kr ei', 'rd', 'rd', 'kr c1 ei', 'feed 0809', 'rd', 'rd']     # EINTR from readv: first call / mid-stream
    yield ['cinit', 'dcb -', 'rcb 0 9 -', 'feed 07', 'kr ei', 'rd', 'send 01', 'rd', 'wr', 'pread 9']                      # ... on a TcpConnection: still connected
    yield ['init 3', 'rcb 0 100000 -', 'en', 'feed g3:3000', 'kr f0', 'rd', 'feed g9:9000', 'kr f1024', 'rd', 'feed g1:9000', 'kr f1', 'rd', 'feed g2:20000', 'kr f1025', 'rd',
           'feed g4:20000', 'kr f1023', 'rd', 'feed g5:60000', 'kr f0 ei', 'rd', 'rd']
    yield ['malformed: faults', 'kw e11', 'kw e7', 'kw x:ea', 'kw s:', 'kw c:a', 'kw s:e', 'kr f1026', 'kr ej', 'kw s:ea c:e4 e105 s:a3 c:er']
    for _ in range(n // 2):
        yield gen_wfaults(rng, tier)
    for _ in range(6 if tier == 'quick' else 40):
        yield gen_restart(rng, tier)
    # every errno at the write-ready callback site, reported as `P WE<errno>`
    yield ['init 3', 'scb -', 'wecb -', 'en', 'kw s:a1 c:e32 c:e104 c:e110 c:e4', 'send 010203', 'wr', 'wr', 'wr', 'wr', 'wr', 'wr']
    for e in WERRNO_ALL:
        for _ in range(1 if tier == 'quick' else 4):
            yield gen_we_errno(rng, tier, e)
    for _ in range(n // 3):
        yield gen_spill(rng, tier)
    for _ in range(n // 4):
        yield gen_same(rng, tier)
    for _ in range(2 if tier == 'quick' else 12):
        yield [gen_e2e(rng, tier) for _ in range(3 if tier == 'quick' else 6)]
    # the kernel leg: active close with bytes still queued (interposed, AF_UNIX pair) ...
    yield ['cinit', 'scb -', 'send 010203', 'pread 1', 'wr', 'disc', 'pread 5', 'defer', 'pread 5', 'pread 5']
    yield ['cinit', 'scb disc', 'kw a1 ea a1', 'send 010203', 'pread 1', 'wr', 'wr', 'wr', 'wr', 'pread 9', 'pread 9']
    yield ['cinit', 'send 0708', 'shut', 'pread 1', 'pread 1', 'pread 1', 'send 09', 'wr']                    # write after shutdown(SHUT_WR)
    yield ['cinit', 'scb -', 'send 010203', 'wr', 'feed 09', 'disc', 'defer', 'pread 9', 'pread 9', 'pread 9']   # unread inbound data at the close
    yield ['cinit', 'dcb -', 'send 07', 'peof', 'rd', 'pread 3', 'pread 3']
    yield ['malformed: kernel', 'pread', 'pread 0', 'pread x', 'shut', 'init 3', 'shut', 'defer 1', 'tcp', 'tcp xx op 4096 65536 7:100', 'tcp cs op 4096 65536 7:0',
           'tcp cs zz 4096 65536 7:1', 'tcp cs op 1 65536 7:1', 'tcp cs op 4096 1 7:1', 'tcp cs op 4096 65536 256:1', 'tcp cs op 4096 65536 7:1,', 'tcp cs op 4096 65536 7:9000000']
    for _ in range(n // 2):
        yield gen_close(rng, tier)
    # ... and on a real AF_INET loopback connection (no interposed I/O), one run per way of closing actively
    for closer in ('sd', 'ss', 'cs') * (1 if tier == 'quick' else 2):
        yield [gen_tcp(rng, tier, closer)]
    # C06_close_unread_inbound_counterexample on the real code: inbound bytes unread at the active close -> the peer's read ends with a reset
    u1, u2 = rng.sample(['sd', 'ss', 'cs'], 2)
    yield ['tcp %s opu 4096 65536 1:1,2:300000,3:1000000' % u1]
    # ... and the same scenario judged against the PROPERTY (every byte, then EOF): the recorded finding UNREAD_FP.  At most
    # UNREAD_SPEC_CASES such cases per run, so that they cannot crowd other divergences out of the examined ones.
    for c in [u1, u2][:UNREAD_SPEC_CASES]:
        yield ['tcp %s opuS 4096 65536 1:1,2:300000,3:1000000' % c]
    # the TCP plumbing: directed cases first
    yield ['nsinit', 'nsstart', 'ncinit 0', 'ncrec 0 0', 'ncstart 0', 'nscb disc stop', 'ncstop 0', 'nsstart', 'nscleanup']    # stop() in a disconnected callback
    yield ['nkinit 2', 'nkcb fail stop', 'nkstart', 'nadv 1000', 'nadv 1000', 'nkstart', 'nadv 1000']                          # stop() in the connect-fail callback after a retry
    yield ['nsinit', 'nsstart', 'ncinit 0', 'ncstart 0', 'ncsend 0 0102', 'nssend 0 aabb', 'nssend 1 aa', 'nssend 7 aa', 'ncstop 0', 'nsvalid 0', 'nssend 0 01', 'nsdisc 0']
    yield ['ncinit 0', 'ncstart 0', 'nadv 500', 'nadv 600', 'nsinit', 'nadv 1000', 'nsstart', 'ncsend 0 01', 'nsstop', 'ncsend 0 02', 'nsstart', 'ncsend 0 03',
           'ncrec 0 0', 'nsstop', 'nsstart', 'nscleanup', 'nadv 1000']
    yield ['nsinit', 'nsstart', 'ncinit 0', 'ncstart 0', 'nccb 0 disc stop', 'nsstop', 'nadv 2000', 'ncstart 0', 'nscleanup', 'nadv 1000', 'ncstop 0', 'nadv 1000']
    yield ['nsinit', 'nsstart', 'nrconn', 'nrhold 1', 'nssend 0 aabbcc', 'nrsend 01', 'nrclose', 'nsvalid 0', 'nrconn', 'nrsend 02', 'nsstop', 'nrsend 03']
    yield ['nsinit', 'nsstart', 'ncinit 0', 'ncstart 0', 'nscb recv cleanup', 'ncsend 0 01', 'nsinit', 'nsstart', 'nadv 1000']               # cleanup() in the receive callback
    yield ['nsinit', 'nsstart', 'nscb conn cleanup', 'ncinit 0', 'ncstart 0', 'nsinit', 'nsstart', 'nadv 1000']                            # ... in the connected callback (inside the acceptor's event)
    yield ['nsinit', 'nsstart', 'ncinit 0', 'ncstart 0', 'nscb disc cleanup', 'ncstop 0', 'nsinit']
    yield ['nsinit', 'nsstart', 'ncinit 0', 'nccb 0 conn cleanup', 'ncstart 0', 'ncinit 0', 'ncstart 0']
    yield ['nsinit', 'nsstart', 'ncinit 0', 'ncstart 0', 'nccb 0 disc cleanup', 'nsstop', 'ncinit 0', 'ncstart 0', 'nsstart']
    yield ['nkinit 1', 'nkcb fail cleanup', 'nkstart', 'nkinit 2', 'nsinit', 'nkcb conn cleanup', 'nkstart', 'nsstart', 'nkinit 0', 'nkstart']
    yield ['ncinit 0', 'ncstart 0', 'nsinit', 'nfault socket 1', 'nadv 1000', 'nadv 1000', 'nsstart', 'ncstop 0']                         # socket() fails in a retry
    yield ['nsinit', 'nsstart', 'nfault socket 2', 'ncinit 0', 'ncstart 0', 'nadv 1000', 'nadv 1000', 'ncstop 0', 'ncstart 0']
    yield ['nsinit', 'nsstart', 'nfault late 1', 'ncinit 0', 'ncstart 0', 'nadv 1000', 'nkinit 1', 'nkcb fail stop', 'nfault late 1', 'nkstart']  # connect fails after EINPROGRESS
    yield ['nsinit', 'nsstart', 'nfault accept 3', 'ncinit 0', 'ncstart 0', 'ncsend 0 01', 'nfault inprog 1', 'ncinit 1', 'ncrec 1 0', 'ncstart 1']
    yield ['nsinit', 'nsstart', 'nfault refuse 2', 'ncinit 0', 'ncstart 0', 'nadv 1000', 'nadv 1000', 'ncsend 0 01', 'nkinit 1', 'nkcb fail stop', 'nfault refuse 1', 'nkstart']   # connect() refused at once
    yield ['nsinit', 'nsstart', 'nfault abort 1', 'ncinit 0', 'nccb 0 conn s:0102', 'ncstart 0', 'nadv 1000', 'ncsend 0 03', 'nfault abort 2', 'nrconn', 'nrsend 05', 'nrclose']     # accept() ECONNABORTED, connection gone
    yield ['nsinit', 'nsstart', 'nfault again 2', 'ncinit 0', 'ncstart 0', 'nfault abortkeep 1', 'ncinit 1', 'ncrec 1 0', 'ncstart 1', 'nfault eintr 1', 'nkinit 1', 'nkstart']
    yield ['nsinit', 'nsstart', 'ncinit 0', 'ncstart 0', 'nsshut 0', 'ncstart 0', 'ncshut 0', 'nssend 0 01', 'nsshut 5']                   # half-close from either side
    yield ['nsinit', 'nsstart', 'ncinit 0', 'ncstart 0', 'nbudget 3', 'nccb 0 sc m:aa', 'nscb sc m:bb', 'ncsend 0 01', 'nssend 0 02']     # send-complete callbacks that send more
    yield ['nsinit', 'nsstart', 'ncinit 0', 'ncstart 0', 'nscb recv shut', 'ncsend 0 01', 'nccb 0 recv shut', 'nssend 0 02']
    # the reconnect logic: a user delay table (zero, large, beyond the table, set while the timer runs, reset by cleanup) ...
    yield ['nkinit 4', 'nkdelay 3,0,2', 'nkstart', 'nadv 2999', 'nadv 1', 'nadv 1999', 'nadv 1', 'nadv 1000']
    yield ['nkinit 0', 'nkdelay 0,0,0,5', 'nkstart', 'nadv 4999', 'nadv 1', 'nadv 999', 'nadv 1', 'nkcleanup', 'nkinit 3', 'nkstart', 'nadv 999', 'nadv 1', 'nadv 1000']
    yield ['nkinit 3', 'nkdelay 2147483647,100', 'nkstart', 'nadv 100000', 'nkstop', 'nkstart', 'nadv 100000', 'nkdelay 1', 'nkstop', 'nkstart', 'nadv 1000', 'nadv 1000']
    yield ['nkinit 3', 'nkdelay 100,4000', 'nkstart', 'nadv 99999', 'nadv 1'] + ['nadv 100000'] * 39 + ['nadv 99999', 'nadv 1']      # long delays are not capped
    yield ['nkinit 0', 'nkstart', 'nkdelay 5,5,5', 'nadv 1000', 'nadv 4999', 'nadv 1', 'nsinit', 'nsstart', 'nadv 5000', 'nkdelay 0', 'nkinit 2', 'nscleanup', 'nkstart']
    yield ['nkinit 5', 'nkdelay 0,0,0,0', 'nkcb fail stop', 'nkstart', 'nkstart', 'nkdelay 0,2', 'nfault refuse 1', 'nsinit', 'nsstart', 'nkstart', 'nadv 2000']
    # ... a delay function that calls stop() / cleanup() of its own connector, on each path a failure can come from (start(), a retry
    # by timer, a late SO_ERROR, a zero-delay retry inside handleExpiredTimers): patches/C06-11
    yield ['nkinit 0', 'nkdelayact - 2 stop', 'nkstart', 'nadv 1000', 'nadv 5000', 'nkstart', 'nadv 1000']
    yield ['nkinit 0', 'nkdelayact 7 2 cleanup', 'nkstart', 'nadv 7000', 'nkinit 2', 'nkstart', 'nadv 1000']
    yield ['nkinit 0', 'nkdelayact 2 1 stop', 'nkstart', 'nadv 5000', 'nkstart', 'nkdelay 2', 'nkstart', 'nadv 2000']
    yield ['nsinit', 'nsstart', 'nfault late 1', 'nkinit 0', 'nkdelayact 2 1 stop', 'nkstart', 'nadv 3000', 'nkstart']
    yield ['nkinit 3', 'nkdelayact 0,0 2 cleanup', 'nkstart', 'nkinit 1', 'nkstart', 'nkinit 4', 'nkdelayact 0,0,0 3 stop', 'nkstart', 'nkstart']
    # ... stop() while Connecting with the connect already made by the kernel (AF_UNIX: at once) and the write event not served yet:
    # from the disconnected callback right after the auto-reconnect's start(); no connected callback follows, the server sees the
    # connection come and go, a later start() makes a fresh one
    yield ['nsinit', 'nsstart', 'ncinit 0', 'nccb 0 disc stop,start', 'ncstart 0', 'nsstop', 'nsstart', 'nccb 0 disc stop,start,stop', 'nsstop', 'nsstart', 'ncstart 0',
           'ncsend 0 01', 'ncstop 0', 'ncstart 0', 'ncsend 0 02']
    yield ['nsinit', 'nsstart', 'nscb conn s:0102', 'ncinit 0', 'nccb 0 disc stop', 'ncstart 0', 'nsstop', 'nsstart', 'ncstart 0', 'nssend 3 aa', 'nssend 2 bb', 'nssend 1 cc', 'nsdisc 1']
    yield ['nsinit', 'nsstart', 'ncinit 0', 'ncinit 1', 'ncrec 1 0', 'nccb 0 disc start,stop', 'ncstart 0', 'ncstart 1', 'nsstop', 'nsstart', 'ncstart 0', 'ncstart 1', 'ncsend 0 01', 'ncsend 1 02']
    yield ['nsinit', 'ncinit 0', 'ncstart 0', 'ncstop 0', 'ncstart 0', 'ncsend 0 05', 'nsstart', 'ncstop 0', 'ncstart 0']     # connections given up in the backlog
    # ... and the listener closed (cleanup() from the server's disconnected callback) with the new connection still in its backlog and
    # the connector's write event not served yet: SO_ERROR says ECONNRESET, a failed attempt, no connected callback
    yield ['nsinit', 'nsstart', 'nscb disc cleanup', 'ncinit 0', 'ncrec 0 0', 'nccb 0 sc stop,start', 'ncstart 0', 'ncsend 0 d4', 'nadv 1000', 'nsinit', 'nsstart', 'nadv 1000',
           'ncsend 0 d5']
    yield ['nsinit', 'nsstart', 'nscb disc cleanup,s:92', 'ncinit 0', 'nccb 0 conn stop,start', 'ncstart 0', 'nadv 1000', 'ncstop 0']
    # ... tokens of earlier connections whose cabinet slot has been handed out again, ids across reconnects
    yield ['nsinit', 'nsstart', 'ncinit 0', 'ncstart 0', 'ncstop 0', 'ncstart 0', 'nssend 0 aa', 'nsvalid 0', 'nsshut 0', 'nsdisc 0', 'nssend 1 bb', 'nsvalid 1',
           'nsdisc 1', 'nssend 1 cc', 'nssend 2 dd', 'nssend 0 ee']
    yield ['nsinit', 'nsstart', 'ncinit 0', 'ncinit 1', 'ncrec 0 0', 'ncrec 1 0', 'ncstart 0', 'ncstart 1', 'nsdisc 0', 'ncstart 0', 'nssend 0 aa', 'nssend 2 bb', 'nsdisc 1',
           'ncstart 1', 'nssend 1 cc', 'nssend 3 dd', 'nsdisc 0', 'nsdisc 2']
    # ... callbacks replaced while connected stay on the connection made after the reconnect
    yield ['nsinit', 'nsstart', 'ncinit 0', 'ncstart 0', 'nbudget 4', 'nccb 0 recv m:0a', 'nssend 0 01', 'nccb 0 sc m:0b', 'ncsend 0 02', 'nsstop', 'nsstart', 'nssend 1 03',
           'ncsend 0 04', 'nccb 0 recv -', 'nssend 1 05']
    yield ['malformed: net', 'nkdelay', 'nkdelay x', 'nkdelay 1,2,3,4,5', 'nkdelay 2147483648', 'nkdelay 1,,2', 'nkdelay -1', 'nkdelayact - 0 stop', 'nkdelayact - 6 stop', 'nkdelayact - 1 start', 'nkdelayact 1,2,3,4,5 1 stop', 'nkdelayact 1 stop', 'nfault foo 1', 'nfault socket 9', 'nbudget 9', 'nsshut 16', 'ncshut 2', 'nkcb fail shut', 'nscb sc s:01', 'nccb 0 recv s:01', 'nscb conn m:0g', 'nsinit x', 'nssend 16 00', 'nssend 0 0g', 'nscb foo -', 'nscb sc s:01', 'nccb 0 recv s:01', 'nccb 2 conn -', 'nkcb fail start', 'nkinit 6',
           'nrsend 01', 'nrclose', 'nrsend -', 'nadv 100001', 'ncrec 0 2', 'nscb conn stop,stop,stop,stop', 'nzfoo']
    for _ in range(n // 2):
        yield gen_net(rng, tier, 1)
    for _ in range(n // 4):
        yield gen_net(rng, tier, 2)
    for _ in range(n // 4):
        yield gen_net(rng, tier, 3)
    for _ in range(n // 4):
        yield gen_net(rng, tier, 4)


# `tcp … opu` ties the active close with unread inbound data AS CODED (model: end=reset).  The lead has recorded the deviation
# from the statement as a finding (known_findings.txt, fp below); `tcp … opuS` asks for what the PROPERTY wants instead.
UNREAD_FP = 'active-close-unread-inbound'
UNREAD_SPEC_CASES = 2


def _as_coded_agrees(ops):
    """does the same scenario compared with the model of the code + kernel as they are (`opu`) agree, M lines included?"""
    import hashlib, os
    rkey = '' if vlib.REPO == '/repo' else '_' + hashlib.sha1(vlib.REPO.encode()).hexdigest()[:8]
    exe = os.path.join(vlib.CACHE, ID, 'harness_' + FLAVOUR + rkey)
    alt = [o.replace(' opuS ', ' opu ') for o in ops]
    try:
        il, _ = vlib.run_harness_cases(exe, {0: alt}, timeout_per_batch=300)
        ml = vlib.run_driver_cases(EXE, {0: alt})
        return vlib.first_diff(il.get(0, []), ml.get(0, [])) is None
    except Exception:
        return False


def fingerprint(ops, d):
    if any(o.startswith('tcp ') and ' opuS ' in o for o in ops):
        # the recorded finding, and only it: the peer received an in-order proper prefix of what was sent and its read ended
        # with a reset, no callback was miscounted, AND the very same scenario agrees with the model of the code as it is
        # (which includes the system calls made on the connection: no SO_LINGER).  Anything else - bytes reordered or
        # duplicated, a timeout, a different callback count, a crash - keeps its own fingerprint and is a violation.
        impl, exp = (d[1], d[2]) if d else ('', '')
        iw, ew = impl.split(), exp.split()
        if (len(iw) == 6 and len(ew) == 6 and iw[:2] == ['P', 'tcp'] and iw[2].startswith('got=prefix:') and iw[3] == 'end=reset'
                and iw[4:] == ew[4:] and ew[3] == 'end=eof' and _as_coded_agrees(ops)):
            return UNREAD_FP
        return 'tcp-unread-other-' + vlib.default_fingerprint(ops, d)
    return vlib.default_fingerprint(ops, d)


def nontrivial(ops, model_lines):
    tags = set()
    for l in model_lines:
        if l.startswith('B '): tags.update(l[2:].split())
    return 1 if len(tags & INTERESTING) >= 2 else None


def _sweep_sockets():
    """socket files of harness processes that crashed (a crash is a result, the file is litter)"""
    import glob, os, re
    for f in glob.glob('/tmp/C06-net-*.sock') + glob.glob('/tmp/C06-e2e-*.sock'):
        m = re.search(r'-(\d+)\.sock$', f)
        if m and not os.path.exists('/proc/' + m.group(1)):
            try: os.unlink(f)
            except OSError: pass


def _spill_hits():
    """how the reads of a fixed sample of spill cases were split between the writable space of the receive buffer and the 1 KiB
    spill buffer in the REAL run (the harness's `B spill=<bytes in the spill buffer>` lines; capacities are not in the model)"""
    import hashlib, os, random, subprocess
    rkey = '' if vlib.REPO == '/repo' else '_' + hashlib.sha1(vlib.REPO.encode()).hexdigest()[:8]
    exe = os.path.join(vlib.CACHE, ID, 'harness_' + FLAVOUR + rkey)
    rng = random.Random(20260930)
    text = ''.join('case %d\n%s\n' % (i, '\n'.join(gen_spill(rng, 'quick'))) for i in range(60))
    hits = {}
    try:
        out = subprocess.run([exe], input=text.encode(), stdout=subprocess.PIPE, stderr=subprocess.DEVNULL, timeout=120).stdout.decode()
        for l in out.splitlines():
            if l.startswith('B spill='): hits[l[2:]] = hits.get(l[2:], 0) + 1
    except Exception as e:
        hits['error'] = str(e)[:80]
    return dict(sorted(hits.items()))


def extra_coverage():
    _sweep_sockets()
    saved = dict(FAULTS)
    spill = _spill_hits()
    FAULTS.clear(); FAULTS.update(saved)
    return {'injected_faults': dict(sorted(FAULTS.items())), 'spill_buffer_bytes_in_real_reads': spill}


LEVEL_TEXT = ('Lean 4 theorems over a hand-written model of BufferedFd + TcpConnection with the kernel as an oracle: for every operation '
              'list (API calls, callback scripts, kernel answer patterns incl. every errno at either write site, pass orders, peer writes/close) wire ++ sendQ = bytes accepted by '
              'send in order (nothing is dropped), Running and queued implies write event armed, writable passes drain the queue through any finite fault schedule, send-complete only with nothing outstanding, bytes read = bytes '
              'fed in order with unconsumed bytes re-presented as a prefix, read-zero / disconnected at most once and only after every byte '
              'the peer wrote has been presented (any threshold); what write(2) accepted reaches the peer application complete and in order, then EOF, after an active '
              'close at send-complete (kernel-queue model, every peer pacing; counterexamples for SO_LINGER{on,0} and for unread inbound data); client-side callback '
              'automaton and silence after stop() for every op list; counterexamples for the code as found; tied to the code on every run by differential execution with '
              'interposed write/readv/epoll_wait/fcntl/setsockopt/shutdown/close and by real AF_INET loopback runs')
LEVEL_NOTE = ('the last leg (kernel queue -> peer application) is proved over the kernel-queue model under the hypothesis that no inbound data is unread at the '
              'close (false without it on AF_INET: counterexample theorem + replay on the real code); the amount of data lost by an abortive close is an oracle; trusted: Lean kernel, hand-written model + differential tie (coverage bounded by the generator, measured in evidence); the kernel '
              'is an oracle; bind()/receiver forwarding is not modelled; TcpServer/TcpClient/acceptor/connector are exercised end-to-end '
              'against the stream/close specification, not modelled')
TECHNIQUE = 'Lean 4 invariant proofs over all operation lists with kernel oracle + model/implementation correspondence check'
DESIGN_REF = 'DESIGN.md §6 C06, §7 row 3'
