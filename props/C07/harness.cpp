// C07 harness: executes buffer op files against the real tbox::util::Buffer and prints the
// API-observable state after every op (same format as lean/Driver/C07.lean).
#include "vh.h"
#include <cstring>
#include <memory>
#include <tbox/util/buffer.h>

using tbox::util::Buffer;
static const size_t kSlots = 4;
static std::unique_ptr<Buffer> g[kSlots];

static void reinit() { for (auto &b : g) b.reset(new Buffer()); }  // default capacity 256

static std::string show() {
    std::string s;
    for (size_t i = 0; i < kSlots; ++i) {
        if (i) s += "|";
        s += vh::hex(g[i]->readableBegin(), g[i]->readableSize()) + ":" + std::to_string(g[i]->readableSize());
    }
    return s;
}

static bool slot(const std::string &w, size_t &i) {
    uint64_t v; if (!vh::to_u64(w, v) || v >= kSlots) return false; i = v; return true;
}

int main() {
    std::string line;
    reinit();
    while (std::getline(std::cin, line)) {
        auto w = vh::words(line);
        if (w.empty()) continue;
        if (w[0] == "case") { reinit(); std::cout << line << "\n"; continue; }
        size_t i = 0, j = 0; uint64_t n = 0; std::vector<uint8_t> d;
        std::string tag = "P ", extra; uint64_t ret = 0; std::string out = "-";
        const std::string &op = w[0];
        bool ok = true;
        if (op == "ctor" && w.size() == 3 && slot(w[1], i) && vh::to_u64(w[2], n)) {
            g[i].reset(new Buffer(n));
        } else if (op == "app" && w.size() == 3 && slot(w[1], i) && vh::unhex(w[2], d)) {
            ret = g[i]->append(d.data(), d.size());
        } else if (op == "res" && w.size() == 3 && slot(w[1], i) && vh::to_u64(w[2], n)) {
            ret = g[i]->ensureWritableSize(n) ? 1 : 0;
            extra = g[i]->writableSize() >= n ? " wr=1" : " wr=0";
        } else if (op == "rwc" && w.size() == 4 && slot(w[1], i) && vh::to_u64(w[2], n) && vh::unhex(w[3], d) && d.size() <= n) {
            g[i]->ensureWritableSize(n);
            if (!d.empty()) memcpy(g[i]->writableBegin(), d.data(), d.size());
            g[i]->hasWritten(d.size());
        } else if (op == "over" && w.size() == 3 && slot(w[1], i) && vh::to_u64(w[2], n)) {
            size_t ws = g[i]->writableSize();
            if (ws) memset(g[i]->writableBegin(), 0, ws);
            g[i]->hasWritten(n > ws ? n : ws);      // over-commit: at least the whole writable region, up to SIZE_MAX
            tag = "M ";
        } else if (op == "fetch" && w.size() == 3 && slot(w[1], i) && vh::to_u64(w[2], n)) {
            // destination of exactly the size we pass: an overrun is visible to ASan
            std::unique_ptr<uint8_t[]> dst(new uint8_t[n ? n : 1]);
            ret = g[i]->fetch(dst.get(), n);
            out = vh::hex(dst.get(), ret <= n ? ret : 0);
        } else if (op == "con" && w.size() == 3 && slot(w[1], i) && vh::to_u64(w[2], n)) {
            g[i]->hasRead(n);
        } else if (op == "conall" && w.size() == 2 && slot(w[1], i)) {
            g[i]->hasReadAll();
        } else if (op == "shrink" && w.size() == 2 && slot(w[1], i)) {
            g[i]->shrink();
        } else if (op == "cpa" && w.size() == 3 && slot(w[1], i) && slot(w[2], j)) {
            *g[i] = *g[j];
        } else if (op == "mva" && w.size() == 3 && slot(w[1], i) && slot(w[2], j)) {
            *g[i] = std::move(*g[j]);
        } else if (op == "cpc" && w.size() == 3 && slot(w[1], i) && slot(w[2], j) && i != j) {
            g[i].reset(new Buffer(*g[j]));
        } else if (op == "mvc" && w.size() == 3 && slot(w[1], i) && slot(w[2], j) && i != j) {
            g[i].reset(new Buffer(std::move(*g[j])));
        } else if (op == "swap" && w.size() == 3 && slot(w[1], i) && slot(w[2], j)) {
            g[i]->swap(*g[j]);
        } else if (op == "reset" && w.size() == 2 && slot(w[1], i)) {
            g[i]->reset();
        } else ok = false;
        if (!ok) { std::cout << "bad-op\n"; continue; }
        std::cout << tag << show() << " ret=" << ret << " out=" << out << extra << "\n";
    }
    return 0;
}
