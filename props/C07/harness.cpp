// C07 harness: executes buffer op files against the real tbox::util::Buffer and prints the
// API-observable state after every op (same format as lean/Driver/C07.lean).
//
// operator new[] / delete[] are interposed: every block the Buffer code allocates is recorded
// (address, size), requests above kAllocLimit and requests of an op prefixed `F` (all of them) or
// `F<k>` (exactly the k-th request made inside the op) throw
// std::bad_alloc (no memory is touched), and after every op each buffer's readable and writable
// windows are checked to lie inside the block it currently owns, blocks of different buffers being
// different (`in=1`).
#include "vh.h"
#include <cstring>
#include <memory>
#include <new>
#include <tbox/util/buffer.h>

using tbox::util::Buffer;

// ---------------------------------------------------------------- allocator interposition
static const size_t kAllocLimit = 16777216;     // = allocLimit of the Lean driver
struct Block { uint8_t *p; size_t n; };
static Block g_blocks[64];
static bool g_armed = false;    // inside a call into the code under test
static long g_fault = 0;        // -1: every armed request fails; k > 0: the k-th armed request of this attempt fails
static uint64_t g_req = 0;      // armed requests of this attempt
static uint64_t g_news = 0, g_dels = 0;

static size_t liveBlocks() { size_t k = 0; for (auto &b : g_blocks) if (b.p) ++k; return k; }
static const Block *blockOf(const uint8_t *p) {
    for (auto &b : g_blocks) if (b.p && p >= b.p && p <= b.p + b.n) return &b;
    return nullptr;
}

void *operator new[](size_t n) {
    if (!g_armed) { void *p = malloc(n ? n : 1); if (!p) throw std::bad_alloc(); return p; }
    ++g_news; ++g_req;
    if (g_fault < 0 || (g_fault > 0 && g_req == (uint64_t)g_fault) || n > kAllocLimit) throw std::bad_alloc();
    uint8_t *p = (uint8_t*)malloc(n ? n : 1);     // ASan block of exactly n bytes: redzones on both sides
    if (!p) throw std::bad_alloc();
    memset(p, 0xA5, n);                            // never hand out zeroes: a missing copy shows
    for (auto &b : g_blocks) if (!b.p) { b.p = p; b.n = n; return p; }
    abort();                                       // more than 64 live blocks: the code leaks
}
void operator delete[](void *p) noexcept {
    if (!p) return;
    for (auto &b : g_blocks) if (b.p == p) { b.p = nullptr; if (g_armed) ++g_dels; free(p); return; }
    free(p);                                       // not one of the tracked blocks
}
void operator delete[](void *p, size_t) noexcept { operator delete[](p); }

// ---------------------------------------------------------------- buffers
static const size_t kSlots = 4;
static std::unique_ptr<Buffer> g[kSlots];

static void destroyAll() { for (auto &b : g) b.reset(); }
static void reinit() {
    destroyAll();
    g_armed = true;      // the default-constructed buffers own tracked blocks too
    for (auto &b : g) b.reset(new Buffer());      // default capacity kInitialSize
    g_armed = false;
}

static std::string show(bool quiet = false) {
    std::string s;
    for (size_t i = 0; i < kSlots; ++i) {
        if (i) s += "|";
        s += (quiet ? std::string("~") : vh::hex(g[i]->readableBegin(), g[i]->readableSize())) + ":" + std::to_string(g[i]->readableSize());
    }
    return s;
}

// FNV-1a (64 bit) = Tbox.C07.fnv
static std::string fnvhex(const uint8_t *p, size_t n) {
    uint64_t h = 14695981039346656037ull;
    for (size_t k = 0; k < n; ++k) h = (h ^ p[k]) * 1099511628211ull;
    char buf[17]; snprintf(buf, sizeof buf, "%016llx", (unsigned long long)h);
    return buf;
}
// fetched bytes: hex up to 64 bytes, digest beyond
static std::string outhex(const uint8_t *p, size_t n) {
    return n <= 64 ? vh::hex(p, n) : "~" + fnvhex(p, n) + ":" + std::to_string(n);
}

// every window inside the owner's current block; no block shared by two buffers
static bool windowsInside() {
    const Block *own[kSlots];
    for (size_t i = 0; i < kSlots; ++i) {
        const Buffer &b = *g[i];
        const uint8_t *rb = b.readableBegin(), *wb = b.writableBegin();
        size_t rs = b.readableSize(), ws = b.writableSize();
        own[i] = nullptr;
        if (rb == nullptr || wb == nullptr) {
            if (rb != wb || rs != 0 || ws != 0) return false;
            continue;
        }
        const Block *k = blockOf(rb);
        if (!k) return false;
        if (rs > (size_t)(k->p + k->n - rb)) return false;
        if (wb != rb + rs) return false;
        if (ws > (size_t)(k->p + k->n - wb)) return false;
        own[i] = k;
        for (size_t j = 0; j < i; ++j) if (own[j] == k) return false;
    }
    return true;
}

// a size_t literal: digits only, value <= SIZE_MAX (vh::to_u64 wraps silently)
static bool num(const std::string &s, uint64_t &v) {
    if (s.empty() || s.size() > 20) return false;
    v = 0;
    for (char c : s) {
        if (c < '0' || c > '9') return false;
        if (v > (UINT64_MAX - (uint64_t)(c - '0')) / 10) return false;
        v = v * 10 + (uint64_t)(c - '0');
    }
    return true;
}

static bool slot(const std::string &w, size_t &i) {
    uint64_t v; if (!num(w, v) || v >= kSlots) return false; i = v; return true;
}

// a size: literal, or `@rs` / `@ws` (readable / writable size of the reference buffer, taken before the
// op) with an optional +K / -K (K < 2^32; `-` saturates at 0)
static bool g_have_ref = false; static uint64_t g_rs = 0, g_ws = 0;
static bool snum(const std::string &s, uint64_t &v) {
    if (s.empty() || s[0] != '@') return num(s, v);
    if (!g_have_ref || s.size() < 3) return false;
    uint64_t base;
    if (s.compare(1, 2, "rs") == 0) base = g_rs; else if (s.compare(1, 2, "ws") == 0) base = g_ws; else return false;
    if (s.size() == 3) { v = base; return true; }
    uint64_t k;
    if (!num(s.substr(4), k) || k >= 4294967296ull) return false;
    if (s[3] == '+') { if (base > UINT64_MAX - k) return false; v = base + k; return true; }
    if (s[3] == '-') { v = base > k ? base - k : 0; return true; }
    return false;
}
// a payload: hex, or %<n>:<seed> = Tbox.C07.pattern seed n
static const uint64_t kPatLimit = 16777216;
static bool payload(const std::string &s, std::vector<uint8_t> &d) {
    if (s.empty() || s[0] != '%') return vh::unhex(s, d);
    size_t c = s.find(':');
    if (c == std::string::npos || s.find(':', c + 1) != std::string::npos) return false;
    uint64_t n, seed;
    if (!snum(s.substr(1, c - 1), n) || !num(s.substr(c + 1), seed) || n > kPatLimit || seed >= 4294967296ull) return false;
    d.resize(n);
    for (uint64_t k = 0; k < n; ++k) d[k] = (uint8_t)(seed * 131 + k * 7 + k / 256);
    return true;
}

// a heap block holding `n` bytes at a chosen placement: pl 0..7 = start misaligned by pl, the last
// byte directly in front of the redzone; pl 8..15 = first byte directly behind the redzone, pl-8 spare
// bytes behind the data
struct Placed {
    uint8_t *block, *p;
    Placed(unsigned pl, size_t n) {
        size_t pad = pl < 8 ? pl : pl - 8;
        block = (uint8_t*)malloc(n + pad ? n + pad : 1);
        p = pl < 8 ? block + pad : block;
    }
    ~Placed() { free(block); }
};

int main() {
    std::string line;
    reinit();
    bool tainted = false, quiet = false;
    while (std::getline(std::cin, line)) {
        auto w = vh::words(line);
        if (w.empty()) continue;
        if (w[0] == "case") { reinit(); tainted = false; quiet = false; std::cout << line << "\n"; continue; }
        if (w.size() == 1 && w[0] == "teardown") {
            destroyAll();
            std::cout << "P live=" << liveBlocks() << "\n";
            reinit();
            continue;
        }
        if (w.size() == 1 && w[0] == "fast") { std::cout << "P fast\n"; continue; }     // the model side switches representation
        if (w.size() == 1 && w[0] == "quiet") { quiet = true; std::cout << "P quiet\n"; continue; }
        if (w.size() == 2 && w[0] == "dig") {
            size_t k;
            if (!slot(w[1], k)) { std::cout << "bad-op\n"; continue; }
            std::cout << (tainted ? "M " : "P ") << "dig=" << fnvhex(g[k]->readableBegin(), g[k]->readableSize())
                      << " len=" << g[k]->readableSize() << "\n";
            continue;
        }
        long fault = 0;
        if (w[0] == "F") fault = -1;
        else if (w[0].size() > 1 && w[0][0] == 'F') {
            uint64_t k;
            if (num(w[0].substr(1), k) && k >= 1 && k <= 9) fault = (long)k;
        }
        if (fault != 0) { w.erase(w.begin()); if (w.empty()) { std::cout << "bad-op\n"; continue; } }
        size_t i = 0, j = 0; uint64_t n = 0, off = 0, pl = 0; std::vector<uint8_t> d;
        std::string extra; uint64_t ret = 0; std::string out = "-";
        const std::string &op = w[0];
        bool ok = true;
        const char *how = "ok";
        g_news = g_dels = 0;
        // the buffer `@rs` / `@ws` refer to (the SOURCE buffer for appo), sizes taken before the op
        {
            size_t ref;
            g_have_ref = (op == "appo") ? (w.size() > 2 && slot(w[2], ref)) : (w.size() > 1 && slot(w[1], ref));
            if (g_have_ref) { g_rs = g[ref]->readableSize(); g_ws = g[ref]->writableSize(); }
        }
        bool uses_ws = false, uses_at = false;
        for (auto &x : w) { if (x.find("@ws") != std::string::npos) uses_ws = true; if (x.find('@') != std::string::npos) uses_at = true; }
        (void)uses_at;
        // One attempt at the operation.  The calls into the code under test run armed; std::bad_alloc is
        // the reported failure.
        auto attempt = [&](long with_fault) {
          g_fault = with_fault; g_req = 0; how = "ok"; ret = 0; out = "-"; extra.clear();
          try {
            if (op == "ctor" && w.size() == 3 && slot(w[1], i) && snum(w[2], n)) {
                g_armed = true; g[i].reset(new Buffer(n));
            } else if (op == "ctord" && w.size() == 2 && slot(w[1], i)) {
                g_armed = true; g[i].reset(new Buffer());
            } else if ((op == "app" && w.size() == 3 && slot(w[1], i) && payload(w[2], d)) ||
                       (op == "appa" && w.size() == 4 && slot(w[1], i) && num(w[2], pl) && pl < 16 && payload(w[3], d))) {
                Placed src(op == "app" ? 0 : (unsigned)pl, d.size());
                if (!d.empty()) memcpy(src.p, d.data(), d.size());
                g_armed = true;
                ret = g[i]->append(src.p, d.size());
                g_armed = false;
                if (ret != d.size()) how = "refused";
            } else if (op == "apps" && w.size() == 4 && slot(w[1], i) && snum(w[2], off) && snum(w[3], n)) {
                // append from the buffer's own readable bytes; the room is reserved BEFORE the source
                // pointer is taken, so the append itself neither moves nor reallocates
                // (that an append into reserved room does not move anything is a property of the capacity policy:
                // from here on the case's state lines are model-internal)
                tainted = true;
                size_t rs = g[i]->readableSize();
                if (off <= rs && n <= rs - off) {
                    g_armed = true;
                    if (g[i]->ensureWritableSize(n)) {
                        ret = g[i]->append(g[i]->readableBegin() + off, n);
                        if (ret != n) how = "refused";
                    } else how = "refused";
                }
            } else if (op == "appo" && w.size() == 5 && slot(w[1], i) && slot(w[2], j) && i != j && snum(w[3], off) && snum(w[4], n)) {
                // the source lies inside the block of ANOTHER buffer: nothing the append does to g[i] may touch it
                size_t rs = g[j]->readableSize();
                if (off <= rs && n <= rs - off) {
                    std::string src_before = vh::hex(g[j]->readableBegin(), rs);
                    g_armed = true;
                    ret = g[i]->append(g[j]->readableBegin() + off, n);
                    g_armed = false;
                    if (ret != n) how = "refused";
                    if (vh::hex(g[j]->readableBegin(), g[j]->readableSize()) != src_before) out = "source-changed";
                }
            } else if (op == "res" && w.size() == 3 && slot(w[1], i) && snum(w[2], n)) {
                g_armed = true;
                bool r = g[i]->ensureWritableSize(n);
                g_armed = false;
                ret = r ? 1 : 0;
                if (!r) how = "refused";
                else {
                    extra = g[i]->writableSize() >= n ? " wr=1" : " wr=0";
                    // the reserved bytes are really there (ASan sees a lie)
                    if (n > 0 && n <= (1u << 20) && g[i]->writableSize() >= n) memset(g[i]->writableBegin(), 0xEE, n);
                }
            } else if (op == "rwc" && w.size() == 4 && slot(w[1], i) && snum(w[2], n) && payload(w[3], d) && d.size() <= n) {
                g_armed = true;
                if (g[i]->ensureWritableSize(n)) {
                    if (!d.empty()) memcpy(g[i]->writableBegin(), d.data(), d.size());
                    g[i]->hasWritten(d.size());
                } else how = "refused";
            } else if (op == "over" && w.size() == 3 && slot(w[1], i) && snum(w[2], n)) {
                size_t ws = g[i]->writableSize();
                if (ws) memset(g[i]->writableBegin(), 0, ws);
                g_armed = true;
                g[i]->hasWritten(n > ws ? n : ws);      // over-commit: at least the whole writable region, up to SIZE_MAX
                tainted = true;
            } else if ((op == "fetch" && w.size() == 3 && slot(w[1], i) && snum(w[2], n)) ||
                       (op == "fetcha" && w.size() == 4 && slot(w[1], i) && num(w[2], pl) && pl < 16 && snum(w[3], n))) {
                // destination of exactly min(n, readable) bytes at the chosen placement: an overrun is visible to ASan
                size_t rs = g[i]->readableSize();
                size_t want = n < rs ? n : rs;
                Placed dst(op == "fetch" ? 0 : (unsigned)pl, want);
                g_armed = true;
                ret = g[i]->fetch(dst.p, n);
                g_armed = false;
                out = outhex(dst.p, ret <= want ? ret : 0);
            } else if (op == "fetchw" && w.size() == 3 && slot(w[1], i) && snum(w[2], n)) {
                // fetch into the buffer's OWN writable region: room for the bytes is reserved first, then
                // writableBegin() is the destination (source and destination inside one block)
                size_t rs = g[i]->readableSize();
                size_t want = n < rs ? n : rs;
                g_armed = true;
                if (g[i]->ensureWritableSize(want)) {
                    uint8_t *p = g[i]->writableBegin();
                    ret = g[i]->fetch(p, n);
                    g_armed = false;
                    out = outhex(p, ret <= want ? ret : 0);
                } else how = "refused";
            } else if (op == "con" && w.size() == 3 && slot(w[1], i) && snum(w[2], n)) {
                g_armed = true; g[i]->hasRead(n);
            } else if (op == "conall" && w.size() == 2 && slot(w[1], i)) {
                g_armed = true; g[i]->hasReadAll();
            } else if (op == "shrink" && w.size() == 2 && slot(w[1], i)) {
                g_armed = true; g[i]->shrink();
            } else if (op == "cpa" && w.size() == 3 && slot(w[1], i) && slot(w[2], j)) {
                g_armed = true; *g[i] = *g[j];
            } else if (op == "mva" && w.size() == 3 && slot(w[1], i) && slot(w[2], j)) {
                g_armed = true; *g[i] = std::move(*g[j]);
            } else if (op == "cpc" && w.size() == 3 && slot(w[1], i) && slot(w[2], j) && i != j) {
                g_armed = true; g[i].reset(new Buffer(*g[j]));
            } else if (op == "mvc" && w.size() == 3 && slot(w[1], i) && slot(w[2], j) && i != j) {
                g_armed = true; g[i].reset(new Buffer(std::move(*g[j])));
            } else if (op == "swap" && w.size() == 3 && slot(w[1], i) && slot(w[2], j)) {
                g_armed = true; g[i]->swap(*g[j]);
            } else if (op == "reset" && w.size() == 2 && slot(w[1], i)) {
                g_armed = true; g[i]->reset();
            } else if (op == "rt" && w.size() == 2 && slot(w[1], i)) {
                // composite, two allocations: copy into a temporary, assign back
                g_armed = true;
                { Buffer c(*g[i]); *g[i] = c; }
            } else if (op == "rtm" && w.size() == 3 && slot(w[1], i) && payload(w[2], d)) {
                // composite, two allocations: copy into a temporary, append to it (an exact-fit copy must grow), move back
                g_armed = true;
                {
                    Buffer c(*g[i]);
                    ret = c.append(d.data(), d.size());
                    if (ret != d.size()) how = "refused";
                    *g[i] = std::move(c);
                }
            } else ok = false;
          } catch (const std::bad_alloc &) {
            how = "badalloc"; ret = 0; out = "-";
          }
          g_armed = false; g_fault = 0;
        };
        // `F op`: first an attempt during which every allocation fails.  Whether the op needs an allocation
        // depends on the capacity policy (M line); what the property demands is that a FAILED attempt leaves
        // everything as it was (`keep`), after which the op is executed again with a working allocator.
        const char *how1 = "ok"; bool keep = true;
        if (fault != 0) {
            std::string before = show();
            attempt(fault);
            how1 = how;
            if (ok && strcmp(how, "ok") != 0) {
                keep = (show() == before) && windowsInside();
                attempt(0);
            }
        } else {
            attempt(0);
            how1 = how;
        }
        if (!ok) { std::cout << "bad-op\n"; continue; }
        if (uses_ws && op != "res") tainted = true;      // a size derived from the capacity: the content depends on the policy
        bool failed = strcmp(how, "ok") != 0;
        std::cout << (tainted ? "M " : "P ") << show(quiet) << " ret=" << ret << " out=" << out
                  << " st=" << (failed ? "fail" : "ok") << " in=" << (windowsInside() ? 1 : 0) << " keep=" << (keep ? 1 : 0) << extra << "\n";
        std::cout << "M how=" << how1 << " news=" << g_news << " dels=" << g_dels
                  << " wsz=" << g[i]->writableSize() << " live=" << liveBlocks() << "\n";
    }
    return 0;
}
