// C07 harness: executes buffer op files against the real tbox::util::Buffer and prints the
// API-observable state after every op (same format as lean/Driver/C07.lean).
//
// operator new[] / delete[] are interposed: every block the Buffer code allocates is recorded
// (address, size), requests above kAllocLimit and requests of an op prefixed `F` throw
// std::bad_alloc (no memory is touched), and after every op each buffer's readable and writable
// windows are checked to lie inside the block it currently owns, blocks of different buffers being
// different (`in=1`).
#include "vh.h"
#include <cstring>
#include <memory>
#include <new>
#include <tbox/util/buffer.h>

using tbox::util::Buffer;

// ---------------------------------------------------------------- allocator interposition
static const size_t kAllocLimit = 16777216;     // = allocLimit of the Lean driver
struct Block { uint8_t *p; size_t n; };
static Block g_blocks[64];
static bool g_armed = false;    // inside a call into the code under test
static bool g_fault = false;    // every armed request fails
static uint64_t g_news = 0, g_dels = 0;

static size_t liveBlocks() { size_t k = 0; for (auto &b : g_blocks) if (b.p) ++k; return k; }
static const Block *blockOf(const uint8_t *p) {
    for (auto &b : g_blocks) if (b.p && p >= b.p && p <= b.p + b.n) return &b;
    return nullptr;
}

void *operator new[](size_t n) {
    if (!g_armed) { void *p = malloc(n ? n : 1); if (!p) throw std::bad_alloc(); return p; }
    ++g_news;
    if (g_fault || n > kAllocLimit) throw std::bad_alloc();
    uint8_t *p = (uint8_t*)malloc(n ? n : 1);     // ASan block of exactly n bytes: redzones on both sides
    if (!p) throw std::bad_alloc();
    memset(p, 0xA5, n);                            // never hand out zeroes: a missing copy shows
    for (auto &b : g_blocks) if (!b.p) { b.p = p; b.n = n; return p; }
    abort();                                       // more than 64 live blocks: the code leaks
}
void operator delete[](void *p) noexcept {
    if (!p) return;
    for (auto &b : g_blocks) if (b.p == p) { b.p = nullptr; if (g_armed) ++g_dels; free(p); return; }
    free(p);                                       // not one of the tracked blocks
}
void operator delete[](void *p, size_t) noexcept { operator delete[](p); }

// ---------------------------------------------------------------- buffers
static const size_t kSlots = 4;
static std::unique_ptr<Buffer> g[kSlots];

static void destroyAll() { for (auto &b : g) b.reset(); }
static void reinit() {
    destroyAll();
    g_armed = true;      // the default-constructed buffers own tracked blocks too
    for (auto &b : g) b.reset(new Buffer());      // default capacity kInitialSize
    g_armed = false;
}

static std::string show() {
    std::string s;
    for (size_t i = 0; i < kSlots; ++i) {
        if (i) s += "|";
        s += vh::hex(g[i]->readableBegin(), g[i]->readableSize()) + ":" + std::to_string(g[i]->readableSize());
    }
    return s;
}

// every window inside the owner's current block; no block shared by two buffers
static bool windowsInside() {
    const Block *own[kSlots];
    for (size_t i = 0; i < kSlots; ++i) {
        const Buffer &b = *g[i];
        const uint8_t *rb = b.readableBegin(), *wb = b.writableBegin();
        size_t rs = b.readableSize(), ws = b.writableSize();
        own[i] = nullptr;
        if (rb == nullptr || wb == nullptr) {
            if (rb != wb || rs != 0 || ws != 0) return false;
            continue;
        }
        const Block *k = blockOf(rb);
        if (!k) return false;
        if (rs > (size_t)(k->p + k->n - rb)) return false;
        if (wb != rb + rs) return false;
        if (ws > (size_t)(k->p + k->n - wb)) return false;
        own[i] = k;
        for (size_t j = 0; j < i; ++j) if (own[j] == k) return false;
    }
    return true;
}

// a size_t literal: digits only, value <= SIZE_MAX (vh::to_u64 wraps silently)
static bool num(const std::string &s, uint64_t &v) {
    if (s.empty() || s.size() > 20) return false;
    v = 0;
    for (char c : s) {
        if (c < '0' || c > '9') return false;
        if (v > (UINT64_MAX - (uint64_t)(c - '0')) / 10) return false;
        v = v * 10 + (uint64_t)(c - '0');
    }
    return true;
}

static bool slot(const std::string &w, size_t &i) {
    uint64_t v; if (!num(w, v) || v >= kSlots) return false; i = v; return true;
}

// a heap block holding `n` bytes at a chosen placement: pl 0..7 = start misaligned by pl, the last
// byte directly in front of the redzone; pl 8..15 = first byte directly behind the redzone, pl-8 spare
// bytes behind the data
struct Placed {
    uint8_t *block, *p;
    Placed(unsigned pl, size_t n) {
        size_t pad = pl < 8 ? pl : pl - 8;
        block = (uint8_t*)malloc(n + pad ? n + pad : 1);
        p = pl < 8 ? block + pad : block;
    }
    ~Placed() { free(block); }
};

int main() {
    std::string line;
    reinit();
    bool tainted = false;
    while (std::getline(std::cin, line)) {
        auto w = vh::words(line);
        if (w.empty()) continue;
        if (w[0] == "case") { reinit(); tainted = false; std::cout << line << "\n"; continue; }
        if (w.size() == 1 && w[0] == "teardown") {
            destroyAll();
            std::cout << "P live=" << liveBlocks() << "\n";
            reinit();
            continue;
        }
        bool fault = false;
        if (w[0] == "F") { fault = true; w.erase(w.begin()); if (w.empty()) { std::cout << "bad-op\n"; continue; } }
        size_t i = 0, j = 0; uint64_t n = 0, off = 0, pl = 0; std::vector<uint8_t> d;
        std::string extra; uint64_t ret = 0; std::string out = "-";
        const std::string &op = w[0];
        bool ok = true;
        const char *how = "ok";
        g_news = g_dels = 0;
        // One attempt at the operation.  The calls into the code under test run armed; std::bad_alloc is
        // the reported failure.
        auto attempt = [&](bool with_fault) {
          g_fault = with_fault; how = "ok"; ret = 0; out = "-"; extra.clear();
          try {
            if (op == "ctor" && w.size() == 3 && slot(w[1], i) && num(w[2], n)) {
                g_armed = true; g[i].reset(new Buffer(n));
            } else if (op == "ctord" && w.size() == 2 && slot(w[1], i)) {
                g_armed = true; g[i].reset(new Buffer());
            } else if ((op == "app" && w.size() == 3 && slot(w[1], i) && vh::unhex(w[2], d)) ||
                       (op == "appa" && w.size() == 4 && slot(w[1], i) && num(w[2], pl) && pl < 16 && vh::unhex(w[3], d))) {
                Placed src(op == "app" ? 0 : (unsigned)pl, d.size());
                if (!d.empty()) memcpy(src.p, d.data(), d.size());
                g_armed = true;
                ret = g[i]->append(src.p, d.size());
                g_armed = false;
                if (ret != d.size()) how = "refused";
            } else if (op == "apps" && w.size() == 4 && slot(w[1], i) && num(w[2], off) && num(w[3], n)) {
                // append from the buffer's own readable bytes; the room is reserved BEFORE the source
                // pointer is taken, so the append itself neither moves nor reallocates
                // (that an append into reserved room does not move anything is a property of the capacity policy:
                // from here on the case's state lines are model-internal)
                tainted = true;
                size_t rs = g[i]->readableSize();
                if (off <= rs && n <= rs - off) {
                    g_armed = true;
                    if (g[i]->ensureWritableSize(n)) {
                        ret = g[i]->append(g[i]->readableBegin() + off, n);
                        if (ret != n) how = "refused";
                    } else how = "refused";
                }
            } else if (op == "res" && w.size() == 3 && slot(w[1], i) && num(w[2], n)) {
                g_armed = true;
                bool r = g[i]->ensureWritableSize(n);
                g_armed = false;
                ret = r ? 1 : 0;
                if (!r) how = "refused";
                else {
                    extra = g[i]->writableSize() >= n ? " wr=1" : " wr=0";
                    // the reserved bytes are really there (ASan sees a lie)
                    if (n > 0 && n <= (1u << 20) && g[i]->writableSize() >= n) memset(g[i]->writableBegin(), 0xEE, n);
                }
            } else if (op == "rwc" && w.size() == 4 && slot(w[1], i) && num(w[2], n) && vh::unhex(w[3], d) && d.size() <= n) {
                g_armed = true;
                if (g[i]->ensureWritableSize(n)) {
                    if (!d.empty()) memcpy(g[i]->writableBegin(), d.data(), d.size());
                    g[i]->hasWritten(d.size());
                } else how = "refused";
            } else if (op == "over" && w.size() == 3 && slot(w[1], i) && num(w[2], n)) {
                size_t ws = g[i]->writableSize();
                if (ws) memset(g[i]->writableBegin(), 0, ws);
                g_armed = true;
                g[i]->hasWritten(n > ws ? n : ws);      // over-commit: at least the whole writable region, up to SIZE_MAX
                tainted = true;
            } else if ((op == "fetch" && w.size() == 3 && slot(w[1], i) && num(w[2], n)) ||
                       (op == "fetcha" && w.size() == 4 && slot(w[1], i) && num(w[2], pl) && pl < 16 && num(w[3], n))) {
                // destination of exactly min(n, readable) bytes at the chosen placement: an overrun is visible to ASan
                size_t rs = g[i]->readableSize();
                size_t want = n < rs ? n : rs;
                Placed dst(op == "fetch" ? 0 : (unsigned)pl, want);
                g_armed = true;
                ret = g[i]->fetch(dst.p, n);
                g_armed = false;
                out = vh::hex(dst.p, ret <= want ? ret : 0);
            } else if (op == "con" && w.size() == 3 && slot(w[1], i) && num(w[2], n)) {
                g_armed = true; g[i]->hasRead(n);
            } else if (op == "conall" && w.size() == 2 && slot(w[1], i)) {
                g_armed = true; g[i]->hasReadAll();
            } else if (op == "shrink" && w.size() == 2 && slot(w[1], i)) {
                g_armed = true; g[i]->shrink();
            } else if (op == "cpa" && w.size() == 3 && slot(w[1], i) && slot(w[2], j)) {
                g_armed = true; *g[i] = *g[j];
            } else if (op == "mva" && w.size() == 3 && slot(w[1], i) && slot(w[2], j)) {
                g_armed = true; *g[i] = std::move(*g[j]);
            } else if (op == "cpc" && w.size() == 3 && slot(w[1], i) && slot(w[2], j) && i != j) {
                g_armed = true; g[i].reset(new Buffer(*g[j]));
            } else if (op == "mvc" && w.size() == 3 && slot(w[1], i) && slot(w[2], j) && i != j) {
                g_armed = true; g[i].reset(new Buffer(std::move(*g[j])));
            } else if (op == "swap" && w.size() == 3 && slot(w[1], i) && slot(w[2], j)) {
                g_armed = true; g[i]->swap(*g[j]);
            } else if (op == "reset" && w.size() == 2 && slot(w[1], i)) {
                g_armed = true; g[i]->reset();
            } else ok = false;
          } catch (const std::bad_alloc &) {
            how = "badalloc"; ret = 0;
          }
          g_armed = false; g_fault = false;
        };
        // `F op`: first an attempt during which every allocation fails.  Whether the op needs an allocation
        // depends on the capacity policy (M line); what the property demands is that a FAILED attempt leaves
        // everything as it was (`keep`), after which the op is executed again with a working allocator.
        const char *how1 = "ok"; bool keep = true;
        if (fault) {
            std::string before = show();
            attempt(true);
            how1 = how;
            if (ok && strcmp(how, "ok") != 0) {
                keep = (show() == before) && windowsInside();
                attempt(false);
            }
        } else {
            attempt(false);
            how1 = how;
        }
        if (!ok) { std::cout << "bad-op\n"; continue; }
        bool failed = strcmp(how, "ok") != 0;
        std::cout << (tainted ? "M " : "P ") << show() << " ret=" << ret << " out=" << out
                  << " st=" << (failed ? "fail" : "ok") << " in=" << (windowsInside() ? 1 : 0) << " keep=" << (keep ? 1 : 0) << extra << "\n";
        std::cout << "M how=" << how1 << " news=" << g_news << " dels=" << g_dels
                  << " wsz=" << g[i]->writableSize() << " live=" << liveBlocks() << "\n";
    }
    return 0;
}
