// C08 harness: executes `cab …` / `pool …` / `fd …` op lines against the real
// tbox::cabinet::Cabinet, tbox::ObjectPool and tbox::util::Fd and prints the API-observable
// results (same format as lean/Driver/C08.lean).  Nothing printed is an address or a raw
// descriptor number: objects and descriptors are labelled by the harness.
#include "vh.h"
#include <algorithm>
#include <fcntl.h>
#include <unistd.h>
#include <functional>
#include <map>
#include <memory>
#include <new>
#include <set>
#include <stdexcept>
#include <utility>
#include <sys/uio.h>
#include <dlfcn.h>
#include <errno.h>
#include <stdarg.h>

#include <set>
#include <unordered_set>
#include <tbox/base/object_pool.hpp>
// ref_count lives in a protected struct behind a private pointer; it is printed on the
// model-internal `M` line only.  Cabinet::last_id_ is written by the test op `cab jump` (ids near 2^64).
#define private public
#define protected public
#include <tbox/base/cabinet.hpp>
#include <tbox/util/fd.h>
#include <tbox/base/lifetime_tag.hpp>      // d_ / Detail are private: read for labels and the M line only
#undef private
#undef protected
#if defined(__SANITIZE_ADDRESS__)
#include <sanitizer/asan_interface.h>
#endif

using tbox::cabinet::Cabinet;
using tbox::cabinet::Token;
using tbox::util::Fd;

static bool num(const std::string &w, uint64_t bound, uint64_t &v) { return vh::to_u64(w, v) && w.size() < 15 && v < bound; }
// any size_t value: decimal digits only, at most 20, no overflow
static bool num64(const std::string &w, uint64_t &v) {
    if (w.empty() || w.size() > 20) return false;
    v = 0;
    for (char c : w) {
        if (c < '0' || c > '9') return false;
        uint64_t d = (uint64_t)(c - '0');
        if (v > (UINT64_MAX - d) / 10) return false;
        v = v * 10 + d;
    }
    return true;
}
static std::string comma(const std::vector<std::string> &v) {
    if (v.empty()) return "-";
    std::string s; for (size_t i = 0; i < v.size(); ++i) { if (i) s += ","; s += v[i]; } return s;
}

// ---------------------------------------------------------------- allocation faults
// The global allocation functions are replaced so that the op file can make the next `operator new`
// inside the code under test throw std::bad_alloc (malloc/free underneath: ASan still checks every access).
static int g_new_fail = 0;          // > 0: the g_new_fail-th call from now throws
static bool g_new_hit = false;
static void *vnew(std::size_t n) {
    if (g_new_fail > 0 && --g_new_fail == 0) { g_new_hit = true; throw std::bad_alloc(); }
    void *p = malloc(n ? n : 1);
    if (!p) throw std::bad_alloc();
    return p;
}
void *operator new(std::size_t n) { return vnew(n); }
void *operator new[](std::size_t n) { return vnew(n); }
void *operator new(std::size_t n, const std::nothrow_t &) noexcept { return malloc(n ? n : 1); }
void *operator new[](std::size_t n, const std::nothrow_t &) noexcept { return malloc(n ? n : 1); }
void operator delete(void *p) noexcept { free(p); }
void operator delete[](void *p) noexcept { free(p); }
void operator delete(void *p, std::size_t) noexcept { free(p); }
void operator delete[](void *p, std::size_t) noexcept { free(p); }
void operator delete(void *p, const std::nothrow_t &) noexcept { free(p); }
void operator delete[](void *p, const std::nothrow_t &) noexcept { free(p); }

// ---------------------------------------------------------------- cabinet
static const uint64_t kMaxObj = 1000, kMaxBulk = 400000;
static int g_objs[kMaxObj];                       // object number o <-> &g_objs[o]; 0 <-> nullptr
static std::unique_ptr<Cabinet<int>> g_cab;
static std::vector<Token> g_toks;

static int *objp(uint64_t o) { return o ? &g_objs[o] : nullptr; }
static std::string objn(int *p) {      // never an address: a pointer that is not one of ours prints as "?"
    if (!p) return "0";
    if (p < g_objs || p >= g_objs + kMaxObj) return "?";
    return std::to_string((uint64_t)(p - g_objs));
}

static bool cab_line(const std::vector<std::string> &w) {
    uint64_t a = 0, b = 0;
    const std::string &op = w[1];
    Cabinet<int> &c = *g_cab;
    if (op == "alloc" && w.size() == 3 && num(w[2], kMaxObj, a)) {
        try {
            Token t = c.alloc(objp(a));
            std::string d = "fresh";
            for (size_t j = 0; j < g_toks.size(); ++j) if (g_toks[j] == t) { d = "dup=" + std::to_string(j); break; }
            g_toks.push_back(t);
            std::cout << "P alloc " << d << " size=" << c.size() << "\nM tok " << t.id() << " " << t.pos() << "\n";
        } catch (const std::out_of_range &) {
            g_toks.push_back(Token());
            std::cout << "P alloc throw size=" << c.size() << "\nM tok - -\n";
        }
    } else if (op == "allocfail" && w.size() == 3 && num(w[2], kMaxObj, a)) {
        // capacity == size, then the next operator new throws: push_back must grow and fails; with a free
        // cell alloc() makes no allocation at all and succeeds
        c.cells_.shrink_to_fit();
        g_toks.reserve(g_toks.size() + 1);
        size_t sz0 = c.size();
        g_new_hit = false; g_new_fail = 1;
        try {
            Token t = c.alloc(objp(a));
            g_new_fail = 0;
            std::string d = "fresh";
            for (size_t j = 0; j < g_toks.size(); ++j) if (g_toks[j] == t) { d = "dup=" + std::to_string(j); break; }
            g_toks.push_back(t);
            std::cout << "P alloc " << d << " size=" << c.size() << "\nM tok " << t.id() << " " << t.pos() << "\n";
        } catch (const std::bad_alloc &) {
            g_new_fail = 0;
            g_toks.push_back(Token());
            std::cout << "P alloc bad_alloc size=" << c.size() << (c.size() != sz0 ? " size-changed" : "") << "\nM lastid=" << c.last_id_ << "\n";
        }
    } else if (op == "at" && w.size() == 3 && num(w[2], g_toks.size(), a)) {
        std::cout << "P at=" << objn(c.at(g_toks[a])) << "\n";
    } else if (op == "atraw" && w.size() == 4 && num64(w[2], a) && num64(w[3], b)) {
        std::cout << "M at=" << objn(c[Token(a, b)]) << "\n";
    } else if (op == "jump" && w.size() == 3 && num64(w[2], a) && a >= c.last_id_) {
        c.last_id_ = a;            // test access: as if a - last_id_ entries had been allocated and freed
        std::cout << "P ok\n";
    } else if (op == "bulk" && w.size() >= 3) {
        const std::string &sub = w[2];
        uint64_t n = 0, m = 0, r = 0;
        auto objnum = [](int *p) -> uint64_t { return !p ? 0 : (p < g_objs || p >= g_objs + kMaxObj) ? kMaxObj : (uint64_t)(p - g_objs); };
        if (sub == "alloc" && w.size() == 5 && num(w[3], kMaxBulk + 1, n) && num(w[4], kMaxObj, a) && g_toks.size() + n <= 2 * kMaxBulk) {
            const size_t first = g_toks.size(); uint64_t nulls = 0;
            for (uint64_t i = 0; i < n; ++i) {
                Token t;
                try { t = c.alloc(objp(1 + (a + i) % 999)); } catch (const std::out_of_range &) { t = Token(); }
                if (t.id() == 0) ++nulls;
                g_toks.push_back(t);
            }
            Token f = first < g_toks.size() ? g_toks[first] : Token(), l = g_toks.empty() ? Token() : g_toks.back();
            std::cout << "P bulk alloc n=" << n << " null=" << nulls << " size=" << c.size() << "\nM bulk tok first=" << f.id() << "." << f.pos()
                      << " last=" << l.id() << "." << l.pos() << "\n";
        } else if (sub == "at" && w.size() == 5 && num(w[3], 2 * kMaxBulk + 1, a) && num(w[4], 2 * kMaxBulk + 1, n) && a + n <= g_toks.size()) {
            uint64_t res = 0, sum = 0; int64_t firstnull = -1;
            for (uint64_t i = 0; i < n; ++i) {
                uint64_t x = objnum(c.at(g_toks[a + i]));
                if (x) ++res; else if (firstnull < 0) firstnull = (int64_t)i;
                sum = (sum + (i + 1) * x) % 1000000007ull;
            }
            std::cout << "P bulk at resolved=" << res << " firstnull=" << (firstnull < 0 ? std::string("-") : std::to_string(firstnull)) << " sum=" << sum << "\n";
        } else if (sub == "free" && w.size() == 8 && num(w[3], 2 * kMaxBulk + 1, a) && num(w[4], 2 * kMaxBulk + 1, n) && num(w[5], 100000, m)
                   && num(w[6], 100000, r) && a + n <= g_toks.size() && m != 0 && r < m && (w[7] == "up" || w[7] == "down")) {
            std::vector<uint64_t> idx;
            for (uint64_t i = 0; i < n; ++i) if (i % m == r) idx.push_back(i);
            if (w[7] == "down") std::reverse(idx.begin(), idx.end());
            uint64_t freed = 0, sum = 0, j = 0;
            for (uint64_t i : idx) {
                uint64_t x = objnum(c.free(g_toks[a + i]));
                if (x) ++freed;
                sum = (sum + (j + 1) * x) % 1000000007ull; ++j;
            }
            std::cout << "P bulk free freed=" << freed << " sum=" << sum << " size=" << c.size() << "\n";
        } else if (sub == "distinct" && w.size() == 3) {
            // compared on the values the accessors return (not with Token's own operators)
            std::vector<std::pair<uint64_t, uint64_t>> v;
            for (auto &t : g_toks) if (t.id() != 0) v.emplace_back(t.id(), t.pos());
            std::sort(v.begin(), v.end());
            uint64_t dups = 0;
            for (size_t i = 1; i < v.size(); ++i) if (v[i] == v[i - 1]) ++dups;
            std::cout << "P bulk distinct tokens=" << v.size() << " dups=" << dups << "\n";
        } else return false;
    } else if (op == "upd" && w.size() == 4 && num(w[2], g_toks.size(), a) && num(w[3], kMaxObj, b)) {
        std::cout << "P upd=" << (c.update(g_toks[a], objp(b)) ? 1 : 0) << "\n";
    } else if (op == "free" && w.size() == 3 && num(w[2], g_toks.size(), a)) {
        int *p = c.free(g_toks[a]);
        std::cout << "P free=" << objn(p) << " size=" << c.size() << "\n";
    } else if (op == "clear" && w.size() == 2) {
        c.clear();
        std::cout << "P clear size=" << c.size() << " empty=" << (c.empty() ? 1 : 0) << "\n";
    } else if (op == "size" && w.size() == 2) {
        std::cout << "P size=" << c.size() << " empty=" << (c.empty() ? 1 : 0) << "\n";
    } else if (op == "reserve" && w.size() == 3 && num64(w[2], a) && (a < 100000 || a >= (1ull << 32))) {
        if (a < 100000) { c.reserve(a); std::cout << "P ok\n"; }
        else {
            // beyond max_size(): std::length_error before any allocation; otherwise the allocation itself fails
            // (operator new made to throw: nothing that large is really requested).  Strong guarantee: nothing changes
            const char *what = "none";
            g_new_hit = false; g_new_fail = a <= c.cells_.max_size() ? 1 : 0;     // (building the length_error itself allocates)
            try { c.reserve(a); }
            catch (const std::length_error &) { what = "length_error"; }
            catch (const std::bad_alloc &) { what = "bad_alloc"; }
            g_new_fail = 0;
            std::cout << "P reserve " << (std::string(what) == "none" ? "returned" : "threw") << " size=" << c.size() << "\nM " << what << "\n";
        }
    } else if (op == "opd" && w.size() == 5 && num(w[4], g_toks.size(), a) && (w[2] == "at" || w[2] == "free" || w[2] == "upd")) {
        // tokens derived from the cabinet's own state (id counter, free-list head, number of cells) and an issued token
        const Token t = g_toks[a];
        const uint64_t L = c.last_id_, F = c.first_free_, S = c.cells_.size();
        const std::string &k = w[3];
        Token d;
        if (k == "next") d = Token(L + 1, F != std::numeric_limits<size_t>::max() ? F : S);
        else if (k == "nextid") d = Token(L + 1, t.pos());
        else if (k == "lastid") d = Token(L, t.pos());
        else if (k == "idm1") d = Token(t.id() - 1, t.pos());
        else if (k == "idp1") d = Token(t.id() + 1, t.pos());
        else if (k == "prev") {
            d = t;
            for (size_t j = a; j-- > 0;) if (g_toks[j].id() != 0 && g_toks[j].pos() == t.pos()) { d = g_toks[j]; break; }
        }
        else if (k == "zero") d = Token(0, t.pos());
        else if (k == "posS") d = Token(t.id(), S);
        else if (k == "posS1") d = Token(t.id(), S - 1);
        else if (k == "posmax") d = Token(t.id(), std::numeric_limits<size_t>::max());
        else if (k == "posF") d = Token(t.id(), F);
        else if (k == "swap") d = Token(t.pos(), t.id());
        else return false;
        if (w[2] == "at") std::cout << "P at=" << objn(c.at(d)) << "\n";
        else if (w[2] == "free") { int *p = c.free(d); std::cout << "P free=" << objn(p) << " size=" << c.size() << "\n"; }
        else std::cout << "P upd=" << (c.update(d, objp(77)) ? 1 : 0) << "\n";
    } else if (op == "scan" && w.size() == 2) {
        std::vector<std::string> v;
        for (auto &t : g_toks) v.push_back(objn(c.at(t)));
        std::cout << "P scan " << comma(v) << "\n";
    } else if (op == "each" && w.size() == 3) {
        // script items k:ACT — ACT = I (free token I) | aO (alloc object O) | c (clear) | uI.O (update token I)
        struct Item { uint64_t k; char kind; uint64_t a, b; };
        std::vector<Item> script;
        if (w[2] != "-") {
            std::string item; std::istringstream is(w[2]);
            if (w[2].back() == ',') return false;
            while (std::getline(is, item, ',')) {
                auto colon = item.find(':');
                if (colon == std::string::npos || item.find(':', colon + 1) != std::string::npos) return false;
                Item it{0, 'f', 0, 0};
                std::string act = item.substr(colon + 1);
                if (!num(item.substr(0, colon), 100000, it.k)) return false;
                if (act == "c") it.kind = 'c';
                else if (act == "n") it.kind = 'n';
                else if (act == "e") it.kind = 'e';
                else if (act == "E") it.kind = 'E';
                else if (!act.empty() && (act[0] == 'x' || act[0] == 'X')) { it.kind = act[0]; if (!num(act.substr(1), kMaxObj, it.a)) return false; }
                else if (act == "s") it.kind = 's';
                else if (!act.empty() && act[0] == 'r') { it.kind = 'r'; if (!num(act.substr(1), 100000, it.a)) return false; }
                else if (!act.empty() && act[0] == 'a') { it.kind = 'a'; if (!num(act.substr(1), kMaxObj, it.a)) return false; }
                else if (!act.empty() && act[0] == 'u') {
                    it.kind = 'u';
                    auto dot = act.find('.');
                    if (dot == std::string::npos || act.find('.', dot + 1) != std::string::npos) return false;
                    if (!num(act.substr(1, dot - 1), g_toks.size(), it.a) || !num(act.substr(dot + 1), kMaxObj, it.b)) return false;
                } else if (!num(act, g_toks.size(), it.a)) return false;
                script.push_back(it);
            }
        }
        // The visiting order (cell order) and, when the callbacks change other entries, the set of
        // entries still reached depend on which cells were reused: model-internal (M line).
        // Property-level: without callbacks' calls every live entry is visited once (sorted list);
        // with them no entry that is dead at the moment of its callback is visited, and no token
        // handed out by an alloc() inside a callback equals an earlier one.
        std::vector<std::string> vis, newtoks; std::vector<uint64_t> sorted; uint64_t k = 0, dead = 0, dup = 0;
        const size_t ntok0 = g_toks.size();
        std::vector<Token> fresh;
        struct CbAbort { };              // an exception that leaves the callback and foreach
        bool aborted = false;
        try {
        c.foreach([&](int *p) {
            if (p && g_toks.size() + fresh.size() <= 3000) {
                bool live = false;
                for (auto &t : g_toks) if (c.at(t) == p) { live = true; break; }
                if (!live) for (auto &t : fresh) if (c.at(t) == p) { live = true; break; }
                if (!live) ++dead;
            }
            vis.push_back(objn(p));
            sorted.push_back((p >= g_objs && p < g_objs + kMaxObj) ? (uint64_t)(p - g_objs) : (p ? kMaxObj : 0));
            const uint64_t kk = k++;
            for (auto &e : script) {
                if (e.k != kk) continue;
                if (e.kind == 'f') c.free(g_toks[e.a]);
                else if (e.kind == 'u') c.update(g_toks[e.a], objp(e.b));
                else if (e.kind == 'c') c.clear();
                else if (e.kind == 'r') c.reserve(e.a);                 // may move cells_ under the running iteration
                else if (e.kind == 's') { if (c.empty() != (c.size() == 0)) ++dead; }
                else if (e.kind == 'n') {                               // a nested iteration sees exactly the live entries
                    size_t cnt = 0; c.foreach([&](int *) { ++cnt; });
                    if (cnt != c.size()) ++dead;
                }
                else if (e.kind == 'e' || e.kind == 'E') {              // reserve() beyond max_size(): length_error, nothing changes
                    bool threw = false;
                    try { c.reserve((size_t)1 << 63); } catch (const std::length_error &) { threw = true; }
                    if (!threw) ++dead;
                    else if (e.kind == 'E') throw CbAbort();
                }
                else if (e.kind == 'x' || e.kind == 'X') {              // alloc() with the next operator new failing
                    c.cells_.shrink_to_fit();                           // capacity == size: a push_back must allocate (moves the cells)
                    fresh.reserve(fresh.size() + 1); newtoks.reserve(newtoks.size() + 1);
                    Token t; bool threw = false;
                    g_new_hit = false; g_new_fail = 1;
                    try { t = c.alloc(objp(e.a)); } catch (const std::bad_alloc &) { threw = true; }
                    g_new_fail = 0;
                    if (threw) { if (e.kind == 'X') throw CbAbort(); }
                    else {
                        bool d = false;
                        for (auto &o : g_toks) if (o == t) { d = true; break; }
                        if (!d) for (auto &o : fresh) if (o == t) { d = true; break; }
                        if (d) ++dup;
                        fresh.push_back(t);
                        newtoks.push_back(std::to_string(t.id()) + "." + std::to_string(t.pos()));
                    }
                }
                else {
                    Token t;
                    try { t = c.alloc(objp(e.a)); } catch (const std::out_of_range &) { t = Token(); }
                    if (!t.isNull()) {
                        bool d = false;
                        for (auto &o : g_toks) if (o == t) { d = true; break; }
                        if (!d) for (auto &o : fresh) if (o == t) { d = true; break; }
                        if (d) ++dup;
                    }
                    fresh.push_back(t);
                    newtoks.push_back(std::to_string(t.id()) + "." + std::to_string(t.pos()));
                }
            }
        });
        } catch (const CbAbort &) { aborted = true; }
        (void)ntok0;
        for (auto &t : fresh) g_toks.push_back(t);
        std::sort(sorted.begin(), sorted.end());
        std::vector<std::string> sv; for (auto x : sorted) sv.push_back(x == kMaxObj ? "?" : std::to_string(x));
        std::cout << "P each " << (script.empty() ? comma(sv) : std::string("*")) << " size=" << c.size() << " deadvisit=" << dead
                  << " dup=" << dup << " abort=" << (aborted ? 1 : 0) << "\nM order " << comma(vis) << " toks=" << comma(newtoks)
                  << " lastid=" << c.last_id_ << "\n";
    } else return false;
    return true;
}

// ---------------------------------------------------------------- object pool
// The probe type's constructor and destructor run a script of operations on the SAME pool:
// `A h v … a` = alloc for slot h an object of value v whose constructor makes the calls in between;
// `F h … f` = free the object of slot h, its destructor making the calls in between.
struct PNode { bool is_alloc; uint64_t h, v; std::vector<PNode> kids; bool throws; };
static void pool_exec(const std::vector<PNode> &nodes);

static uint64_t g_ctor = 0, g_dtor = 0, g_thrown = 0;
static bool g_probe_throw = false;      // the next Probe constructor exits by an exception
struct ProbeError { };
static std::set<const void *> g_live_addr;
static bool g_alias = false;
// block labels: the blocks of the current pool in the order their first constructor was entered (printed on
// an M line, and only for a pool that never gives blocks back, where an address identifies a block)
static std::map<const void *, uint64_t> g_blk;
static bool g_blk_on = true;
struct Probe {
    uint64_t v; uint64_t pad[3];
    const std::vector<PNode> *dtor_script;
    Probe(uint64_t x, const std::vector<PNode> *ctor_script, bool throws_after = false) : v(x), dtor_script(nullptr) {
        ++g_ctor; pad[0] = pad[1] = pad[2] = ~x;
        if (g_blk_on) g_blk.insert(std::make_pair((const void *)this, (uint64_t)g_blk.size()));
        if (g_probe_throw) { g_probe_throw = false; throw ProbeError(); }
        if (!g_live_addr.insert(this).second) g_alias = true;      // storage still in use
        if (ctor_script) pool_exec(*ctor_script);                   // nested calls on the same pool
        if (v != x || pad[1] != ~x) g_alias = true;                 // a nested object was built on top of this one
        if (throws_after) {                                         // the constructor fails after its nested calls
            if (g_live_addr.erase(this) != 1) g_alias = true;
            throw ProbeError();
        }
    }
    ~Probe() {
        ++g_dtor;
        uint64_t x = v;
        if (dtor_script) pool_exec(*dtor_script);                   // storage is in use until the destructor returns
        if (v != x || pad[1] != ~x) g_alias = true;
        if (g_live_addr.erase(this) != 1) g_alias = true;
        v = 0xdeaddeaddeadull;
    }
};
static const uint64_t kPoolSlots = 16;
static std::unique_ptr<tbox::ObjectPool<Probe>> g_pool;
static Probe *g_slot[kPoolSlots];
static bool g_reserved[kPoolSlots];  // destination of an alloc in progress
static uint64_t g_leaked = 0;      // objects abandoned alive when their pool was destroyed (never destructed, never freed)

static void pool_exec(const std::vector<PNode> &nodes) {
    for (auto &n : nodes) {
        if (n.is_alloc) {
            if (g_slot[n.h] || g_reserved[n.h]) continue;           // not applicable: the call and what it nests are not made
            g_reserved[n.h] = true;
            Probe *p = nullptr;
            // the exception of a constructor is caught by whoever made the call (here: the enclosing constructor's /
            // destructor's script or the top level); an enclosing constructor that fails as well is flagged itself
            try { p = g_pool->alloc(n.v, &n.kids, n.throws); } catch (const ProbeError &) { ++g_thrown; }
            g_reserved[n.h] = false;
            g_slot[n.h] = p;
        } else {
            if (!g_slot[n.h]) continue;
            Probe *p = g_slot[n.h]; g_slot[n.h] = nullptr;
            p->dtor_script = &n.kids;
            g_pool->free(p);
        }
    }
}
// recursive descent over the token list; false = malformed
static bool pool_parse(const std::vector<std::string> &w, size_t &i, std::vector<PNode> &out, int depth, bool top) {
    while (i < w.size()) {
        if (w[i] == "A") {
            PNode n{true, 0, 0, {}, false};
            if (depth >= 16 || i + 2 >= w.size() || !num(w[i + 1], kPoolSlots, n.h) || !num(w[i + 2], 1000000, n.v)) return false;
            i += 3;
            if (!pool_parse(w, i, n.kids, depth + 1, false)) return false;
            if (i >= w.size() || (w[i] != "a" && w[i] != "t")) return false;
            n.throws = w[i] == "t";                  // `t`: the constructor throws after its nested calls
            ++i; out.push_back(std::move(n));
        } else if (w[i] == "F") {
            PNode n{false, 0, 0, {}, false};
            if (depth >= 16 || i + 1 >= w.size() || !num(w[i + 1], kPoolSlots, n.h)) return false;
            i += 2;
            if (!pool_parse(w, i, n.kids, depth + 1, false)) return false;
            if (i >= w.size() || w[i] != "f") return false;
            ++i; out.push_back(std::move(n));
        } else return !top;       // a closing token: the caller checks it
    }
    return true;
}

static void pool_status() {
    std::string vals;
    for (uint64_t i = 0; i < kPoolSlots; ++i) {
        if (i) vals += ",";
        if (!g_slot[i]) vals += "-";
        else { vals += std::to_string(g_slot[i]->v); if (g_slot[i]->pad[1] != ~g_slot[i]->v) g_alias = true; }
    }
    auto st = g_pool->getStat();
    std::cout << "P pool ctor=" << g_ctor << " dtor=" << g_dtor << " vals=" << vals << " stat=" << st.total_alloc_times << "/"
              << st.total_free_times << "/" << st.peak_alloc_number << "/" << st.peak_free_number << " alias=" << (g_alias ? 1 : 0)
              << " leaked=" << g_leaked << " thrown=" << g_thrown << "\n";
    std::string blk = "-";
    if (g_blk_on) {
        blk.clear();
        for (uint64_t i = 0; i < kPoolSlots; ++i) {
            if (i) blk += ",";
            auto it = g_slot[i] ? g_blk.find(g_slot[i]) : g_blk.end();
            blk += !g_slot[i] ? std::string("-") : it == g_blk.end() ? std::string("?") : std::to_string(it->second);
        }
    }
    std::cout << "M blk=" << blk << "\n";
}
static void pool_free_all() {
    for (auto &p : g_slot) if (p) { p->dtor_script = nullptr; g_pool->free(p); p = nullptr; }
}
static bool pool_line(const std::vector<std::string> &w) {
    uint64_t h = 0, v = 0;
    const std::string &op = w[1];
    if (op == "alloc" && w.size() == 4 && num(w[2], kPoolSlots, h) && num(w[3], 1000000, v)) {
        if (g_slot[h]) { std::cout << "P busy\n"; return true; }
        g_slot[h] = g_pool->alloc(v, (const std::vector<PNode> *)nullptr);
        pool_status();
    } else if (op == "allocthrow" && w.size() == 4 && num(w[2], kPoolSlots, h) && num(w[3], 1000000, v)) {
        if (g_slot[h]) { std::cout << "P busy\n"; return true; }
        g_probe_throw = true;
        try { g_slot[h] = g_pool->alloc(v, (const std::vector<PNode> *)nullptr); }
        catch (const ProbeError &) { ++g_thrown; }
        g_probe_throw = false;
        pool_status();
    } else if (op == "free" && w.size() == 3 && num(w[2], kPoolSlots, h)) {
        if (!g_slot[h]) { std::cout << "P none\n"; return true; }
        g_slot[h]->dtor_script = nullptr;
        g_pool->free(g_slot[h]); g_slot[h] = nullptr;
        pool_status();
    } else if (op == "x" && w.size() <= 402) {
        std::vector<PNode> prog; size_t i = 2;
        if (!pool_parse(w, i, prog, 0, true) || i != w.size()) return false;
        pool_exec(prog);
        pool_status();
    } else if (op == "new" && w.size() == 3 && (w[2] == "max" || num64(w[2], v))) {
        pool_free_all();
        if (w[2] == "max") g_pool.reset(new tbox::ObjectPool<Probe>());
        else g_pool.reset(new tbox::ObjectPool<Probe>(v));
        g_blk.clear(); g_blk_on = w[2] == "max";
        pool_status();
    } else if (op == "drop" && w.size() == 3 && (w[2] == "max" || num64(w[2], v))) {
        // ~ObjectPool() with live objects: it must not touch their storage (ASan + the values read by
        // later status lines would show it) and runs no destructor; the objects stay where they are
        for (auto &p : g_slot) if (p) { ++g_leaked; p = nullptr; }
        if (w[2] == "max") g_pool.reset(new tbox::ObjectPool<Probe>());
        else g_pool.reset(new tbox::ObjectPool<Probe>(v));
        g_blk.clear(); g_blk_on = w[2] == "max";
        pool_status();
    } else if (op == "stat" && w.size() == 2) {
        pool_status();
    } else if (op == "bulk" && w.size() == 5 && num(w[2], kMaxBulk + 1, h) && (w[3] == "max" || num(w[3], kMaxBulk + 1, v))) {
        // a pool of its own: n objects alive at once, all freed in allocation order, then m more from the parked blocks
        uint64_t n = h, m = 0;
        if (!num(w[4], kMaxBulk + 1, m) || m > n) return false;
        std::unique_ptr<tbox::ObjectPool<Probe>> pool(w[3] == "max" ? new tbox::ObjectPool<Probe>() : new tbox::ObjectPool<Probe>(v));
        const uint64_t c0 = g_ctor, d0 = g_dtor; const bool alias0 = g_alias; g_alias = false;
        const bool blk0 = g_blk_on; g_blk_on = false;
        auto line = [&](const char *tag, const std::vector<Probe *> &live, uint64_t base) {
            std::set<const void *> addr; uint64_t bad = 0;
            for (size_t i = 0; i < live.size(); ++i) {
                addr.insert(live[i]);
                if (live[i]->v != base + i || live[i]->pad[1] != ~(base + i)) ++bad;     // overwritten by another object
            }
            auto st = pool->getStat();
            std::cout << "P poolbulk " << tag << " live=" << live.size() << " ctor=" << (g_ctor - c0) << " dtor=" << (g_dtor - d0) << " stat="
                      << st.total_alloc_times << "/" << st.total_free_times << "/" << st.peak_alloc_number << "/" << st.peak_free_number
                      << " alias=" << ((live.size() - addr.size()) + bad + (g_alias ? 1 : 0)) << "\n";
        };
        std::vector<Probe *> a, b, none;
        for (uint64_t i = 0; i < n; ++i) a.push_back(pool->alloc(i, (const std::vector<PNode> *)nullptr));
        line("a", a, 0);
        for (auto p : a) pool->free(p);
        line("f", none, 0);
        for (uint64_t i = 0; i < m; ++i) b.push_back(pool->alloc(1000000 + i, (const std::vector<PNode> *)nullptr));
        line("b", b, 1000000);
        for (auto p : b) pool->free(p);
        line("e", none, 0);
        pool.reset();
        g_alias = alias0 || g_alias;
        g_ctor = c0; g_dtor = d0;         // the counters of the status line belong to the main pool
        g_blk_on = blk0;
    } else return false;
    return true;
}

// ---------------------------------------------------------------- cabinet::Token
static std::string tokstr(const Token &t) {
    std::ostringstream os;
    os << "id=" << t.id() << " pos=" << t.pos() << " null=" << (t.isNull() ? 1 : 0) << " bool=" << ((bool)t ? 1 : 0);
    if (std::hash<Token>()(t) != t.hash()) os << " stdhash!";
    return os.str();
}
// the hash VALUE is model-internal (any function compatible with == would do)
static std::string hashstr(const Token &t) { return "M hash=" + std::to_string(t.hash()); }
static bool tok_line(const std::vector<std::string> &w) {
    uint64_t a = 0, b = 0, c = 0, d = 0;
    const std::string &op = w[1];
    if (op == "def" && w.size() == 2) {
        Token t;
        std::cout << "P tok " << tokstr(t) << "\n" << hashstr(t) << "\n";
    } else if (op == "mk" && w.size() == 4 && num64(w[2], a) && num64(w[3], b)) {
        Token t(a, b); Token u(t); Token v; v = u;
        bool copy = v == t && !(v != t) && v.id() == t.id() && v.pos() == t.pos() && u.equal(t);
        std::cout << "P tok " << tokstr(t) << " copy=" << (copy ? 1 : 0) << "\n" << hashstr(t) << "\n";
    } else if (op == "reset" && w.size() == 4 && num64(w[2], a) && num64(w[3], b)) {
        Token t(a, b); t.reset();
        std::cout << "P tok " << tokstr(t) << "\n" << hashstr(t) << "\n";
    } else if (op == "cmp" && w.size() == 6 && num64(w[2], a) && num64(w[3], b) && num64(w[4], c) && num64(w[5], d)) {
        Token x(a, b), y(c, d);
        std::cout << "P cmp eq=" << (x == y) << " ne=" << (x != y) << " lt=" << (x < y) << " le=" << (x <= y) << " gt=" << (x > y)
                  << " ge=" << (x >= y) << " hashok=" << ((!(x == y) || x.hash() == y.hash()) ? 1 : 0)
                  << ((x.equal(y) != (x == y) || x.less(y) != (x < y)) ? " fn!" : "") << "\nM heq=" << (x.hash() == y.hash()) << "\n";
    } else if (op == "set" && w.size() <= 82 && w.size() % 2 == 0) {
        std::set<Token> s; std::unordered_set<Token> us;
        for (size_t i = 2; i + 1 < w.size(); i += 2) {
            if (!num64(w[i], a) || !num64(w[i + 1], b)) return false;
            s.insert(Token(a, b)); us.insert(Token(a, b));
        }
        std::vector<std::string> ord;
        for (auto &t : s) ord.push_back(std::to_string(t.id()) + "." + std::to_string(t.pos()));
        std::cout << "P set n=" << s.size() << " un=" << us.size() << " order=" << comma(ord) << "\n";
    } else return false;
    return true;
}

// ---------------------------------------------------------------- Fd
// System calls of the code under test are interposed (definitions in the executable win over libc /
// the sanitizer runtime; the real ones are reached through RTLD_NEXT).  While `g_rec` is set — i.e.
// inside one `fd …` operation — every close / fcntl / read / readv / write / writev is recorded with
// the LABEL of the descriptor it was made on (`?` = a non-negative number that is not an open
// descriptor of ours: a dangling use, counted in `stale`), closes are logged at the moment they
// happen, read/write answers and close/open failures come from the op file.
static const uint64_t kFdSlots = 8;
static std::unique_ptr<Fd> g_fd[kFdSlots];
static std::map<int, int> g_fd2res;          // descriptors believed open -> label
static int g_nres = 0;
static std::vector<std::string> g_closed;    // closes observed during the current op
static std::vector<std::string> g_sys;       // other system calls observed during the current op
static bool g_rec = false;
static int g_stale = 0;
static int g_closefail = 0, g_closefail_errno = 0;   // fault schedule for ::close
static long g_io_ans = 0; static int g_io_errno = 0; // the kernel's answer to the next read/write on an open descriptor
static bool g_open_emfile = false;

typedef int (*close_t)(int);
typedef int (*fcntl_t)(int, int, ...);
typedef int (*open_t)(const char *, int, ...);
typedef ssize_t (*read_t)(int, void *, size_t);
typedef ssize_t (*write_t)(int, const void *, size_t);
typedef ssize_t (*readv_t)(int, const struct iovec *, int);
static close_t real_close() { static close_t f = (close_t)dlsym(RTLD_NEXT, "close"); return f; }
static fcntl_t real_fcntl() { static fcntl_t f = (fcntl_t)dlsym(RTLD_NEXT, "fcntl"); return f; }
static open_t real_open() { static open_t f = (open_t)dlsym(RTLD_NEXT, "open"); return f; }
static read_t real_read() { static read_t f = (read_t)dlsym(RTLD_NEXT, "read"); return f; }
static write_t real_write() { static write_t f = (write_t)dlsym(RTLD_NEXT, "write"); return f; }
static readv_t real_readv() { static readv_t f = (readv_t)dlsym(RTLD_NEXT, "readv"); return f; }
static readv_t real_writev() { static readv_t f = (readv_t)dlsym(RTLD_NEXT, "writev"); return f; }

static std::string fd_label(int fd) {
    if (fd < 0) return std::to_string(fd);
    auto it = g_fd2res.find(fd);
    if (it == g_fd2res.end()) { ++g_stale; return "?"; }
    return std::to_string(it->second);
}

extern "C" int close(int fd) {
    if (!g_rec) return real_close()(fd);
    if (fd < 0) return real_close()(fd);
    auto it = g_fd2res.find(fd);
    if (it == g_fd2res.end()) {                 // not (or no longer) a descriptor of ours: never really closed
        ++g_stale; g_closed.push_back("?:r"); errno = EBADF; return -1;
    }
    g_closed.push_back(std::to_string(it->second) + ":r");
    g_fd2res.erase(it);
    int r = real_close()(fd);
    if (g_closefail > 0) { --g_closefail; errno = g_closefail_errno; return -1; }     // Linux: the descriptor is gone all the same
    return r;
}
extern "C" int fcntl(int fd, int cmd, ...) {
    va_list ap; va_start(ap, cmd); long arg = va_arg(ap, long); va_end(ap);
    if (g_rec) {
        std::string l = fd_label(fd);
        if (cmd == F_GETFL) g_sys.push_back("getfl:" + l);
        else if (cmd == F_SETFL) g_sys.push_back("setfl:" + l + ":" + ((arg & O_NONBLOCK) ? "1" : "0"));
        else if (cmd == F_GETFD) g_sys.push_back("getfd:" + l);
        else if (cmd == F_SETFD) g_sys.push_back("setfd:" + l + ":" + ((arg & FD_CLOEXEC) ? "1" : "0"));
        else g_sys.push_back("fcntl" + std::to_string(cmd) + ":" + l);
    }
    return real_fcntl()(fd, cmd, arg);
}
extern "C" int open(const char *path, int flags, ...) {
    mode_t mode = 0;
    if (flags & O_CREAT) { va_list ap; va_start(ap, flags); mode = (mode_t)va_arg(ap, int); va_end(ap); }
    if (g_rec && g_open_emfile) { g_open_emfile = false; errno = EMFILE; return -1; }
    return real_open()(path, flags, mode);
}
// read/write on one of our open descriptors: answered from the op file, the descriptor is not touched
static bool io_scripted(const char *name, int fd, ssize_t &ret) {
    if (!g_rec) return false;
    std::string l = fd_label(fd);
    g_sys.push_back(std::string(name) + ":" + l);
    if (fd < 0) return false;                                  // the real kernel answers EBADF
    if (l == "?") { errno = EBADF; ret = -1; return true; }    // dangling: not passed on
    if (g_io_errno) { errno = g_io_errno; ret = -1; } else ret = g_io_ans;
    return true;
}
extern "C" ssize_t read(int fd, void *p, size_t n) { ssize_t r; return io_scripted("read", fd, r) ? r : real_read()(fd, p, n); }
extern "C" ssize_t write(int fd, const void *p, size_t n) { ssize_t r; return io_scripted("write", fd, r) ? r : real_write()(fd, p, n); }
extern "C" ssize_t readv(int fd, const struct iovec *v, int c) { ssize_t r; return io_scripted("readv", fd, r) ? r : real_readv()(fd, v, c); }
extern "C" ssize_t writev(int fd, const struct iovec *v, int c) { ssize_t r; return io_scripted("writev", fd, r) ? r : real_writev()(fd, v, c); }

// `fd x …`: what the close function does when the operation in progress calls it (operations on the handles)
struct FNode { std::vector<std::string> w; std::vector<FNode> kids; };
static const std::vector<FNode> *g_cb_kids = nullptr;
static void fd_exec(const std::vector<FNode> &nodes);
static void close_fn(int fd) {
    auto it = g_fd2res.find(fd);
    if (it == g_fd2res.end()) g_closed.push_back("?:f");                      // closed twice / never opened: not passed on
    else { g_closed.push_back(std::to_string(it->second) + ":f"); g_fd2res.erase(it); real_close()(fd); }
    const std::vector<FNode> *kids = g_cb_kids; g_cb_kids = nullptr;          // the script belongs to this invocation only
    if (kids) fd_exec(*kids);
}
static void fd_scan() {   // descriptors closed behind the interposer's back (must not happen)
    for (auto it = g_fd2res.begin(); it != g_fd2res.end();) {
        if (real_fcntl()(it->first, F_GETFD, 0) == -1) { g_closed.push_back(std::to_string(it->second) + ":x"); it = g_fd2res.erase(it); }
        else ++it;
    }
}
static void fd_status() {
    fd_scan();
    std::string g, nl, ref;
    for (uint64_t i = 0; i < kFdSlots; ++i) {
        if (i) { g += ","; ref += ","; }
        int fd = g_fd[i]->get();
        if (fd < 0) g += std::to_string(fd);
        else { auto it = g_fd2res.find(fd); g += (it == g_fd2res.end() ? std::string("?") : std::to_string(it->second)); }
        nl += g_fd[i]->isNull() ? "1" : "0";
        ref += g_fd[i]->detail_ ? std::to_string(g_fd[i]->detail_->ref_count) : std::string("-");
    }
    std::map<int, int> open; for (auto &e : g_fd2res) open[e.second] = e.first;
    std::vector<std::string> ov, fl;
    for (auto &e : open) {
        ov.push_back(std::to_string(e.first));
        // the kernel's own view of the flags (O_NONBLOCK of the description, FD_CLOEXEC of the descriptor)
        int sf = real_fcntl()(e.second, F_GETFL, 0), df = real_fcntl()(e.second, F_GETFD, 0);
        bool nb = sf != -1 && (sf & O_NONBLOCK), cx = df != -1 && (df & FD_CLOEXEC);
        if (nb || cx) fl.push_back(std::to_string(e.first) + ":" + (nb ? "1" : "0") + (cx ? "1" : "0"));
    }
    std::cout << "P fd g=" << g << " null=" << nl << " closed=" << comma(g_closed) << " open=" << comma(ov) << " fl=" << comma(fl)
              << " stale=" << g_stale << "\nM ref=" << ref << "\nM sys=" << comma(g_sys) << "\n";
    g_closed.clear(); g_sys.clear(); g_stale = 0;
}
// a descriptor with an open file description of its own (dup() would share the O_NONBLOCK flag)
static int fresh_fd() {
    int fd = real_open()("/dev/null", O_RDONLY, 0);
    if (fd < 0) { perror("open /dev/null"); abort(); }
    return fd;
}
static bool fd_line(const std::vector<std::string> &w, bool quiet);
// syntactic check of one `fd` operation usable inside `fd x` (same rules as fd_line, nothing executed)
static bool fd_wellformed(const std::vector<std::string> &w) {
    uint64_t a = 0, b = 0;
    if (w.size() < 3) return false;
    const std::string &op = w[1];
    auto sl = [&](size_t i, uint64_t &v) { return i < w.size() && num(w[i], kFdSlots, v); };
    if (op == "new" || op == "reset" || op == "close" || op == "isnb" || op == "cloexec") return w.size() == 3 && sl(2, a);
    if (op == "open") return w.size() == 4 && sl(2, a) && (w[3] == "fn" || w[3] == "raw" || w[3] == "nullfn");
    if (op == "openneg") return w.size() == 5 && sl(2, a) && num(w[3], 3, b) && (w[4] == "fn" || w[4] == "raw");
    if (op == "fopen") return w.size() == 4 && sl(2, a) && (w[3] == "ok" || w[3] == "enoent" || w[3] == "emfile");
    if (op == "cpc" || op == "mvc") return w.size() == 4 && sl(2, a) && sl(3, b) && a != b;
    if (op == "cpa" || op == "mva" || op == "swap") return w.size() == 4 && sl(2, a) && sl(3, b);
    if (op == "nonblock") return w.size() == 4 && sl(2, a) && (w[3] == "0" || w[3] == "1");
    if (op == "io") {
        static const std::set<std::string> kinds = {"read", "readv", "write", "writev"}, errs = {"eintr", "eagain", "eio", "epipe", "enospc"};
        return w.size() == 5 && sl(2, a) && kinds.count(w[3]) && (errs.count(w[4]) || num(w[4], 100000, b));
    }
    return false;
}
static void fd_exec(const std::vector<FNode> &nodes) {
    for (auto &n : nodes) {
        const std::vector<FNode> *saved = g_cb_kids;
        g_cb_kids = n.kids.empty() ? nullptr : &n.kids;          // what the close function does if THIS operation calls it
        fd_line(n.w, true);
        g_cb_kids = saved;
    }
}
static bool fd_line(const std::vector<std::string> &w, bool quiet = false) {
    uint64_t a = 0, b = 0;
    const std::string &op = w[1];
    struct Rec { bool was; Rec() : was(g_rec) { g_rec = true; } ~Rec() { g_rec = was; } };
    // the old object of a slot dies while the slot already holds a new empty handle (a close function that runs
    // during the destruction finds eight valid handles)
    auto renew_slot = [](uint64_t i) { std::unique_ptr<Fd> old(std::move(g_fd[i])); g_fd[i].reset(new Fd()); };
    std::string ret;
    if (op == "x" && w.size() <= 202) {
        // parse first (nothing runs when malformed): items `op.arg.arg`, `[ … ]` after close / reset / new
        std::vector<FNode> prog; std::vector<std::vector<FNode> *> st{&prog};
        bool can_open = false; int opens = 0;
        for (size_t i = 2; i < w.size(); ++i) {
            if (w[i] == "[") { if (!can_open || st.size() > 8) return false; st.push_back(&st.back()->back().kids); can_open = false; }
            else if (w[i] == "]") { if (st.size() < 2) return false; st.pop_back(); can_open = false; }
            else {
                FNode n; n.w.push_back("fd");
                std::string part; std::istringstream is(w[i]);
                if (w[i].empty() || w[i].back() == '.' || w[i].find("..") != std::string::npos || w[i][0] == '.') return false;
                while (std::getline(is, part, '.')) n.w.push_back(part);
                if (!fd_wellformed(n.w)) return false;
                if (n.w[1] == "open" || (n.w[1] == "fopen" && n.w[3] == "ok")) ++opens;
                can_open = n.w[1] == "close" || n.w[1] == "reset" || n.w[1] == "new";
                st.back()->push_back(std::move(n));
            }
        }
        if (st.size() != 1 || g_nres + opens > 200) return false;
        { Rec r; fd_exec(prog); }
        fd_status();
        return true;
    } else if (op == "closefail" && w.size() == 4 && num(w[2], 100, a) && (w[3] == "eintr" || w[3] == "eio")) {
        g_closefail = (int)a; g_closefail_errno = w[3] == "eintr" ? EINTR : EIO;
        std::cout << "P ok\n";
        return true;
    } else if (op == "new" && w.size() == 3 && num(w[2], kFdSlots, a)) {
        Rec r; renew_slot(a);
    } else if (op == "openneg" && w.size() == 5 && num(w[2], kFdSlots, a) && num(w[3], 3, b) && (w[4] == "fn" || w[4] == "raw")) {
        // what a failed open()/socket() returned: a record is created, nothing may ever be closed for it
        Rec r; renew_slot(a);
        if (w[4] == "fn") g_fd[a].reset(new Fd(-(int)(b + 1), close_fn)); else g_fd[a].reset(new Fd(-(int)(b + 1)));
    } else if (op == "open" && w.size() == 4 && num(w[2], kFdSlots, a) && (w[3] == "fn" || w[3] == "raw" || w[3] == "nullfn") && g_nres < 200) {
        int fd = fresh_fd();                      // before the old object dies
        g_fd2res[fd] = g_nres++;
        Rec r; renew_slot(a);
        if (w[3] == "fn") g_fd[a].reset(new Fd(fd, close_fn));
        else if (w[3] == "nullfn") g_fd[a].reset(new Fd(fd, Fd::CloseFunc()));       // an empty std::function: plain ::close
        else g_fd[a].reset(new Fd(fd));
    } else if (op == "fopen" && w.size() == 4 && num(w[2], kFdSlots, a) && (w[3] == "enoent" || w[3] == "emfile" || (w[3] == "ok" && g_nres < 200))) {
        // the real factory: ::open succeeds / fails with ENOENT (really) / with EMFILE (injected)
        Rec r;
        g_open_emfile = w[3] == "emfile";
        Fd tmp = Fd::Open(w[3] == "enoent" ? "/nonexistent-dir-c08/none" : "/dev/null", O_RDONLY);
        g_open_emfile = false;
        if (tmp.get() >= 0) g_fd2res[tmp.get()] = g_nres++;
        renew_slot(a); g_fd[a].reset(new Fd(std::move(tmp)));
        if (!tmp.isNull() || tmp.get() != -1) g_closed.push_back("moved-from-not-empty");
    } else if (op == "io" && w.size() == 5 && num(w[2], kFdSlots, a) && (w[3] == "read" || w[3] == "readv" || w[3] == "write" || w[3] == "writev")) {
        static const std::map<std::string, int> errs = {{"eintr", EINTR}, {"eagain", EAGAIN}, {"eio", EIO}, {"epipe", EPIPE}, {"enospc", ENOSPC}};
        auto e = errs.find(w[4]);
        if (e != errs.end()) { g_io_errno = e->second; g_io_ans = -1; }
        else if (num(w[4], 100000, b)) { g_io_errno = 0; g_io_ans = (long)b; }
        else return false;
        char buf[8] = {0}; struct iovec iov = {buf, sizeof(buf)};
        Rec r; ssize_t x;
        if (w[3] == "read") x = g_fd[a]->read(buf, sizeof(buf));
        else if (w[3] == "readv") x = g_fd[a]->readv(&iov, 1);
        else if (w[3] == "write") x = g_fd[a]->write(buf, sizeof(buf));
        else x = g_fd[a]->writev(&iov, 1);
        ret = "P ret=" + std::to_string((long)x) + "\n";
    } else if (op == "nonblock" && w.size() == 4 && num(w[2], kFdSlots, a) && (w[3] == "0" || w[3] == "1")) {
        Rec r; g_fd[a]->setNonBlock(w[3] == "1");
    } else if (op == "isnb" && w.size() == 3 && num(w[2], kFdSlots, a)) {
        Rec r; ret = std::string("P ret=") + (g_fd[a]->isNonBlock() ? "1" : "0") + "\n";
    } else if (op == "cloexec" && w.size() == 3 && num(w[2], kFdSlots, a)) {
        Rec r; g_fd[a]->setCloseOnExec();
    } else if (op == "cpc" && w.size() == 4 && num(w[2], kFdSlots, a) && num(w[3], kFdSlots, b) && a != b) {
        Rec r; renew_slot(a); g_fd[a].reset(new Fd(*g_fd[b]));
    } else if (op == "mvc" && w.size() == 4 && num(w[2], kFdSlots, a) && num(w[3], kFdSlots, b) && a != b) {
        Rec r; renew_slot(a); g_fd[a].reset(new Fd(std::move(*g_fd[b])));
    } else if (op == "cpa" && w.size() == 4 && num(w[2], kFdSlots, a) && num(w[3], kFdSlots, b)) {
        Rec r; *g_fd[a] = *g_fd[b];
    } else if (op == "mva" && w.size() == 4 && num(w[2], kFdSlots, a) && num(w[3], kFdSlots, b)) {
        Rec r; *g_fd[a] = std::move(*g_fd[b]);
    } else if (op == "swap" && w.size() == 4 && num(w[2], kFdSlots, a) && num(w[3], kFdSlots, b)) {
        Rec r; g_fd[a]->swap(*g_fd[b]);
    } else if (op == "reset" && w.size() == 3 && num(w[2], kFdSlots, a)) {
        Rec r; g_fd[a]->reset();
    } else if (op == "close" && w.size() == 3 && num(w[2], kFdSlots, a)) {
        Rec r; g_fd[a]->close();
    } else return false;
    if (quiet) return true;
    std::cout << ret;
    fd_status();
    return true;
}

// ---------------------------------------------------------------- LifetimeTag / Watcher
using tbox::LifetimeTag;
typedef LifetimeTag::Watcher Watcher;
static const uint64_t kLtTags = 4, kLtWs = 6;
static std::unique_ptr<LifetimeTag> g_t[kLtTags];     // empty = no tag object in the slot
static std::unique_ptr<Watcher> g_w[kLtWs];           // always an object
static std::vector<const void *> g_details;           // detail records in creation order (label = index)

static void lt_note(uint64_t i) { g_details.push_back(g_t[i]->d_); }
static void lt_status() {
    std::string alive, nl, tags, cnt;
    for (uint64_t w = 0; w < kLtWs; ++w) {
        alive += g_w[w]->isAlive() ? "1" : "0";
        if ((bool)(*g_w[w]) != g_w[w]->isAlive()) alive += "!";
        nl += g_w[w]->isNull() ? "1" : "0";
        if (w) cnt += ",";
        cnt += g_w[w]->d_ ? std::to_string(g_w[w]->d_->watcher_counter) : std::string("-");
    }
    for (uint64_t i = 0; i < kLtTags; ++i) tags += g_t[i] ? "1" : "0";
    std::vector<std::string> freed;
#if defined(__SANITIZE_ADDRESS__)
    // a deleted record sits in ASan's quarantine: its bytes are poisoned
    for (size_t d = 0; d < g_details.size(); ++d) if (__asan_address_is_poisoned(g_details[d])) freed.push_back(std::to_string(d));
    std::string fr = comma(freed);
#else
    std::string fr = "?";
#endif
    std::cout << "P lt alive=" << alive << " null=" << nl << " tags=" << tags << " freed=" << fr << "\nM cnt=" << cnt << "\n";
}
static bool lt_line(const std::vector<std::string> &w) {
    uint64_t a = 0, b = 0;
    const std::string &op = w[1];
    bool two = w.size() == 4, one = w.size() == 3;
    if (op == "tnew" && one && num(w[2], kLtTags, a)) {
        g_t[a].reset(); g_t[a].reset(new LifetimeTag()); lt_note(a);
    } else if (op == "tdel" && one && num(w[2], kLtTags, a)) {
        g_t[a].reset();
    } else if ((op == "tcpc" || op == "tmvc") && two && num(w[2], kLtTags, a) && num(w[3], kLtTags, b) && a != b) {
        if (!g_t[b]) { std::cout << "P absent\n"; return true; }
        g_t[a].reset();
        if (op == "tcpc") g_t[a].reset(new LifetimeTag(*g_t[b])); else g_t[a].reset(new LifetimeTag(std::move(*g_t[b])));
        lt_note(a);
    } else if ((op == "tcpa" || op == "tmva") && two && num(w[2], kLtTags, a) && num(w[3], kLtTags, b)) {
        if (!g_t[a] || !g_t[b]) { std::cout << "P absent\n"; return true; }
        if (op == "tcpa") *g_t[a] = *g_t[b]; else *g_t[a] = std::move(*g_t[b]);
    } else if (op == "wnew" && one && num(w[2], kLtWs, a)) {
        g_w[a].reset(); g_w[a].reset(new Watcher());
    } else if ((op == "wtag" || op == "wset" || op == "wget") && two && num(w[2], kLtWs, a) && num(w[3], kLtTags, b)) {
        if (!g_t[b]) { std::cout << "P absent\n"; return true; }
        if (op == "wtag") { g_w[a].reset(); g_w[a].reset(new Watcher(*g_t[b])); }
        else if (op == "wget") { g_w[a].reset(); g_w[a].reset(new Watcher(g_t[b]->get())); }
        else *g_w[a] = *g_t[b];
    } else if (op == "wcpc" && two && num(w[2], kLtWs, a) && num(w[3], kLtWs, b) && a != b) {
        g_w[a].reset(); g_w[a].reset(new Watcher(*g_w[b]));
    } else if (op == "wmvc" && two && num(w[2], kLtWs, a) && num(w[3], kLtWs, b) && a != b) {
        g_w[a].reset(); g_w[a].reset(new Watcher(std::move(*g_w[b])));
    } else if (op == "wcpa" && two && num(w[2], kLtWs, a) && num(w[3], kLtWs, b)) {
        *g_w[a] = *g_w[b];
    } else if (op == "wmva" && two && num(w[2], kLtWs, a) && num(w[3], kLtWs, b)) {
        *g_w[a] = std::move(*g_w[b]);
    } else if (op == "wswap" && two && num(w[2], kLtWs, a) && num(w[3], kLtWs, b)) {
        g_w[a]->swap(*g_w[b]);
    } else if (op == "wreset" && one && num(w[2], kLtWs, a)) {
        g_w[a]->reset();
    } else return false;
    lt_status();
    return true;
}

// ---------------------------------------------------------------- main
static void reinit() {
    g_cab.reset(new Cabinet<int>()); g_toks.clear();
    if (g_pool) pool_free_all();
    g_pool.reset(new tbox::ObjectPool<Probe>());
    g_ctor = g_dtor = 0; g_thrown = 0; g_probe_throw = false; g_alias = false; g_live_addr.clear(); g_leaked = 0;
    g_blk.clear(); g_blk_on = true;
    g_rec = true;                                       // keep the descriptor table exact while the old handles die
    for (auto &f : g_fd) f.reset();
    for (auto &f : g_fd) f.reset(new Fd());
    g_rec = false;
    for (auto &e : g_fd2res) real_close()(e.first);     // leaked by the case before
    g_fd2res.clear(); g_closed.clear(); g_sys.clear(); g_nres = 0; g_stale = 0; g_closefail = 0; g_open_emfile = false;
    for (auto &x : g_w) x.reset();
    for (auto &x : g_t) x.reset();
    for (auto &x : g_w) x.reset(new Watcher());
    g_details.clear();
}

int main() {
    std::string line;
    reinit();
    while (std::getline(std::cin, line)) {
        auto w = vh::words(line);
        if (w.empty()) continue;
        if (w[0] == "case") { reinit(); std::cout << line << "\n"; continue; }
        bool ok = false;
        if (w.size() >= 2) {
            if (w[0] == "cab") ok = cab_line(w);
            else if (w[0] == "pool") ok = pool_line(w);
            else if (w[0] == "fd") ok = fd_line(w);
            else if (w[0] == "lt") ok = lt_line(w);
            else if (w[0] == "tok") ok = tok_line(w);
        }
        if (!ok) std::cout << "bad-op\n";
    }
    // release everything while the bookkeeping (g_fd2res, g_live_addr) is still alive: the close
    // function and the probe destructor must not run during static destruction
    g_rec = true;
    for (auto &f : g_fd) f.reset();
    g_rec = false;
    for (auto &x : g_w) x.reset();
    for (auto &x : g_t) x.reset();
    pool_free_all(); g_pool.reset(); g_cab.reset();
    std::cout.flush();
    return 0;
}
