// C08 harness: executes `cab …` / `pool …` / `fd …` op lines against the real
// tbox::cabinet::Cabinet, tbox::ObjectPool and tbox::util::Fd and prints the API-observable
// results (same format as lean/Driver/C08.lean).  Nothing printed is an address or a raw
// descriptor number: objects and descriptors are labelled by the harness.
#include "vh.h"
#include <algorithm>
#include <fcntl.h>
#include <unistd.h>
#include <functional>
#include <map>
#include <memory>
#include <set>
#include <stdexcept>
#include <utility>
#include <sys/uio.h>

#include <set>
#include <unordered_set>
#include <tbox/base/object_pool.hpp>
// ref_count lives in a protected struct behind a private pointer; it is printed on the
// model-internal `M` line only.  Cabinet::last_id_ is written by the test op `cab jump` (ids near 2^64).
#define private public
#define protected public
#include <tbox/base/cabinet.hpp>
#include <tbox/util/fd.h>
#include <tbox/base/lifetime_tag.hpp>      // d_ / Detail are private: read for labels and the M line only
#undef private
#undef protected
#if defined(__SANITIZE_ADDRESS__)
#include <sanitizer/asan_interface.h>
#endif

using tbox::cabinet::Cabinet;
using tbox::cabinet::Token;
using tbox::util::Fd;

static bool num(const std::string &w, uint64_t bound, uint64_t &v) { return vh::to_u64(w, v) && w.size() < 15 && v < bound; }
// any size_t value: decimal digits only, at most 20, no overflow
static bool num64(const std::string &w, uint64_t &v) {
    if (w.empty() || w.size() > 20) return false;
    v = 0;
    for (char c : w) {
        if (c < '0' || c > '9') return false;
        uint64_t d = (uint64_t)(c - '0');
        if (v > (UINT64_MAX - d) / 10) return false;
        v = v * 10 + d;
    }
    return true;
}
static std::string comma(const std::vector<std::string> &v) {
    if (v.empty()) return "-";
    std::string s; for (size_t i = 0; i < v.size(); ++i) { if (i) s += ","; s += v[i]; } return s;
}

// ---------------------------------------------------------------- cabinet
static const uint64_t kMaxObj = 1000, kMaxBulk = 400000;
static int g_objs[kMaxObj];                       // object number o <-> &g_objs[o]; 0 <-> nullptr
static std::unique_ptr<Cabinet<int>> g_cab;
static std::vector<Token> g_toks;

static int *objp(uint64_t o) { return o ? &g_objs[o] : nullptr; }
static std::string objn(int *p) {      // never an address: a pointer that is not one of ours prints as "?"
    if (!p) return "0";
    if (p < g_objs || p >= g_objs + kMaxObj) return "?";
    return std::to_string((uint64_t)(p - g_objs));
}

static bool cab_line(const std::vector<std::string> &w) {
    uint64_t a = 0, b = 0;
    const std::string &op = w[1];
    Cabinet<int> &c = *g_cab;
    if (op == "alloc" && w.size() == 3 && num(w[2], kMaxObj, a)) {
        try {
            Token t = c.alloc(objp(a));
            std::string d = "fresh";
            for (size_t j = 0; j < g_toks.size(); ++j) if (g_toks[j] == t) { d = "dup=" + std::to_string(j); break; }
            g_toks.push_back(t);
            std::cout << "P alloc " << d << " size=" << c.size() << "\nM tok " << t.id() << " " << t.pos() << "\n";
        } catch (const std::out_of_range &) {
            g_toks.push_back(Token());
            std::cout << "P alloc throw size=" << c.size() << "\nM tok - -\n";
        }
    } else if (op == "at" && w.size() == 3 && num(w[2], g_toks.size(), a)) {
        std::cout << "P at=" << objn(c.at(g_toks[a])) << "\n";
    } else if (op == "atraw" && w.size() == 4 && num64(w[2], a) && num64(w[3], b)) {
        std::cout << "M at=" << objn(c[Token(a, b)]) << "\n";
    } else if (op == "jump" && w.size() == 3 && num64(w[2], a) && a >= c.last_id_) {
        c.last_id_ = a;            // test access: as if a - last_id_ entries had been allocated and freed
        std::cout << "P ok\n";
    } else if (op == "bulk" && w.size() >= 3) {
        const std::string &sub = w[2];
        uint64_t n = 0, m = 0, r = 0;
        auto objnum = [](int *p) -> uint64_t { return !p ? 0 : (p < g_objs || p >= g_objs + kMaxObj) ? kMaxObj : (uint64_t)(p - g_objs); };
        if (sub == "alloc" && w.size() == 5 && num(w[3], kMaxBulk + 1, n) && num(w[4], kMaxObj, a) && g_toks.size() + n <= 2 * kMaxBulk) {
            const size_t first = g_toks.size(); uint64_t nulls = 0;
            for (uint64_t i = 0; i < n; ++i) {
                Token t;
                try { t = c.alloc(objp(1 + (a + i) % 999)); } catch (const std::out_of_range &) { t = Token(); }
                if (t.id() == 0) ++nulls;
                g_toks.push_back(t);
            }
            Token f = first < g_toks.size() ? g_toks[first] : Token(), l = g_toks.empty() ? Token() : g_toks.back();
            std::cout << "P bulk alloc n=" << n << " null=" << nulls << " size=" << c.size() << "\nM bulk tok first=" << f.id() << "." << f.pos()
                      << " last=" << l.id() << "." << l.pos() << "\n";
        } else if (sub == "at" && w.size() == 5 && num(w[3], 2 * kMaxBulk + 1, a) && num(w[4], 2 * kMaxBulk + 1, n) && a + n <= g_toks.size()) {
            uint64_t res = 0, sum = 0; int64_t firstnull = -1;
            for (uint64_t i = 0; i < n; ++i) {
                uint64_t x = objnum(c.at(g_toks[a + i]));
                if (x) ++res; else if (firstnull < 0) firstnull = (int64_t)i;
                sum = (sum + (i + 1) * x) % 1000000007ull;
            }
            std::cout << "P bulk at resolved=" << res << " firstnull=" << (firstnull < 0 ? std::string("-") : std::to_string(firstnull)) << " sum=" << sum << "\n";
        } else if (sub == "free" && w.size() == 8 && num(w[3], 2 * kMaxBulk + 1, a) && num(w[4], 2 * kMaxBulk + 1, n) && num(w[5], 100000, m)
                   && num(w[6], 100000, r) && a + n <= g_toks.size() && m != 0 && r < m && (w[7] == "up" || w[7] == "down")) {
            std::vector<uint64_t> idx;
            for (uint64_t i = 0; i < n; ++i) if (i % m == r) idx.push_back(i);
            if (w[7] == "down") std::reverse(idx.begin(), idx.end());
            uint64_t freed = 0, sum = 0, j = 0;
            for (uint64_t i : idx) {
                uint64_t x = objnum(c.free(g_toks[a + i]));
                if (x) ++freed;
                sum = (sum + (j + 1) * x) % 1000000007ull; ++j;
            }
            std::cout << "P bulk free freed=" << freed << " sum=" << sum << " size=" << c.size() << "\n";
        } else if (sub == "distinct" && w.size() == 3) {
            // compared on the values the accessors return (not with Token's own operators)
            std::vector<std::pair<uint64_t, uint64_t>> v;
            for (auto &t : g_toks) if (t.id() != 0) v.emplace_back(t.id(), t.pos());
            std::sort(v.begin(), v.end());
            uint64_t dups = 0;
            for (size_t i = 1; i < v.size(); ++i) if (v[i] == v[i - 1]) ++dups;
            std::cout << "P bulk distinct tokens=" << v.size() << " dups=" << dups << "\n";
        } else return false;
    } else if (op == "upd" && w.size() == 4 && num(w[2], g_toks.size(), a) && num(w[3], kMaxObj, b)) {
        std::cout << "P upd=" << (c.update(g_toks[a], objp(b)) ? 1 : 0) << "\n";
    } else if (op == "free" && w.size() == 3 && num(w[2], g_toks.size(), a)) {
        int *p = c.free(g_toks[a]);
        std::cout << "P free=" << objn(p) << " size=" << c.size() << "\n";
    } else if (op == "clear" && w.size() == 2) {
        c.clear();
        std::cout << "P clear size=" << c.size() << " empty=" << (c.empty() ? 1 : 0) << "\n";
    } else if (op == "size" && w.size() == 2) {
        std::cout << "P size=" << c.size() << " empty=" << (c.empty() ? 1 : 0) << "\n";
    } else if (op == "reserve" && w.size() == 3 && num(w[2], 100000, a)) {
        c.reserve(a);
        std::cout << "P ok\n";
    } else if (op == "scan" && w.size() == 2) {
        std::vector<std::string> v;
        for (auto &t : g_toks) v.push_back(objn(c.at(t)));
        std::cout << "P scan " << comma(v) << "\n";
    } else if (op == "each" && w.size() == 3) {
        // script items k:ACT — ACT = I (free token I) | aO (alloc object O) | c (clear) | uI.O (update token I)
        struct Item { uint64_t k; char kind; uint64_t a, b; };
        std::vector<Item> script;
        if (w[2] != "-") {
            std::string item; std::istringstream is(w[2]);
            if (w[2].back() == ',') return false;
            while (std::getline(is, item, ',')) {
                auto colon = item.find(':');
                if (colon == std::string::npos || item.find(':', colon + 1) != std::string::npos) return false;
                Item it{0, 'f', 0, 0};
                std::string act = item.substr(colon + 1);
                if (!num(item.substr(0, colon), 100000, it.k)) return false;
                if (act == "c") it.kind = 'c';
                else if (!act.empty() && act[0] == 'a') { it.kind = 'a'; if (!num(act.substr(1), kMaxObj, it.a)) return false; }
                else if (!act.empty() && act[0] == 'u') {
                    it.kind = 'u';
                    auto dot = act.find('.');
                    if (dot == std::string::npos || act.find('.', dot + 1) != std::string::npos) return false;
                    if (!num(act.substr(1, dot - 1), g_toks.size(), it.a) || !num(act.substr(dot + 1), kMaxObj, it.b)) return false;
                } else if (!num(act, g_toks.size(), it.a)) return false;
                script.push_back(it);
            }
        }
        // The visiting order (cell order) and, when the callbacks change other entries, the set of
        // entries still reached depend on which cells were reused: model-internal (M line).
        // Property-level: without callbacks' calls every live entry is visited once (sorted list);
        // with them no entry that is dead at the moment of its callback is visited, and no token
        // handed out by an alloc() inside a callback equals an earlier one.
        std::vector<std::string> vis, newtoks; std::vector<uint64_t> sorted; uint64_t k = 0, dead = 0, dup = 0;
        const size_t ntok0 = g_toks.size();
        std::vector<Token> fresh;
        c.foreach([&](int *p) {
            if (p && g_toks.size() + fresh.size() <= 3000) {
                bool live = false;
                for (auto &t : g_toks) if (c.at(t) == p) { live = true; break; }
                if (!live) for (auto &t : fresh) if (c.at(t) == p) { live = true; break; }
                if (!live) ++dead;
            }
            for (auto &e : script) {
                if (e.k != k) continue;
                if (e.kind == 'f') c.free(g_toks[e.a]);
                else if (e.kind == 'u') c.update(g_toks[e.a], objp(e.b));
                else if (e.kind == 'c') c.clear();
                else {
                    Token t;
                    try { t = c.alloc(objp(e.a)); } catch (const std::out_of_range &) { t = Token(); }
                    if (!t.isNull()) {
                        bool d = false;
                        for (auto &o : g_toks) if (o == t) { d = true; break; }
                        if (!d) for (auto &o : fresh) if (o == t) { d = true; break; }
                        if (d) ++dup;
                    }
                    fresh.push_back(t);
                    newtoks.push_back(std::to_string(t.id()) + "." + std::to_string(t.pos()));
                }
            }
            vis.push_back(objn(p));
            sorted.push_back((p >= g_objs && p < g_objs + kMaxObj) ? (uint64_t)(p - g_objs) : (p ? kMaxObj : 0));
            ++k;
        });
        (void)ntok0;
        for (auto &t : fresh) g_toks.push_back(t);
        std::sort(sorted.begin(), sorted.end());
        std::vector<std::string> sv; for (auto x : sorted) sv.push_back(x == kMaxObj ? "?" : std::to_string(x));
        std::cout << "P each " << (script.empty() ? comma(sv) : std::string("*")) << " size=" << c.size() << " deadvisit=" << dead
                  << " dup=" << dup << "\nM order " << comma(vis) << " toks=" << comma(newtoks) << "\n";
    } else return false;
    return true;
}

// ---------------------------------------------------------------- object pool
// The probe type's constructor and destructor run a script of operations on the SAME pool:
// `A h v … a` = alloc for slot h an object of value v whose constructor makes the calls in between;
// `F h … f` = free the object of slot h, its destructor making the calls in between.
struct PNode { bool is_alloc; uint64_t h, v; std::vector<PNode> kids; };
static void pool_exec(const std::vector<PNode> &nodes);

static uint64_t g_ctor = 0, g_dtor = 0;
static std::set<const void *> g_live_addr;
static bool g_alias = false;
struct Probe {
    uint64_t v; uint64_t pad[3];
    const std::vector<PNode> *dtor_script;
    Probe(uint64_t x, const std::vector<PNode> *ctor_script) : v(x), dtor_script(nullptr) {
        ++g_ctor; pad[0] = pad[1] = pad[2] = ~x;
        if (!g_live_addr.insert(this).second) g_alias = true;      // storage still in use
        if (ctor_script) pool_exec(*ctor_script);                   // nested calls on the same pool
        if (v != x || pad[1] != ~x) g_alias = true;                 // a nested object was built on top of this one
    }
    ~Probe() {
        ++g_dtor;
        uint64_t x = v;
        if (dtor_script) pool_exec(*dtor_script);                   // storage is in use until the destructor returns
        if (v != x || pad[1] != ~x) g_alias = true;
        if (g_live_addr.erase(this) != 1) g_alias = true;
        v = 0xdeaddeaddeadull;
    }
};
static const uint64_t kPoolSlots = 16;
static std::unique_ptr<tbox::ObjectPool<Probe>> g_pool;
static Probe *g_slot[kPoolSlots];
static bool g_reserved[kPoolSlots];  // destination of an alloc in progress
static uint64_t g_leaked = 0;      // objects abandoned alive when their pool was destroyed (never destructed, never freed)

static void pool_exec(const std::vector<PNode> &nodes) {
    for (auto &n : nodes) {
        if (n.is_alloc) {
            if (g_slot[n.h] || g_reserved[n.h]) continue;           // not applicable: the call and what it nests are not made
            g_reserved[n.h] = true;
            Probe *p = g_pool->alloc(n.v, &n.kids);
            g_reserved[n.h] = false;
            g_slot[n.h] = p;
        } else {
            if (!g_slot[n.h]) continue;
            Probe *p = g_slot[n.h]; g_slot[n.h] = nullptr;
            p->dtor_script = &n.kids;
            g_pool->free(p);
        }
    }
}
// recursive descent over the token list; false = malformed
static bool pool_parse(const std::vector<std::string> &w, size_t &i, std::vector<PNode> &out, int depth, bool top) {
    while (i < w.size()) {
        if (w[i] == "A") {
            PNode n{true, 0, 0, {}};
            if (depth >= 16 || i + 2 >= w.size() || !num(w[i + 1], kPoolSlots, n.h) || !num(w[i + 2], 1000000, n.v)) return false;
            i += 3;
            if (!pool_parse(w, i, n.kids, depth + 1, false)) return false;
            if (i >= w.size() || w[i] != "a") return false;
            ++i; out.push_back(std::move(n));
        } else if (w[i] == "F") {
            PNode n{false, 0, 0, {}};
            if (depth >= 16 || i + 1 >= w.size() || !num(w[i + 1], kPoolSlots, n.h)) return false;
            i += 2;
            if (!pool_parse(w, i, n.kids, depth + 1, false)) return false;
            if (i >= w.size() || w[i] != "f") return false;
            ++i; out.push_back(std::move(n));
        } else return !top;       // a closing token: the caller checks it
    }
    return true;
}

static void pool_status() {
    std::string vals;
    for (uint64_t i = 0; i < kPoolSlots; ++i) {
        if (i) vals += ",";
        if (!g_slot[i]) vals += "-";
        else { vals += std::to_string(g_slot[i]->v); if (g_slot[i]->pad[1] != ~g_slot[i]->v) g_alias = true; }
    }
    auto st = g_pool->getStat();
    std::cout << "P pool ctor=" << g_ctor << " dtor=" << g_dtor << " vals=" << vals << " stat=" << st.total_alloc_times << "/"
              << st.total_free_times << "/" << st.peak_alloc_number << "/" << st.peak_free_number << " alias=" << (g_alias ? 1 : 0)
              << " leaked=" << g_leaked << "\n";
}
static void pool_free_all() {
    for (auto &p : g_slot) if (p) { p->dtor_script = nullptr; g_pool->free(p); p = nullptr; }
}
static bool pool_line(const std::vector<std::string> &w) {
    uint64_t h = 0, v = 0;
    const std::string &op = w[1];
    if (op == "alloc" && w.size() == 4 && num(w[2], kPoolSlots, h) && num(w[3], 1000000, v)) {
        if (g_slot[h]) { std::cout << "P busy\n"; return true; }
        g_slot[h] = g_pool->alloc(v, (const std::vector<PNode> *)nullptr);
        pool_status();
    } else if (op == "free" && w.size() == 3 && num(w[2], kPoolSlots, h)) {
        if (!g_slot[h]) { std::cout << "P none\n"; return true; }
        g_slot[h]->dtor_script = nullptr;
        g_pool->free(g_slot[h]); g_slot[h] = nullptr;
        pool_status();
    } else if (op == "x" && w.size() <= 402) {
        std::vector<PNode> prog; size_t i = 2;
        if (!pool_parse(w, i, prog, 0, true) || i != w.size()) return false;
        pool_exec(prog);
        pool_status();
    } else if (op == "new" && w.size() == 3 && (w[2] == "max" || num(w[2], 100000, v))) {
        pool_free_all();
        if (w[2] == "max") g_pool.reset(new tbox::ObjectPool<Probe>());
        else g_pool.reset(new tbox::ObjectPool<Probe>(v));
        pool_status();
    } else if (op == "drop" && w.size() == 3 && (w[2] == "max" || num(w[2], 100000, v))) {
        // ~ObjectPool() with live objects: it must not touch their storage (ASan + the values read by
        // later status lines would show it) and runs no destructor; the objects stay where they are
        for (auto &p : g_slot) if (p) { ++g_leaked; p = nullptr; }
        if (w[2] == "max") g_pool.reset(new tbox::ObjectPool<Probe>());
        else g_pool.reset(new tbox::ObjectPool<Probe>(v));
        pool_status();
    } else if (op == "stat" && w.size() == 2) {
        pool_status();
    } else if (op == "bulk" && w.size() == 5 && num(w[2], kMaxBulk + 1, h) && (w[3] == "max" || num(w[3], kMaxBulk + 1, v))) {
        // a pool of its own: n objects alive at once, all freed in allocation order, then m more from the parked blocks
        uint64_t n = h, m = 0;
        if (!num(w[4], kMaxBulk + 1, m) || m > n) return false;
        std::unique_ptr<tbox::ObjectPool<Probe>> pool(w[3] == "max" ? new tbox::ObjectPool<Probe>() : new tbox::ObjectPool<Probe>(v));
        const uint64_t c0 = g_ctor, d0 = g_dtor; const bool alias0 = g_alias; g_alias = false;
        auto line = [&](const char *tag, const std::vector<Probe *> &live, uint64_t base) {
            std::set<const void *> addr; uint64_t bad = 0;
            for (size_t i = 0; i < live.size(); ++i) {
                addr.insert(live[i]);
                if (live[i]->v != base + i || live[i]->pad[1] != ~(base + i)) ++bad;     // overwritten by another object
            }
            auto st = pool->getStat();
            std::cout << "P poolbulk " << tag << " live=" << live.size() << " ctor=" << (g_ctor - c0) << " dtor=" << (g_dtor - d0) << " stat="
                      << st.total_alloc_times << "/" << st.total_free_times << "/" << st.peak_alloc_number << "/" << st.peak_free_number
                      << " alias=" << ((live.size() - addr.size()) + bad + (g_alias ? 1 : 0)) << "\n";
        };
        std::vector<Probe *> a, b, none;
        for (uint64_t i = 0; i < n; ++i) a.push_back(pool->alloc(i, (const std::vector<PNode> *)nullptr));
        line("a", a, 0);
        for (auto p : a) pool->free(p);
        line("f", none, 0);
        for (uint64_t i = 0; i < m; ++i) b.push_back(pool->alloc(1000000 + i, (const std::vector<PNode> *)nullptr));
        line("b", b, 1000000);
        for (auto p : b) pool->free(p);
        line("e", none, 0);
        pool.reset();
        g_alias = alias0 || g_alias;
        g_ctor = c0; g_dtor = d0;         // the counters of the status line belong to the main pool
    } else return false;
    return true;
}

// ---------------------------------------------------------------- cabinet::Token
static std::string tokstr(const Token &t) {
    std::ostringstream os;
    os << "id=" << t.id() << " pos=" << t.pos() << " null=" << (t.isNull() ? 1 : 0) << " bool=" << ((bool)t ? 1 : 0);
    if (std::hash<Token>()(t) != t.hash()) os << " stdhash!";
    return os.str();
}
// the hash VALUE is model-internal (any function compatible with == would do)
static std::string hashstr(const Token &t) { return "M hash=" + std::to_string(t.hash()); }
static bool tok_line(const std::vector<std::string> &w) {
    uint64_t a = 0, b = 0, c = 0, d = 0;
    const std::string &op = w[1];
    if (op == "def" && w.size() == 2) {
        Token t;
        std::cout << "P tok " << tokstr(t) << "\n" << hashstr(t) << "\n";
    } else if (op == "mk" && w.size() == 4 && num64(w[2], a) && num64(w[3], b)) {
        Token t(a, b); Token u(t); Token v; v = u;
        bool copy = v == t && !(v != t) && v.id() == t.id() && v.pos() == t.pos() && u.equal(t);
        std::cout << "P tok " << tokstr(t) << " copy=" << (copy ? 1 : 0) << "\n" << hashstr(t) << "\n";
    } else if (op == "reset" && w.size() == 4 && num64(w[2], a) && num64(w[3], b)) {
        Token t(a, b); t.reset();
        std::cout << "P tok " << tokstr(t) << "\n" << hashstr(t) << "\n";
    } else if (op == "cmp" && w.size() == 6 && num64(w[2], a) && num64(w[3], b) && num64(w[4], c) && num64(w[5], d)) {
        Token x(a, b), y(c, d);
        std::cout << "P cmp eq=" << (x == y) << " ne=" << (x != y) << " lt=" << (x < y) << " le=" << (x <= y) << " gt=" << (x > y)
                  << " ge=" << (x >= y) << " hashok=" << ((!(x == y) || x.hash() == y.hash()) ? 1 : 0)
                  << ((x.equal(y) != (x == y) || x.less(y) != (x < y)) ? " fn!" : "") << "\nM heq=" << (x.hash() == y.hash()) << "\n";
    } else if (op == "set" && w.size() <= 82 && w.size() % 2 == 0) {
        std::set<Token> s; std::unordered_set<Token> us;
        for (size_t i = 2; i + 1 < w.size(); i += 2) {
            if (!num64(w[i], a) || !num64(w[i + 1], b)) return false;
            s.insert(Token(a, b)); us.insert(Token(a, b));
        }
        std::vector<std::string> ord;
        for (auto &t : s) ord.push_back(std::to_string(t.id()) + "." + std::to_string(t.pos()));
        std::cout << "P set n=" << s.size() << " un=" << us.size() << " order=" << comma(ord) << "\n";
    } else return false;
    return true;
}

// ---------------------------------------------------------------- Fd
static const uint64_t kFdSlots = 8;
static std::unique_ptr<Fd> g_fd[kFdSlots];
static int g_pipe[2] = {-1, -1};
static std::map<int, int> g_fd2res;          // descriptors believed open -> label
static int g_nres = 0;
static std::vector<std::string> g_closed;    // closes observed during the current op

static void close_fn(int fd) {
    auto it = g_fd2res.find(fd);
    if (it == g_fd2res.end()) g_closed.push_back("?:f");          // closed twice / never opened
    else { g_closed.push_back(std::to_string(it->second) + ":f"); g_fd2res.erase(it); }
    ::close(fd);
}
static void fd_scan() {   // descriptors closed behind our back (the ::close path of Fd)
    for (auto it = g_fd2res.begin(); it != g_fd2res.end();) {
        if (fcntl(it->first, F_GETFD) == -1) { g_closed.push_back(std::to_string(it->second) + ":r"); it = g_fd2res.erase(it); }
        else ++it;
    }
}
static void fd_status() {
    fd_scan();
    std::string g, nl, ref;
    for (uint64_t i = 0; i < kFdSlots; ++i) {
        if (i) { g += ","; ref += ","; }
        int fd = g_fd[i]->get();
        if (fd < 0) g += std::to_string(fd);
        else { auto it = g_fd2res.find(fd); g += (it == g_fd2res.end() ? std::string("?") : std::to_string(it->second)); }
        nl += g_fd[i]->isNull() ? "1" : "0";
        ref += g_fd[i]->detail_ ? std::to_string(g_fd[i]->detail_->ref_count) : std::string("-");
    }
    std::set<int> open; for (auto &e : g_fd2res) open.insert(e.second);
    std::vector<std::string> ov; for (int r : open) ov.push_back(std::to_string(r));
    std::cout << "P fd g=" << g << " null=" << nl << " closed=" << comma(g_closed) << " open=" << comma(ov) << "\nM ref=" << ref << "\n";
    g_closed.clear();
}
static bool fd_line(const std::vector<std::string> &w) {
    uint64_t a = 0, b = 0;
    const std::string &op = w[1];
    if (op == "new" && w.size() == 3 && num(w[2], kFdSlots, a)) {
        g_fd[a].reset(); g_fd[a].reset(new Fd());
    } else if (op == "openneg" && w.size() == 5 && num(w[2], kFdSlots, a) && num(w[3], 3, b) && (w[4] == "fn" || w[4] == "raw")) {
        // what a failed open()/socket() returned: a record is created, nothing may ever be closed for it
        g_fd[a].reset();
        if (w[4] == "fn") g_fd[a].reset(new Fd(-(int)(b + 1), close_fn)); else g_fd[a].reset(new Fd(-(int)(b + 1)));
    } else if (op == "open" && w.size() == 4 && num(w[2], kFdSlots, a) && (w[3] == "fn" || w[3] == "raw" || w[3] == "nullfn") && g_nres < 200) {
        int fd = dup(g_pipe[0]);                  // before the old object dies: no number reuse inside one op
        if (fd < 0) { perror("dup"); abort(); }
        g_fd2res[fd] = g_nres++;
        g_fd[a].reset();
        if (w[3] == "fn") g_fd[a].reset(new Fd(fd, close_fn));
        else if (w[3] == "nullfn") g_fd[a].reset(new Fd(fd, Fd::CloseFunc()));       // an empty std::function: plain ::close
        else g_fd[a].reset(new Fd(fd));
    } else if (op == "cpc" && w.size() == 4 && num(w[2], kFdSlots, a) && num(w[3], kFdSlots, b) && a != b) {
        g_fd[a].reset(); g_fd[a].reset(new Fd(*g_fd[b]));
    } else if (op == "mvc" && w.size() == 4 && num(w[2], kFdSlots, a) && num(w[3], kFdSlots, b) && a != b) {
        g_fd[a].reset(); g_fd[a].reset(new Fd(std::move(*g_fd[b])));
    } else if (op == "cpa" && w.size() == 4 && num(w[2], kFdSlots, a) && num(w[3], kFdSlots, b)) {
        *g_fd[a] = *g_fd[b];
    } else if (op == "mva" && w.size() == 4 && num(w[2], kFdSlots, a) && num(w[3], kFdSlots, b)) {
        *g_fd[a] = std::move(*g_fd[b]);
    } else if (op == "swap" && w.size() == 4 && num(w[2], kFdSlots, a) && num(w[3], kFdSlots, b)) {
        g_fd[a]->swap(*g_fd[b]);
    } else if (op == "reset" && w.size() == 3 && num(w[2], kFdSlots, a)) {
        g_fd[a]->reset();
    } else if (op == "close" && w.size() == 3 && num(w[2], kFdSlots, a)) {
        g_fd[a]->close();
    } else return false;
    fd_status();
    return true;
}

// ---------------------------------------------------------------- LifetimeTag / Watcher
using tbox::LifetimeTag;
typedef LifetimeTag::Watcher Watcher;
static const uint64_t kLtTags = 4, kLtWs = 6;
static std::unique_ptr<LifetimeTag> g_t[kLtTags];     // empty = no tag object in the slot
static std::unique_ptr<Watcher> g_w[kLtWs];           // always an object
static std::vector<const void *> g_details;           // detail records in creation order (label = index)

static void lt_note(uint64_t i) { g_details.push_back(g_t[i]->d_); }
static void lt_status() {
    std::string alive, nl, tags, cnt;
    for (uint64_t w = 0; w < kLtWs; ++w) {
        alive += g_w[w]->isAlive() ? "1" : "0";
        if ((bool)(*g_w[w]) != g_w[w]->isAlive()) alive += "!";
        nl += g_w[w]->isNull() ? "1" : "0";
        if (w) cnt += ",";
        cnt += g_w[w]->d_ ? std::to_string(g_w[w]->d_->watcher_counter) : std::string("-");
    }
    for (uint64_t i = 0; i < kLtTags; ++i) tags += g_t[i] ? "1" : "0";
    std::vector<std::string> freed;
#if defined(__SANITIZE_ADDRESS__)
    // a deleted record sits in ASan's quarantine: its bytes are poisoned
    for (size_t d = 0; d < g_details.size(); ++d) if (__asan_address_is_poisoned(g_details[d])) freed.push_back(std::to_string(d));
    std::string fr = comma(freed);
#else
    std::string fr = "?";
#endif
    std::cout << "P lt alive=" << alive << " null=" << nl << " tags=" << tags << " freed=" << fr << "\nM cnt=" << cnt << "\n";
}
static bool lt_line(const std::vector<std::string> &w) {
    uint64_t a = 0, b = 0;
    const std::string &op = w[1];
    bool two = w.size() == 4, one = w.size() == 3;
    if (op == "tnew" && one && num(w[2], kLtTags, a)) {
        g_t[a].reset(); g_t[a].reset(new LifetimeTag()); lt_note(a);
    } else if (op == "tdel" && one && num(w[2], kLtTags, a)) {
        g_t[a].reset();
    } else if ((op == "tcpc" || op == "tmvc") && two && num(w[2], kLtTags, a) && num(w[3], kLtTags, b) && a != b) {
        if (!g_t[b]) { std::cout << "P absent\n"; return true; }
        g_t[a].reset();
        if (op == "tcpc") g_t[a].reset(new LifetimeTag(*g_t[b])); else g_t[a].reset(new LifetimeTag(std::move(*g_t[b])));
        lt_note(a);
    } else if ((op == "tcpa" || op == "tmva") && two && num(w[2], kLtTags, a) && num(w[3], kLtTags, b)) {
        if (!g_t[a] || !g_t[b]) { std::cout << "P absent\n"; return true; }
        if (op == "tcpa") *g_t[a] = *g_t[b]; else *g_t[a] = std::move(*g_t[b]);
    } else if (op == "wnew" && one && num(w[2], kLtWs, a)) {
        g_w[a].reset(); g_w[a].reset(new Watcher());
    } else if ((op == "wtag" || op == "wset" || op == "wget") && two && num(w[2], kLtWs, a) && num(w[3], kLtTags, b)) {
        if (!g_t[b]) { std::cout << "P absent\n"; return true; }
        if (op == "wtag") { g_w[a].reset(); g_w[a].reset(new Watcher(*g_t[b])); }
        else if (op == "wget") { g_w[a].reset(); g_w[a].reset(new Watcher(g_t[b]->get())); }
        else *g_w[a] = *g_t[b];
    } else if (op == "wcpc" && two && num(w[2], kLtWs, a) && num(w[3], kLtWs, b) && a != b) {
        g_w[a].reset(); g_w[a].reset(new Watcher(*g_w[b]));
    } else if (op == "wmvc" && two && num(w[2], kLtWs, a) && num(w[3], kLtWs, b) && a != b) {
        g_w[a].reset(); g_w[a].reset(new Watcher(std::move(*g_w[b])));
    } else if (op == "wcpa" && two && num(w[2], kLtWs, a) && num(w[3], kLtWs, b)) {
        *g_w[a] = *g_w[b];
    } else if (op == "wmva" && two && num(w[2], kLtWs, a) && num(w[3], kLtWs, b)) {
        *g_w[a] = std::move(*g_w[b]);
    } else if (op == "wswap" && two && num(w[2], kLtWs, a) && num(w[3], kLtWs, b)) {
        g_w[a]->swap(*g_w[b]);
    } else if (op == "wreset" && one && num(w[2], kLtWs, a)) {
        g_w[a]->reset();
    } else return false;
    lt_status();
    return true;
}

// ---------------------------------------------------------------- main
static void reinit() {
    g_cab.reset(new Cabinet<int>()); g_toks.clear();
    if (g_pool) pool_free_all();
    g_pool.reset(new tbox::ObjectPool<Probe>());
    g_ctor = g_dtor = 0; g_alias = false; g_live_addr.clear(); g_leaked = 0;
    for (auto &f : g_fd) f.reset();
    for (auto &f : g_fd) f.reset(new Fd());
    for (auto &e : g_fd2res) ::close(e.first);          // leaked by the case before
    g_fd2res.clear(); g_closed.clear(); g_nres = 0;
    for (auto &x : g_w) x.reset();
    for (auto &x : g_t) x.reset();
    for (auto &x : g_w) x.reset(new Watcher());
    g_details.clear();
}

int main() {
    if (pipe(g_pipe) != 0) { perror("pipe"); return 2; }
    std::string line;
    reinit();
    while (std::getline(std::cin, line)) {
        auto w = vh::words(line);
        if (w.empty()) continue;
        if (w[0] == "case") { reinit(); std::cout << line << "\n"; continue; }
        bool ok = false;
        if (w.size() >= 2) {
            if (w[0] == "cab") ok = cab_line(w);
            else if (w[0] == "pool") ok = pool_line(w);
            else if (w[0] == "fd") ok = fd_line(w);
            else if (w[0] == "lt") ok = lt_line(w);
            else if (w[0] == "tok") ok = tok_line(w);
        }
        if (!ok) std::cout << "bad-op\n";
    }
    // release everything while the bookkeeping (g_fd2res, g_live_addr) is still alive: the close
    // function and the probe destructor must not run during static destruction
    for (auto &f : g_fd) f.reset();
    for (auto &x : g_w) x.reset();
    for (auto &x : g_t) x.reset();
    pool_free_all(); g_pool.reset(); g_cab.reset();
    std::cout.flush();
    return 0;
}
