"""C08 — handles never dangle or alias: Cabinet tokens, ObjectPool blocks, shared Fd handles."""
import types
import vlib

ID = 'C08'
LEAN_MODULES = ['TboxModel.C08.Props']
EXE = 'c08'
THEOREMS = [
    'Tbox.C08.C08_cab_freelist', 'Tbox.C08.C08_cab_alloc_never_throws', 'Tbox.C08.C08_cab_lookup',
    'Tbox.C08.C08_cab_stale_forever', 'Tbox.C08.C08_cab_fresh_token', 'Tbox.C08.C08_cab_distinct',
    'Tbox.C08.C08_cab_size', 'Tbox.C08.C08_cab_foreach_effect', 'Tbox.C08.C08_cab_foreach_remove', 'Tbox.C08.C08_spec_dead_forever', 'Tbox.C08.C08_cab_lookup_counterexample', 'Tbox.C08.C08_cab_wrap_counterexample',
    'Tbox.C08.C08_pool_no_alias', 'Tbox.C08.C08_pool_ctor_dtor', 'Tbox.C08.C08_pool_keep', 'Tbox.C08.C08_pool_stat', 'Tbox.C08.C08_pool_no_leak',
    'Tbox.C08.C08_fd_refcount', 'Tbox.C08.C08_fd_close_once',
    'Tbox.C08.C08_lt_no_use_after_free', 'Tbox.C08.C08_lt_alive', 'Tbox.C08.C08_lt_free_once',
]
SOURCES = ['modules/util/fd.cpp'] + vlib.BASE_SOURCES
FLAVOUR = 'asan'
BATCH = 200
SHRINK_TESTS = 200
MAX_REPORT = 3
TRUSTED = [
    'model lean/TboxModel/C08/Model.lean is hand-written from cabinet.hpp, cabinet_token.h, object_pool.hpp, fd.{h,cpp}, lifetime_tag.hpp; tied by differential runs',
    'Cabinet cell union {obj_ptr,next_free} is one word in the model; objects are numbers (0 = nullptr)',
    'ObjectPool: alloc()/free() are transcribed as begin/end events around the constructor/destructor call, which may make nested events on the same pool; '
    'the intrusive Block::next chain is abstracted to a list of block identities; malloc is a source of fresh identities; '
    'use-after-free of real storage is observed on the implementation side only (ASan + the probe type registering its addresses)',
    'Fd: the kernel gives every open a descriptor that is not open at that moment (modelled as a fresh number); Detail* is an index into a heap list',
    'LifetimeTag: Detail* is an index into a heap list; a deleted record is recognised on the implementation side by ASan poisoning (quarantine)',
]
ASSUMPTIONS = ['fewer than 2^64-1 allocations on one Cabinet (id wrap-around excluded: hypothesis `wrapped = false` of the cabinet theorems)',
               'ObjectPool::free is only called with live objects of the same pool (API contract)',
               'malloc does not fail', 'ObjectPool::free of a pointer twice / of a foreign pointer is outside the contract and not modelled',
               'a foreach callback that allocates on every invocation is bounded by the initial cell count (code after patches/C08-02)']
RULE = ('op histories over one Cabinet<int> (tokens retained for the whole history and re-queried with `scan`), one ObjectPool<Probe> (probe constructors/destructors run nested alloc/free scripts on the same pool) '
        'with 16 user slots and retention limits {0,1,2,3,5,16,max}, 8 Fd handles on real descriptors dup()ed from a pipe, and 4 LifetimeTag + 6 Watcher slots; '
        'non-trivial = the model run queries a stale token whose cell has been reused, or removes during foreach, or reuses a parked '
        'pool block after a release, or closes a descriptor through the last of several copies, or lets watchers outlive their tag / frees a tag record through its last watcher; distinct = distinct op text')


# ---------------------------------------------------------------------------------- differ
def _first_diff(impl_lines, model_lines, ignore_prefixes=('B ',)):
    """like vlib.first_diff but a property-level difference anywhere in the case wins over an earlier
    model-internal one (both sides print a fixed number of lines per op, so lines stay aligned)"""
    a = [l for l in impl_lines if not l.startswith(ignore_prefixes)]
    b = [l for l in model_lines if not l.startswith(ignore_prefixes)]
    first_m = None
    for k in range(max(len(a), len(b))):
        x = a[k] if k < len(a) else '<missing>'
        y = b[k] if k < len(b) else '<missing>'
        if x != y:
            if not (x.startswith('M ') and y.startswith('M ')):
                return (k, x, y, 'P')
            if first_m is None:
                first_m = (k, x, y, 'M')
    return first_m


def check(tier, seed, replay=None):
    vlib.first_diff = _first_diff
    P = types.SimpleNamespace(**{k: v for k, v in globals().items() if not k.startswith('__') and k != 'check'})
    return vlib.standard_check(P, tier, seed, replay)


def fingerprint(ops, d):
    import hashlib
    kinds = ' '.join(' '.join(o.split()[:2]) for o in ops)
    return hashlib.sha1(kinds.encode()).hexdigest()[:12]


# ---------------------------------------------------------------------------------- generators
class CabGen:
    """keeps a rough picture of which issued tokens are live so that most ops are meaningful"""
    def __init__(self, rng, target):
        self.rng, self.target = rng, target
        self.n = 0            # tokens issued
        self.live = []        # indices believed live
        self.ops = []

    def any_tok(self):
        r = self.rng
        if self.n == 0: return None
        if self.live and r.random() < 0.6: return r.choice(self.live)
        return r.randrange(self.n)          # mostly stale once the history is long

    def alloc(self):
        o = self.rng.choice([0, 1, 2, 999, self.rng.randrange(1000)]) if self.rng.random() < 0.1 else self.rng.randrange(1, 1000)
        self.ops.append('cab alloc %d' % o); self.live.append(self.n); self.n += 1

    def free(self, i):
        self.ops.append('cab free %d' % i)
        if i in self.live: self.live.remove(i)

    def step(self, scan_p=0.03):
        r = self.rng; x = r.random()
        grow = len(self.live) < self.target
        if x < (0.42 if grow else 0.22) or self.n == 0:
            self.alloc()
        elif x < 0.60:
            if self.live and r.random() < 0.85:
                # LIFO / FIFO / random removal orders thread the free list differently
                m = r.random()
                i = self.live[-1] if m < 0.3 else self.live[0] if m < 0.5 else r.choice(self.live)
            else:
                i = r.randrange(self.n)
            self.free(i)
        elif x < 0.75:
            self.ops.append('cab at %d' % self.any_tok())
        elif x < 0.80:
            self.ops.append('cab upd %d %d' % (self.any_tok(), r.randrange(1000)))
        elif x < 0.80 + scan_p:
            self.ops.append('cab scan')
        elif x < 0.87:
            self.ops.append('cab size')
        elif x < 0.90:
            # iterate with calls from inside the callback: free the visited entry itself, a later one, an
            # earlier one, a stale one; alloc (reusing a freed cell or growing the vector, possibly
            # past its capacity), update, clear
            k = r.randrange(0, 6); items = []; cleared = False; sure = 0
            had_live = len(self.live) > 0
            mode = r.random()
            for _ in range(k):
                inv = r.randrange(0, max(1, min(len(self.live) + 1, 12)))
                y = r.random()
                if mode < 0.55 or y < 0.5:
                    i = self.any_tok(); items.append('%d:%d' % (inv, i))
                    if i in self.live: self.live.remove(i)   # approximately
                elif y < 0.8:
                    for _ in range(r.choice([1, 1, 2, 9, 40]) if mode > 0.9 else 1):
                        items.append('%d:a%d' % (inv, r.randrange(1, 1000)))
                        if inv == 0 and had_live: sure += 1
                elif y < 0.93:
                    items.append('%d:u%d.%d' % (inv, self.any_tok(), r.randrange(1000)))
                else:
                    items.append('%d:c' % inv); cleared = True
            self.ops.append('cab each %s' % (','.join(items) or '-'))
            if cleared: self.live = []
            # allocs of the first invocation certainly ran (if anything was live): their tokens are
            # appended to the issued list; later invocations may not happen, so those tokens are only
            # reached through `scan` (an index that is not issued yet is answered bad-op by both sides)
            for _ in range(sure):
                if not cleared: self.live.append(self.n)
                self.n += 1
        elif x < 0.915:
            self.ops.append('cab clear'); self.live = []
        elif x < 0.93:
            self.ops.append('cab reserve %d' % r.choice([0, 1, 16, 1000]))
        elif x < 0.95:
            # forged tokens: null id, huge pos, plausible (id,pos)
            self.ops.append('cab atraw %d %d' % (r.choice([0, 1, 2, self.n, self.n + 1, 3999999999]), r.choice([0, 1, 2, len(self.live), 3999999999])))
        else:
            self.alloc()


def gen_cab(rng, nops, target=None, scan_p=0.03):
    g = CabGen(rng, target if target is not None else rng.choice([1, 2, 4, 8, 30, 200]))
    for _ in range(nops):
        g.step(scan_p)
    g.ops.append('cab scan'); g.ops.append('cab size'); g.ops.append('cab each -')
    return g.ops


def ptree(rng, live, depth):
    """a random forest of nested pool calls: `A h v … a` / `F h … f` (the part in between is what the
    probe's constructor / destructor does to the same pool)"""
    toks = []
    for _ in range(rng.choice([1, 1, 1, 2, 3])):
        nest = depth < 4 and rng.random() < (0.6 if depth == 0 else 0.35)
        if rng.random() < 0.55:
            free = [x for x in range(16) if x not in live]
            h = rng.choice(free) if free and rng.random() < 0.85 else rng.randrange(16)
            toks += ['A', str(h), str(rng.randrange(1000000))]
            if nest: toks += ptree(rng, live, depth + 1)
            toks.append('a'); live.add(h)
        else:
            h = rng.choice(sorted(live)) if live and rng.random() < 0.85 else rng.randrange(16)
            toks += ['F', str(h)]; live.discard(h)
            if nest: toks += ptree(rng, live, depth + 1)
            toks.append('f')
    return toks


def gen_pool(rng, nops):
    ops = ['pool new %s' % rng.choice(['0', '1', '2', '3', '5', '16', 'max'])]
    live = set()
    for _ in range(nops):
        x = rng.random()
        if rng.random() < 0.35:
            ops.append('pool x ' + ' '.join(ptree(rng, live, 0))); continue
        if x < 0.45:
            h = rng.randrange(16) if rng.random() < 0.8 or len(live) == 16 else rng.choice([s for s in range(16) if s not in live])
            ops.append('pool alloc %d %d' % (h, rng.randrange(1000000))); live.add(h)
        elif x < 0.90:
            h = rng.choice(sorted(live)) if live and rng.random() < 0.85 else rng.randrange(16)
            ops.append('pool free %d' % h); live.discard(h)
        elif x < 0.96:
            ops.append('pool stat')
        elif x < 0.985:
            ops.append('pool new %s' % rng.choice(['0', '1', '2', '3', '5', '16', 'max'])); live = set()
        else:
            # the pool dies while objects are live: no destructor runs, their storage is left alone
            ops.append('pool drop %s' % rng.choice(['0', '1', '2', '3', '5', '16', 'max'])); live = set()
    return ops


def gen_fd(rng, nops):
    ops = []; opened = 0
    nslots = rng.choice([2, 3, 8])
    for _ in range(nops):
        a = rng.randrange(nslots); b = rng.randrange(nslots); x = rng.random()
        if x < 0.16 and opened < 190:
            ops.append('fd open %d %s' % (a, rng.choice(['fn', 'fn', 'raw']))); opened += 1
        elif x < 0.32:
            ops.append('fd cpa %d %d' % (a, b))
        elif x < 0.44:
            ops.append('fd mva %d %d' % (a, b))
        elif x < 0.54 and a != b:
            ops.append('fd cpc %d %d' % (a, b))
        elif x < 0.62 and a != b:
            ops.append('fd mvc %d %d' % (a, b))
        elif x < 0.72:
            ops.append('fd swap %d %d' % (a, b))
        elif x < 0.84:
            ops.append('fd reset %d' % a)
        elif x < 0.93:
            ops.append('fd close %d' % a)
        else:
            ops.append('fd new %d' % a)
    for s in range(nslots):
        ops.append('fd new %d' % s)          # everything is closed by now
    return ops


def gen_lt(rng, nops):
    ops = []
    nt = rng.choice([1, 2, 4]); nw = rng.choice([2, 3, 6])
    for _ in range(nops):
        i = rng.randrange(nt); j = rng.randrange(nt); a = rng.randrange(nw); b = rng.randrange(nw); x = rng.random()
        if x < 0.12: ops.append('lt tnew %d' % i)
        elif x < 0.22: ops.append('lt tdel %d' % i)
        elif x < 0.27 and i != j: ops.append('lt %s %d %d' % (rng.choice(['tcpc', 'tmvc']), i, j))
        elif x < 0.30: ops.append('lt %s %d %d' % (rng.choice(['tcpa', 'tmva']), i, j))
        elif x < 0.46: ops.append('lt %s %d %d' % (rng.choice(['wtag', 'wset', 'wget']), a, i))
        elif x < 0.56 and a != b: ops.append('lt wcpc %d %d' % (a, b))
        elif x < 0.64 and a != b: ops.append('lt wmvc %d %d' % (a, b))
        elif x < 0.74: ops.append('lt wcpa %d %d' % (a, b))
        elif x < 0.82: ops.append('lt wmva %d %d' % (a, b))
        elif x < 0.87: ops.append('lt wswap %d %d' % (a, b))
        elif x < 0.94: ops.append('lt wreset %d' % a)
        else: ops.append('lt wnew %d' % a)
    # both destruction orders at the end: tags first or watchers first
    order = [('lt tdel %d' % k) for k in range(nt)], [('lt wnew %d' % k) for k in range(nw)]
    if rng.random() < 0.5: order = order[::-1]
    return ops + order[0] + order[1]


def gen_mixed(rng, nops):
    parts = [gen_cab(rng, nops), gen_pool(rng, nops), gen_fd(rng, nops), gen_lt(rng, nops)]
    out = []
    while any(parts):
        p = rng.choice([q for q in parts if q])
        out.append(p.pop(0))
    return out


MALFORMED = ['cab', 'cab alloc', 'cab alloc 1000', 'cab alloc x', 'cab at 0', 'cab free 5', 'cab each 0:0', 'cab frob', 'cab atraw 1',
             'pool alloc 16 1', 'pool alloc 0', 'pool free 99', 'pool new -1', 'pool new', 'pool drop', 'pool drop x', 'fd open 8 fn', 'fd open 0 xx', 'fd cpc 1 1',
             'fd mvc 2 2', 'fd swap 0', 'fd close 9', 'frob 1', 'cab alloc 5', 'cab each 0:0,', 'cab each 0:1', 'cab each 0;0', 'cab each 0:0', 'cab each 0:a', 'cab each 0:a1000', 'cab each 0:u0', 'cab each 0:u0.1.2', 'cab each 0:cc', 'cab each 0:u9.1',
             'cab upd 0 1000', 'cab at 00', 'cab at 1', 'cab clear now', 'fd', 'pool', 'lt', 'lt tnew 4', 'lt wnew 6', 'lt wcpc 1 1', 'lt tcpc 0 0', 'lt wtag 0', 'lt frob 0', 'lt wtag 6 0',
             'cab alloc 1_0', 'cab alloc 000000000000000001', 'cab alloc 00000000000001', 'cab alloc +1', 'pool new 1_0', 'cab at 0_0']


def gen(rng, tier):
    quick = tier == 'quick'
    yield list(MALFORMED)
    # directed: slot reuse with retained tokens; removal of self / later / earlier entry during foreach
    yield ['cab alloc 1', 'cab alloc 2', 'cab alloc 3', 'cab free 1', 'cab free 0', 'cab alloc 4', 'cab alloc 5', 'cab alloc 6',
           'cab scan', 'cab at 1', 'cab upd 0 9', 'cab free 0', 'cab size', 'cab atraw 0 0', 'cab atraw 4 0', 'cab atraw 4 3999999999']
    yield ['cab alloc 1', 'cab alloc 2', 'cab alloc 3', 'cab free 1', 'cab each 0:2,0:0,0:a8,0:a9,1:u2.77,2:a5', 'cab scan',
           'cab each 0:c,0:a5', 'cab scan', 'cab each ' + ','.join('0:a%d' % (10 + i) for i in range(40)), 'cab scan', 'cab each 1:c', 'cab size']
    yield ['cab alloc 1', 'cab alloc 2', 'cab alloc 3', 'cab alloc 4', 'cab each 0:0,1:2,3:1', 'cab scan', 'cab alloc 7', 'cab alloc 8',
           'cab alloc 9', 'cab scan', 'cab each 0:5,0:4,0:6', 'cab size']
    yield ['cab clear', 'cab alloc 0', 'cab at 0', 'cab upd 0 0', 'cab upd 0 5', 'cab at 0', 'cab free 0', 'cab free 0', 'cab clear', 'cab size']
    yield ['pool new 1', 'pool alloc 0 10', 'pool alloc 1 11', 'pool free 0', 'pool free 1', 'pool alloc 2 12', 'pool alloc 3 13',
           'pool alloc 3 14', 'pool free 5', 'pool stat', 'pool new 0', 'pool alloc 0 1', 'pool free 0', 'pool alloc 0 2',
           'pool alloc 1 3', 'pool drop 2', 'pool alloc 0 4', 'pool alloc 1 5', 'pool free 0', 'pool free 1', 'pool alloc 2 6', 'pool stat', 'pool drop max']
    # re-entrancy: with parked blocks available, a constructor that allocates a child from the same pool,
    # a destructor that frees the child / another object / allocates
    yield ['pool new 2', 'pool alloc 0 1', 'pool alloc 1 2', 'pool free 0', 'pool free 1', 'pool x A 2 5 A 3 6 a a', 'pool stat',
           'pool x F 2 F 3 f f', 'pool x A 4 7 A 5 8 A 6 9 a a F 5 f a', 'pool x F 4 A 7 1 a F 6 f f', 'pool x A 8 1 A 8 2 a F 8 f a',
           'pool x F 7 F 7 f A 7 3 a f', 'pool stat', 'pool new 0', 'pool x A 0 1 A 1 2 a a F 0 F 1 f f']
    yield ['pool x', 'pool x A', 'pool x A 0', 'pool x A 0 1', 'pool x A 0 1 f', 'pool x F 0 a', 'pool x a', 'pool x A 16 1 a', 'pool x F 16 f',
           'pool x A 0 1 a a', 'pool x A 0 1 a', 'pool x ' + 'A 0 1 ' * 17 + 'a ' * 17, 'pool x ' + 'A 0 1 ' * 16 + 'a ' * 16, 'pool stat']
    yield ['fd open 0 fn', 'fd cpa 1 0', 'fd cpa 1 0', 'fd cpa 0 0', 'fd mva 0 0', 'fd cpc 2 1', 'fd reset 0', 'fd close 1', 'fd close 2',
           'fd reset 1', 'fd reset 2', 'fd open 3 raw', 'fd mvc 4 3', 'fd swap 4 4', 'fd swap 3 4', 'fd mva 3 3', 'fd new 3', 'fd new 4']
    # LifetimeTag: tag dies first / watchers die first; copies of null watchers; tag copies get their own record
    yield ['lt tnew 0', 'lt wtag 0 0', 'lt wcpc 1 0', 'lt tdel 0', 'lt wreset 0', 'lt wreset 1', 'lt tnew 0', 'lt wset 0 0', 'lt wnew 0', 'lt tdel 0']
    yield ['lt wcpc 1 0', 'lt wcpa 2 3', 'lt wcpa 2 2', 'lt tnew 0', 'lt wget 0 0', 'lt wmvc 1 0', 'lt wcpc 2 0', 'lt wcpa 3 0', 'lt wmva 4 0',
           'lt tcpc 1 0', 'lt tmvc 2 0', 'lt wset 5 1', 'lt tcpa 1 0', 'lt tmva 0 2', 'lt tdel 0', 'lt tdel 1', 'lt wtag 0 3', 'lt tcpc 3 0', 'lt tdel 2']
    n = 4 if quick else 24
    for _ in range(120 * n):
        yield gen_cab(rng, rng.choice([10, 30, 80, 200, 400]))
    for _ in range(60 * n):
        yield gen_pool(rng, rng.choice([10, 40, 150]))
    for _ in range(80 * n):
        yield gen_fd(rng, rng.choice([10, 40, 120, 300]))
    for _ in range(60 * n):
        yield gen_lt(rng, rng.choice([8, 30, 100, 300]))
    for _ in range(20 * n):
        yield gen_mixed(rng, rng.choice([20, 100]))
    # long histories: heavy slot reuse, thousands of stale tokens retained and re-queried
    for _ in range(3 if quick else 10):
        yield gen_cab(rng, 4000, target=rng.choice([3, 50]), scan_p=0.004)
    if not quick:
        yield gen_cab(rng, 100000, target=300, scan_p=0.0003)
        # exhaustive small scope: every history of length <= 5 over a small alphabet on a fresh cabinet
        import itertools
        alpha = ['cab alloc 7', 'cab free 0', 'cab free 1', 'cab clear', 'cab each 0:1', 'cab upd 0 3']
        for L in range(1, 6):
            for seq in itertools.product(alpha, repeat=L):
                yield ['cab alloc 1', 'cab alloc 2'] + list(seq) + ['cab scan', 'cab size']
        alpha = ['fd open 0 fn', 'fd cpa 1 0', 'fd mva 0 1', 'fd close 1', 'fd reset 0', 'fd swap 0 1', 'fd cpc 1 0']
        for L in range(1, 6):
            for seq in itertools.product(alpha, repeat=L):
                yield list(seq) + ['fd new 0', 'fd new 1']
        alpha = ['A 0 1', 'A 1 2', 'A 2 3', 'a', 'F 0', 'F 1', 'f']
        def nested_ok(seq):
            st = []
            for t in seq:
                if t[0] in 'AF': st.append(t[0])
                elif not st or st.pop() != t.upper(): return False
            return not st
        for L in range(2, 9, 2):
            for seq in itertools.product(alpha, repeat=L):
                if nested_ok(seq):
                    yield ['pool new %s' % rng.choice(['1', '2', 'max']), 'pool alloc 5 9', 'pool alloc 6 9', 'pool free 5', 'pool free 6',
                           'pool x ' + ' '.join(seq), 'pool stat']
        alpha = ['lt tnew 0', 'lt tdel 0', 'lt wset 0 0', 'lt wcpa 1 0', 'lt wmva 0 1', 'lt wreset 0', 'lt wcpc 1 0', 'lt tcpc 1 0']
        for L in range(1, 5):
            for seq in itertools.product(alpha, repeat=L):
                yield list(seq) + rng.choice([['lt tdel 0', 'lt tdel 1', 'lt wnew 0', 'lt wnew 1'], ['lt wnew 0', 'lt wnew 1', 'lt tdel 0', 'lt tdel 1']])


KEY_TAGS = ('pool-ctor-alloc-parked', 'pool-dtor-alloc-parked', 'pool-dtor-free', 'pool-drop-live', 'w-last-frees', 't-outlived-by-watchers', 'tok-stale-reused', 'each-removed', 'each-cb-grew', 'pool-reuse', 'rel-last-closes', 'close-shared')


def nontrivial(ops, model_lines):
    tags = set()
    for l in model_lines:
        if l.startswith('B '):
            tags.update(l[2:].split())
    for t in tags:
        if any(k in t for k in KEY_TAGS):
            return 1
    return None


LEVEL_TEXT = ('Lean 4 theorems over hand-written models of Cabinet (intrusive free list as coded), ObjectPool and Fd: free-list shape, '
              'token lookup = finite map of issued tokens with dead tokens dead for ever (histories including clear), distinct ids, size, '
              'foreach with free/alloc/update/clear from inside callbacks; pool blocks never handed out while live, ctor/dtor balance, statistics, retention limit, '
              'destruction with live objects; Fd reference counts and close-exactly-once; LifetimeTag/Watcher: alive iff the tag exists, record deleted '
              'exactly once after tag and last watcher, no access to a deleted record in any destruction order; models tied to the headers and fd.cpp on every run by differential execution (ASan+UBSan build of the working tree)')
LEVEL_NOTE = ('trusted: Lean kernel, hand-written models + differential tie (coverage bounded by the generator, measured in evidence); '
              'real-memory use-after-free is observed by ASan on the implementation side only')
TECHNIQUE = 'Lean 4 invariant/refinement proofs over executable models + model/implementation correspondence check'
DESIGN_REF = 'DESIGN.md §6 C08, §7 row 4'
