"""C08 — handles never dangle or alias: Cabinet tokens, ObjectPool blocks, shared Fd handles."""
import types
import vlib

ID = 'C08'
LEAN_MODULES = ['TboxModel.C08.Props', 'TboxModel.C08.PropsExt', 'TboxModel.C08.PropsR5']
EXE = 'c08'
THEOREMS = [
    'Tbox.C08.C08_cab_freelist', 'Tbox.C08.C08_cab_alloc_never_throws', 'Tbox.C08.C08_cab_lookup',
    'Tbox.C08.C08_cab_stale_forever', 'Tbox.C08.C08_cab_fresh_token', 'Tbox.C08.C08_cab_distinct',
    'Tbox.C08.C08_cab_size', 'Tbox.C08.C08_cab_foreach_effect', 'Tbox.C08.C08_cab_foreach_remove', 'Tbox.C08.C08_spec_dead_forever', 'Tbox.C08.C08_cab_lookup_counterexample', 'Tbox.C08.C08_cab_wrap_counterexample',
    'Tbox.C08.C08_pool_no_alias', 'Tbox.C08.C08_pool_ctor_dtor', 'Tbox.C08.C08_pool_keep', 'Tbox.C08.C08_pool_stat', 'Tbox.C08.C08_pool_no_leak',
    'Tbox.C08.C08_fd_refcount', 'Tbox.C08.C08_fd_close_once',
    'Tbox.C08.C08_lt_no_use_after_free', 'Tbox.C08.C08_lt_alive', 'Tbox.C08.C08_lt_free_once', 'Tbox.C08.C08_lt_dead_forever',
    'Tbox.C08.C08_tok_roundtrip', 'Tbox.C08.C08_tok_null', 'Tbox.C08.C08_tok_order', 'Tbox.C08.C08_tok_hash',
    'Tbox.C08.C08_cab_bulk_alloc', 'Tbox.C08.C08_cab_bulk_free', 'Tbox.C08.C08_cab_array_refines', 'Tbox.C08.C08_cab_jump',
    'Tbox.C08.C08_pool_bulk',
    'Tbox.C08.C08_fd_no_use_after_close', 'Tbox.C08.C08_fd_close_all_copies', 'Tbox.C08.C08_fd_io', 'Tbox.C08.C08_fd_open', 'Tbox.C08.C08_fd_empty_source',
    'Tbox.C08.C08_fd_flags', 'Tbox.C08.C08_fd_flags_frame', 'Tbox.C08.C08_fd_cloexec_counterexample',
    'Tbox.C08.C08_cab_alloc_bad_alloc', 'Tbox.C08.C08_pool_ctor_throw', 'Tbox.C08.C08_pool_ctor_throw_leak_counterexample',
    'Tbox.C08.C08_no_dangle_no_alias', 'Tbox.C08.C08_pool_lost_never_reused', 'Tbox.C08.C08_pool_athrow_is_events', 'Tbox.C08.C08_cab_each_throw', 'Tbox.C08.C08_cab_each_throw_stale',
    'Tbox.C08.C08_fd_reentrant', 'Tbox.C08.C08_fd_reentrant_close_counterexample',
    'Tbox.C08.C08_lt_watcher_copy', 'Tbox.C08.C08_lt_watcher_move', 'Tbox.C08.C08_lt_watcher_bind', 'Tbox.C08.C08_lt_tag_copy', 'Tbox.C08.C08_lt_outlive',
]
SOURCES = ['modules/util/fd.cpp'] + vlib.BASE_SOURCES
FLAVOUR = 'asan'
LIBS = ['-ldl']
BATCH = 200
SHRINK_TESTS = 200
MAX_REPORT = 3
TRUSTED = [
    'model lean/TboxModel/C08/Model.lean is hand-written from cabinet.hpp, cabinet_token.h, object_pool.hpp, fd.{h,cpp}, lifetime_tag.hpp; tied by differential runs',
    'Cabinet cell union {obj_ptr,next_free} is one word in the model; objects are numbers (0 = nullptr)',
    'ObjectPool: alloc()/free() are transcribed as begin/end events around the constructor/destructor call, which may make nested events on the same pool; '
    'the intrusive Block::next chain is abstracted to a list of block identities; malloc is a source of fresh identities; '
    'use-after-free of real storage is observed on the implementation side only (ASan + the probe type registering its addresses)',
    'Fd: the kernel gives every open a descriptor that is not open at that moment (modelled as a fresh number); Detail* is an index into a heap list',
    'LifetimeTag: Detail* is an index into a heap list; a deleted record is recognised on the implementation side by ASan poisoning (quarantine)',
    'the driver executes the cabinet over an Array (lean/TboxModel/C08/Fast.lean, CabA); C08_cab_array_refines proves every CabA function equal to the list model, '
    'so the answers to the bulk ops (70 000+ live entries) are runs of the model, not of a second model; digests (count, first failing index, checksum) are driver/harness glue',
    'op `cab jump v` writes Cabinet::last_id_ directly (harness compiled with private->public) to reach ids near 2^16/2^31/2^32/2^48/2^63/2^64; C08_cab_jump shows the state is consistent',
    'Fd kernel model: a descriptor number is open from the open that produced it until its one close; each descriptor has its own open file description (the harness opens /dev/null per descriptor) '
    'with O_NONBLOCK and its own FD_CLOEXEC; fcntl on a number that is not open returns -1; read/readv/write/writev answers for open descriptors are oracle inputs taken from the op file',
    'the harness interposes close, fcntl, open, read, readv, write, writev (definitions in the executable, real ones via RTLD_NEXT): calls made inside an `fd` op are recorded with the label of the descriptor '
    '(M sys=...), a call on a non-negative number that is not an open descriptor of the harness is counted in the P field `stale`, closes are logged when they happen, the kernel flags printed in `fl=` are read back with the real fcntl',
    '::close results are discarded by the code (fd.cpp:58,98), so the model step does not take them; `fd closefail n e` makes the next n interposed closes really close and then return -1/EINTR|EIO',
    'the harness replaces the global operator new/delete (malloc/free underneath) so that `cab allocfail` can make the vector growth inside Cabinet::alloc throw bad_alloc (capacity forced to size with shrink_to_fit first); '
    'which of allocId()/allocPos() ran first is compiler-specific: M line `lastid`, theorem covers both orders',
    'round 5: `pool x … t` = the probe constructor throws AFTER the nested calls its script made; the exception is caught by whoever made the call (the enclosing script); an enclosing constructor that fails too is flagged itself. '
    'Block identities (M blk=) are address labels in order of first constructor entry, printed only for pools that never give blocks back (keep = max)',
    '`cab each` actions x/X/e/E: alloc with operator new failing (capacity forced to size with shrink_to_fit inside the callback) / reserve(2^63) -> length_error, caught inside the callback or thrown through foreach; '
    'reserve(n >= 2^32) never really allocates (100000 <= n < 2^32 is refused as bad-op: such a capacity can exist after bulk ops): operator new is made to fail (bad_alloc) unless n > max_size() (length_error; libstdc++ max_size = PTRDIFF_MAX/sizeof(Cell), model constant cabMaxCells, M line)',
    '`cab opd` derives forged tokens from the private members last_id_/first_free_/cells_.size() (harness compiled with private->public) and from issued tokens; the same derivation runs on the model state',
    '`fd x` programs: the harness close function runs the bracketed script of the operation in progress (operations on the same eight handles); a slot whose object is being destroyed already holds a new empty handle; '
    'model = FdSys.runD, proved equal to the flat history (C08_fd_reentrant) for the code after patches/C08-06; scripts are accepted under close/reset/new only (where the close function is the last thing the member does)',
    '`pool allocthrow`: the probe constructor throws; the lost block is not observable on the implementation side (no leak detector in the run): the P line carries the counters, the statistics and the later reuse pattern',
]
ASSUMPTIONS = ['fewer than 2^64-1 allocations on one Cabinet (id wrap-around excluded: hypothesis `wrapped = false` of the cabinet theorems; '
               'the bulk theorems carry it as `last_id_ + n <= 2^64-1`); the wrap itself is executed on both sides via `cab jump` and agrees with C08_cab_wrap_counterexample',
               'cell positions fit size_t (a std::vector cannot be larger); token positions/ids beyond 2^16, 2^32, 2^48 need no hypothesis (C08_tok_roundtrip)',
               'ObjectPool::free is only called with live objects of the same pool (API contract)',
               'malloc inside ObjectPool::alloc does not fail (the code asserts and aborts in debug builds, dereferences null with NDEBUG); operator new inside Cabinet::alloc MAY fail (modelled)',
               'fewer than 2^31 copies of one Fd (ref_count is an int; C08_fd_refcount: ref_count = number of handles; 2^31 handle objects need 32 GiB)',
               'descriptor numbers handed to Fd(int) are not closed by anybody else while a handle holds them',
               'ObjectPool::free of a pointer twice / of a foreign pointer is outside the contract and not modelled',
               'a foreach callback that allocates on every invocation is bounded by the initial cell count (code after patches/C08-02)',
               'an exception never leaves a pooled DESTRUCTOR (std::terminate); exceptions of constructors are caught by the caller of alloc()',
               'a close function does not touch the Fd object whose destructor / assignment is running it (it may touch every other handle, and the handle close() was called on)']
RULE = ('op histories over one Cabinet<int> (tokens retained for the whole history and re-queried with `scan`), one ObjectPool<Probe> (probe constructors/destructors run nested alloc/free scripts on the same pool) '
        'with 16 user slots and retention limits {0,1,2,3,5,16,max}, 8 Fd handles on real descriptors dup()ed from a pipe (also invalid numbers and empty close functions), and 4 LifetimeTag + 6 Watcher slots; '
        'bulk histories: n allocations in a row (n around 2^16 and up to 70 000 in quick, 300 000 in thorough) with every token re-queried, subsets freed in both orders, re-allocation over the freed cells; '
        'pools with up to 70 000 objects alive at once beyond any retention limit; Token values built from arbitrary size_t pairs at the boundaries 2^8, 2^16, 2^32, 2^48, 2^56, 2^63, 2^64-1; '
        'non-trivial = the model run queries a stale token whose cell has been reused, or removes during foreach, or reuses a parked '
        'pool block after a release, or closes a descriptor through the last of several copies, or lets watchers outlive their tag / frees a tag record through its last watcher, '
        'or makes a kernel-facing Fd call through a copy after close() on another copy, sets FD_CLOEXEC on a non-blocking descriptor, fails an Open, lets Cabinet::alloc fail with bad_alloc, lets a pooled constructor throw, '
        'carries the id counter across 2^16/2^31/2^32/2^63, uses a retention limit >= 2^31, re-enters the cabinet read-only (nested foreach / size / reserve) from a callback, '
        'lets a pooled constructor throw while nested in other pool calls, lets alloc()/reserve() throw inside a foreach callback, looks up tokens derived from the cabinet state (next token, id counter, previous occupant), runs a re-entrant close function, assigns between handles sharing a record, or holds more than 2^16 cells, or parks beyond the retention limit in a bulk run, or builds a token with a position >= 2^16 / id >= 2^48; distinct = distinct op text')


# ---------------------------------------------------------------------------------- differ
def _first_diff(impl_lines, model_lines, ignore_prefixes=('B ',)):
    """like vlib.first_diff but a property-level difference anywhere in the case wins over an earlier
    model-internal one (both sides print a fixed number of lines per op, so lines stay aligned)"""
    a = [l for l in impl_lines if not l.startswith(ignore_prefixes)]
    b = [l for l in model_lines if not l.startswith(ignore_prefixes)]
    first_m = None
    for k in range(max(len(a), len(b))):
        x = a[k] if k < len(a) else '<missing>'
        y = b[k] if k < len(b) else '<missing>'
        if x != y:
            if not (x.startswith('M ') and y.startswith('M ')):
                return (k, x, y, 'P')
            if first_m is None:
                first_m = (k, x, y, 'M')
    return first_m


def check(tier, seed, replay=None):
    vlib.first_diff = _first_diff
    P = types.SimpleNamespace(**{k: v for k, v in globals().items() if not k.startswith('__') and k != 'check'})
    return vlib.standard_check(P, tier, seed, replay)


def fingerprint(ops, d):
    import hashlib
    kinds = ' '.join(' '.join(o.split()[:2]) for o in ops)
    return hashlib.sha1(kinds.encode()).hexdigest()[:12]


# ---------------------------------------------------------------------------------- generators
class CabGen:
    """keeps a rough picture of which issued tokens are live so that most ops are meaningful"""
    def __init__(self, rng, target):
        self.rng, self.target = rng, target
        self.faults = rng.random() < 0.5      # histories with failing allocations
        self.n = 0            # tokens issued
        self.live = []        # indices believed live
        self.ops = []

    def any_tok(self):
        r = self.rng
        if self.n == 0: return None
        if self.live and r.random() < 0.6: return r.choice(self.live)
        return r.randrange(self.n)          # mostly stale once the history is long

    def alloc(self):
        o = self.rng.choice([0, 1, 2, 999, self.rng.randrange(1000)]) if self.rng.random() < 0.1 else self.rng.randrange(1, 1000)
        self.ops.append('cab alloc %d' % o); self.live.append(self.n); self.n += 1

    def allocfail(self):
        # the token index is consumed either way (a null token when the call failed)
        self.ops.append('cab allocfail %d' % self.rng.randrange(1, 1000)); self.n += 1

    def free(self, i):
        self.ops.append('cab free %d' % i)
        if i in self.live: self.live.remove(i)

    def step(self, scan_p=0.03):
        r = self.rng; x = r.random()
        grow = len(self.live) < self.target
        if self.faults and r.random() < 0.04:
            self.allocfail()
        elif x < (0.42 if grow else 0.22) or self.n == 0:
            self.alloc()
        elif x < 0.60:
            if self.live and r.random() < 0.85:
                # LIFO / FIFO / random removal orders thread the free list differently
                m = r.random()
                i = self.live[-1] if m < 0.3 else self.live[0] if m < 0.5 else r.choice(self.live)
            else:
                i = r.randrange(self.n)
            self.free(i)
        elif x < 0.75:
            self.ops.append('cab at %d' % self.any_tok())
        elif x < 0.80:
            self.ops.append('cab upd %d %d' % (self.any_tok(), r.randrange(1000)))
        elif x < 0.80 + scan_p:
            self.ops.append('cab scan')
        elif x < 0.87:
            self.ops.append('cab size')
        elif x < 0.90:
            # iterate with calls from inside the callback: free the visited entry itself, a later one, an
            # earlier one, a stale one; alloc (reusing a freed cell or growing the vector, possibly
            # past its capacity), update, clear
            k = r.randrange(0, 6); items = []; cleared = False; sure = 0
            had_live = len(self.live) > 0
            mode = r.random(); throws = r.random() < 0.3; abort0 = False
            for _ in range(k):
                inv = r.randrange(0, max(1, min(len(self.live) + 1, 12)))
                y = r.random()
                if throws and r.random() < 0.4:
                    # calls that throw inside the callback: alloc with operator new failing / reserve beyond max_size(),
                    # caught by the callback (x, e) or leaving foreach (X, E: the iteration stops there)
                    a = r.choice(['x%d' % r.randrange(1, 1000), 'x%d' % r.randrange(1, 1000), 'X%d' % r.randrange(1, 1000), 'e', 'E'])
                    items.append('%d:%s' % (inv, a))
                    if inv == 0 and a[0] in 'XE': abort0 = True
                    continue
                if mode < 0.55 or y < 0.5:
                    i = self.any_tok(); items.append('%d:%d' % (inv, i))
                    if i in self.live: self.live.remove(i)   # approximately
                elif y < 0.8:
                    for _ in range(r.choice([1, 1, 2, 9, 40]) if mode > 0.9 else 1):
                        items.append('%d:a%d' % (inv, r.randrange(1, 1000)))
                        if inv == 0 and had_live and not abort0: sure += 1
                elif y < 0.88:
                    items.append('%d:u%d.%d' % (inv, self.any_tok(), r.randrange(1000)))
                elif y < 0.93:
                    # re-entrant calls that leave the entries alone: nested foreach, size()/empty(), reserve (moves the cells)
                    items.append('%d:%s' % (inv, r.choice(['n', 's', 'r%d' % r.choice([0, 1, 64, 5000])])))
                else:
                    items.append('%d:c' % inv); cleared = True
            self.ops.append('cab each %s' % (','.join(items) or '-'))
            if cleared: self.live = []
            # allocs of the first invocation certainly ran (if anything was live): their tokens are
            # appended to the issued list; later invocations may not happen, so those tokens are only
            # reached through `scan` (an index that is not issued yet is answered bad-op by both sides)
            for _ in range(sure):
                if not cleared: self.live.append(self.n)
                self.n += 1
        elif x < 0.915:
            self.ops.append('cab clear'); self.live = []
        elif x < 0.925:
            self.ops.append('cab reserve %d' % r.choice([0, 1, 16, 1000, 99999, 2**32, 2**33, 2**48, 576460752303423487, 576460752303423488, 2**60, 2**63, 2**64 - 1]))
        elif x < 0.94:
            if self.n:
                self.ops.append('cab opd %s %s %d' % (r.choice(['at', 'at', 'free', 'upd']), r.choice(DERIVED), self.any_tok()))
        elif x < 0.95:
            # forged tokens: null id, huge pos, plausible (id,pos)
            self.ops.append('cab atraw %d %d' % (r.choice([0, 1, 2, self.n, self.n + 1, 3999999999]), r.choice([0, 1, 2, len(self.live), 3999999999])))
        else:
            self.alloc()


DERIVED = ['next', 'nextid', 'lastid', 'idm1', 'idp1', 'prev', 'zero', 'posS', 'posS1', 'posmax', 'posF', 'swap']


def gen_derived(rng):
    """lesson (g): after a history with reuse, tokens DERIVED from the cabinet's own state - the next token to be issued, the
    id counter with an old position, the previous occupant of a cell, neighbours of an issued id, positions at / beyond
    the end and at the free-list head - are looked up, updated and freed; everything issued must resolve as before"""
    k = rng.randrange(2, 7)
    ops = ['cab alloc %d' % (i + 1) for i in range(k)]
    n = k
    for _ in range(rng.randrange(0, 5)):
        y = rng.random()
        if y < 0.5: ops.append('cab free %d' % rng.randrange(n))
        elif y < 0.9: ops.append('cab alloc %d' % rng.randrange(1, 1000)); n += 1
        else: ops.append('cab clear')
    ops.append('cab scan')
    for kind in rng.sample(DERIVED, rng.randrange(3, len(DERIVED) + 1)):
        i = rng.randrange(n)
        what = rng.choice(['at', 'at', 'upd', 'free'])
        ops.append('cab opd %s %s %d' % (what, kind, i))
        if rng.random() < 0.4:
            # the derived token again after the state it was derived from moved on
            ops.append(rng.choice(['cab alloc 9', 'cab free %d' % rng.randrange(n), 'cab alloc 8']))
            if ops[-1].startswith('cab alloc'): n += 1
            ops.append('cab opd at %s %d' % (kind, i))
    ops += ['cab scan', 'cab size', 'cab each -']
    return ops


def gen_cab(rng, nops, target=None, scan_p=0.03):
    g = CabGen(rng, target if target is not None else rng.choice([1, 2, 4, 8, 30, 200]))
    for _ in range(nops):
        g.step(scan_p)
    g.ops.append('cab scan'); g.ops.append('cab size'); g.ops.append('cab each -')
    return g.ops


def ptree(rng, live, depth):
    """a random forest of nested pool calls: `A h v … a` / `F h … f` (the part in between is what the
    probe's constructor / destructor does to the same pool)"""
    toks = []
    for _ in range(rng.choice([1, 1, 1, 2, 3])):
        nest = depth < 4 and rng.random() < (0.6 if depth == 0 else 0.35)
        if rng.random() < 0.55:
            free = [x for x in range(16) if x not in live]
            h = rng.choice(free) if free and rng.random() < 0.85 else rng.randrange(16)
            toks += ['A', str(h), str(rng.randrange(1000000))]
            if nest: toks += ptree(rng, live, depth + 1)
            if rng.random() < 0.15: toks.append('t')              # the constructor throws after its nested calls: slot stays empty
            else: toks.append('a'); live.add(h)
        else:
            h = rng.choice(sorted(live)) if live and rng.random() < 0.85 else rng.randrange(16)
            toks += ['F', str(h)]; live.discard(h)
            if nest: toks += ptree(rng, live, depth + 1)
            toks.append('f')
    return toks


KEEP_WIDE = ['2147483647', '2147483648', '4294967295', '4294967296', '4294967297', '9223372036854775808', '18446744073709551614']


def gen_pool_lifo(rng):
    """lesson (g): the block just freed is the head of the chain, i.e. exactly what the next alloc - also one made from inside a
    constructor or destructor, also one whose constructor throws - is handed; block identities are compared (M blk=) while
    the pool never gives blocks back"""
    ops = ['pool new %s' % rng.choice(['max', 'max', '1', '2'])]
    ops += ['pool alloc %d %d' % (i, i + 1) for i in range(rng.randrange(1, 5))]
    live = set(range(len(ops) - 1))
    for _ in range(rng.randrange(4, 14)):
        y = rng.random()
        free = [h for h in range(16) if h not in live]
        if len(free) < 2:
            h = rng.choice(sorted(live)); ops.append('pool free %d' % h); live.discard(h); continue
        if y < 0.25 and live:
            h = rng.choice(sorted(live)); g = rng.choice(free)
            ops.append('pool free %d' % h); ops.append('pool alloc %d %d' % (g, rng.randrange(1000))); live.discard(h); live.add(g)
        elif y < 0.45 and live:
            # the destructor of the object being freed allocates: it must not get the block it is dying in
            h = rng.choice(sorted(live)); g = rng.choice(free)
            t = rng.random() < 0.3
            ops.append('pool x F %d A %d %d %s f' % (h, g, rng.randrange(1000), 't' if t else 'a')); live.discard(h)
            if not t: live.add(g)
        elif y < 0.6 and live:
            # a constructor frees an object and allocates again: the freed block is the head of the chain
            h = rng.choice(sorted(live)); g, g2 = rng.sample(free, 2)
            t = rng.random() < 0.3
            ops.append('pool x A %d 5 F %d f A %d 6 a %s' % (g, h, g2, 't' if t else 'a')); live.discard(h); live.add(g2)
            if not t: live.add(g)
        elif y < 0.75:
            ops.append('pool allocthrow %d %d' % (rng.choice(free), rng.randrange(1000)))
        elif y < 0.9 and live:
            h = rng.choice(sorted(live)); ops.append('pool free %d' % h); live.discard(h)
        else:
            g = rng.choice(free); ops.append('pool alloc %d %d' % (g, rng.randrange(1000))); live.add(g)
    return ops + ['pool stat']


def gen_pool(rng, nops):
    # retention limits on both sides of 2^31 / 2^32 / 2^63: a limit held in a narrower field would park nothing (or everything)
    ops = ['pool new %s' % rng.choice(['0', '1', '2', '3', '5', '16', 'max'] + ([rng.choice(KEEP_WIDE)] if rng.random() < 0.3 else []))]
    live = set()
    for _ in range(nops):
        x = rng.random()
        if rng.random() < 0.35:
            ops.append('pool x ' + ' '.join(ptree(rng, live, 0))); continue
        if x < 0.04:
            # a constructor that throws: the slot stays empty, the block it had taken is gone
            ops.append('pool allocthrow %d %d' % (rng.randrange(16), rng.randrange(1000000)))
        elif x < 0.45:
            h = rng.randrange(16) if rng.random() < 0.8 or len(live) == 16 else rng.choice([s for s in range(16) if s not in live])
            ops.append('pool alloc %d %d' % (h, rng.randrange(1000000))); live.add(h)
        elif x < 0.90:
            h = rng.choice(sorted(live)) if live and rng.random() < 0.85 else rng.randrange(16)
            ops.append('pool free %d' % h); live.discard(h)
        elif x < 0.96:
            ops.append('pool stat')
        elif x < 0.985:
            ops.append('pool new %s' % rng.choice(['0', '1', '2', '3', '5', '16', 'max'])); live = set()
        else:
            # the pool dies while objects are live: no destructor runs, their storage is left alone
            ops.append('pool drop %s' % rng.choice(['0', '1', '2', '3', '5', '16', 'max'])); live = set()
    return ops


IO_ANS = ['0', '1', '7', '8', '99999', 'eintr', 'eagain', 'eio', 'epipe', 'enospc']


def gen_fd(rng, nops):
    ops = []; opened = 0
    nslots = rng.choice([2, 3, 8])
    kernel = rng.random() < 0.7          # also the members that talk to the kernel
    for _ in range(nops):
        a = rng.randrange(nslots); b = rng.randrange(nslots); x = rng.random()
        if kernel and rng.random() < 0.3:
            y = rng.random()
            if y < 0.25: ops.append('fd io %d %s %s' % (a, rng.choice(['read', 'readv', 'write', 'writev']), rng.choice(IO_ANS)))
            elif y < 0.50: ops.append('fd nonblock %d %d' % (a, rng.randrange(2)))
            elif y < 0.65: ops.append('fd isnb %d' % a)
            elif y < 0.83: ops.append('fd cloexec %d' % a)
            elif y < 0.93 and opened < 190:
                k = rng.choice(['ok', 'ok', 'ok', 'enoent', 'emfile']); ops.append('fd fopen %d %s' % (a, k)); opened += k == 'ok'
            else: ops.append('fd closefail %d %s' % (rng.choice([1, 1, 2, 5]), rng.choice(['eintr', 'eio'])))
            continue
        if x < 0.16 and opened < 190:
            if rng.random() < 0.12:
                ops.append('fd openneg %d %d %s' % (a, rng.randrange(3), rng.choice(['fn', 'raw'])))
            else:
                ops.append('fd open %d %s' % (a, rng.choice(['fn', 'fn', 'raw', 'nullfn']))); opened += 1
        elif x < 0.32:
            ops.append('fd cpa %d %d' % (a, b))
        elif x < 0.44:
            ops.append('fd mva %d %d' % (a, b))
        elif x < 0.54 and a != b:
            ops.append('fd cpc %d %d' % (a, b))
        elif x < 0.62 and a != b:
            ops.append('fd mvc %d %d' % (a, b))
        elif x < 0.72:
            ops.append('fd swap %d %d' % (a, b))
        elif x < 0.84:
            ops.append('fd reset %d' % a)
        elif x < 0.93:
            ops.append('fd close %d' % a)
        else:
            ops.append('fd new %d' % a)
    for s in range(nslots):
        ops.append('fd new %d' % s)          # everything is closed by now
    return ops


FD_SIMPLE = ['close.%d', 'reset.%d', 'new.%d', 'open.%d.fn', 'open.%d.raw', 'cloexec.%d', 'isnb.%d', 'nonblock.%d.1', 'io.%d.read.3']
FD_PAIR = ['cpa.%d.%d', 'mva.%d.%d', 'swap.%d.%d', 'cpc.%d.%d', 'mvc.%d.%d']


def fd_tree(rng, nslots, depth, budget):
    """items of an `fd x` program: operations; after close / reset / new a bracket with what the close function does"""
    out = []
    for _ in range(rng.randrange(1, 5)):
        if budget[0] <= 0: break
        budget[0] -= 1
        if rng.random() < 0.3 and depth < 4:
            # a handle with a close function is made and let go at once: its close function certainly runs
            a = rng.randrange(nslots)
            out += ['open.%d.fn' % a] + (['cpa.%d.%d' % ((a + 1) % nslots, a)] if rng.random() < 0.4 and nslots > 1 else []) + \
                   [rng.choice(['close.%d', 'reset.%d', 'new.%d', 'close.%d']) % a, '['] + fd_tree(rng, nslots, depth + 1, budget) + [']']
            continue
        if rng.random() < 0.6:
            it = rng.choice(FD_SIMPLE) % rng.randrange(nslots)
        else:
            a, b = rng.randrange(nslots), rng.randrange(nslots)
            f = rng.choice(FD_PAIR)
            if f[:3] in ('cpc', 'mvc') and a == b: f = 'swap.%d.%d'
            it = f % (a, b)
        out.append(it)
        if it.split('.')[0] in ('close', 'reset', 'new') and depth < 4 and rng.random() < 0.6:
            out += ['['] + fd_tree(rng, nslots, depth + 1, budget) + [']']
    return out


def gen_fd_x(rng, nops):
    """close functions that call back into the handles (re-entrant scripts): close() / reset() / destruction of a handle whose
    close function closes, resets, copies, re-opens ... the same handle and its copies, nested"""
    nslots = rng.choice([2, 3, 4])
    ops = []; opened = 0
    for _ in range(nops):
        if opened < 150 and rng.random() < 0.35:
            a = rng.randrange(nslots); ops.append('fd open %d fn' % a); opened += 1
            for _ in range(rng.randrange(0, 3)):
                b = rng.randrange(nslots)
                if b != a: ops.append('fd %s %d %d' % (rng.choice(['cpc', 'cpa']), b, a))
        budget = [rng.choice([3, 8, 20])]
        t = fd_tree(rng, nslots, 0, budget)
        opened += sum(1 for x in t if x.startswith('open'))
        if opened < 190: ops.append('fd x ' + ' '.join(t))
    return ops + ['fd new %d' % s for s in range(nslots)]


def gen_fd_same(rng):
    """lesson (g): every binary operation between two handles that SHARE one record, then with the record closed through a
    third copy; the descriptor must be closed exactly when the last of them goes"""
    fn = rng.choice(['fn', 'raw', 'nullfn'])
    ops = ['fd open 0 %s' % fn, 'fd cpc 1 0', 'fd cpa 2 0']
    for _ in range(rng.randrange(3, 10)):
        a, b = rng.sample(range(3), 2)
        ops.append('fd %s %d %d' % (rng.choice(['cpa', 'cpa', 'mva', 'swap', 'cpc', 'mvc']), a, b))
        if rng.random() < 0.5:
            # re-establish the sharing from whatever handle still holds the record
            ops += ['fd cpa %d %d' % (x, y) for x in range(3) for y in range(3) if x != y][:rng.randrange(0, 3)]
        if rng.random() < 0.15: ops.append('fd close %d' % rng.randrange(3))
        if rng.random() < 0.2: ops.append('fd %s %d' % (rng.choice(['isnb', 'cloexec']), rng.randrange(3)))
    return ops + ['fd reset 0', 'fd reset 1', 'fd reset 2']


def gen_lt(rng, nops):
    ops = []
    nt = rng.choice([1, 2, 4]); nw = rng.choice([2, 3, 6])
    for _ in range(nops):
        i = rng.randrange(nt); j = rng.randrange(nt); a = rng.randrange(nw); b = rng.randrange(nw); x = rng.random()
        if x < 0.12: ops.append('lt tnew %d' % i)
        elif x < 0.22: ops.append('lt tdel %d' % i)
        elif x < 0.27 and i != j: ops.append('lt %s %d %d' % (rng.choice(['tcpc', 'tmvc']), i, j))
        elif x < 0.30: ops.append('lt %s %d %d' % (rng.choice(['tcpa', 'tmva']), i, j))
        elif x < 0.46: ops.append('lt %s %d %d' % (rng.choice(['wtag', 'wset', 'wget']), a, i))
        elif x < 0.56 and a != b: ops.append('lt wcpc %d %d' % (a, b))
        elif x < 0.64 and a != b: ops.append('lt wmvc %d %d' % (a, b))
        elif x < 0.74: ops.append('lt wcpa %d %d' % (a, b))
        elif x < 0.82: ops.append('lt wmva %d %d' % (a, b))
        elif x < 0.87: ops.append('lt wswap %d %d' % (a, b))
        elif x < 0.94: ops.append('lt wreset %d' % a)
        else: ops.append('lt wnew %d' % a)
    # both destruction orders at the end: tags first or watchers first
    order = [('lt tdel %d' % k) for k in range(nt)], [('lt wnew %d' % k) for k in range(nw)]
    if rng.random() < 0.5: order = order[::-1]
    return ops + order[0] + order[1]


def gen_mixed(rng, nops):
    parts = [gen_cab(rng, nops), gen_pool(rng, nops), gen_fd(rng, nops), gen_lt(rng, nops), gen_fd_x(rng, max(1, nops // 8))]
    out = []
    while any(parts):
        p = rng.choice([q for q in parts if q])
        out.append(p.pop(0))
    return out


# boundary values of size_t members (Token id / pos): every power of two a narrower field would cut at
B64 = sorted(set([0, 1, 2, 3, 255, 256, 257, 2**15, 2**16 - 1, 2**16, 2**16 + 1, 2**24, 2**31, 2**32 - 1, 2**32, 2**32 + 1,
                  2**40, 2**48 - 1, 2**48, 2**48 + 1, 2**56 - 1, 2**56, 2**56 + 1, 2**63 - 1, 2**63, 2**63 + 1, 2**64 - 2, 2**64 - 1]))


def r64(rng):
    x = rng.random()
    if x < 0.7: return rng.choice(B64)
    if x < 0.8: return rng.randrange(2**64)
    b = rng.choice([8, 16, 32, 48, 56, 63, 64])
    return max(0, min(2**64 - 1, 2**b + rng.randrange(-3, 4)))


def gen_tok(rng, nops):
    ops = ['tok def']
    for _ in range(nops):
        x = rng.random()
        if x < 0.4:
            ops.append('tok mk %d %d' % (r64(rng), r64(rng)))
        elif x < 0.75:
            a, b = r64(rng), r64(rng); y = rng.random()
            c, d = (a, b) if y < 0.15 else (a, r64(rng)) if y < 0.45 else (r64(rng), b) if y < 0.6 else (r64(rng), r64(rng))
            ops.append('tok cmp %d %d %d %d' % (a, b, c, d))
        elif x < 0.9:
            k = rng.randrange(0, 12); pool = [(r64(rng), r64(rng)) for _ in range(max(1, k // 2))]
            ops.append('tok set ' + ' '.join('%d %d' % rng.choice(pool) for _ in range(k)))
        else:
            ops.append('tok reset %d %d' % (r64(rng), r64(rng)))
    return ops


def gen_bulk(rng, n, pre=0):
    """n allocations in a row (after `pre` random single ops, so the free list may be non-empty), every token
    re-queried, a subset freed in either order, re-allocation over the freed cells, everything re-queried"""
    g = CabGen(rng, 8)
    for _ in range(pre):
        g.step(0.0)
    ops = [o for o in g.ops if not o.startswith('cab each')]      # (the issued-token count must stay exact)
    t0 = sum(1 for o in ops if o.startswith('cab alloc'))         # (`cab allocfail` issues an index as well)
    o0 = rng.randrange(1000)
    ops += ['cab bulk alloc %d %d' % (n, o0), 'cab size', 'cab bulk at 0 %d' % (t0 + n), 'cab bulk distinct']
    tot = t0 + n
    for _ in range(rng.choice([1, 2, 3])):
        m = rng.choice([1, 2, 3, 7, 1000]); r = rng.randrange(m); frm = rng.choice([0, t0, max(0, tot - n // 2 - 1)])
        cnt = rng.choice([tot - frm, (tot - frm) // 2, min(tot - frm, 70000)])
        ops += ['cab bulk free %d %d %d %d %s' % (frm, cnt, m, r, rng.choice(['up', 'down'])), 'cab bulk at 0 %d' % tot]
        if rng.random() < 0.6:
            k = rng.choice([1, 5, n // 3 + 1, n // 2 + 7])
            ops += ['cab bulk alloc %d %d' % (k, rng.randrange(1000)), 'cab bulk at 0 %d' % (tot + k)]; tot += k
    # single ops on the big cabinet: stale and live tokens on both sides of cell 65536
    for _ in range(12):
        i = rng.choice([0, 1, tot - 1, tot // 2, min(tot - 1, 65535), min(tot - 1, 65536), min(tot - 1, 65537), rng.randrange(tot)]) if tot else 0
        if tot == 0: break
        ops.append(rng.choice(['cab at %d', 'cab free %d', 'cab at %d', 'cab upd %d 77']) % i)
    ops += ['cab alloc 5', 'cab at %d' % tot, 'cab atraw %d %d' % (rng.choice([1, tot, 2**48 + 1]), rng.choice([65536, 65537, 2**32 + 1, 2**64 - 1])),
            'cab bulk distinct', 'cab size']
    if rng.random() < 0.5:
        ops += ['cab clear', 'cab bulk at 0 %d' % (tot + 1), 'cab bulk alloc %d 1' % min(n, 1000), 'cab bulk at 0 %d' % (tot + 1 + min(n, 1000)), 'cab size']
    return ops


JUMP_B = [2**15, 2**16, 2**31, 2**32, 2**48, 2**63]


def gen_jump(rng):
    """the id counter is put just below a width boundary (2^15 .. 2^63: a narrower id field would wrap there) or below
    2^64-1, then allocations carry it across; tokens issued before and after are re-queried.  Only the wrap at 2^64 is
    the stated hypothesis of the theorems - both sides must still agree on it"""
    k = rng.randrange(1, 5)
    ops = ['cab alloc %d' % (i + 1) for i in range(k)] + ['cab free 0']
    if rng.random() < 0.6:
        b = rng.choice(JUMP_B)
        ops += ['cab jump %d' % (b - 1 - rng.randrange(0, 3))]
        n0 = k
        for _ in range(rng.randrange(3, 9)):
            ops.append(rng.choice(['cab alloc 9', 'cab alloc 8', 'cab alloc 7', 'cab free %d' % rng.randrange(k + 3), 'cab at %d' % rng.randrange(k),
                                   'cab scan', 'cab bulk alloc 4 1', 'cab allocfail 3']))
        # forged tokens with the truncated ids: a field narrower than size_t would make them match
        ops += ['cab scan', 'cab bulk distinct', 'cab atraw %d 0' % b, 'cab atraw %d 0' % (b + 1), 'cab atraw 1 0', 'cab atraw 1 1', 'cab atraw 2 1', 'cab atraw %d 1' % (b + 2), 'cab size']
        return ops
    ops += ['cab jump %d' % (2**64 - 1 - rng.randrange(0, 4))]
    for _ in range(rng.randrange(2, 8)):
        ops.append(rng.choice(['cab alloc 9', 'cab alloc 8', 'cab free %d' % rng.randrange(k), 'cab at 0', 'cab scan', 'cab size', 'cab bulk alloc 5 1']))
    return ops + ['cab scan', 'cab bulk distinct', 'cab atraw 1 0', 'cab atraw 18446744073709551615 0', 'cab jump 3']


def gen_pool_bulk(rng, n):
    keep = rng.choice(['0', '1', '16', str(max(0, n - 1)), str(n), str(n + 1), 'max', str(rng.randrange(n + 2))])
    lim = n if keep == 'max' else min(n, int(keep))
    m = rng.choice([0, lim, min(n, lim + 1), n, rng.randrange(n + 1)])
    return ['pool bulk %d %s %d' % (n, keep, m), 'pool stat']


MALFORMED = ['cab', 'cab alloc', 'cab alloc 1000', 'cab alloc x', 'cab at 0', 'cab free 5', 'cab each 0:0', 'cab frob', 'cab atraw 1',
             'pool alloc 16 1', 'pool alloc 0', 'pool free 99', 'pool new -1', 'pool new', 'pool allocthrow 16 1', 'pool allocthrow 0', 'pool allocthrow 0 1000000', 'pool allocthrow 0 5', 'pool new 18446744073709551616', 'pool drop 18446744073709551616', 'pool new 4294967296', 'cab allocfail', 'cab allocfail 1000', 'cab allocfail 5', 'cab each 0:n,0:s,0:r5', 'cab each 0:r', 'cab each 0:r100000', 'cab each 0:nn', 'pool drop', 'pool drop x', 'fd open 8 fn', 'fd open 0 xx', 'fd cpc 1 1',
             'fd mvc 2 2', 'fd swap 0', 'fd close 9', 'frob 1', 'cab alloc 5', 'cab each 0:0,', 'cab each 0:1', 'cab each 0;0', 'cab each 0:0', 'cab each 0:a', 'cab each 0:a1000', 'cab each 0:u0', 'cab each 0:u0.1.2', 'cab each 0:cc', 'cab each 0:u9.1',
             'cab upd 0 1000', 'cab at 00', 'cab at 1', 'cab clear now', 'fd', 'pool', 'lt', 'lt tnew 4', 'lt wnew 6', 'lt wcpc 1 1', 'lt tcpc 0 0', 'lt wtag 0', 'lt frob 0', 'lt wtag 6 0',
             'tok', 'tok mk', 'tok mk 1', 'tok mk 18446744073709551616 0', 'tok mk 0 18446744073709551616', 'tok mk 18446744073709551615 18446744073709551615',
             'tok mk 00000000000000000001 1', 'tok mk 000000000000000000001 1', 'tok mk 1_0 1', 'tok mk -1 1', 'tok cmp 1 2 3', 'tok set 1', 'tok set 1 2 3', 'tok set', 'tok reset 1', 'tok frob',
             'cab atraw 18446744073709551616 0', 'cab atraw 18446744073709551615 18446744073709551615', 'cab jump', 'cab jump 18446744073709551616', 'cab bulk', 'cab bulk alloc 400001 1', 'cab bulk alloc 3 1000',
             'cab bulk at 0 1', 'cab bulk free 0 0 0 0 up', 'cab bulk free 0 0 1 1 up', 'cab bulk free 0 0 1 0 sideways', 'cab bulk free 0 0 1 0 up', 'cab bulk distinct', 'cab bulk distinct 1',
             'pool bulk 3 max 4', 'pool bulk 3 x 1', 'pool bulk 400001 1 1', 'pool bulk 0 0 0', 'fd open 0 nullfn', 'fd io 0 read', 'fd io 0 peek 1', 'fd io 0 read -1', 'fd io 0 read 100000', 'fd io 8 read 1', 'fd nonblock 0 2', 'fd nonblock 0', 'fd isnb 8', 'fd cloexec', 'fd fopen 0 maybe', 'fd fopen 8 ok', 'fd closefail 1 enospc', 'fd closefail 100 eio', 'fd closefail 1 eio', 'fd io 0 read eintr', 'fd openneg 0 3 fn', 'fd openneg 0 0 xx', 'fd openneg 8 0 fn', 'fd openneg 1 2 raw', 'fd new 0', 'fd new 1',
             'cab each 0:x', 'cab each 0:X1000', 'cab each 0:ee', 'cab each 0:x5,0:X6,0:e,0:E', 'cab reserve 18446744073709551616', 'cab reserve 18446744073709551615', 'cab reserve -1', 'cab reserve 100000', 'cab reserve 4294967295', 'cab reserve 4294967296', 'cab opd at next', 'cab opd at bogus 0',
             'cab opd peek next 0', 'cab opd at next 0', 'cab opd at next 1', 'cab opd free prev 0', 'pool x A 0 1 t t', 'pool x t', 'pool x F 0 t', 'pool x A 0 1 t', 'pool x A 0 1 A 1 2 t t', 'fd x', 'fd x [', 'fd x close.0 [', 'fd x cpa.0.1 [ close.0 ]',
             'fd x close.0 ]', 'fd x close..0', 'fd x .close.0', 'fd x close.0.', 'fd x closefail.1.eio', 'fd x close.8', 'fd x close.0 [ [ ] ]', 'fd x open.0.fn close.0 [ ] new.0 [ ]', 'fd x x', 'fd x close.0 [ x ]',
             'cab alloc 1_0', 'cab alloc 000000000000000001', 'cab alloc 00000000000001', 'cab alloc +1', 'pool new 1_0', 'cab at 0_0']


def gen(rng, tier):
    quick = tier == 'quick'
    yield list(MALFORMED)
    # directed: slot reuse with retained tokens; removal of self / later / earlier entry during foreach
    yield ['cab alloc 1', 'cab alloc 2', 'cab alloc 3', 'cab free 1', 'cab free 0', 'cab alloc 4', 'cab alloc 5', 'cab alloc 6',
           'cab scan', 'cab at 1', 'cab upd 0 9', 'cab free 0', 'cab size', 'cab atraw 0 0', 'cab atraw 4 0', 'cab atraw 4 3999999999']
    yield ['cab alloc 1', 'cab alloc 2', 'cab alloc 3', 'cab free 1', 'cab each 0:2,0:0,0:a8,0:a9,1:u2.77,2:a5', 'cab scan',
           'cab each 0:c,0:a5', 'cab scan', 'cab each ' + ','.join('0:a%d' % (10 + i) for i in range(40)), 'cab scan', 'cab each 1:c', 'cab size']
    yield ['cab alloc 1', 'cab alloc 2', 'cab alloc 3', 'cab alloc 4', 'cab each 0:0,1:2,3:1', 'cab scan', 'cab alloc 7', 'cab alloc 8',
           'cab alloc 9', 'cab scan', 'cab each 0:5,0:4,0:6', 'cab size']
    # allocation failures (push_back throws bad_alloc): on an empty cabinet, after growth, with a free cell (no allocation, succeeds),
    # after clear, from a cabinet whose callbacks re-enter; everything issued before must resolve as before
    yield ['cab allocfail 5', 'cab size', 'cab alloc 1', 'cab alloc 2', 'cab allocfail 3', 'cab scan', 'cab size', 'cab free 1', 'cab allocfail 4', 'cab scan', 'cab allocfail 6',
           'cab each 0:a9,0:n,1:r64,1:s', 'cab allocfail 7', 'cab scan', 'cab clear', 'cab allocfail 8', 'cab alloc 9', 'cab scan', 'cab each -', 'cab size']
    # every re-entrant call from inside a foreach callback: alloc (reuse / growth), free self / later / earlier / stale, update, clear,
    # reserve (moves the cells), size(), a nested foreach
    yield ['cab alloc 1', 'cab alloc 2', 'cab alloc 3', 'cab alloc 4', 'cab each 0:n,0:s,0:r5000,1:n,2:r0,3:s', 'cab each 0:r5000,0:a5,0:n,1:1,1:n,2:c,2:n,2:a6,2:s', 'cab scan', 'cab each 0:n', 'cab size',
           'cab each 0:0,0:n,0:a7,0:n,0:u2.9,0:n', 'cab scan']
    # constructors that throw: with an empty chain (malloc), with parked blocks (the head is consumed), on a busy slot, then reuse / re-entrant calls
    yield ['pool new 2', 'pool allocthrow 0 1', 'pool alloc 0 2', 'pool alloc 1 3', 'pool free 0', 'pool free 1', 'pool allocthrow 0 4', 'pool stat', 'pool alloc 0 5', 'pool alloc 1 6',
           'pool alloc 2 7', 'pool allocthrow 1 8', 'pool free 0', 'pool allocthrow 0 9', 'pool allocthrow 0 9', 'pool allocthrow 0 9', 'pool x A 3 1 A 4 2 a a F 3 F 4 f f', 'pool stat', 'pool new 0', 'pool allocthrow 0 1', 'pool stat']
    # retention limits beyond 32 bits
    yield ['pool new 4294967296', 'pool alloc 0 1', 'pool alloc 1 2', 'pool free 0', 'pool free 1', 'pool alloc 2 3', 'pool stat', 'pool new 2147483648', 'pool alloc 0 1', 'pool free 0', 'pool alloc 1 2',
           'pool drop 18446744073709551614', 'pool alloc 0 1', 'pool free 0', 'pool stat', 'pool new 4294967297', 'pool x A 0 1 A 1 2 a a F 0 F 1 f f', 'pool stat']
    # ids carried across 2^16 / 2^31 / 2^32 / 2^63: tokens issued on both sides stay distinct and resolve
    for b in JUMP_B:
        yield ['cab alloc 1', 'cab alloc 2', 'cab jump %d' % (b - 2), 'cab alloc 3', 'cab alloc 4', 'cab alloc 5', 'cab alloc 6', 'cab scan', 'cab free 3', 'cab free 4', 'cab alloc 7', 'cab alloc 8', 'cab scan',
               'cab bulk distinct', 'cab atraw %d 2' % b, 'cab atraw %d 3' % b, 'cab atraw 0 3', 'cab atraw 1 3', 'cab atraw %d 3' % (b + 1), 'cab size']
    # round 5 -- exceptions in nested places
    # alloc()/reserve() throwing inside foreach callbacks: caught there (x, e) or leaving foreach (X, E); with a free cell `x` succeeds
    yield ['cab alloc 1', 'cab alloc 2', 'cab alloc 3', 'cab each 0:x7,0:a9,1:x8,2:e', 'cab scan', 'cab each 0:1,0:x7,1:X8,1:c,2:c', 'cab scan', 'cab size', 'cab each 0:e,1:E,2:c', 'cab scan',
           'cab each 0:E', 'cab each 0:X5', 'cab free 0', 'cab each 0:X5,0:X6', 'cab scan', 'cab each 0:n,0:x5,0:n,0:r5000,0:x6,1:E', 'cab scan', 'cab size', 'cab each -']
    yield ['cab reserve 99999', 'cab reserve 4294967296', 'cab alloc 1', 'cab reserve 576460752303423487', 'cab reserve 576460752303423488', 'cab reserve 9223372036854775808', 'cab reserve 18446744073709551615',
           'cab alloc 2', 'cab scan', 'cab size', 'cab free 0', 'cab reserve 4294967296', 'cab alloc 3', 'cab scan']
    # constructors that throw while nested in other pool calls: caught by the enclosing constructor / destructor, or passed on
    yield ['pool new 2', 'pool x A 0 1 A 1 2 t a', 'pool x A 2 3 A 3 4 t t', 'pool stat', 'pool free 0', 'pool x A 4 5 A 5 6 a A 6 7 t F 5 f t', 'pool stat', 'pool alloc 0 1', 'pool alloc 1 2',
           'pool x F 0 A 7 1 t A 8 2 a f', 'pool x F 1 F 8 A 9 3 t f f', 'pool stat', 'pool new max', 'pool x A 0 1 A 1 2 A 2 3 t t a', 'pool alloc 3 4', 'pool free 0', 'pool x A 4 5 F 3 f A 5 6 t a', 'pool stat']
    # close functions that call back into the handles (patches/C08-06): close() re-entered through a copy, the handle reset / re-opened
    # from inside its own close function, destruction chains
    yield ['fd x open.0.fn cpc.1.0 close.0 [ close.1 close.0 ]', 'fd x new.0 new.1', 'fd x open.0.fn close.0 [ reset.0 close.0 ]', 'fd x open.0.fn cpc.1.0 close.1 [ reset.1 reset.0 open.0.fn close.0 [ new.0 ] ]',
           'fd x open.2.fn reset.2 [ open.2.fn cpa.3.2 ] close.3 [ close.2 new.2 [ ] new.3 ]', 'fd x open.0.fn open.1.fn new.0 [ new.1 [ open.0.fn ] ] close.0 [ mva.0.1 swap.0.1 ]', 'fd new 0', 'fd new 1', 'fd new 2', 'fd new 3']
    yield ['fd open 0 raw', 'fd x close.0 [ open.1.fn ]', 'fd open 0 fn', 'fd close 0', 'fd x close.0 [ open.1.fn ] reset.0 [ open.1.fn ]', 'fd x open.0.fn cpc.1.0 reset.0 [ open.2.fn ] reset.1 [ open.2.fn close.2 [ isnb.2 cloexec.2 io.2.read.3 ] ]',
           'fd new 2']
    yield ['cab clear', 'cab alloc 0', 'cab at 0', 'cab upd 0 0', 'cab upd 0 5', 'cab at 0', 'cab free 0', 'cab free 0', 'cab clear', 'cab size']
    yield ['pool new 1', 'pool alloc 0 10', 'pool alloc 1 11', 'pool free 0', 'pool free 1', 'pool alloc 2 12', 'pool alloc 3 13',
           'pool alloc 3 14', 'pool free 5', 'pool stat', 'pool new 0', 'pool alloc 0 1', 'pool free 0', 'pool alloc 0 2',
           'pool alloc 1 3', 'pool drop 2', 'pool alloc 0 4', 'pool alloc 1 5', 'pool free 0', 'pool free 1', 'pool alloc 2 6', 'pool stat', 'pool drop max']
    # re-entrancy: with parked blocks available, a constructor that allocates a child from the same pool,
    # a destructor that frees the child / another object / allocates
    yield ['pool new 2', 'pool alloc 0 1', 'pool alloc 1 2', 'pool free 0', 'pool free 1', 'pool x A 2 5 A 3 6 a a', 'pool stat',
           'pool x F 2 F 3 f f', 'pool x A 4 7 A 5 8 A 6 9 a a F 5 f a', 'pool x F 4 A 7 1 a F 6 f f', 'pool x A 8 1 A 8 2 a F 8 f a',
           'pool x F 7 F 7 f A 7 3 a f', 'pool stat', 'pool new 0', 'pool x A 0 1 A 1 2 a a F 0 F 1 f f']
    yield ['pool x', 'pool x A', 'pool x A 0', 'pool x A 0 1', 'pool x A 0 1 f', 'pool x F 0 a', 'pool x a', 'pool x A 16 1 a', 'pool x F 16 f',
           'pool x A 0 1 a a', 'pool x A 0 1 a', 'pool x ' + 'A 0 1 ' * 17 + 'a ' * 17, 'pool x ' + 'A 0 1 ' * 16 + 'a ' * 16, 'pool stat']
    yield ['fd open 0 fn', 'fd cpa 1 0', 'fd cpa 1 0', 'fd cpa 0 0', 'fd mva 0 0', 'fd cpc 2 1', 'fd reset 0', 'fd close 1', 'fd close 2',
           'fd reset 1', 'fd reset 2', 'fd open 3 raw', 'fd mvc 4 3', 'fd swap 4 4', 'fd swap 3 4', 'fd mva 3 3', 'fd new 3', 'fd new 4']
    # the kernel-facing members: close() through one copy then every member through the other copies (the number must
    # never reach the kernel again), flags on shared / separate descriptors, setCloseOnExec on a non-blocking descriptor
    # (patches/C08-05), every member on empty / moved-from / failed-Open handles, ::close failing with EINTR / EIO
    yield ['fd open 0 raw', 'fd cpc 1 0', 'fd mvc 2 1', 'fd nonblock 2 1', 'fd isnb 0', 'fd cloexec 0', 'fd isnb 2', 'fd close 0', 'fd isnb 2', 'fd io 2 read 5',
           'fd io 2 write eio', 'fd nonblock 2 0', 'fd nonblock 2 1', 'fd cloexec 2', 'fd open 3 fn', 'fd io 3 readv 3', 'fd io 2 writev 1', 'fd close 2', 'fd new 0', 'fd new 2',
           'fd io 1 read 1', 'fd isnb 1', 'fd nonblock 1 1', 'fd cloexec 1', 'fd io 3 write eagain', 'fd new 3']
    yield ['fd open 0 raw', 'fd open 1 fn', 'fd nonblock 0 1', 'fd nonblock 0 1', 'fd cloexec 0', 'fd cloexec 0', 'fd isnb 0', 'fd isnb 1', 'fd nonblock 1 0', 'fd cloexec 1',
           'fd nonblock 1 1', 'fd isnb 1', 'fd nonblock 0 0', 'fd isnb 0', 'fd isnb 1', 'fd new 0', 'fd new 1']
    yield ['fd fopen 0 ok', 'fd fopen 1 enoent', 'fd fopen 2 emfile', 'fd io 1 read 3', 'fd io 2 writev 3', 'fd isnb 1', 'fd nonblock 1 1', 'fd cloexec 2', 'fd close 1', 'fd reset 2',
           'fd cpa 0 1', 'fd fopen 0 ok', 'fd mva 0 2', 'fd fopen 0 ok', 'fd cpc 3 1', 'fd mvc 4 2', 'fd swap 0 1', 'fd swap 1 2', 'fd io 2 read 0', 'fd fopen 2 enoent', 'fd fopen 0 ok',
           'fd cpc 5 0', 'fd fopen 0 emfile', 'fd io 5 write 8', 'fd new 5', 'fd new 0']
    yield ['fd open 0 raw', 'fd closefail 1 eintr', 'fd close 0', 'fd close 0', 'fd new 0', 'fd open 0 raw', 'fd cpc 1 0', 'fd closefail 2 eio', 'fd reset 0', 'fd reset 1',
           'fd open 2 fn', 'fd closefail 1 eintr', 'fd new 2', 'fd open 3 nullfn', 'fd new 3', 'fd fopen 4 ok', 'fd closefail 5 eintr', 'fd fopen 4 ok', 'fd fopen 4 enoent', 'fd open 5 raw', 'fd mva 5 4', 'fd new 5']
    # LifetimeTag: tag dies first / watchers die first; copies of null watchers; tag copies get their own record
    yield ['lt tnew 0', 'lt wtag 0 0', 'lt wcpc 1 0', 'lt tdel 0', 'lt wreset 0', 'lt wreset 1', 'lt tnew 0', 'lt wset 0 0', 'lt wnew 0', 'lt tdel 0']
    yield ['lt wcpc 1 0', 'lt wcpa 2 3', 'lt wcpa 2 2', 'lt tnew 0', 'lt wget 0 0', 'lt wmvc 1 0', 'lt wcpc 2 0', 'lt wcpa 3 0', 'lt wmva 4 0',
           'lt tcpc 1 0', 'lt tmvc 2 0', 'lt wset 5 1', 'lt tcpa 1 0', 'lt tmva 0 2', 'lt tdel 0', 'lt tdel 1', 'lt wtag 0 3', 'lt tcpc 3 0', 'lt tdel 2']
    # invalid descriptor numbers and empty close functions: never closed / closed with ::close, shared and chained
    yield ['fd openneg 0 0 fn', 'fd cpa 1 0', 'fd mva 2 1', 'fd close 0', 'fd close 2', 'fd swap 0 2', 'fd reset 0', 'fd reset 2', 'fd openneg 3 1 raw', 'fd cpc 4 3',
           'fd close 4', 'fd new 3', 'fd new 4', 'fd open 5 nullfn', 'fd cpa 6 5', 'fd mva 5 5', 'fd swap 6 6', 'fd mva 7 6', 'fd reset 5', 'fd close 7', 'fd close 7', 'fd new 7',
           'fd open 0 nullfn', 'fd cpc 1 0', 'fd new 0', 'fd new 1', 'fd openneg 2 2 fn', 'fd mvc 3 2', 'fd new 3', 'fd new 2']
    # watchers copied / assigned / moved / swapped AFTER their tag died; then re-bound to a new tag
    yield ['lt tnew 0', 'lt wtag 0 0', 'lt tdel 0', 'lt wcpc 1 0', 'lt wcpa 2 0', 'lt wcpa 2 0', 'lt wmvc 3 1', 'lt wmva 4 2', 'lt wswap 0 5', 'lt wswap 5 5', 'lt wcpa 5 5', 'lt wmva 5 5',
           'lt tnew 0', 'lt wset 3 0', 'lt wcpa 4 3', 'lt wcpa 3 5', 'lt wreset 5', 'lt wreset 3', 'lt wreset 4', 'lt tdel 0', 'lt wnew 0', 'lt wnew 1', 'lt wnew 2']
    yield ['lt tnew 1', 'lt wget 0 1', 'lt wcpc 1 0', 'lt tcpc 0 1', 'lt tdel 1', 'lt wcpa 2 1', 'lt wmva 1 0', 'lt wset 0 0', 'lt wcpa 0 2', 'lt tdel 0', 'lt wcpc 3 0', 'lt wreset 0',
           'lt wreset 1', 'lt wreset 2', 'lt wreset 3']
    # tokens: every boundary value as id and as position; order and hash on neighbours of the boundaries
    yield ['tok def'] + ['tok mk %d %d' % (v, v2) for v in B64 for v2 in (0, v)] + ['tok reset %d %d' % (2**64 - 1, 2**64 - 1)]
    yield ['tok mk 1 %d' % v for v in B64] + ['tok mk %d 1' % v for v in B64]
    yield ['tok cmp 1 %d 1 %d' % (B64[i], B64[i + 1]) for i in range(len(B64) - 1)] + ['tok cmp %d 5 %d 5' % (B64[i + 1], B64[i]) for i in range(len(B64) - 1)] + \
          ['tok cmp %d %d %d %d' % (a, 2**64 - 1, a + 1, 0) for a in B64[:-1]] + ['tok cmp 7 %d 7 %d' % (v, v + 256) for v in (0, 255, 65536)] + \
          ['tok cmp %d 1 %d 1' % (v, v + 2**56) for v in (0, 1, 255)]
    yield ['tok set ' + ' '.join('1 %d' % v for v in B64), 'tok set ' + ' '.join('%d 1' % v for v in reversed(B64)),
           'tok set ' + ' '.join('%d %d' % (v, 65536 + (v % 3)) for v in B64) + ' 1 65536 1 0 1 65536', 'tok set 1 0 1 65536 1 131072 1 4294967296 65537 0 1 0']
    # ids at the very end of the range (the cabinet theorems' hypothesis): the wrap as coded, on both sides
    yield ['cab alloc 1', 'cab alloc 2', 'cab free 0', 'cab jump 18446744073709551614', 'cab alloc 3', 'cab alloc 4', 'cab alloc 5', 'cab scan', 'cab at 0',
           'cab free 1', 'cab alloc 6', 'cab scan', 'cab bulk distinct', 'cab atraw 18446744073709551615 0', 'cab atraw 0 0', 'cab jump 1', 'cab size']
    # many live entries: around the 2^16-th cell (a 16-bit position wraps exactly there), then well beyond
    for nb in ([65535, 65536, 65537, 70000] if quick else [65535, 65536, 65537, 70000, 131073, 300000]):
        yield gen_bulk(rng, nb, pre=rng.choice([0, 0, 30]))
    yield ['cab bulk alloc 65536 1', 'cab bulk at 0 65536', 'cab alloc 7', 'cab at 0', 'cab at 65536', 'cab bulk at 0 65537', 'cab free 0', 'cab at 65536', 'cab alloc 8',
           'cab at 65537', 'cab at 65536', 'cab bulk at 0 65538', 'cab bulk distinct', 'cab size', 'cab bulk free 0 65538 1 0 down', 'cab size', 'cab bulk at 0 65538',
           'cab bulk alloc 65538 3', 'cab bulk at 0 131076', 'cab size']
    for nb in ([70000, 1000, 17] if quick else [70000, 300000, 1000, 17, 65537]):
        for _ in range(2):
            yield gen_pool_bulk(rng, nb)
    yield ['pool bulk 0 0 0', 'pool bulk 1 0 1', 'pool bulk 1 1 1', 'pool bulk 2 1 2', 'pool bulk 70000 69999 70000', 'pool bulk 70000 max 70000', 'pool bulk 70000 0 70000']
    n = 4 if quick else 24
    for _ in range(30 * n):
        yield gen_derived(rng)
    for _ in range(25 * n):
        yield gen_pool_lifo(rng)
    for _ in range(30 * n):
        yield gen_fd_x(rng, rng.choice([2, 6, 15]))
    for _ in range(15 * n):
        yield gen_fd_same(rng)
    for _ in range(40 * n):
        yield gen_bulk(rng, rng.choice([0, 1, 2, 5, 40, 300]), pre=rng.choice([0, 10, 60]))
    for _ in range(30 * n):
        yield gen_tok(rng, rng.choice([5, 20, 60]))
    for _ in range(10 * n):
        yield gen_jump(rng)
    for _ in range(10 * n):
        yield gen_pool_bulk(rng, rng.choice([0, 1, 2, 3, 17, 100]))
    for _ in range(120 * n):
        yield gen_cab(rng, rng.choice([10, 30, 80, 200, 400]))
    for _ in range(60 * n):
        yield gen_pool(rng, rng.choice([10, 40, 150]))
    for _ in range(80 * n):
        yield gen_fd(rng, rng.choice([10, 40, 120, 300]))
    for _ in range(60 * n):
        yield gen_lt(rng, rng.choice([8, 30, 100, 300]))
    for _ in range(20 * n):
        yield gen_mixed(rng, rng.choice([20, 100]))
    # long histories: heavy slot reuse, thousands of stale tokens retained and re-queried
    for _ in range(3 if quick else 10):
        yield gen_cab(rng, 4000, target=rng.choice([3, 50]), scan_p=0.004)
    if not quick:
        yield gen_cab(rng, 100000, target=300, scan_p=0.0003)
        # exhaustive small scope: every history of length <= 5 over a small alphabet on a fresh cabinet
        import itertools
        alpha = ['cab alloc 7', 'cab free 0', 'cab free 1', 'cab clear', 'cab each 0:1', 'cab upd 0 3']
        for L in range(1, 6):
            for seq in itertools.product(alpha, repeat=L):
                yield ['cab alloc 1', 'cab alloc 2'] + list(seq) + ['cab scan', 'cab size']
        alpha = ['fd open 0 fn', 'fd cpa 1 0', 'fd mva 0 1', 'fd close 1', 'fd reset 0', 'fd swap 0 1', 'fd cpc 1 0']
        for L in range(1, 6):
            for seq in itertools.product(alpha, repeat=L):
                yield list(seq) + ['fd new 0', 'fd new 1']
        # ... and with the kernel-facing members (length <= 4)
        alpha = ['fd open 0 raw', 'fd cpa 1 0', 'fd mva 0 1', 'fd close 1', 'fd nonblock 0 1', 'fd cloexec 1', 'fd io 0 read 3', 'fd isnb 1', 'fd fopen 1 enoent', 'fd closefail 1 eintr']
        for L in range(1, 5):
            for seq in itertools.product(alpha, repeat=L):
                yield list(seq) + ['fd isnb 0', 'fd new 0', 'fd new 1']
        alpha = ['cab alloc 7', 'cab allocfail 8', 'cab free 0', 'cab free 2', 'cab clear', 'cab each 0:n,0:a3']
        for L in range(1, 6):
            for seq in itertools.product(alpha, repeat=L):
                yield ['cab alloc 1'] + list(seq) + ['cab scan', 'cab size']
        alpha = ['A 0 1', 'A 1 2', 'A 2 3', 'a', 'F 0', 'F 1', 'f']
        def nested_ok(seq):
            st = []
            for t in seq:
                if t[0] in 'AF': st.append(t[0])
                elif not st or st.pop() != t.upper(): return False
            return not st
        for L in range(2, 9, 2):
            for seq in itertools.product(alpha, repeat=L):
                if nested_ok(seq):
                    yield ['pool new %s' % rng.choice(['1', '2', 'max']), 'pool alloc 5 9', 'pool alloc 6 9', 'pool free 5', 'pool free 6',
                           'pool x ' + ' '.join(seq), 'pool stat']
        # ... with constructors that throw (`t` closes an `A`): every well-nested tree of up to 4 calls
        alpha = ['A 0 1', 'A 1 2', 't', 'a', 'F 0', 'f']
        def nested_ok_t(seq):
            st = []
            for t in seq:
                if t[0] in 'AF': st.append(t[0])
                elif not st or st.pop() != ('A' if t in ('a', 't') else 'F'): return False
            return not st
        for L in range(2, 9, 2):
            for seq in itertools.product(alpha, repeat=L):
                if 't' in seq and nested_ok_t(seq):
                    yield ['pool new %s' % rng.choice(['1', '2', 'max']), 'pool alloc 0 9', 'pool alloc 6 9', 'pool free 6',
                           'pool x ' + ' '.join(seq), 'pool stat', 'pool alloc 7 1', 'pool stat']
        # re-entrant close functions: every program of <= 4 items over a small alphabet, every bracketing
        alpha = ['open.0.fn', 'cpa.1.0', 'close.0', 'reset.0', 'new.1', 'close.1', '[', ']']
        def brackets_ok(seq):
            d = 0; prev = None
            for t in seq:
                if t == '[':
                    if prev is None or prev.split('.')[0] not in ('close', 'reset', 'new'): return False
                    d += 1
                elif t == ']':
                    if d == 0: return False
                    d -= 1
                prev = t
            return d == 0
        for L in range(1, 7):
            for seq in itertools.product(alpha, repeat=L):
                if '[' in seq and brackets_ok(seq):
                    yield ['fd open 0 fn', 'fd cpc 1 0', 'fd x ' + ' '.join(seq), 'fd new 0', 'fd new 1']
        alpha = ['lt tnew 0', 'lt tdel 0', 'lt wset 0 0', 'lt wcpa 1 0', 'lt wmva 0 1', 'lt wreset 0', 'lt wcpc 1 0', 'lt tcpc 1 0']
        for L in range(1, 5):
            for seq in itertools.product(alpha, repeat=L):
                yield list(seq) + rng.choice([['lt tdel 0', 'lt tdel 1', 'lt wnew 0', 'lt wnew 1'], ['lt wnew 0', 'lt wnew 1', 'lt tdel 0', 'lt tdel 1']])


KEY_TAGS = ('pool-throw-nested', 'pool-ctor-throw-after-nested', 'each-cb-threw', 'reserve-throws', 'derived-', 'fd-x-callback-ran', 'same-detail', 'pool-ctor-throw', 'allocfail-throw', 'jump-near-2', 'pool-keep>=2^31', 'each-cb-reentrant-read', 'closed-shared', 'cloexec-open-set-on-nonblocking', 'cloexec-open-shared-set-on-nonblocking', 'fopen-fail', 'io-open', 'setnb-open', 'bulk-above-2^16', 'bulk-cross-2^16', 'pool-bulk-over-keep', 'from-dead', 'tok-pos>=2^16', 'tok-pos>=2^32', 'tok-pos>=2^48', 'tok-pos>=2^63', 'tok-id>=2^48', 'tok-id>=2^63', 'jump-near-max', 'openneg', 'pool-ctor-alloc-parked', 'pool-dtor-alloc-parked', 'pool-dtor-free', 'pool-drop-live', 'w-last-frees', 't-outlived-by-watchers', 'tok-stale-reused', 'each-removed', 'each-cb-grew', 'pool-reuse', 'rel-last-closes', 'close-shared')


def nontrivial(ops, model_lines):
    tags = set()
    for l in model_lines:
        if l.startswith('B '):
            tags.update(l[2:].split())
    for t in tags:
        if any(k in t for k in KEY_TAGS):
            return 1
    return None


LEVEL_TEXT = ('Lean 4 theorems over hand-written models of Cabinet (intrusive free list as coded), ObjectPool and Fd: free-list shape, '
              'token lookup = finite map of issued tokens with dead tokens dead for ever (histories including clear), distinct ids, size, '
              'foreach with free/alloc/update/clear from inside callbacks; the Token class (round trip of full size_t id/position, order, hash); closed-form bulk theorems '
              '(n allocations: every token resolves to its own object, ids/positions, size; arbitrary subsets freed) for every n; the Array implementation the driver runs proved equal to the model; '
              'pool blocks never handed out while live (also n objects at once beyond any retention limit, for every n), ctor/dtor balance, statistics, retention limit, '
              'destruction with live objects, constructors that throw - also nested inside other calls, caught or passed on (invariant kept, lost blocks never handed out again in any later state; counterexample theorem for the leak); iterations whose callbacks make throwing calls (caught or leaving foreach), reserve; re-entrant close functions = flat histories (+ counterexample for close() as found before patches/C08-06); the property as one statement (C08_no_dangle_no_alias); Cabinet::alloc failing with bad_alloc in histories (refinement kept, both evaluation orders); '
              'Fd reference counts and close-exactly-once, no system call on a closed descriptor through any copy, Open, read/write wrappers for every kernel answer, fcntl flag semantics of setNonBlock/isNonBlock/setCloseOnExec (+ counterexample for the F_SETFL defect), operations from empty handles; '
              'LifetimeTag/Watcher member by member (copy, move, bind, reset, swap, tag copy/assignment, watchers outliving the tag); LifetimeTag/Watcher: alive iff the tag exists, record deleted '
              'exactly once after tag and last watcher, no access to a deleted record in any destruction order; models tied to the headers and fd.cpp on every run by differential execution (ASan+UBSan build of the working tree)')
LEVEL_NOTE = ('trusted: Lean kernel, hand-written models + differential tie (coverage bounded by the generator, measured in evidence); '
              'real-memory use-after-free is observed by ASan on the implementation side only')
TECHNIQUE = 'Lean 4 invariant/refinement proofs over executable models + model/implementation correspondence check'
DESIGN_REF = 'DESIGN.md §6 C08, §7 row 4'
