// C09 harness: drives the real logging path (LogPrintfFunc -> Dispatch -> sinks) with 1..8 threads and
// prints, per run, the records every in-memory sink received and, when a file sink is disabled, the parsed
// contents of its log directory.  Same op language as lean/Driver/C09.lean (trace acceptor).
//   sink 0 = raw channel registered with LogAddPrintfFunc (unfiltered: the global dispatch order)
//   sink rec  = a tbox::log::Sink subclass (real filter / enable / disable)
//   sink file = a real tbox::log::AsyncFileSink writing under /tmp/C09-<pid>-<n>/ (removed at case end)
// Never prints timestamps or OS thread ids (thread ids are mapped to thread tags).
#include "vh.h"
#include <cerrno>
#include <dlfcn.h>
#include <fcntl.h>
#include <stdarg.h>
#include <dirent.h>
#include <sys/stat.h>
#include <climits>
#include <cwchar>
#include <sys/syscall.h>
#include <signal.h>
#include <unistd.h>
#include <algorithm>
#include <atomic>
#include <condition_variable>
#include <cstring>
#include <deque>
#include <fstream>
#include <map>
#include <memory>
#include <mutex>
#include <thread>
#include <system_error>
#include <tbox/base/log.h>
#include <tbox/base/log_impl.h>
#include <tbox/log/sink.h>
#include <tbox/log/async_file_sink.h>
#include <tbox/log/async_stdout_sink.h>
#include <tbox/log/async_syslog_sink.h>
#include <tbox/log/sync_stdout_sink.h>

// ---- interposition: every system call the sinks make on the objects under test takes its answer from the fault plan of
// the op file (kfault: call index -> short count / errno) and is recorded (K lines); syslog is captured.
//   file sink k : open(O_CREAT) / write / close on files under <base>/s<k>/, mkdir of <base>/s<k>, symlink/unlink of latest.log
//   async stdout: write on fd 1 (the synchronous sink goes through stdio, whose internal writes cannot be interposed)
#include <pthread.h>
#include <poll.h>
namespace ip {
typedef ssize_t (*write_t)(int, const void *, size_t);
static write_t real_write() { static write_t f = (write_t)dlsym(RTLD_NEXT, "write"); return f; }
static std::mutex mx;
static std::vector<uint64_t> plan; static size_t plan_pos = 0; static uint64_t injected = 0;    // legacy `wfault` plan
static std::string log_prefix;                         // only paths starting with this ("<base>/s") are sink objects
struct KPlan { std::map<std::pair<char, uint64_t>, std::string> at; std::map<char, std::pair<uint64_t, std::string>> from; };
static std::map<int, KPlan> kplan;                     // by sink slot
static std::map<int, std::map<char, uint64_t>> kcount;
static std::map<int, std::vector<std::string>> ktrace;
static std::map<int, int> fd2sink; static int fd1_sink = 0;
static std::map<int, std::vector<std::string>> created;   // by sink slot: log files in the order their open(O_CREAT) succeeded
// the back-end thread of the async stdout sink inside poll(): who it is, whether it is in there now, how often it came back
static std::atomic<bool> in_poll(false); static std::atomic<uint64_t> poll_returns(0); static std::atomic<uint64_t> poll_eintr(0);
static pthread_t poll_thread; static std::atomic<bool> poll_thread_known(false);
static const std::pair<const char *, int> ERRS[] = {{"EINTR", EINTR}, {"EAGAIN", EAGAIN}, {"ENOSPC", ENOSPC}, {"EIO", EIO}, {"EFBIG", EFBIG},
    {"EDQUOT", EDQUOT}, {"EPIPE", EPIPE}, {"EMFILE", EMFILE}, {"EACCES", EACCES}, {"EEXIST", EEXIST}, {"EBADF", EBADF}, {"ENOMEM", ENOMEM}, {"EINVAL", EINVAL}};
static int errOf(const std::string &n) { for (auto &e : ERRS) if (n == e.first) return e.second; return 0; }
static std::string errName(int e) { for (auto &x : ERRS) if (x.second == e) return x.first; return "E" + std::to_string(e); }
// the planned answer for the next call of `kind` on sink k ("" = let the kernel answer); caller holds mx
static std::string answer(int k, char kind) {
    auto pit = kplan.find(k); uint64_t idx = kcount[k][kind]++;
    if (pit == kplan.end()) return "";
    auto a = pit->second.at.find({kind, idx}); if (a != pit->second.at.end()) return a->second;
    auto f = pit->second.from.find(kind); if (f != pit->second.from.end() && idx >= f->second.first) return f->second.second;
    return "";
}
static int sinkOfPath(const char *path, std::string *rest = nullptr) {      // "<base>/s<k>[/...]"; caller holds mx
    if (log_prefix.empty() || !path || strncmp(path, log_prefix.c_str(), log_prefix.size()) != 0) return 0;
    const char *p = path + log_prefix.size(); int k = 0, nd = 0;
    while (*p >= '0' && *p <= '9' && nd < 3) { k = k * 10 + (*p - '0'); ++p; ++nd; }
    if (nd == 0 || (*p != '/' && *p != 0)) return 0;
    if (rest) *rest = p;
    return k;
}
static std::vector<std::pair<int, std::string>> sys_msgs;   // (priority, message)
static void sys_add(int pri, const char *fmt, va_list ap) {
    char small[512]; va_list ap2; va_copy(ap2, ap);
    int n = vsnprintf(small, sizeof(small), fmt, ap);
    std::string msg;
    if (n >= (int)sizeof(small)) { std::vector<char> big(n + 1); vsnprintf(big.data(), big.size(), fmt, ap2); msg.assign(big.data(), n); }
    else if (n >= 0) msg.assign(small, n);
    va_end(ap2);
    std::lock_guard<std::mutex> lk(mx); sys_msgs.emplace_back(pri, msg);
}
// self-deadlock probe: mutexes held by this thread; in probe mode a second lock of a held non-recursive mutex throws
struct SelfDeadlock {};
static thread_local pthread_mutex_t *t_held[64];     // trivially destructible: used until the very end of a thread
static thread_local int t_nheld = 0;
static thread_local bool t_probe = false;
}
extern "C" int pthread_mutex_lock(pthread_mutex_t *m) {
    static auto real = (int (*)(pthread_mutex_t *))dlsym(RTLD_NEXT, "pthread_mutex_lock");
    if (ip::t_probe && (m->__data.__kind & 3) == PTHREAD_MUTEX_TIMED_NP)
        for (int i = 0; i < ip::t_nheld; ++i)
            if (ip::t_held[i] == m) return EDEADLK;      // the real call would block for ever on a mutex this thread owns (std::mutex::lock throws system_error)
    int r = real(m);
    if (r == 0 && ip::t_nheld < 64) ip::t_held[ip::t_nheld++] = m;
    return r;
}
extern "C" int pthread_mutex_unlock(pthread_mutex_t *m) {
    static auto real = (int (*)(pthread_mutex_t *))dlsym(RTLD_NEXT, "pthread_mutex_unlock");
    for (int i = ip::t_nheld - 1; i >= 0; --i)
        if (ip::t_held[i] == m) { for (int j = i; j + 1 < ip::t_nheld; ++j) ip::t_held[j] = ip::t_held[j + 1]; --ip::t_nheld; break; }
    return real(m);
}
extern "C" ssize_t write(int fd, const void *buf, size_t count) {
    int k = 0; std::string ans; bool legacy = false;
    if (fd == 1 || fd > 2) {
        std::lock_guard<std::mutex> lk(ip::mx);
        if (!ip::log_prefix.empty()) {
            if (fd == 1) k = ip::fd1_sink; else { auto it = ip::fd2sink.find(fd); if (it != ip::fd2sink.end()) k = it->second; }
        }
        if (k) {
            if (ip::kplan.count(k)) ans = ip::answer(k, 'w');
            else if (fd != 1 && count >= 2 && ip::plan_pos < ip::plan.size()) {
                uint64_t v = ip::plan[ip::plan_pos++]; legacy = true;
                if (v == 99999) ans = "EINTR"; else if (v > 0) ans = std::to_string(std::min<uint64_t>(v, count - 1));
            }
            if (!ans.empty()) ++ip::injected;
        }
    }
    (void)legacy;
    if (!k) return ip::real_write()(fd, buf, count);
    ssize_t r; int e = 0;
    if (ans.empty()) { r = ip::real_write()(fd, buf, count); e = errno; }
    else if (ans == "ZERO") r = 0;
    else if (ans[0] == 'E') { r = -1; e = ip::errOf(ans); }
    else { r = ip::real_write()(fd, buf, std::min<uint64_t>(strtoull(ans.c_str(), nullptr, 10), count)); e = errno; }
    { std::lock_guard<std::mutex> lk(ip::mx);
      ip::ktrace[k].push_back("w " + std::to_string(count) + " " + (r >= 0 ? std::to_string(r) : "-" + ip::errName(e))); }
    errno = e;
    return r;
}
// poll(&{fd 1, POLLOUT}, 1, -1): what AsyncStdoutSink::flush() waits in after EAGAIN.  Planned answers: READY (1, POLLOUT), ZERO (0),
// EINTR / ENOMEM / EINVAL (-1); no plan entry = the kernel answers (fd 1 is a capture file: ready at once; in pipe mode: really waits)
extern "C" int poll(struct pollfd *fds, nfds_t nfds, int timeout) {
    static auto real = (int (*)(struct pollfd *, nfds_t, int))dlsym(RTLD_NEXT, "poll");
    int k = 0; std::string ans;
    if (nfds == 1 && fds && fds[0].fd == 1) {
        std::lock_guard<std::mutex> lk(ip::mx);
        k = ip::log_prefix.empty() ? 0 : ip::fd1_sink;
        if (k) { if (ip::kplan.count(k)) ans = ip::answer(k, 'p'); if (!ans.empty()) ++ip::injected; }
    }
    if (!k) return real(fds, nfds, timeout);
    int r, e = 0;
    if (ans == "READY") { fds[0].revents = POLLOUT; r = 1; }
    else if (ans == "ZERO") { fds[0].revents = 0; r = 0; }
    else if (!ans.empty()) { r = -1; e = ip::errOf(ans); }
    else {
        if (!ip::poll_thread_known) { ip::poll_thread = pthread_self(); ip::poll_thread_known = true; }    // written once per case, published by the atomic flag
        ip::in_poll = true;
        r = real(fds, nfds, timeout); e = errno;
        ip::in_poll = false;
        if (r < 0 && e == EINTR) ++ip::poll_eintr;
        ++ip::poll_returns;
    }
    { std::lock_guard<std::mutex> lk(ip::mx);
      ip::ktrace[k].push_back(std::string("p ") + (r > 0 ? "ready" : r == 0 ? "0" : "-" + ip::errName(e)) + " " + std::to_string(timeout)); }
    errno = e;
    return r;
}
static int open_impl(const char *path, int flags, mode_t mode) {
    static auto real = (int (*)(const char *, int, ...))dlsym(RTLD_NEXT, "open");
    int k = 0; std::string ans;
    if (flags & O_CREAT) { std::lock_guard<std::mutex> lk(ip::mx); k = ip::sinkOfPath(path); if (k) { ans = ip::answer(k, 'o'); if (!ans.empty()) ++ip::injected; } }
    if (!k) return real(path, flags, mode);
    int fd, e = 0;
    if (!ans.empty() && ans[0] == 'E') { fd = -1; e = ip::errOf(ans); } else { fd = real(path, flags, mode); e = errno; }
    { std::lock_guard<std::mutex> lk(ip::mx);
      if (fd >= 0) { ip::fd2sink[fd] = k; ip::created[k].push_back(path); }
      ip::ktrace[k].push_back(std::string("o ") + (fd >= 0 ? "ok" : "-" + ip::errName(e))); }
    errno = e;
    return fd;
}
extern "C" int open(const char *path, int flags, ...) {
    mode_t mode = 0; if (flags & O_CREAT) { va_list ap; va_start(ap, flags); mode = (mode_t)va_arg(ap, int); va_end(ap); }
    return open_impl(path, flags, mode);
}
extern "C" int open64(const char *path, int flags, ...) {
    mode_t mode = 0; if (flags & O_CREAT) { va_list ap; va_start(ap, flags); mode = (mode_t)va_arg(ap, int); va_end(ap); }
    return open_impl(path, flags, mode);
}
extern "C" int close(int fd) {
    static auto real = (int (*)(int))dlsym(RTLD_NEXT, "close");
    int k = 0; std::string ans;
    if (fd > 2) { std::lock_guard<std::mutex> lk(ip::mx); auto it = ip::fd2sink.find(fd);
        if (it != ip::fd2sink.end()) { k = it->second; ip::fd2sink.erase(it); ans = ip::answer(k, 'c'); if (!ans.empty()) ++ip::injected; ip::ktrace[k].push_back("c " + (ans.empty() ? std::string("ok") : "-" + ans)); } }
    int r = real(fd);                      // Linux releases the descriptor whatever close() reports
    if (k && !ans.empty() && ans[0] == 'E') { errno = ip::errOf(ans); return -1; }
    return r;
}
extern "C" int symlink(const char *target, const char *linkpath) {
    static auto real = (int (*)(const char *, const char *))dlsym(RTLD_NEXT, "symlink");
    int k = 0; std::string ans;
    { std::lock_guard<std::mutex> lk(ip::mx); k = ip::sinkOfPath(linkpath); if (k) { ans = ip::answer(k, 'y'); if (!ans.empty()) ++ip::injected; } }
    if (!k) return real(target, linkpath);
    int r, e = 0;
    if (!ans.empty() && ans[0] == 'E') { r = -1; e = ip::errOf(ans); } else { r = real(target, linkpath); e = errno; }
    { std::lock_guard<std::mutex> lk(ip::mx); ip::ktrace[k].push_back(std::string("y ") + (r == 0 ? "ok" : "-" + ip::errName(e))); }
    errno = e;
    return r;
}
extern "C" int mkdir(const char *path, mode_t mode) {
    static auto real = (int (*)(const char *, mode_t))dlsym(RTLD_NEXT, "mkdir");
    int k = 0; std::string ans, rest;
    { std::lock_guard<std::mutex> lk(ip::mx); k = ip::sinkOfPath(path, &rest); if (k && !rest.empty()) k = 0; if (k) { ans = ip::answer(k, 'd'); if (!ans.empty()) ++ip::injected; } }
    if (!k) return real(path, mode);
    int r, e = 0;
    if (!ans.empty() && ans[0] == 'E') { r = -1; e = ip::errOf(ans); } else { r = real(path, mode); e = errno; }
    { std::lock_guard<std::mutex> lk(ip::mx); ip::ktrace[k].push_back(std::string("d ") + (r == 0 ? "ok" : "-" + ip::errName(e))); }
    errno = e;
    return r;
}
extern "C" void syslog(int pri, const char *fmt, ...) { va_list ap; va_start(ap, fmt); ip::sys_add(pri, fmt, ap); va_end(ap); }
extern "C" void __syslog_chk(int pri, int, const char *fmt, ...) { va_list ap; va_start(ap, fmt); ip::sys_add(pri, fmt, ap); va_end(ap); }
extern "C" void vsyslog(int pri, const char *fmt, va_list ap) { ip::sys_add(pri, fmt, ap); }
extern "C" void __vsyslog_chk(int pri, int, const char *fmt, va_list ap) { ip::sys_add(pri, fmt, ap); }

// protocol output: fd 1 belongs to the stdout sinks (redirected to a capture file); the protocol goes to the saved fd
static int g_real_out = 1;
static std::ostringstream OUT;
static void flushOut() {
    std::string d = OUT.str(); OUT.str(""); OUT.clear();
    size_t p = 0; while (p < d.size()) { ssize_t n = ip::real_write()(g_real_out, d.data() + p, d.size() - p); if (n <= 0) break; p += n; }
}

namespace {

struct RecLine { long tid; int level; std::string mod, func, file; int line; uint32_t len, ck; bool trunc; };

uint32_t fnv(const char *p, size_t n) {
    uint32_t h = 2166136261u;
    for (size_t i = 0; i < n; ++i) { h ^= (uint8_t)p[i]; h *= 16777619u; }
    return h;
}
std::string genText(uint64_t len, uint64_t seed) {
    std::string s(len, ' ');
    for (uint64_t i = 0; i < len; ++i) s[i] = (char)(48 + ((seed + i * 7 + (i / 64) * 13 + (i * i % 11)) % 75));
    return s;
}
RecLine capture(const LogContent *c) {
    RecLine r;
    r.tid = c->thread_id; r.level = c->level;
    r.mod = c->module_id ? c->module_id : "<null>";
    r.func = c->func_name ? c->func_name : "-";
    r.file = c->file_name ? c->file_name : "-";
    r.line = c->line; r.len = c->text_len;
    r.ck = fnv(c->text_ptr, c->text_len);     // reads exactly text_len bytes: ASan sees a short buffer
    r.trunc = c->text_trunc;
    return r;
}

struct RecSink : public tbox::log::Sink {
    std::vector<RecLine> got;
    void onLogFrontEnd(const LogContent *c) override { got.push_back(capture(c)); }
};

struct SinkSlot {
    bool is_file = false;
    std::unique_ptr<RecSink> rec;
    std::unique_ptr<tbox::log::AsyncFileSink> file;
    std::unique_ptr<tbox::log::Sink> other;       // SyncStdoutSink / AsyncStdoutSink / AsyncSyslogSink
    std::string kind;                             // rec file sout aout syslog
    std::string dir;
    bool enabled = true, dirty = false;
    bool pipe = false;                            // aout: fd 1 is the write end of a small non-blocking pipe
    bool reconf = false; std::vector<std::string> dirs; int ndir = 0; std::string prefix = "p";   // file: setFilePath/Prefix/SyncEnable called while in use
    tbox::log::Sink *base() { return other ? other.get() : is_file ? (tbox::log::Sink *)file.get() : (tbox::log::Sink *)rec.get(); }
    bool fd1() const { return kind == "sout" || kind == "aout"; }
};

const char *MARKER_TEXTS[4] = {"(TRUNCATED)", "x (TRUNCATED)", "x(TRUNCATED)", "(TRUNCATED) (TRUNCATED)"};
struct Msg { int t; int level; const char *mod, *func, *file; int line; char kind; uint64_t len, seed; };

// ---- per-case state
std::vector<RecLine> g_raw;                 // sink 0
uint32_t g_raw_id = 0;
std::vector<SinkSlot> g_sinks;
std::deque<std::string> g_pool;             // interned strings: pointers travel through the async pipe
std::map<long, int> g_tag;                  // OS tid -> thread tag
std::vector<std::thread> g_threads;
std::mutex g_mx; std::condition_variable g_cv;
bool g_case_end = false; int g_go = 0; int g_done = 0;
int g_run = 0; int g_case_no = 0; std::string g_base; std::string g_cap_path; uint64_t g_max = 100 << 10;

void rawSink(const LogContent *c, void *) { g_raw.push_back(capture(c)); }

const char *intern(const std::string &s) { g_pool.push_back(s); return g_pool.back().c_str(); }

void rmrf(const std::string &p) {
    DIR *d = opendir(p.c_str());
    if (d) {
        while (dirent *e = readdir(d)) {
            std::string n = e->d_name; if (n == "." || n == "..") continue;
            std::string q = p + "/" + n; struct stat st;
            if (lstat(q.c_str(), &st) == 0 && S_ISDIR(st.st_mode)) rmrf(q); else unlink(q.c_str());
        }
        closedir(d);
    }
    rmdir(p.c_str());
}

// ---- pipe mode of the async stdout sink: fd 1 = write end of a non-blocking pipe that nobody reads until `off`
int g_pipe_rd = -1; std::thread g_pipe_reader; std::string g_pipe_data; bool g_pipe_on = false, g_pipe_draining = false;
void onSigUsr1(int) {}
bool pipeBegin(uint64_t size) {
    int fds[2]; if (pipe(fds) != 0) return false;
    if (fcntl(fds[1], F_SETPIPE_SZ, (int)size) < 0) {}
    fcntl(fds[1], F_SETFL, fcntl(fds[1], F_GETFL) | O_NONBLOCK);
    fflush(stdout); dup2(fds[1], 1); close(fds[1]);
    g_pipe_rd = fds[0]; g_pipe_on = true; g_pipe_draining = false; g_pipe_data.clear();
    return true;
}
void pipeDrain() {
    if (!g_pipe_on || g_pipe_draining) return;
    g_pipe_draining = true;
    g_pipe_reader = std::thread([] {
        sigset_t set; sigemptyset(&set); sigaddset(&set, SIGUSR1); pthread_sigmask(SIG_BLOCK, &set, nullptr);
        char buf[4096];
        for (;;) { ssize_t n = read(g_pipe_rd, buf, sizeof(buf)); if (n > 0) g_pipe_data.append(buf, (size_t)n); else if (n == 0 || errno != EINTR) break; }
    });
}
void pipeEnd() {        // fd 1 back to the capture file (closes the last write end: EOF for the reader); what the pipe carried is appended to it
    if (!g_pipe_on) return;
    pipeDrain();
    int cfd = open(g_cap_path.c_str(), O_WRONLY | O_APPEND);
    if (cfd >= 0) { dup2(cfd, 1); close(cfd); }
    g_pipe_reader.join(); close(g_pipe_rd); g_pipe_rd = -1; g_pipe_on = false; g_pipe_draining = false;
    size_t p = 0; while (p < g_pipe_data.size()) { ssize_t n = ip::real_write()(1, g_pipe_data.data() + p, g_pipe_data.size() - p); if (n <= 0) break; p += (size_t)n; }
    g_pipe_data.clear();
}

void endCase() {
    pipeDrain();
    for (auto &s : g_sinks) { if (s.base()) s.base()->disable(); }
    pipeEnd();
    g_sinks.clear();
    if (g_raw_id) { LogRemovePrintfFunc(g_raw_id); g_raw_id = 0; }
    { std::lock_guard<std::mutex> lk(g_mx); g_case_end = true; } g_cv.notify_all();
    for (auto &t : g_threads) t.join();
    g_threads.clear(); g_case_end = false; g_go = 0; g_done = 0; g_run = 0;
    g_raw.clear(); g_tag.clear(); g_pool.clear();
    if (!g_base.empty()) { rmrf(g_base); g_base.clear(); }
    LogSetMaxLength(100 << 10); g_max = 100 << 10;
    fflush(stdout);
    if (g_real_out != 1) { if (ftruncate(1, 0) != 0) {} lseek(1, 0, SEEK_SET); }
    std::lock_guard<std::mutex> lk(ip::mx);
    ip::plan.clear(); ip::plan_pos = 0; ip::injected = 0; ip::sys_msgs.clear(); ip::log_prefix.clear();
    ip::kplan.clear(); ip::kcount.clear(); ip::ktrace.clear(); ip::fd2sink.clear(); ip::fd1_sink = 0; ip::created.clear();
    ip::in_poll = false; ip::poll_thread_known = false;
}
void beginCase() {
    endCase();
    ++g_case_no;
    g_base = "/tmp/C09-" + std::to_string(getpid()) + "-" + std::to_string(g_case_no);
    mkdir(g_base.c_str(), 0700);
    { std::lock_guard<std::mutex> lk(ip::mx); ip::log_prefix = g_base + "/s"; }
    g_raw_id = LogAddPrintfFunc(rawSink, nullptr);
}

void worker(int run, int tag, std::vector<Msg> msgs, unsigned pace_us) {
    long tid = syscall(SYS_gettid);
    {
        std::unique_lock<std::mutex> lk(g_mx);
        g_tag[tid] = tag; ++g_done; g_cv.notify_all();
        g_cv.wait(lk, [run] { return g_go > run; });
    }
    for (const Msg &m : msgs) {
        if (pace_us) usleep(pace_us * (20 + (m.seed * 37 + m.line) % 160) / 100);     // 0.2 .. 1.8 x pace: lets the pipe's timed flush fire
        if (m.kind == 'n') { LogPrintfFunc(m.mod, m.func, m.file, m.line, m.level, 1, nullptr); continue; }
        // width family: the formatted length is a printf field width (no memory needed): 'w' = len bytes (blanks, then '7');
        // 'o' = INT_MAX + len bytes: vsnprintf fails with EOVERFLOW; 'e' = a wide character the "C" locale cannot encode: EILSEQ
        if (m.kind == 'w') { LogPrintfFunc(m.mod, m.func, m.file, m.line, m.level, 1, "%*d", (int)std::max<uint64_t>(m.len, 1), 7); continue; }
        if (m.kind == 'o') { LogPrintfFunc(m.mod, m.func, m.file, m.line, m.level, 1, "%*d%*d", INT_MAX, 7, (int)std::max<uint64_t>(m.len, 1), 7); continue; }
        if (m.kind == 'e') { LogPrintfFunc(m.mod, m.func, m.file, m.line, m.level, 1, "ab%lcde", (wint_t)0x20AC); continue; }
        // 'm': a text that ends like the truncation marker (the record format cannot tell "text (TRUNCATED)" from a truncated "text")
        std::string body = m.kind == 'm' ? std::string(MARKER_TEXTS[m.len % 4]) : genText(m.len, m.seed);
        if (m.kind == 'p' || m.kind == 'm') LogPrintfFunc(m.mod, m.func, m.file, m.line, m.level, 1, "%s", body.c_str());
        else if (m.kind == 'f') LogPrintfFunc(m.mod, m.func, m.file, m.line, m.level, 1, "%d|%s", (int)m.seed, body.c_str());
        else LogPrintfFunc(m.mod, m.func, m.file, m.line, m.level, 0, body.c_str());
    }
    {
        std::unique_lock<std::mutex> lk(g_mx);
        ++g_done; g_cv.notify_all();
        g_cv.wait(lk, [] { return g_case_end; });
    }
}

bool nameOk(const std::string &s, bool path) {
    if (s.empty() || s.size() > 64) return false;
    if (path && s.back() == '/') return false;
    for (char c : s) if (!(isalnum((unsigned char)c) || c == '_' || c == '.' || (path && c == '/'))) return false;
    return true;
}
// a name token: plain (nameOk) or `stem~N` = the stem extended to exactly N characters with its last character (N <= 1200)
bool expandName(const std::string &tok, bool path, std::string &out) {
    size_t t = tok.find('~');
    if (t == std::string::npos) { out = tok; return nameOk(tok, path); }
    std::string stem = tok.substr(0, t), num = tok.substr(t + 1); uint64_t n;
    if (!nameOk(stem, path) || num.empty() || num.size() > 4 || !vh::to_u64(num, n) || n < stem.size() || n > 1200) return false;
    out = stem + std::string((size_t)n - stem.size(), stem.back());
    return true;
}
bool parseMsg(const std::string &w, int T, Msg &m) {
    std::vector<std::string> f; std::string cur;
    for (char c : w) { if (c == ':') { f.push_back(cur); cur.clear(); } else cur.push_back(c); }
    f.push_back(cur);
    if (f.size() != 9) return false;
    uint64_t t, len, seed; int64_t lv, ln;
    if (!vh::to_u64(f[0], t) || !vh::to_i64(f[1], lv) || !vh::to_i64(f[5], ln) || !vh::to_u64(f[7], len) || !vh::to_u64(f[8], seed)) return false;
    if (f[0].size() > 9 || f[1].size() > 9 || f[5].size() > 11 || f[7].size() > 10 || f[8].size() > 9) return false;
    if (f[6].size() != 1 || !strchr("psnfwoem", f[6][0])) return false;
    if (f[7].size() > 10 || t >= (uint64_t)T || len > (f[6][0] == 'w' ? 2147483647u : 200000u) || seed > 1000000 || std::llabs(ln) > 1000000000 || std::llabs(lv) > 1000) return false;
    std::string n2, n3, n4;
    if (f[2] != "-" && !expandName(f[2], false, n2)) return false;
    if (f[3] != "-" && !expandName(f[3], false, n3)) return false;
    if (f[4] != "-" && !expandName(f[4], true, n4)) return false;
    m.t = (int)t; m.level = (int)lv; m.line = (int)ln; m.kind = f[6][0]; m.len = len; m.seed = seed;
    m.mod = f[2] == "-" ? nullptr : intern(n2);
    m.func = f[3] == "-" ? nullptr : intern(n3);
    m.file = f[4] == "-" ? nullptr : intern(n4);
    return true;
}

std::string fields(const RecLine &r) {
    std::ostringstream o;
    o << r.mod << ' ' << r.func << ' ' << r.file << ' ' << r.line << ' ' << r.len << ' ' << r.ck << ' ' << (r.trunc ? 1 : 0);
    return o.str();
}
int tagOf(long tid) { auto it = g_tag.find(tid); return it == g_tag.end() ? 999999 : it->second; }

bool tsOk(const std::string &s) {   // "YYYY-mm-dd HH:MM:SS.uuuuuu"
    static const char *pat = "dddd-dd-dd dd:dd:dd.dddddd";
    if (s.size() != 26) return false;
    for (int i = 0; i < 26; ++i) { if (pat[i] == 'd' ? !isdigit((unsigned char)s[i]) : s[i] != pat[i]) return false; }
    return true;
}

// parse one rendered line (without '\n'); false = damaged
bool parseLine(const std::string &l0, int &tag, std::string &out, std::string &masked, long &adj) {
    // optional colour bracket  ESC[<code>m ... ESC[0m
    std::string l = l0, colour = "-", pre, post;
    if (l.size() >= 2 && l[0] == 27 && l[1] == '[') {
        size_t m = l.find('m');
        if (m == std::string::npos || m > 12) return false;
        colour = l.substr(2, m - 2); pre = l.substr(0, m + 1);
        if (l.size() < m + 1 + 4 || l.compare(l.size() - 4, 4, "\033[0m") != 0) return false;
        post = "\033[0m";
        l = l.substr(m + 1, l.size() - (m + 1) - 4);
        if (colour.empty()) return false;
    }
    if (l.size() < 31 || l[1] != ' ' || l[28] != ' ') return false;
    char lvl = l[0];
    std::string ts = l.substr(2, 26);
    size_t p = 29, q = l.find(' ', p);
    if (q == std::string::npos || q == p) return false;
    std::string tids = l.substr(p, q - p);
    for (char c : tids) if (!isdigit((unsigned char)c)) return false;
    if (tids.size() > 12) return false;
    tag = tagOf(atol(tids.c_str()));
    if (tag == 999999) return false;
    p = q + 1; q = l.find(' ', p);
    if (q == std::string::npos || q == p) return false;
    std::string mod = l.substr(p, q - p);
    p = q + 1;
    std::string func = "-";
    q = l.find(' ', p);
    if (q != std::string::npos && q >= p + 2 && l.compare(q - 2, 2, "()") == 0) { func = l.substr(p, q - 2 - p); p = q + 1; }
    std::string rest = l.substr(p), file = "-", line = "0";
    size_t d = rest.rfind("-- ");
    std::string mid = rest;
    if (d != std::string::npos) {
        std::string fl = rest.substr(d + 3); mid = rest.substr(0, d);
        size_t c = fl.rfind(':'); if (c == std::string::npos) return false;
        file = fl.substr(0, c); line = fl.substr(c + 1);
        if (file.empty() || line.empty()) return false;
    }
    bool trunc = false;
    const std::string mk = "(TRUNCATED) ";
    if (mid.size() >= mk.size() && mid.compare(mid.size() - mk.size(), mk.size(), mk) == 0 && (mid.size() == mk.size() || mid[mid.size() - mk.size() - 1] == ' ')) {
        trunc = true; mid.resize(mid.size() - mk.size());
    }
    std::string text;
    if (!mid.empty()) { if (mid.back() != ' ') return false; text = mid.substr(0, mid.size() - 1); if (text.empty()) return false; }
    std::ostringstream o;
    o << tag << ' ' << lvl << ' ' << mod << ' ' << func << ' ' << file << ' ' << line << ' ' << text.size() << ' '
      << fnv(text.data(), text.size()) << ' ' << (trunc ? 1 : 0) << ' ' << (tsOk(ts) ? 1 : 0) << " c=" << colour;
    out = o.str();
    masked.clear();
    adj += (long)std::to_string(tag).size() - (long)tids.size();
    {
        std::string m = pre + l.substr(0, 2) + std::string(26, 'T') + " " + std::to_string(tag) + l.substr(29 + tids.size()) + post + "\n";
        if (m.size() <= 200) masked = vh::hex(m);
    }
    return true;
}

void emitListing(int k, const std::vector<std::string> &files) {
    { std::lock_guard<std::mutex> lk(ip::mx); for (auto &e : ip::ktrace[k]) OUT << "K " << k << ' ' << e << "\n"; ip::ktrace[k].clear(); }
    for (size_t i = 0; i < files.size(); ++i) {
        const std::string &data = files[i];
        // size as on disk, and size with every OS thread id replaced by its thread tag (what the model renders)
        long adj = (long)data.size();
        std::ostringstream body;
        size_t p = 0;
        while (p < data.size()) {
            size_t q = data.find('\n', p);
            if (q == std::string::npos) { body << "X " << k << ' ' << i << " partial " << vh::hex(data.substr(p, 60)) << "\n"; break; }
            std::string l = data.substr(p, q - p), out, masked; int tag;
            if (!parseLine(l, tag, out, masked, adj)) body << "X " << k << ' ' << i << " damaged " << vh::hex(l.substr(0, 80)) << "\n";
            else {
                body << "L " << k << ' ' << i << ' ' << out << "\n";
                if (!masked.empty()) body << "W " << k << ' ' << i << ' ' << masked << "\n";
            }
            p = q + 1;
        }
        OUT << "F " << k << ' ' << i << ' ' << data.size() << ' ' << adj << "\n" << body.str();
    }
    { std::lock_guard<std::mutex> lk(ip::mx); OUT << "I " << ip::injected << "\n"; }
    OUT << "P off " << k << " files=" << files.size() << "\n";
}

std::string slurp(const std::string &path) {
    std::ifstream f(path, std::ios::binary);
    return std::string((std::istreambuf_iterator<char>(f)), std::istreambuf_iterator<char>());
}

void listFiles(int k, SinkSlot &s) {
    struct Ent { std::string ts; long n; std::string path; };
    std::vector<Ent> ents;
    for (const std::string &dir : s.dirs) {
    DIR *d = opendir(dir.c_str());
    if (d) {
        while (dirent *e = readdir(d)) {
            std::string n = e->d_name; if (n == "." || n == "..") continue;
            std::string q = dir + "/" + n; struct stat st;
            if (lstat(q.c_str(), &st) != 0 || !S_ISREG(st.st_mode)) continue;     // skips the latest.log symlink and sub-directories
            // p.<YYYYmmdd_HHMMSS>.<pid>.log[.N]
            std::vector<std::string> parts; std::string cur;
            for (char c : n) { if (c == '.') { parts.push_back(cur); cur.clear(); } else cur.push_back(c); }
            parts.push_back(cur);
            long idx = 0;
            if (parts.size() == 5) idx = atol(parts[4].c_str());
            ents.push_back({parts.size() > 1 ? parts[1] : "", idx, q});
        }
        closedir(d);
    }
    }
    std::sort(ents.begin(), ents.end(), [](const Ent &a, const Ent &b) { return a.ts != b.ts ? a.ts < b.ts : a.n < b.n; });
    std::vector<std::string> files;
    if (s.reconf) {
        // path / prefix changed while in use: names of different directories / prefixes do not sort by creation; take the order in which
        // open(O_CREAT) succeeded (every file found must have been created exactly once, otherwise fall back to the name order)
        std::vector<std::string> cr; { std::lock_guard<std::mutex> lk(ip::mx); cr = ip::created[k]; }
        std::vector<std::string> a = cr, b; for (auto &e : ents) b.push_back(e.path);
        std::sort(a.begin(), a.end()); std::sort(b.begin(), b.end());
        if (a == b && std::adjacent_find(a.begin(), a.end()) == a.end()) { for (auto &q : cr) files.push_back(slurp(q)); emitListing(k, files); return; }
    }
    for (auto &e : ents) files.push_back(slurp(e.path));
    emitListing(k, files);
}

// stdout sinks: everything written to fd 1 since the case began; syslog sink: one line per syslog() call
void listStream(int k, SinkSlot &s) {
    std::vector<std::string> files;
    if (s.kind == "syslog") {
        std::string data; bool bad = false;
        { std::lock_guard<std::mutex> lk(ip::mx);
          for (auto &m : ip::sys_msgs) { if (m.first != 6 /* LOG_INFO */) bad = true; data += m.second; data += '\n'; } }
        if (bad) data += "wrong-priority";      // shows up as a partial / damaged line
        if (!data.empty()) files.push_back(data);
    } else {
        fflush(stdout);
        std::string data = slurp(g_cap_path);
        if (!data.empty()) files.push_back(data);
    }
    emitListing(k, files);
}

bool slotOf(const std::string &w, size_t &k) {
    uint64_t v; if (w.size() > 6 || !vh::to_u64(w, v) || v == 0 || v > g_sinks.size()) return false; k = v; return true;
}

}  // namespace

int main() {
    std::string line;
    // fd 1 is what the stdout sinks write to: point it at a capture file, keep the real stdout for the protocol
    { struct sigaction sa; memset(&sa, 0, sizeof(sa)); sa.sa_handler = onSigUsr1; sa.sa_flags = SA_RESTART; sigaction(SIGUSR1, &sa, nullptr); }   // poll() is not restarted anyway
    g_real_out = dup(1);
    g_cap_path = "/tmp/C09-" + std::to_string(getpid()) + "-cap";
    { int cfd = open(g_cap_path.c_str(), O_CREAT | O_TRUNC | O_WRONLY | O_APPEND, 0600);
      if (cfd < 0 || g_real_out < 0) { fprintf(stderr, "cannot redirect stdout\n"); return 2; }
      dup2(cfd, 1); close(cfd); }
    beginCase();
    while (std::getline(std::cin, line)) {
        auto w = vh::words(line);
        if (w.empty()) continue;
        if (w[0] == "case") { beginCase(); OUT << line << "\n"; flushOut(); continue; }
        const std::string &op = w[0];
        uint64_t n = 0; size_t k = 0; int64_t lv = 0;
        if (op == "max" && w.size() == 2 && w[1].size() <= 9 && vh::to_u64(w[1], n) && n <= 200000) {
            LogSetMaxLength(n); g_max = n; OUT << "P max\n";
        } else if (op == "sink" && w.size() == 2 && w[1] == "rec") {
            SinkSlot s; s.kind = "rec"; s.rec.reset(new RecSink); s.rec->enable();
            g_sinks.push_back(std::move(s));
            OUT << "P sink " << g_sinks.size() << " rec\n";
        } else if (op == "sink" && w.size() == 7 && w[1] == "file") {
            uint64_t v[5]; bool ok = true;
            for (int i = 0; i < 5; ++i) ok = ok && w[2 + i].size() <= 9 && vh::to_u64(w[2 + i], v[i]);
            if (!ok || v[1] == 0 || v[2] == 0 || v[2] > v[3] || v[4] == 0 || v[1] > 1000000 || v[3] > 64 || v[4] > 1000 || g_sinks.size() >= 6) {
                OUT << "bad-op\n";
            } else {
                SinkSlot s; s.kind = "file"; s.is_file = true; s.file.reset(new tbox::log::AsyncFileSink);
                tbox::log::AsyncSink::Config cfg; cfg.buff_size = v[1]; cfg.buff_min_num = v[2]; cfg.buff_max_num = v[3]; cfg.interval = v[4];
                s.dir = g_base + "/s" + std::to_string(g_sinks.size() + 1); s.dirs.push_back(s.dir);
                s.file->setConfig(cfg); s.file->setFilePath(s.dir); s.file->setFilePrefix("p"); s.file->setFileMaxSize(v[0]);
                s.file->enable();
                g_sinks.push_back(std::move(s));
                OUT << "P sink " << g_sinks.size() << " file\n";
            }
        } else if (op == "sink" && w.size() >= 2 && (w[1] == "sout" || w[1] == "aout" || w[1] == "aoutp" || w[1] == "syslog")) {
            // aoutp <pipe cfg> <bytes>: the async stdout sink with fd 1 = a non-blocking pipe of <bytes> capacity that nobody reads until `off`
            uint64_t v[4] = {1, 1, 1, 1}, psz = 0; bool ok = (w[1] == "sout") ? w.size() == 2 : w.size() == (w[1] == "aoutp" ? 7u : 6u);
            if (ok && w[1] != "sout") for (int i = 0; i < 4; ++i) ok = ok && w[2 + i].size() <= 9 && vh::to_u64(w[2 + i], v[i]);
            if (ok && w[1] == "aoutp") ok = w[6].size() <= 6 && vh::to_u64(w[6], psz) && psz >= 4096 && psz <= 65536 && v[0] * v[2] >= 100000;   // nobody reads fd 1 until `off`: the async pipe must hold everything
            bool fd1 = w[1] != "syslog", has_fd1 = false;
            for (auto &x : g_sinks) has_fd1 = has_fd1 || x.fd1();
            if (!ok || v[0] == 0 || v[1] == 0 || v[1] > v[2] || v[3] == 0 || v[0] > 1000000 || v[2] > 64 || v[3] > 1000 || g_sinks.size() >= 6 || (fd1 && has_fd1)) {
                OUT << "bad-op\n";
            } else {
                SinkSlot s; s.kind = w[1];
                tbox::log::AsyncSink::Config cfg; cfg.buff_size = v[0]; cfg.buff_min_num = v[1]; cfg.buff_max_num = v[2]; cfg.interval = v[3];
                if (w[1] == "sout") s.other.reset(new tbox::log::SyncStdoutSink);
                else if (w[1] == "aout" || w[1] == "aoutp") { auto *p = new tbox::log::AsyncStdoutSink; p->setConfig(cfg); s.other.reset(p); s.kind = "aout"; s.pipe = w[1] == "aoutp"; }
                else { auto *p = new tbox::log::AsyncSyslogSink; p->setConfig(cfg); s.other.reset(p); }
                if (s.kind == "aout") { std::lock_guard<std::mutex> lk(ip::mx); ip::fd1_sink = (int)g_sinks.size() + 1; }
                if (s.pipe) pipeBegin(psz);
                s.other->enable();
                g_sinks.push_back(std::move(s));
                OUT << "P sink " << g_sinks.size() << ' ' << w[1] << "\n";
            }
        } else if (op == "color" && w.size() == 3 && slotOf(w[1], k) && (w[2] == "0" || w[2] == "1") && !(g_sinks[k - 1].enabled && g_sinks[k - 1].dirty)) {
            g_sinks[k - 1].base()->enableColor(w[2] == "1"); OUT << "P color\n";
        } else if (op == "wfault" && w.size() >= 2 && w.size() <= 65) {
            std::vector<uint64_t> pl; bool ok = true;
            for (size_t i = 1; i < w.size() && ok; ++i) { uint64_t v; ok = w[i].size() <= 6 && vh::to_u64(w[i], v); if (ok) pl.push_back(v); }
            if (!ok) OUT << "bad-op\n";
            else { std::lock_guard<std::mutex> lk(ip::mx); ip::plan = pl; ip::plan_pos = 0; OUT << "P wfault\n"; }
        } else if (op == "kfault" && w.size() >= 3 && w.size() <= 66 && slotOf(w[1], k) && (g_sinks[k - 1].kind == "file" || g_sinks[k - 1].kind == "aout")) {
            // kfault <k> <c><idx>=<answer> ...: the answer of the idx-th (0-based, counted from now) call of kind c on sink k:
            //   w write, o open, c close, y symlink, d mkdir; an upper-case kind letter = that call and every later one;
            //   answer = byte count (short write, clamped to what was asked) | ZERO | EINTR EAGAIN ENOSPC EIO EFBIG EDQUOT EPIPE EMFILE EACCES EEXIST EBADF
            ip::KPlan pl; bool ok = true;
            for (size_t i = 2; i < w.size() && ok; ++i) {
                const std::string &e = w[i]; size_t eq = e.find('=');
                ok = eq != std::string::npos && eq >= 2 && eq <= 5 && strchr("wocydpWOCYDP", e[0]) != nullptr;
                uint64_t idx = 0; std::string a = ok ? e.substr(eq + 1) : "";
                ok = ok && vh::to_u64(e.substr(1, eq - 1), idx) && !a.empty() && a.size() <= 7;
                char kind = ok ? (char)tolower(e[0]) : 'w';
                bool num = ok && isdigit((unsigned char)a[0]);
                if (ok && num) { uint64_t v; ok = vh::to_u64(a, v) && v >= 1 && kind == 'w'; }
                else if (ok) ok = (a == "ZERO" && (kind == 'w' || kind == 'p')) || (a == "READY" && kind == 'p') || ip::errOf(a) != 0;
                if (ok) { if (isupper((unsigned char)e[0])) pl.from[kind] = {idx, a}; else pl.at[{kind, idx}] = a; }
            }
            if (!ok) OUT << "bad-op\n";
            else { std::lock_guard<std::mutex> lk(ip::mx); ip::kplan[(int)k] = pl; ip::kcount[(int)k].clear(); OUT << "P kfault\n"; }
        } else if (op == "sig" && w.size() == 3 && slotOf(w[1], k) && g_sinks[k - 1].pipe && g_sinks[k - 1].enabled && g_pipe_on && !g_pipe_draining
                   && w[2].size() <= 2 && vh::to_u64(w[2], n) && n >= 1 && n <= 20) {
            // n times: wait until the sink's back-end thread sits in the real poll() on the full pipe, then deliver a HANDLED SIGUSR1 to that thread
            // (best effort: what happened is in the K lines; no observable depends on how many polls were interrupted)
            for (uint64_t i = 0; i < n; ++i) {
                int waited = 0;
                while (!ip::in_poll && waited < 5000) { usleep(1000); ++waited; }
                if (!ip::in_poll || !ip::poll_thread_known) break;
                usleep(3000);                                   // let it really block inside the kernel
                uint64_t r0 = ip::poll_returns;
                if (!ip::in_poll) continue;
                pthread_kill(ip::poll_thread, SIGUSR1);
                for (waited = 0; ip::poll_returns == r0 && waited < 2000; ++waited) usleep(1000);
            }
            OUT << "P sig\n";
        } else if (op == "fcfg" && w.size() == 4 && slotOf(w[1], k) && g_sinks[k - 1].is_file
                   && ((w[2] == "path" && (w[3] == "same" || w[3] == "new")) || (w[2] == "prefix" && (w[3] == "same" || w[3] == "new"))
                       || (w[2] == "sync" && (w[3] == "0" || w[3] == "1")) || (w[2] == "max" && w[3].size() <= 9 && vh::to_u64(w[3], n)))) {
            // reconfiguration of a file sink that is in use (call it at a quiescent point: after `settle` - the back end is idle, a tail may be cached); `same` = the value it already has
            SinkSlot &sl = g_sinks[k - 1];
            if (w[2] == "max") {
                { std::lock_guard<std::mutex> lk(ip::mx); ip::ktrace[(int)k].push_back("setmax " + std::to_string(n)); }
                sl.file->setFileMaxSize(n);
            } else {
                { std::lock_guard<std::mutex> lk(ip::mx); ip::ktrace[(int)k].push_back("reopen"); }
                sl.reconf = true;
                if (w[2] == "path") {
                    if (w[3] == "new") { sl.dir = sl.dirs[0] + "/n" + std::to_string(++sl.ndir); sl.dirs.push_back(sl.dir); }
                    sl.file->setFilePath(sl.dir);
                } else if (w[2] == "prefix") { if (w[3] == "new") sl.prefix = sl.prefix == "p" ? "q" : "p"; sl.file->setFilePrefix(sl.prefix); }
                else sl.file->setFileSyncEnable(w[3] == "1");
            }
            OUT << "P fcfg\n";
        } else if (op == "settle" && w.size() == 2 && w[1].size() <= 3 && vh::to_u64(w[1], n) && n >= 1 && n <= 200) {
            usleep((useconds_t)n * 1000);      // lets the back ends drain their pipes: what follows happens after those flushes (no observable depends on it)
            OUT << "P settle\n";
        } else if (op == "reent" && w.size() == 1 && g_sinks.empty()) {
            // a channel function that logs from inside Dispatch(): the nested call locks the dispatch mutex its own thread holds
            static std::string result;
            struct L { static void fn(const LogContent *c, void *) {
                if (strcmp(c->module_id, "reent") != 0) return;
                ip::t_probe = true;
                try { LogPrintfFunc("inner", "f", "x.cpp", 1, 5, 1, "%s", "nested"); result = "returned"; }
                catch (std::system_error &e) { result = e.code().value() == EDEADLK ? "deadlock" : "error"; }
                ip::t_probe = false;
            } };
            result = "not-called";
            uint32_t id = LogAddPrintfFunc(L::fn, nullptr);
            LogPrintfFunc("reent", "f", "x.cpp", 1, 5, 1, "%s", "outer");
            LogRemovePrintfFunc(id);
            g_raw.clear();
            OUT << "M reent " << result << "\n";
        } else if (op == "lvl" && w.size() == 4 && slotOf(w[1], k) && w[3].size() <= 9 && vh::to_i64(w[3], lv) && (w[2] == "*" || nameOk(w[2], false))) {
            if (w[2] == "*") g_sinks[k - 1].base()->setLevel((int)lv); else g_sinks[k - 1].base()->setLevel(w[2], (int)lv);
            OUT << "P lvl\n";
        } else if (op == "unset" && w.size() == 3 && slotOf(w[1], k) && nameOk(w[2], false)) {
            g_sinks[k - 1].base()->unsetLevel(w[2]); OUT << "P unset\n";
        } else if (op == "on" && w.size() == 2 && slotOf(w[1], k)) {
            bool r = g_sinks[k - 1].base()->enable(); g_sinks[k - 1].enabled = true; OUT << "P on " << k << ' ' << (r ? 1 : 0) << "\n";
        } else if (op == "off" && w.size() == 2 && slotOf(w[1], k)) {
            { std::lock_guard<std::mutex> lk(ip::mx); ip::ktrace[(int)k].push_back("off-begin"); }
            if (g_sinks[k - 1].pipe) pipeDrain();          // somebody finally reads the pipe
            g_sinks[k - 1].base()->disable(); g_sinks[k - 1].enabled = false; g_sinks[k - 1].dirty = false;
            if (g_sinks[k - 1].pipe) { pipeEnd(); g_sinks[k - 1].pipe = false; }   // a later `on` writes to the capture file
            // everything logged before disable() must be on disk / on fd 1 / handed to syslog NOW
            if (g_sinks[k - 1].is_file) listFiles((int)k, g_sinks[k - 1]);
            else if (g_sinks[k - 1].other) listStream((int)k, g_sinks[k - 1]);
            else OUT << "P off " << k << "\n";
        } else if ((op == "run" || op == "runc" || op == "runp") && w.size() >= 2 && w[1].size() <= 2 && vh::to_u64(w[1], n) && n >= 1 && n <= 8) {
            // runc <T> <A> <action>*A <spec>*: the main thread reconfigures sinks WHILE the threads log
            struct CAct { char type; size_t k; std::string mod; int lv; uint64_t n; };
            std::vector<CAct> acts; bool ok = true; size_t first = 2; uint64_t nA = 0, pace = 0;
            if (op == "runp") { ok = w.size() >= 3 && w[2].size() <= 4 && vh::to_u64(w[2], pace) && pace >= 1 && pace <= 5000; first = 3; }
            if (op == "runc") {
                ok = w.size() >= 3 && w[2].size() <= 2 && vh::to_u64(w[2], nA) && nA <= 16 && w.size() >= 3 + nA;
                first = 3 + nA;
                for (size_t i = 3; ok && i < 3 + nA; ++i) {
                    std::vector<std::string> f; std::string cur;
                    for (char c : w[i]) { if (c == ',') { f.push_back(cur); cur.clear(); } else cur.push_back(c); }
                    f.push_back(cur);
                    CAct a{}; int64_t lv; size_t kk;
                    if (f.size() == 4 && f[0] == "lvl" && slotOf(f[1], kk) && (f[2] == "*" || nameOk(f[2], false)) && f[3].size() <= 9 && vh::to_i64(f[3], lv) && std::llabs(lv) <= 1000) {
                        a.type = f[2] == "*" ? 'd' : 'l'; a.k = kk; a.mod = f[2]; a.lv = (int)lv;
                    } else if (f.size() == 3 && f[0] == "unset" && slotOf(f[1], kk) && nameOk(f[2], false)) {
                        a.type = 'u'; a.k = kk; a.mod = f[2];
                    } else if (f.size() == 2 && f[0] == "max" && f[1].size() <= 9 && vh::to_u64(f[1], a.n) && a.n == g_max) {
                        a.type = 'm';
                    } else ok = false;
                    if (ok) acts.push_back(a);
                }
            }
            ok = ok && w.size() - first <= 400;
            int T = (int)n; std::vector<std::vector<Msg>> per(T);
            for (size_t i = first; i < w.size() && ok; ++i) { Msg m; ok = parseMsg(w[i], T, m); if (ok) per[m.t].push_back(m); }
            if (!ok) { OUT << "bad-op\n"; flushOut(); continue; }
            int run = g_run++;
            for (auto &s : g_sinks) { if (s.rec) s.rec->got.clear(); if (s.enabled) s.dirty = true; }
            g_raw.clear();
            { std::lock_guard<std::mutex> lk(g_mx); g_done = 0; }
            for (int t = 0; t < T; ++t) g_threads.emplace_back(worker, run, run * 8 + t, per[t], (unsigned)pace);
            {
                std::unique_lock<std::mutex> lk(g_mx);
                g_cv.wait(lk, [T] { return g_done == T; });       // all registered
                g_done = 0; g_go = run + 1; g_cv.notify_all();
            }
            for (auto &a : acts) {                                 // concurrent with the logging threads
                usleep(60);
                tbox::log::Sink *sk = a.type == 'm' ? nullptr : g_sinks[a.k - 1].base();
                if (a.type == 'd') sk->setLevel(a.lv);
                else if (a.type == 'l') sk->setLevel(a.mod, a.lv);
                else if (a.type == 'u') sk->unsetLevel(a.mod);
                else LogSetMaxLength(a.n);
            }
            {
                std::unique_lock<std::mutex> lk(g_mx);
                g_cv.wait(lk, [T] { return g_done == T; });       // all finished logging
            }
            for (auto &r : g_raw) OUT << "R 0 " << tagOf(r.tid) << ' ' << r.level << ' ' << fields(r) << "\n";
            for (size_t i = 0; i < g_sinks.size(); ++i)
                if (g_sinks[i].rec)
                    for (auto &r : g_sinks[i].rec->got) OUT << "R " << (i + 1) << ' ' << tagOf(r.tid) << ' ' << r.level << ' ' << fields(r) << "\n";
            OUT << "P run " << g_raw.size() << "\n";
        } else {
            OUT << "bad-op\n";
        }
        flushOut();
    }
    endCase();
    unlink(g_cap_path.c_str());
    return 0;
}
