"""C09 — logging delivers each record once, whole and in order, to each enabled sink."""
import glob, hashlib, os, re, shutil, types
import vlib

ID = 'C09'
LEAN_MODULES = ['TboxModel.C09.Props']
EXE = 'c09'
MODE = 'trace'
THEOREMS = ['Tbox.C09.' + t for t in [
    'C09_truncate', 'C09_truncate_puts', 'C09_max_change_counterexample', 'C09_text_refines_spec', 'C09_order_is_interleaving', 'C09_files_refine_spec', 'C09_filter', 'C09_filter_table',
    'C09_contiguous', 'C09_per_thread_order', 'C09_stream_is_frames', 'C09_unlocked_counterexample',
    'C09_reframe', 'C09_reframe_prefix', 'C09_reframe_fuel', 'C09_async_end_to_end',
    'C09_render_fields', 'C09_render_marker', 'C09_render_marker_counterexample',
    'C09_tables', 'C09_render', 'C09_render_sync', 'C09_render_syslog', 'C09_render_marker_all',
    'C09_flushW_refines_flush', 'C09_file_write_faults', 'C09_file_partial_write_counterexample',
    'C09_file_whole_records', 'C09_file_rollover', 'C09_disable_flushes',
    'C09_flushK_refines_flush', 'C09_file_whole_records_faults', 'C09_file_faults_on_disk', 'C09_file_fault_recovery',
    'C09_disable_retry_counterexample', 'C09_file_midbatch_rollover_counterexample', 'C09_file_persistent_open_failure', 'C09_flushK_len',
    'C09_stdout_faults', 'C09_stdout_faults_write_only', 'C09_stdout_short_write_counterexample', 'C09_stdout_poll_break_counterexample',
    'C09_piece_whole', 'C09_render_pieces', 'C09_piece_overread_counterexample',
    'C09_file_reopen_whole_records', 'C09_file_reopen_on_disk', 'C09_file_reopen_deferred', 'C09_file_reconf_tail_counterexample', 'C09_file_setmax', 'C09_flushR_len',
    'C09_truncate_width', 'C09_vsnprintf_negative_counterexample', 'C09_puts_width', 'C09_reentrant_sink_deadlocks']]
SOURCES = ['modules/log/sink.cpp', 'modules/log/async_sink.cpp', 'modules/log/async_file_sink.cpp',
           'modules/log/async_stdout_sink.cpp', 'modules/log/async_syslog_sink.cpp', 'modules/log/sync_stdout_sink.cpp',
           'modules/util/async_pipe.cpp', 'modules/util/buffer.cpp', 'modules/util/fs.cpp',
           'modules/util/string.cpp'] + vlib.BASE_SOURCES
FLAVOUR = 'asan'
LIBS = ['-ldl']
BATCH = 40
BATCH_TIMEOUT = 240
CASE_TIMEOUT = 60
SHRINK_TESTS = 40
TRUSTED = ['model lean/TboxModel/C09/Model.lean hand-written from log_impl.cpp, sink.cpp, async_sink.cpp, async_file_sink.cpp; the tie is the '
           'trace acceptor lean/Driver/C09.lean: the expected record of every call is computed with the model (formatText/putsText/clampLevel/'
           'filter/render), the real global dispatch order (unfiltered channel) must be an interleaving of the per-thread sequences, every '
           'sink must show exactly the filtered global order, the log directory must hold exactly the rendered records, whole, in order',
           'the async pipe is used through its contract (property C10): delivered bytes = concatenation of appends, cut into arbitrary chunks; '
           'cleanup() delivers everything appended before it',
           'std::mutex gives atomic critical sections (the interleaving model has one atomic step per pipe append); vsnprintf returns the '
           'formatted length and stores size-1 bytes; write() is complete; log file names sort by creation (second resolution + numeric suffix)',
           'level letters and colour codes are regenerated from log_impl.cpp by pre_lean on every run (lean/TboxModel/C09/GenTables.lean); '
           'C09_tables re-checks them (letters as documented, one well-formed SGR code per level)',
           'harness interposition: fd 1 redirected to a capture file for the stdout sinks, syslog()/vsyslog() captured; every system call the sinks make on '
           'the objects under test - open(O_CREAT)/write/close on the log files, mkdir of the log directory, symlink of latest.log, write on fd 1 by the '
           'async stdout sink - takes its answer from the fault plan of the op file (kfault: call index -> short count | ZERO | EINTR | EAGAIN | ENOSPC EIO '
           'EFBIG EDQUOT EPIPE EMFILE EACCES EEXIST, transient or persistent) and is recorded (K lines); the acceptor replays the recorded calls through '
           'flushKLen (= length image of flushK, C09_flushK_len) with the kernel answers as the oracle (model-internal class: a divergence there alone is '
           'reported as no-failing-input-found); SyncStdoutSink goes through stdio, whose internal write calls cannot be interposed (trusted)',
           'poll(fd 1, POLLOUT) - the wait of the async stdout sink after EAGAIN - is interposed as well: its answer comes from the fault plan (p<idx> = READY | ZERO | EINTR | '
           'ENOMEM | EINVAL) or from the kernel, and is recorded (K lines: every EAGAIN must be followed by exactly one poll, model-internal class); in pipe mode (sink aoutp) '
           'fd 1 is the write end of a real non-blocking pipe of 4-64 KiB that nobody reads until off: write() really returns short counts and EAGAIN, the back-end '
           'thread really waits in poll(), and `sig` delivers a handled SIGUSR1 to exactly that thread with pthread_kill (poll fails with EINTR: recorded); a reader thread '
           'drains the pipe when off begins.  No P line depends on how many polls were interrupted or on any timing',
           'file sinks reconfigured while in use (fcfg: setFilePath / setFilePrefix / setFileSyncEnable / setFileMaxSize, to the same or a new value) are called at quiescent '
           'points (after settle: the back-end thread is idle - but a tail may be cached after a write error, and then the close is deferred, patches/C09-09); files of several directories / prefixes are listed in the order in which their open(O_CREAT) succeeded (recorded by the interposer)',
           'pthread_mutex_lock/unlock are interposed only to detect a re-lock of a held non-recursive mutex inside the re-entrancy probe (EDEADLK instead of blocking for ever)',
           'data-race freedom itself is not exhibited by the model: it is searched with ThreadSanitizer in the thorough tier (1-8 threads logging while '
           'the main thread enables/disables/reconfigures sinks, also concurrently: runc)']
ASSUMPTIONS = ['names of any length are delivered whole after patches/C09-08 (C09_piece_whole; as found a piece of 1024 bytes or more was read beyond the 1 KiB stack buffer: '
               'C09_piece_overread_counterexample); names up to 1200 characters are driven',
               'module/function/file strings outlive the asynchronous back end (the pipe carries the pointers, not the characters)',
               'puts-path strings < 2^32 bytes (C09_puts_width: strlen narrows to uint32 before the comparison; a 4 GiB string is not driven); the formatted text + 1 '
               'fits the thread stack (char buffer[buff_size] is a VLA); limits <= SIZE_MAX; enableColor() is called only while the sink has no record in flight '
               '(enable_color_ is an unsynchronised bool)',
               'what the kernel refuses for ever cannot be on disk: it is retained in memory without bound (C09_file_whole_records_faults); close() failing is ignored '
               'by the code (data the kernel drops at close is outside the model); a hard error on fd 1 drops the rest of that batch (C09_stdout_faults); '
               'syslog and stdio writes are complete; the log directory is not modified by others; setFilePath/Prefix/SyncEnable may be called at ANY quiescent moment, also while a tail is cached after a write '
               'error (patches/C09-09 defers the close: C09_file_reopen_whole_records, corpus/C09/12-*.ops; as found the record was split: C09_file_reconf_tail_counterexample), but not concurrently '
               'with a flush (fd_, cache_ and need_reopen_ are unsynchronised); a text that ends in "(TRUNCATED)" is indistinguishable from a truncated text in the rendered line (the format has no escape)',
               'EINTR: write(fd_) and write(1) retry it (tied, interposed and, for fd 1, with a real signal); poll() after EAGAIN: its result is ignored, the loop retries (tied both ways); '
               'open()/mkdir()/symlink()/unlink() of the log file: EINTR is treated like any other failure - the cache is kept and the next flush() tries again (tied: kfault o/d/y = EINTR-class errors); '
               'close(): result ignored, never retried (correct on Linux: the descriptor is released whatever close() reports; tied: c = EINTR / EIO); no fsync/fdatasync call exists '
               '(O_DSYNC at open when file sync is enabled); syslog() returns void (glibc retries its send internally): captured, assumed complete; the timed wait of the async pipe is property C10',
               'channel functions registered with LogAddPrintfFunc do not log themselves (C09_reentrant_sink_deadlocks: they would block for ever on the plain std::mutex; '
               'the library sinks never log under the lock) - user callbacks are not in the quantifier of the statement',
               'AsyncFileSink::cleanup() has not been called before a later enable (it zeroes pid_ and every later flush returns early)']
RULE = ('cases = sink set-ups (0-2 in-memory sinks through the public Sink API with filter tables, 0-2 real AsyncFileSinks with file limits 1 B .. 1 MiB '
        'and pipe buffers 1 B .. 10 KiB, SyncStdoutSink / AsyncStdoutSink / AsyncSyslogSink, colour on and off, short-write plans for the log files, kernel fault schedules (kfault: short count then hard error then recovery swept over every write index at '
        'limits from below one record up, failing open/mkdir at roll-over, persistent refusal, EINTR runs, failing close/symlink, fd-1 short/EINTR/EAGAIN/EPIPE, poll after EAGAIN answered '
        'ready / EINTR x k / ENOMEM / EINVAL / 0 at every write index), REAL signals (fd 1 a full non-blocking pipe, SIGUSR1 with a handler delivered to the back-end thread while it waits in poll), '
        'module / function / file names that make a rendered piece 1023 / 1024 / 1025 bytes and names of 1023 .. 1200 characters, state-derived inputs (file sink setters to the SAME value while a '
        'file is open, enable twice, setLevel to the current level, records equal to the previous record, texts equal to the truncation marker), width family '
        '(limits and lengths around 2^16, printf field widths up to INT_MAX and beyond, %lc encoding failure), a re-entrant channel function) + 1-3 runs of 1-8 logging threads (message lengths 0..max+5, around 2047/2048/2049 and around max, '
        'max in {0,10,2048,102400,...}, printf/puts/null-format calls, levels -3..10) + reconfiguration between and DURING runs (runc), disable/enable; non-trivial = a run with >= 2 '
        'active threads AND (a truncation, a filter drop, or a file sink holding records); distinct = distinct op text')
LEVEL_TEXT = ('Lean 4 theorems over a model of the logging path: truncation loop (all lengths, all maxima), filter table, contiguity/per-thread order/'
              'exactly-once of dispatch under the global lock for every schedule (with the unlocked counterexample), re-framing of the pipe stream for '
              'EVERY chunking and every header layout, rendering of every sink (file, sync/async stdout, syslog; colour on/off; tables regenerated from the source), '
              'file rollover with whole records, flush on disable, no loss/duplication/split for EVERY kernel fault schedule (short counts, EINTR, hard errors, failing open; '
              'retained tail, retry on disable), the stdout sink under every fd-1 fault schedule INCLUDING every answer of poll() after EAGAIN (EINTR from a signal is retried), the 1 KiB '
              'pieces for names of every length, reconfiguration of a file sink in use at ANY moment (whole records also with a cached tail: deferred close, need_reopen_), the width-carrying format loop (int/size_t/uint32), re-entrant channel deadlock; tied to the real code on every '
              'run by a trace acceptor over multi-threaded runs against in-memory sinks, a real AsyncFileSink directory, captured fd 1 and captured syslog(); '
              'ThreadSanitizer pass in the thorough tier')
LEVEL_NOTE = ('trusted: Lean kernel, hand-written model + trace-acceptor tie (coverage bounded by the generator, measured), async pipe by contract (C10), '
              'std::mutex atomicity; C++ data-race freedom is searched with ThreadSanitizer (thorough), not proved; timestamps not modelled; '
              'enableColor() concurrent with logging is outside the tie')
TECHNIQUE = 'Lean 4 proofs (induction over schedules, chunkings, batches) over an executable model + trace-acceptor correspondence with the real sinks'
DESIGN_REF = 'DESIGN.md §6 C09'

MODS = ['a', 'b', 'net', 'm_1', 'core.x']
FUNCS = ['f', 'run', 'onEvent_2', '-']
FILES = ['x.cpp', 'src/dir/y.cpp', '/abs/p/z.h', 'noslash', '-']


def lens_for(rng, mx, tier, small_only):
    r = rng.random()
    if small_only:
        return rng.choice([0, 1, 2, 5, 17, 40])
    if r < 0.35:
        return rng.randrange(0, 90)
    if r < 0.55:
        return rng.choice([2045, 2046, 2047, 2048, 2049, 2050])
    if r < 0.85:
        base = mx + rng.choice([-2, -1, 0, 1, 2, 5])
        if base > 3000 and rng.random() < (0.9 if tier == 'quick' else 0.6):
            return rng.randrange(0, 300)          # keep the 100 KiB messages rare
        return max(0, base)
    return rng.choice([0, 1, 100, 500, 1023, 1024, 1025, 3000])


HARD = ['ENOSPC', 'EIO', 'EFBIG', 'EDQUOT', 'ZERO']


def rand_plan(rng, is_file, n=None):
    """a transient fault schedule: short counts, EINTR, hard errors at the first write calls; open/close/symlink/mkdir failures"""
    ents = {}
    for _ in range(n or rng.choice([1, 2, 3, 5, 8])):
        i = rng.randrange(0, 10)
        r = rng.random()
        if r < 0.4: a = str(rng.choice([1, 2, 5, 30, 60, 71, 72, 73, 100, 150, 2000]))
        elif r < 0.6: a = 'EINTR'
        elif is_file: a = rng.choice(HARD)
        else: a = rng.choice(['EAGAIN', 'EAGAIN', 'EINTR', '3'])
        ents['w%d' % i] = a
    if is_file:
        if rng.random() < 0.3: ents['o%d' % rng.randrange(0, 4)] = rng.choice(['EMFILE', 'ENOSPC', 'EACCES'])
        if rng.random() < 0.15: ents['d0'] = 'EACCES'
        if rng.random() < 0.15: ents['c%d' % rng.randrange(0, 3)] = rng.choice(['EIO', 'EINTR'])
        if rng.random() < 0.15: ents['y%d' % rng.randrange(0, 3)] = rng.choice(['EEXIST', 'EACCES'])
    return ' '.join('%s=%s' % kv for kv in sorted(ents.items()))


def recs(n, T=1, lens=(20, 33, 47, 5, 60, 0, 28, 41), kinds='ps'):
    return ' '.join('%d:%d:%s:f:x.cpp:%d:%s:%d:%d' % (i % T, 1 + i % 7, 'ab'[i % 2], i, kinds[i % len(kinds)], lens[i % len(lens)], i) for i in range(n))


def fault_cases(rng, tier):
    """kernel fault schedules placed exactly at the roll-over boundary +-1 write: `short count, then a hard error, then recovery`
    swept over every write index, limits from below one record up; failing open()/mkdir() when a new file is due; persistent refusal;
    EINTR runs; failing close()/symlink(); the async stdout sink with short counts / EINTR / EAGAIN / a hard error"""
    quick = tier == 'quick'
    # (1) one flush per record (single-byte pipe buffers): write call i is the flush of record i (plus retries)
    limits = [1, 60, 130, 250, 1000]
    for L in limits:
        idxs = range(0, 7) if not quick else [rng.randrange(0, 3), rng.randrange(3, 7)]
        for i in idxs:
            short = rng.choice([1, 30, 59, 60, 61, 70]) if L < 100 else rng.choice([1, 30, 70])
            hard = rng.choice(HARD)
            for d in ([0] if quick else [0, 1]):
                yield ['sink file %d 1 1 2 1' % L, 'kfault 1 w%d=%d w%d=%s' % (i, short, i + 1 + d, hard), 'run 1 ' + recs(8), 'off 1',
                       'on 1', 'run 1 ' + recs(2), 'off 1']
    # (2) one batch for everything (big pipe buffer: delivered at disable): the retry in onDisable() writes the tail
    for L in ([1, 100, 400] if quick else [1, 50, 100, 200, 400, 1000]):
        short = rng.choice([L, L + 1, max(1, L - 1), 150])
        yield ['sink file %d 10240 2 20 100' % L, 'kfault 1 w0=%d w1=%s' % (short, rng.choice(HARD)), 'run 2 ' + recs(10, 2), 'off 1']
        yield ['sink file %d 10240 2 20 100' % L, 'kfault 1 w0=%d w1=EINTR w2=%s w3=EINTR w4=%d' % (short, rng.choice(HARD), 7), 'run 2 ' + recs(10, 2), 'off 1',
               'on 1', 'run 1 ' + recs(3), 'off 1']
    # (3) open()/mkdir() refused when a new file is due (every flush rolls over: limit 1), transient and persistent
    for e in (['EMFILE'] if quick else ['EMFILE', 'ENOSPC', 'EACCES']):
        for i in ([0, 2] if quick else [0, 1, 2, 3]):
            yield ['sink file 1 1 1 2 1', 'kfault 1 o%d=%s o%d=%s' % (i, e, i + 1, e), 'run 1 ' + recs(6), 'off 1', 'on 1', 'run 1 ' + recs(2), 'off 1']
    yield ['sink file 1 1 1 2 1', 'kfault 1 d0=EACCES d1=EACCES', 'run 1 ' + recs(5), 'off 1', 'on 1', 'run 1 ' + recs(2), 'off 1']
    yield ['sink file 100 1 1 2 1', 'kfault 1 O2=EMFILE', 'run 1 ' + recs(8), 'off 1', 'on 1', 'run 1 ' + recs(2), 'off 1']
    # (4) persistent refusal: everything after write i is retained in memory, the files hold a prefix
    yield ['sink file 150 1 1 2 1', 'kfault 1 w2=40 W3=ENOSPC', 'run 1 ' + recs(8), 'off 1']
    yield ['sink file 1000000 10240 2 20 100', 'kfault 1 w0=100 W1=EIO', 'run 2 ' + recs(12, 2), 'off 1']
    yield ['sink file 60 1 1 2 1', 'kfault 1 W0=ENOSPC', 'run 1 ' + recs(4), 'off 1']
    # (4') a transient error on the last batch, nothing logged afterwards: disable() itself must retry the tail
    for L in (1, 100000):
        yield ['sink file %d 1 1 2 1' % L, 'kfault 1 w1=%s' % rng.choice(HARD), 'run 1 ' + recs(2), 'settle 60', 'off 1']
        yield ['sink file %d 1 1 2 1' % L, 'kfault 1 w0=7 w1=%s' % rng.choice(HARD), 'run 1 ' + recs(1), 'settle 60', 'off 1', 'on 1', 'run 1 ' + recs(2), 'off 1']
    # (5) EINTR runs, close()/symlink() failing: no influence on the records
    yield ['sink file 100 1 1 2 1', 'kfault 1 w0=EINTR w1=EINTR w2=EINTR w3=10 w4=EINTR c0=EIO c1=EINTR y0=EEXIST y1=EACCES', 'run 1 ' + recs(8), 'off 1']
    # (5') EINTR from every other call on the log file: mkdir / open fail (the cache is kept, the next flush tries again), symlink / close: ignored
    yield ['sink file 60 1 1 2 1', 'kfault 1 d0=EINTR o0=EINTR o2=EINTR y0=EINTR c0=EINTR', 'run 1 ' + recs(6), 'off 1', 'on 1', 'run 1 ' + recs(2), 'off 1']
    # (6) the async stdout sink: write(1) short / EINTR / EAGAIN (non-blocking pipe), every index; one hard error
    for i in (range(0, 4) if not quick else [0, 2]):
        yield ['sink aout 1 1 2 1', 'kfault 1 w%d=%d w%d=EAGAIN w%d=EINTR w%d=1' % (i, rng.choice([1, 5, 40]), i + 1, i + 2, i + 3), 'run 1 ' + recs(6), 'off 1']
    yield ['sink aout 10240 2 20 100', 'color 1 1', 'kfault 1 w0=100 w1=EAGAIN w2=EAGAIN w3=33 w4=EINTR', 'run 2 ' + recs(10, 2), 'off 1']
    yield ['sink aout 1 1 2 1', 'kfault 1 w1=3 w2=EPIPE', 'run 1 ' + recs(5), 'off 1']
    # (7) random plans
    for _ in range(10 if quick else 120):
        is_file = rng.random() < 0.8
        L = rng.choice([1, 40, 80, 150, 300, 1000, 100000])
        sink = ('sink file %d %d 1 %d %d' % (L, rng.choice([1, 1, 7, 100, 10240]), rng.choice([1, 2, 20]), rng.choice([1, 5, 100]))) if is_file else \
               ('sink aout %d 1 %d %d' % (rng.choice([1, 7, 100, 10240]), rng.choice([1, 2, 20]), rng.choice([1, 5, 100])))
        T = rng.choice([1, 2, 3])
        yield [sink, 'kfault 1 ' + rand_plan(rng, is_file, rng.choice([2, 4, 8])), 'run %d %s' % (T, recs(rng.choice([4, 8, 12]), T)), 'off 1', 'on 1',
               'run 1 ' + recs(rng.choice([1, 3])), 'off 1']


def long_recs(n, T, ln):
    return ' '.join('%d:%d:%s:f:x.cpp:%d:p:%d:%d' % (i % T, 1 + i % 7, 'ab'[i % 2], i, ln, i) for i in range(n))


def poll_cases(rng, tier):
    """the EAGAIN branch of AsyncStdoutSink::flush(): (1) write and poll answered from the fault plan - short count, EAGAIN, then poll = EINTR k
    times | ENOMEM | EINVAL | 0 | ready, at every write index; (2) REAL signals: fd 1 is a full non-blocking pipe, the back-end thread waits in the real
    poll(), a handled SIGUSR1 is delivered to that thread with pthread_kill (poll fails with EINTR), then a reader drains the pipe"""
    quick = tier == 'quick'
    answers = ['EINTR', 'ENOMEM', 'EINVAL', 'ZERO', 'READY']
    for i in ([0, rng.randrange(1, 4)] if quick else range(0, 5)):
        for a in (['EINTR', rng.choice(answers[1:])] if quick else answers):
            k = rng.choice([1, 2, 3]) if a == 'EINTR' else 1
            plan = ['w%d=%d' % (i, rng.choice([1, 5, 40, 71]))]
            for j in range(k):
                plan += ['w%d=EAGAIN' % (i + 1 + j), 'p%d=%s' % (j, a)]
            yield ['sink aout 1 1 2 1', 'kfault 1 ' + ' '.join(plan), 'run 1 ' + recs(6), 'off 1']
    # one big batch, colour, EAGAIN/poll pairs mixed with EINTR from write itself
    yield ['sink aout 10240 2 20 100', 'color 1 1', 'kfault 1 w0=100 w1=EAGAIN p0=EINTR w2=EAGAIN p1=EINTR w3=33 w4=EINTR w5=EAGAIN p2=ENOMEM w6=EAGAIN p3=ZERO',
           'run 2 ' + recs(10, 2), 'off 1', 'on 1', 'run 1 ' + recs(2), 'off 1']
    # a hard error of write() after an interrupted poll: only THAT ends the batch
    yield ['sink aout 1 1 2 1', 'kfault 1 w1=3 w2=EAGAIN p0=EINTR w3=EPIPE', 'run 1 ' + recs(5), 'off 1']
    yield ['kfault 1 p0=EINTR', 'sink aout 1 1 2 1', 'kfault 1 p0=5', 'kfault 1 p0=READY', 'kfault 1 o0=READY', 'sig 1 1', 'sig 2 1', 'sink aoutp 10240 2 20 1 100', 'sink aoutp 1 1 2 1 4096', 'sink aoutp 1 1 2 1',
           'run 1 ' + recs(2), 'off 1']
    # real signals: one batch bigger than the pipe (short write, then EAGAIN) / one flush per record (all-or-EAGAIN below PIPE_BUF)
    yield ['sink aoutp 10240 2 20 100 4096', 'run 1 ' + long_recs(13, 1, 400), 'settle 100', 'sig 1 3', 'off 1']
    yield ['sink aoutp 10240 2 20 1 4096', 'sink rec', 'runp 2 700 ' + long_recs(60, 2, 60), 'settle 100', 'sig 1 2', 'off 1', 'on 1', 'run 1 ' + recs(3), 'off 1']
    if not quick:
        for psz, n, ln in ((4096, 20, 300), (8192, 30, 400), (16384, 12, 2049), (65536, 40, 2047), (4096, 150, 0), (4096, 5, 3000)):
            yield ['sink aoutp %d %d 20 %d %d' % (rng.choice([5000, 10240, 100000]), rng.choice([1, 2]), rng.choice([1, 5, 100]), psz), 'color 1 %d' % rng.randrange(2),
                   'run %d %s' % (rng.choice([1, 2, 3]), long_recs(n, 1, ln)), 'settle 100', 'sig 1 %d' % rng.choice([1, 2, 5]), 'run 1 ' + recs(3), 'sig 1 1', 'off 1']


def name_cases(rng, tier):
    """module / function / file names that make a piece of the rendered record 1023, 1024, 1025 bytes long (the 1 KiB snprintf buffer of
    onLogBackEnd) and names of exactly 1023 / 1024 / 1025 / 1200 characters, through every async sink"""
    def spec(i, mod='a', func='f', file='x.cpp', kind='p', ln=9):
        return '%d:5:%s:%s:%s:7:%s:%d:%d' % (i % 2, mod, func, file, kind, ln, i)
    sinks = ['sink rec', 'sink file 100000 10240 2 20 100', 'sink syslog 10240 2 20 100']
    # head piece = 31 + len(tid) + len(module): the boundary lies at module lengths 985..989 for 5- to 7-digit thread ids: sweep
    mods = range(983, 992) if tier != 'quick' else [985, 986, 987, 988]
    yield sinks + ['run 2 ' + ' '.join(spec(i, mod='m~%d' % n) for i, n in enumerate(mods)), 'off 2', 'off 3']
    yield sinks + ['run 2 ' + ' '.join(spec(i, func='fn~%d' % n) for i, n in enumerate((1019, 1020, 1021, 1022, 1023, 1024, 1025))), 'off 2', 'off 3']
    yield sinks + ['run 2 ' + ' '.join(spec(i, file='src/y.c~%d' % n) for i, n in enumerate((1020, 1021, 1022, 1023, 1024, 1025, 1026, 1031))), 'off 2', 'off 3']
    yield ['sink aout 100 1 2 1', 'color 1 1', 'sink file 1 1 1 2 1',
           'run 2 ' + ' '.join(spec(i, mod='m~%d' % a, func='g~%d' % b, file='z.h~%d' % c, kind='ps'[i % 2], ln=rng.choice([0, 3, 2049]))
                               for i, (a, b, c) in enumerate(((1023, 1023, 1023), (1024, 1024, 1024), (1025, 1025, 1025), (1200, 1, 1200), (1, 1200, 1)))), 'off 1', 'off 2']
    yield ['sink rec', 'lvl 1 m~1024 3', 'run 1 0:5:m~1201:f:x.cpp:1:p:3:1 0:5:m~0:f:x.cpp:1:p:3:1 0:5:~5:f:x.cpp:1:p:3:1 0:5:m~5~6:f:x.cpp:1:p:3:1', 'run 1 0:5:mm~2:f:x.cpp:1:p:3:1']


def state_cases(rng, tier):
    """inputs equal to the state the objects already hold: setFilePath / setFilePrefix / setFileMaxSize / setFileSyncEnable to the SAME value
    while a file is open (quiescent back end, nothing cached), enable() twice, setLevel to the current level, records equal to the previous
    record, texts equal to the truncation marker"""
    for what in ('path same', 'prefix same', 'sync 0', 'max 100000', 'path new', 'prefix new', 'sync 1', 'max 10', 'max 0'):
        yield ['sink file 100000 1 1 2 1', 'run 1 ' + recs(3), 'settle 60', 'fcfg 1 ' + what, 'run 2 ' + recs(4, 2), 'settle 60', 'fcfg 1 ' + what, 'fcfg 1 ' + what,
               'run 1 ' + recs(2), 'off 1', 'on 1', 'fcfg 1 ' + what, 'run 1 ' + recs(2), 'off 1']
    yield ['sink file 150 10240 2 20 100', 'fcfg 1 path same', 'fcfg 1 prefix same', 'run 2 ' + recs(8, 2), 'off 1', 'fcfg 1 path new', 'on 1', 'on 1', 'run 1 ' + recs(3), 'off 1', 'off 1']
    yield ['sink rec', 'fcfg 1 path same', 'sink file 100 1 1 2 1', 'fcfg 2 path old', 'fcfg 2 max x', 'fcfg 2 sync 2', 'fcfg 3 path same', 'fcfg 2 frob same', 'run 1 ' + recs(2), 'off 2']
    # enable twice, level set to what it is, limit set to what it is
    yield ['max 102400', 'max 102400', 'sink rec', 'sink file 200 100 1 2 5', 'on 1', 'on 2', 'lvl 1 * 8', 'lvl 1 * 8', 'lvl 1 a 4', 'lvl 1 a 4', 'lvl 2 b 3', 'lvl 2 b 3',
           'run 2 ' + recs(12, 2), 'on 1', 'lvl 1 a 4', 'unset 1 b', 'unset 1 b', 'runc 2 4 lvl,1,a,4 lvl,2,b,3 lvl,1,*,8 max,102400 ' + recs(12, 2), 'off 2', 'off 2', 'on 2', 'on 2', 'run 1 ' + recs(2), 'off 2']
    # records equal to the previous record (all fields, same line), on one thread and on two
    same = '0:5:a:f:x.cpp:7:p:20:3'
    for sink in ('sink file 100000 10240 2 20 100', 'sink file 1 1 1 2 1', 'sink aout 7 1 2 1', 'sink syslog 64 1 2 5', 'sink sout'):
        yield ['sink rec', sink, 'run 2 ' + ' '.join([same] * 4 + [same.replace('0:', '1:', 1)] * 3 + ['0:5:a:f:x.cpp:7:s:20:3'] * 2 + ['0:5:a:f:x.cpp:7:n:0:0'] * 2), 'off 2']
    # texts that end like the marker, at limits around their length
    for mx in (None, 0, 10, 11, 12, 13, 23):
        yield ([] if mx is None else ['max %d' % mx]) + ['sink rec', 'sink file 100000 100 2 5 5', 'sink aout 7 1 2 1',
               'run 2 ' + ' '.join('%d:5:a:%s:%s:7:m:%d:%d' % (i % 2, 'f-'[i % 2], ['x.cpp', '-'][i // 2 % 2], i % 4, i) for i in range(8)), 'off 2', 'off 3']


def reconf_tail_cases(rng, tier):
    """setFilePath / setFilePrefix / setFileSyncEnable on an enabled file sink WHILE A TAIL IS CACHED after a write error (part of a
    record is in the open file): the close must wait until the rest of the record is in the same file (patches/C09-09, need_reopen_);
    with nothing cached or no file open the close is immediate.  Every setter, same and new value, several setters in a row, the tail
    written by the next batch / by the retry of disable() / only after a second failure, together with the limit being reached"""
    quick = tier == 'quick'
    setters = ['path same', 'path new', 'prefix same', 'prefix new', 'sync 0', 'sync 1']
    one = '0:5:a:f:x.cpp:1:p:20:1'
    # (1) the minimal history: the tail goes to disk at disable()
    for what in (setters if not quick else [setters[0], rng.choice(setters[1:])]):
        yield ['sink file 100000 1 1 2 1', 'kfault 1 w0=7 w1=%s' % rng.choice(HARD), 'run 1 ' + one, 'settle 100', 'fcfg 1 ' + what, 'off 1']
    # (2) the tail is written by the flush of the next batch; that flush closes the file; later records open the new one
    for what in (setters if not quick else rng.sample(setters, 2)):
        L = rng.choice([1, 60, 100000])
        cut = rng.choice([1, 7, 30, 59])
        yield ['sink file %d 1 1 2 1' % L, 'kfault 1 w1=%d w2=%s' % (cut, rng.choice(HARD)), 'run 1 ' + recs(2), 'settle 100', 'fcfg 1 ' + what,
               'run 1 ' + recs(3), 'settle 100', 'fcfg 1 ' + rng.choice(setters), 'run 2 ' + recs(4, 2), 'off 1', 'on 1', 'run 1 ' + recs(2), 'off 1']
    # (3) several setters on one tail; the retry of disable() fails too (the tail stays, the file stays open, the flag stays), a setter while
    # disabled, recovery after enable
    yield ['sink file 100000 1 1 2 1', 'kfault 1 w0=7 W1=ENOSPC', 'run 1 ' + one, 'settle 100', 'fcfg 1 prefix new', 'fcfg 1 path new', 'fcfg 1 max 1', 'off 1',
           'fcfg 1 sync 1', 'kfault 1 w0=3 w1=EIO', 'on 1', 'run 1 ' + recs(2), 'settle 100', 'fcfg 1 path same', 'off 1', 'on 1', 'run 1 ' + recs(2), 'off 1']
    # (4) a tail cached but NO file open (open refused): nothing to defer, the setter takes effect at once
    yield ['sink file 100 1 1 2 1', 'kfault 1 o0=EMFILE', 'run 1 ' + one, 'settle 100', 'fcfg 1 path new', 'run 1 ' + recs(3), 'off 1']
    # (5) one big batch cut in the middle of a record exactly where the limit is reached, reconfigured, finished by disable()
    for L in ([100] if quick else [1, 100, 400]):
        yield ['sink file %d 10240 2 20 100' % L, 'kfault 1 w0=%d w1=%s' % (rng.choice([L, L + 1, 150]), rng.choice(HARD)), 'run 2 ' + recs(10, 2), 'off 1',
               'fcfg 1 ' + rng.choice(setters), 'on 1', 'run 1 ' + recs(3), 'off 1']
    # (6) random fault plans with setters at quiescent points
    for _ in range(4 if quick else 60):
        L = rng.choice([1, 40, 80, 150, 300, 100000])
        ops = ['sink file %d 1 1 2 1' % L, 'kfault 1 ' + rand_plan(rng, True, rng.choice([2, 4, 8]))]
        for _ in range(rng.choice([2, 3, 4])):
            ops += ['run 1 ' + recs(rng.choice([1, 2, 4])), 'settle 100', 'fcfg 1 ' + rng.choice(setters + ['max %d' % rng.choice([1, 50, 100000])])]
        yield ops + ['off 1', 'on 1', 'run 1 ' + recs(2), 'off 1']


def width_cases(rng, tier):
    """conversions int -> size_t -> uint32_t in LogPrintfFunc: limits and lengths on both sides of 2^16, the formatted length as a printf
    field width (no memory needed) up to INT_MAX and beyond (vsnprintf fails: EOVERFLOW), an encoding error (%lc)"""
    for mx in (65535, 65536, 65537):
        yield ['max %d' % mx, 'sink rec', 'sink file 1000000 10240 2 20 100',
               'run 2 ' + ' '.join('%d:4:b:run:y.cpp:%d:%s:%d:%d' % (i % 2, i, 'pswf'[i % 4], mx + d, i) for i, d in enumerate((-1, 0, 1, 2, -2, 0, 1, 0))), 'off 2']
    yield ['sink rec', 'sink sout', 'run 2 0:5:a:f:x.cpp:1:e:0:1 1:5:a:f:x.cpp:2:w:1:2 0:5:a:f:x.cpp:3:w:2048:3 1:5:a:f:x.cpp:4:w:2049:4 0:3:b:f:x.cpp:5:e:0:5', 'off 2']
    yield ['max 3', 'sink rec', 'sink file 100 1 1 2 1', 'run 1 0:5:a:f:x.cpp:1:e:0:1 0:5:a:f:x.cpp:2:w:100000:2 0:5:a:f:x.cpp:3:w:3:3 0:5:a:f:x.cpp:4:w:4:3', 'off 2']
    yield ['max 200000', 'sink rec', 'run 1 0:5:a:f:x.cpp:1:w:131071:1 0:5:a:f:x.cpp:2:w:131072:2 0:5:a:f:x.cpp:3:w:200001:3 0:5:a:f:x.cpp:4:e:0:4']
    if tier != 'quick':
        # INT_MAX bytes of padding take glibc ~10 s per vsnprintf call: thorough only
        yield ['max 10', 'sink rec', 'run 1 0:5:a:f:x.cpp:1:w:2147483647:1 0:5:a:f:x.cpp:2:o:1:2']


def gen_case(rng, tier, conc=0.15):
    ops = []
    if rng.random() < 0.08:
        ops.append('reent')
    mx = rng.choice([None, 0, 10, 2048, 102400, 102400, rng.choice([1, 7, 100, 2047, 2049, 5000])])
    if mx is not None:
        ops.append('max %d' % mx)
    eff_max = 102400 if mx is None else mx
    nsinks = 0
    files = []
    tiny_pipe = False
    for _ in range(rng.choice([0, 1, 1, 2])):
        ops.append('sink rec'); nsinks += 1
    for _ in range(rng.choice([0, 1, 1, 1, 2])):
        bsz = rng.choice([1, 7, 64, 72, 73, 100, 1024, 10240])
        tiny_pipe = tiny_pipe or bsz <= 7
        bmin = rng.choice([1, 2]); bmax = rng.choice([bmin, 2, 5, 20]); bmax = max(bmin, bmax)
        fmax = rng.choice([1, 50, 120, 200, 1000, 4096, 100000, 1 << 20])
        ops.append('sink file %d %d %d %d %d' % (fmax, bsz, bmin, bmax, rng.choice([1, 5, 100])))
        nsinks += 1; files.append(nsinks)
    # the remaining sinks: sync / async stdout (at most one of them: they share fd 1), syslog
    r = rng.random()
    pipe = lambda: '%d %d %d %d' % (rng.choice([1, 7, 72, 100, 10240]), 1, rng.choice([1, 2, 20]), rng.choice([1, 5, 100]))
    if r < 0.2:
        ops.append('sink sout'); nsinks += 1; files.append(nsinks)
    elif r < 0.4:
        cfg = pipe(); tiny_pipe = tiny_pipe or cfg.split()[0] in ('1', '7')
        ops.append('sink aout ' + cfg); nsinks += 1; files.append(nsinks)
    if rng.random() < 0.2:
        cfg = pipe(); tiny_pipe = tiny_pipe or cfg.split()[0] in ('1', '7')
        ops.append('sink syslog ' + cfg); nsinks += 1; files.append(nsinks)
    for k in files:
        if rng.random() < 0.3:
            ops.append('color %d 1' % k)
    # kernel fault schedules (call index -> short count / errno) on a file sink or the async stdout sink
    ktargets = [i + 1 for i, o in enumerate([x for x in ops if x.startswith('sink ')]) if o.startswith('sink file') or o.startswith('sink aout')]
    if ktargets and rng.random() < 0.3:
        k = rng.choice(ktargets)
        is_file = [x for x in ops if x.startswith('sink ')][k - 1].startswith('sink file')
        ops.append('kfault %d %s' % (k, rand_plan(rng, is_file)))
    elif files and rng.random() < 0.25:
        ops.append('wfault ' + ' '.join(str(rng.choice([0, 1, 2, 5, 30, 71, 72, 73, 100, 2000, 99999])) for _ in range(rng.choice([1, 3, 8, 20]))))

    def conc_acts():
        acts = []
        for _ in range(rng.choice([1, 2, 4, 8])):
            k = rng.randrange(1, nsinks + 1)
            r = rng.random()
            if r < 0.3: acts.append('lvl,%d,*,%d' % (k, rng.choice([-1, 2, 4, 6, 8])))
            elif r < 0.6: acts.append('lvl,%d,%s,%d' % (k, rng.choice(MODS), rng.choice([-1, 1, 3, 5, 7])))
            elif r < 0.9: acts.append('unset,%d,%s' % (k, rng.choice(MODS)))
            else: acts.append('max,%d' % eff_max)
        return acts

    def reconf():
        for _ in range(rng.choice([0, 1, 2, 3])):
            if not nsinks: break
            k = rng.randrange(1, nsinks + 1)
            r = rng.random()
            if r < 0.35: ops.append('lvl %d * %d' % (k, rng.choice([-1, 0, 2, 3, 4, 5, 6, 7, 8, 9])))
            elif r < 0.8: ops.append('lvl %d %s %d' % (k, rng.choice(MODS), rng.choice([-1, 0, 1, 3, 5, 7, 8])))
            else: ops.append('unset %d %s' % (k, rng.choice(MODS)))

    reconf()
    for run in range(rng.choice([1, 1, 2, 3])):
        T = rng.choice([1, 2, 2, 3, 4, 8])
        specs = []
        per = rng.choice([1, 3, 6, 12]) if not tiny_pipe else rng.choice([1, 2, 4])
        for t in range(T):
            for _ in range(rng.randrange(0 if T > 1 else 1, per + 1)):
                kind = rng.choice('pppssfn')
                ln = lens_for(rng, eff_max, tier, tiny_pipe)
                specs.append('%d:%d:%s:%s:%s:%d:%s:%d:%d' % (
                    t, rng.choice([-3, 0, 1, 2, 3, 4, 5, 6, 7, 8, 10]), rng.choice(MODS + ['-'] if rng.random() < 0.1 else MODS),
                    rng.choice(FUNCS), rng.choice(FILES), rng.choice([0, 1, 42, 99999, -7]), kind, ln, rng.randrange(1000)))
        if specs and rng.random() < 0.2:
            specs += [rng.choice(specs)] * rng.choice([1, 2, 3])      # a record equal to an earlier one
        if rng.random() < 0.1:
            specs.append('%d:5:%s:f:x.cpp:3:m:%d:1' % (rng.randrange(T), rng.choice(MODS), rng.randrange(4)))
        rng.shuffle(specs)
        if nsinks and rng.random() < conc:
            acts = conc_acts()
            ops.append('runc %d %d %s %s' % (T, len(acts), ' '.join(acts), ' '.join(specs)))
        else:
            ops.append('run %d %s' % (T, ' '.join(specs)))
        r = rng.random()
        if r < 0.3: reconf()
        elif r < 0.5 and nsinks:
            k = rng.randrange(1, nsinks + 1)
            ops.append('off %d' % k)
            if rng.random() < 0.3: ops.append('color %d %d' % (k, rng.randrange(2)))
            if rng.random() < 0.7: ops.append('on %d' % k)
    for k in files:
        ops.append('off %d' % k)
    return ops


def gen(rng, tier):
    n = 220 if tier == 'quick' else 2500
    # malformed stream: both sides must answer bad-op
    yield ['max x', 'sink frob', 'sink file 1 0 1 1 1', 'lvl 1 a 3', 'off 0', 'run 0', 'run 2 2:5:a:f:x.cpp:1:p:3:1', 'run 1 0:5:a b', 'frob',
           'sink rec', 'lvl 1 bad/name 3', 'run 1 0:5:a:f:x.cpp:1:q:3:1', 'off 2']
    # directed: the 2048 boundary with the default maximum, printf and puts
    yield ['sink rec', 'sink file 100000 10240 2 20 100',
           'run 1 ' + ' '.join('0:5:a:f:x.cpp:%d:%s:%d:%d' % (i, k, L, i) for i, (k, L) in enumerate(
               [(k, L) for L in (0, 1, 2046, 2047, 2048, 2049, 2050) for k in 'ps'])), 'off 2']
    # directed: every maximum, lengths around it (max = 0: the marker must survive an empty text)
    for mx in (0, 10, 2048):
        yield ['max %d' % mx, 'sink rec', 'sink file 4096 100 2 5 5',
               'run 2 ' + ' '.join('%d:4:b:run:src/y.cpp:7:%s:%d:%d' % (i % 2, 'psf'[i % 3], max(0, mx + d), i) for i, d in enumerate((-2, -1, 0, 1, 2, 5, 0, 1))),
               'off 2']
    yield ['max 102400', 'sink file 1048576 10240 2 20 100',
           'run 2 0:3:a:f:x.cpp:1:p:102399:1 1:3:a:f:x.cpp:2:p:102400:2 0:3:a:f:x.cpp:3:s:102401:3 1:3:a:f:x.cpp:4:f:102405:4', 'off 1']
    # directed: filters (module threshold overrides the default, unset restores it), null module / func / file
    yield ['sink rec', 'sink rec', 'lvl 1 * 3', 'lvl 1 a 6', 'lvl 2 b -1', 'run 1 ' + ' '.join('0:%d:%s:-:-:0:p:4:%d' % (l, m, l) for l in range(-1, 9) for m in ('a', 'b', '-')),
           'unset 1 a', 'run 1 0:5:a:f:-:1:s:3:1 0:2:a:-:x.cpp:2:n:0:0']
    # directed: file limit smaller than one record; single-byte pipe buffers (every cut position); disable flushes; re-enable continues
    yield ['sink file 1 1 1 2 1', 'run 4 ' + ' '.join('%d:5:net:f:x.cpp:%d:p:%d:%d' % (i % 4, i, i % 9, i) for i in range(16)), 'off 1', 'on 1',
           'run 2 0:5:net:f:x.cpp:1:s:5:1 1:5:net:f:x.cpp:2:p:0:2', 'off 1']
    yield ['sink file 200 73 1 1 100', 'sink file 120 7 2 2 100', 'run 8 ' + ' '.join('%d:%d:a:f:x.cpp:%d:p:%d:%d' % (i % 8, i % 8, i, 30 + i, i) for i in range(64)), 'off 1', 'off 2']
    # directed: every sink kind, colour on and off (sync stdout, syslog, async stdout, file), max = 0 marker in all of them
    yield ['max 0', 'sink sout', 'sink syslog 64 1 2 5', 'sink file 300 72 1 2 5', 'color 1 1', 'color 3 1',
           'run 2 0:5:a:f:x.cpp:1:p:5:1 1:3:b:-:-:2:s:0:2 0:9:a:run:src/y.cpp:3:f:7:3 1:1:net:f:x.cpp:4:n:0:4', 'off 1', 'off 2', 'off 3',
           'on 1', 'color 1 0', 'run 1 0:0:net:f:x.cpp:4:p:3:4', 'color 1 1', 'off 1']
    yield ['sink aout 7 1 2 1', 'color 1 1', 'run 4 ' + ' '.join('%d:%d:a:f:x.cpp:%d:p:%d:%d' % (i % 4, i % 8, i, i, i) for i in range(24)), 'off 1',
           'color 1 0', 'on 1', 'run 2 0:2:b:f:-:1:s:9:1 1:6:b:-:x.cpp:2:p:0:2', 'off 1']
    # directed: short writes on the log file (1 byte, inside the first record, exactly one record, one byte less than asked)
    yield ['sink file 100000 10240 2 20 100', 'wfault 1 99999 1 30 71 0 2000 99999 5',
           'run 2 ' + ' '.join('%d:5:a:f:x.cpp:%d:p:%d:%d' % (i % 2, i, 20 + i, i) for i in range(12)), 'off 1', 'on 1',
           'run 1 0:5:a:f:x.cpp:1:p:40:1 0:5:a:f:x.cpp:2:p:41:2', 'off 1']
    yield ['sink file 60 100 1 2 1', 'wfault 5 5 5 5 5 5 5 5', 'run 3 ' + ' '.join('%d:4:b:run:y.cpp:%d:s:%d:%d' % (i % 3, i, 3 * i, i) for i in range(15)), 'off 1']
    # directed: filters reconfigured by the main thread WHILE the threads log
    yield ['sink rec', 'sink file 100000 100 2 5 5', 'lvl 1 a 3', 'lvl 2 b 6',
           'runc 4 6 unset,1,a lvl,2,*,2 lvl,1,a,7 unset,2,b lvl,1,*,-1 max,102400 ' +
           ' '.join('%d:%d:%s:f:x.cpp:%d:p:%d:%d' % (i % 4, i % 8, 'ab'[i % 2], i, i % 50, i) for i in range(120)), 'off 2']
    yield ['color 1 1', 'sink sout', 'sink aout 7 1 1 1', 'sink syslog 0 1 1 1', 'color 1 2', 'wfault', 'wfault x', 'runc 2 1 0:5:a:f:x.cpp:1:p:3:1',
           'runc 1 1 max,5 0:5:a:f:x.cpp:1:p:3:1', 'run 1 0:5:a:f:x.cpp:1:p:3:1', 'color 1 1', 'off 1', 'color 1 1', 'runc 1 1 frob,1 0:5:a:f:x.cpp:1:p:3:1']
    yield ['reent', 'sink rec', 'run 2 0:5:a:f:x.cpp:1:p:3:1 1:5:a:f:x.cpp:1:p:3:1', 'reent']
    yield ['kfault 1 w0=1', 'sink rec', 'kfault 1 w0=1', 'sink file 100 1 1 2 1', 'kfault 2 w0=0', 'kfault 2 x0=1', 'kfault 2 w0=EFOO', 'kfault 2 o0=5', 'kfault 2', 'kfault 2 w00000=1',
           'kfault 2 w0=1 o0=EMFILE', 'run 1 0:5:a:f:x.cpp:1:p:30:1', 'off 2', 'reent 1', 'run 1 0:5:a:f:x.cpp:1:w:2147483648:1', 'run 1 0:5:a:f:x.cpp:1:p:200001:1', 'settle 0', 'settle 201', 'settle 5']
    for c in fault_cases(rng, tier):
        yield c
    for c in width_cases(rng, tier):
        yield c
    for c in poll_cases(rng, tier):
        yield c
    for c in name_cases(rng, tier):
        yield c
    for c in state_cases(rng, tier):
        yield c
    for c in reconf_tail_cases(rng, tier):
        yield c
    for c in paced_cases(rng):
        yield c
    for _ in range(n):
        yield gen_case(rng, tier)


def paced_cases(rng):
    """timed flush of the async pipe (interval 1 ms) while 1-2 threads log at a low, jittered rate: the back end takes the current
    buffer on its timeout, which must not happen in the middle of a front-end append (pipe mutex); small and near-maximum records"""
    def specs(T, n, lens):
        return ' '.join('%d:%d:%s:f:x.cpp:%d:%s:%d:%d' % (i % T, 1 + i % 7, 'ab'[i % 2], i, 'ps'[i % 2], rng.choice(lens), rng.randrange(1000)) for i in range(n))
    yield ['sink file 1048576 10240 2 20 1', 'runp 1 1000 ' + specs(1, 150, [0, 5, 40, 300]), 'off 1']
    yield ['sink aout 10240 2 20 1', 'sink rec', 'runp 2 1500 ' + specs(2, 160, [1, 30, 2048, 2049]), 'off 1']
    yield ['sink syslog 1024 1 5 1', 'sink file 4096 1000000 2 2 1', 'runp 2 800 ' + specs(2, 160, [3, 64, 500]), 'off 1', 'off 2']
    # big records near the (raised) maximum, big pipe buffers: a long memcpy per append
    yield ['max 200000', 'sink file 1048576 1000000 2 4 1', 'runp 1 1200 ' + specs(1, 40, [199990, 200000, 200000, 150000]), 'off 1']
    yield ['max 200000', 'sink aout 1000000 1 3 1', 'color 1 1', 'runp 2 1000 ' + specs(2, 40, [200000, 100, 180000]), 'off 1']


def gen_tsan_quick(rng, tier):
    for c in paced_cases(rng):
        yield c
    yield ['sink rec', 'sink file 100000 100 2 5 1', 'lvl 1 a 3',
           'runc 4 4 unset,1,a lvl,1,a,7 unset,1,a max,102400 ' + ' '.join('%d:%d:%s:f:x.cpp:%d:p:%d:%d' % (i % 4, i % 8, 'ab'[i % 2], i, i % 50, i) for i in range(120)), 'off 2']


def gen_tsan(rng, tier):
    """ThreadSanitizer stream: >= 2 threads, sinks enabled/disabled/reconfigured between quiescent points and (runc) while threads log"""
    yield ['sink rec', 'sink file 100000 100 2 5 5', 'lvl 1 a 3', 'lvl 2 b 6',
           'runc 4 6 unset,1,a lvl,2,*,2 lvl,1,a,7 unset,2,b lvl,1,*,-1 max,102400 ' +
           ' '.join('%d:%d:%s:f:x.cpp:%d:p:%d:%d' % (i % 4, i % 8, 'ab'[i % 2], i, i % 50, i) for i in range(160)), 'off 2']
    for c in paced_cases(rng):
        yield c
    for _ in range(140):
        yield gen_case(rng, 'quick', conc=0.6)


def nontrivial(ops, model_lines):
    tags = ' '.join(l for l in model_lines if l.startswith('B '))
    if not any(l.startswith('ok ') for l in model_lines):
        return None
    if 'threads>=2' in tags and any(t in tags for t in ('fmt-trunc', 'puts-trunc', 'filter-drop', 'file-nonempty')):
        return 1
    return None


def fingerprint(ops, d):
    what = d[1] if d else ''
    what = re.sub(r'^reject (op#\d+ )?', '', what)
    what = what.split(': impl=')[0].split(' [')[0]
    what = re.sub(r'\d+', 'N', what)[:80]
    return hashlib.sha1(what.encode()).hexdigest()[:12]


def pre_lean(repo, lean):
    """regenerate lean/TboxModel/C09/GenTables.lean (level letters, colour codes) from modules/base/log_impl.cpp"""
    src = open(os.path.join(repo, 'modules/base/log_impl.cpp'), encoding='utf-8').read()
    src = re.sub(r'//[^\n]*', '', src)
    m1 = re.search(r'LOG_LEVEL_LEVEL_CODE\s*\[[^\]]*\]\s*=\s*\{([^}]*)\}', src)
    m2 = re.search(r'LOG_LEVEL_COLOR_CODE\s*\[[^\]]*\]\s*=\s*\{([^}]*)\}', src)
    if not m1 or not m2:
        raise RuntimeError('level/colour tables not found in log_impl.cpp')
    letters = re.findall(r"'(.)'", m1.group(1))
    colours = re.findall(r'"([^"]*)"', m2.group(1))
    if not letters or not colours:
        raise RuntimeError('level/colour tables are empty')
    body = ('/- GENERATED by props/C09/plugin.py pre_lean from modules/base/log_impl.cpp on every run — do not edit. -/\n'
            'namespace Tbox.C09\n\n'
            '/-- LOG_LEVEL_LEVEL_CODE -/\n'
            'def genLevelCodes : List UInt8 := [%s]\n\n'
            '/-- LOG_LEVEL_COLOR_CODE (the SGR parameters between ESC[ and m) -/\n'
            'def genColorCodes : List (List UInt8) := [%s]\n\n'
            'end Tbox.C09\n') % (', '.join(str(ord(c)) for c in letters),
                                  ', '.join('[' + ', '.join(str(b) for b in c.encode()) + ']' for c in colours))
    path = os.path.join(lean, 'TboxModel/C09/GenTables.lean')
    old = open(path).read() if os.path.exists(path) else None
    if old != body:
        with open(path, 'w') as fh:
            fh.write(body)


_tsan_summary = {}


def extra_coverage():
    return {'tsan_pass': dict(_tsan_summary)} if _tsan_summary else {}


def tsan_quick_pass(seed):
    """a handful of directed cases under ThreadSanitizer (paced logging against the 1 ms timed flush, reconfiguration while logging):
    the cheapest reliable detector of an unsynchronised pipe / sink access.  Returns 1 if a violation was printed."""
    import random
    ok, _ = vlib.lean_build([EXE])
    exe, hlog = vlib.build_harness(ID, SOURCES, os.path.join(vlib.VERIF, 'props', ID, 'harness.cpp'), 'tsan', (), LIBS)
    if not ok or exe is None:
        return 0          # the main pass reports build problems
    rng = random.Random('%s:tsanq:%d' % (ID, seed))
    cases = {i: list(o) for i, o in enumerate(gen_tsan_quick(rng, 'quick'))}
    impl, st = vlib.run_harness_cases(exe, cases, timeout_per_batch=120, batch=1)
    model = vlib.run_driver_cases(EXE, {i: cases[i] + ['T ' + l for l in impl.get(i, [])] + ['end'] for i in cases})
    rep = vlib.Report(ID)
    bad_n = 0
    for i in sorted(cases):
        bad = [l for l in model.get(i, ['reject no model output']) if l.startswith('reject')]
        if not bad:
            continue
        bad_n += 1
        d = ('P', bad[0], 'accept')
        fp = fingerprint(cases[i], d)
        body = vlib.case_text(0, cases[i]) + '# ThreadSanitizer pass of the quick tier, seed=%d case=%d\n# implementation: %s\n# model/spec   : accept\n%s' % (
            seed, i, bad[0], ''.join('# ' + l + '\n' for l in st.get('crash_stderr', '').splitlines()[:40]))
        path = vlib.write_replay(ID, 'tsan-' + fp + '.ops', body)
        rep.violation('tsan-' + fp, path, 'impl=%r expected=accept (ThreadSanitizer build) ops=%r' % (bad[0][:200], [o[:120] for o in cases[i][:4]]))
    _tsan_summary.update({'flavour': 'tsan', 'cases': len(cases), 'crashes': st.get('crashes'), 'violations': len(rep.violations),
                          'paced_cases': sum(1 for c in cases.values() if any(o.startswith('runp') for o in c))})
    return 1 if rep.violations else 0


def check(tier, seed, replay=None):
    g = {k: v for k, v in globals().items() if k != 'check'}
    P = types.SimpleNamespace(**g)
    rc_t = 0
    try:
        if tier == 'quick' and not replay:
            rc_t = tsan_quick_pass(seed)
        if tier == 'thorough' and not replay:
            # ThreadSanitizer pass first (its evidence is folded into the main run's evidence below)
            gt = dict(g); gt.update(FLAVOUR='tsan', gen=gen_tsan, BATCH=20)
            gt.pop('extra_coverage', None)
            rc_t = vlib.standard_check(types.SimpleNamespace(**gt), 'quick', seed, None)
            try:
                ev = __import__('json').load(open(os.path.join(vlib.VERIF, 'evidence', 'C09.json')))
                _tsan_summary.update({'flavour': 'tsan', 'cases': ev['coverage'].get('evaluations'),
                                      'crashes': ev['coverage'].get('harness', {}).get('crashes'), 'violations': ev.get('violations'),
                                      'concurrent_reconf_cases': ev['coverage'].get('distribution', {}).get('concurrent-reconf', 0)})
            except Exception:
                pass
        rc = vlib.standard_check(P, tier, seed, replay)
        return 1 if (rc or rc_t) else 0
    finally:
        for d in glob.glob('/tmp/C09-[0-9]*-*'):      # directories of crashed harness processes (never those of a harness that is still running)
            m = re.match(r'/tmp/C09-(\d+)-', d)
            if m and os.path.exists('/proc/' + m.group(1)):
                continue
            try:
                shutil.rmtree(d, ignore_errors=True) if os.path.isdir(d) else os.unlink(d)
            except OSError:
                pass
