// C10 harness: N real producer threads append tagged, length-prefixed records to a real
// tbox::util::AsyncPipe; the sink callback records every block (+ an overlap detector); after
// cleanup() (guarded by a watchdog) the delivered stream and the block lengths are printed for the
// trace acceptor lean/Driver/C10.lean.  Intended flavour: tsan (data races / lock misuse abort the case).
//
// Schedule perturbation WITHOUT repo changes: this file interposes pthread_mutex_lock/unlock,
// pthread_cond_wait/timedwait/clockwait (strong definitions in the executable win over libtsan/libc;
// the next definition is reached through dlsym(RTLD_NEXT)) and injects PRNG-seeded sleeps of
// 0..max_us there.  The seed comes from the op file (`perturb`), each thread derives its own stream
// from it (producer tid / back end / main), so a re-run re-samples the same delay schedule.
//   - before pthread_mutex_lock       : who wins curr_buffer_mutex_ / full_buffers_mutex_
//   - after  pthread_mutex_unlock     : widens the gap between two atomic regions of one thread
//   - before pthread_cond_*wait       : the window "predicate evaluated false, not yet blocked"
#include "vh.h"
#include <dlfcn.h>
#include <pthread.h>
#include <time.h>
#include <unistd.h>
#include <sys/wait.h>
#include <signal.h>
#include <new>
#include <atomic>
#include <chrono>
#include <condition_variable>
#include <functional>
#include <memory>
#include <mutex>
#include <thread>
#include <tbox/util/async_pipe.h>

// ---------------------------------------------------------------- perturbation by interposition
static std::atomic<uint64_t> g_seed{0};
static std::atomic<uint32_t> g_max_us{0};
static std::atomic<uint32_t> g_epoch{0};           // bumped by every `perturb`: threads re-seed
static std::atomic<int> g_producers_waiting{0};   // producers inside free_buffers_cv_.wait right now
static std::atomic<uint64_t> g_producer_waits{0};  // untimed cond waits by producer threads = back-pressure blocks
static thread_local int t_role = 0;                // 0 unknown (back end / others), 1..8 producer tid+1, 100 main, -1 never perturb
static thread_local uint64_t t_rng = 0;
static thread_local uint32_t t_epoch = 0xffffffff;
static thread_local bool t_busy = false;

static inline uint64_t next_rand() {
    uint32_t e = g_epoch.load(std::memory_order_relaxed);
    if (t_epoch != e) { t_epoch = e; t_rng = (g_seed.load(std::memory_order_relaxed) + 0x9E3779B97F4A7C15ULL * (uint64_t)(t_role + 17)) | 1; }
    t_rng ^= t_rng << 13; t_rng ^= t_rng >> 7; t_rng ^= t_rng << 17;   // xorshift64
    return t_rng;
}

static void maybe_delay() {
    uint32_t mx = g_max_us.load(std::memory_order_relaxed);
    if (mx == 0 || t_busy || t_role < 0) return;
    t_busy = true;
    uint64_t r = next_rand();
    if ((r & 3) == 0) {                                // one point in four sleeps
        uint64_t us = (r >> 8) % (mx + 1);
        struct timespec ts; ts.tv_sec = 0; ts.tv_nsec = (long)us * 1000;
        if (us) nanosleep(&ts, nullptr);
    } else if ((r & 3) == 1) {
        sched_yield();
    }
    t_busy = false;
}

template <typename F> static F real_fn(const char *name) {
    void *p = dlsym(RTLD_NEXT, name);
    if (!p) { fprintf(stderr, "harness: dlsym(%s) failed\n", name); _exit(4); }
    return (F)p;
}

extern "C" {
int pthread_mutex_lock(pthread_mutex_t *m) {
    static auto real = real_fn<int (*)(pthread_mutex_t *)>("pthread_mutex_lock");
    maybe_delay();
    return real(m);
}
int pthread_mutex_unlock(pthread_mutex_t *m) {
    static auto real = real_fn<int (*)(pthread_mutex_t *)>("pthread_mutex_unlock");
    int r = real(m);
    maybe_delay();
    return r;
}
int pthread_cond_wait(pthread_cond_t *c, pthread_mutex_t *m) {
    static auto real = real_fn<int (*)(pthread_cond_t *, pthread_mutex_t *)>("pthread_cond_wait");
    bool prod = (t_role >= 1 && t_role <= 8);
    if (prod) { g_producer_waits.fetch_add(1, std::memory_order_relaxed); g_producers_waiting.fetch_add(1); }
    maybe_delay();
    int r = real(c, m);
    if (prod) g_producers_waiting.fetch_sub(1);
    return r;
}
int pthread_cond_timedwait(pthread_cond_t *c, pthread_mutex_t *m, const struct timespec *t) {
    static auto real = real_fn<int (*)(pthread_cond_t *, pthread_mutex_t *, const struct timespec *)>("pthread_cond_timedwait");
    maybe_delay();
    return real(c, m, t);
}
int pthread_cond_clockwait(pthread_cond_t *c, pthread_mutex_t *m, clockid_t clk, const struct timespec *t) {
    static auto real = real_fn<int (*)(pthread_cond_t *, pthread_mutex_t *, clockid_t, const struct timespec *)>("pthread_cond_clockwait");
    maybe_delay();
    return real(c, m, clk, t);
}
}

// ---------------------------------------------------------------- buffer allocations made observable (M-class)
// AsyncPipe's Buffer allocates its storage with `new uint8_t[cap]`: replacing the array forms of operator
// new/delete (malloc/free underneath, so the sanitizers still see every block) lets the harness count how many
// buffers of the configured size are alive — `buff_num_` itself is private.  Only array allocations of exactly
// g_track_size bytes made while a pipe is live are counted; nothing else in this process uses new[] of that size.
static std::atomic<size_t> g_track_size{0};
static std::atomic<long> g_live_bufs{0};
static std::atomic<long> g_peak_bufs{0};
static const int kSlots = 1024;
static std::atomic<void *> g_slots[kSlots];

static void track_alloc(void *p) {
    for (int i = 0; i < kSlots; ++i) {
        void *expect = nullptr;
        if (g_slots[i].load(std::memory_order_relaxed) == nullptr && g_slots[i].compare_exchange_strong(expect, p)) {
            long n = g_live_bufs.fetch_add(1) + 1;
            long pk = g_peak_bufs.load();
            while (n > pk && !g_peak_bufs.compare_exchange_weak(pk, n)) {}
            return;
        }
    }
}
static void track_free(void *p) {
    if (!p) return;
    for (int i = 0; i < kSlots; ++i) {
        void *expect = p;
        if (g_slots[i].load(std::memory_order_relaxed) == p && g_slots[i].compare_exchange_strong(expect, nullptr)) { g_live_bufs.fetch_sub(1); return; }
    }
}
void *operator new[](size_t n) {
    void *p = malloc(n ? n : 1);
    if (!p) throw std::bad_alloc();
    size_t t = g_track_size.load(std::memory_order_relaxed);
    if (t != 0 && n == t) track_alloc(p);
    return p;
}
void operator delete[](void *p) noexcept { if (g_track_size.load(std::memory_order_relaxed) != 0) track_free(p); free(p); }
void operator delete[](void *p, size_t) noexcept { if (g_track_size.load(std::memory_order_relaxed) != 0) track_free(p); free(p); }

// ---------------------------------------------------------------- records (same format as the driver)
static inline uint8_t payload_byte(unsigned tid, unsigned seq, unsigned i) { return (uint8_t)((tid * 37u + seq * 11u + i * 7u + 3u) % 251u); }

static std::vector<uint8_t> record_bytes(unsigned tid, unsigned seq, unsigned len) {
    std::vector<uint8_t> r; r.reserve(len + 5);
    r.push_back((uint8_t)(0xA0 + tid)); r.push_back((uint8_t)(seq / 256)); r.push_back((uint8_t)(seq % 256));
    r.push_back((uint8_t)(len / 256)); r.push_back((uint8_t)(len % 256));
    for (unsigned i = 0; i < len; ++i) r.push_back(payload_byte(tid, seq, i));
    return r;
}

struct Tok { char kind; unsigned len; };   // 'a' append, 'g' grouped (lock + 2 lockless + unlock), 'z' zero-size append

static bool parse_toks(const std::string &w, std::vector<Tok> &out) {
    out.clear();
    size_t pos = 0;
    for (;;) {
        size_t c = w.find(',', pos);
        std::string t = w.substr(pos, c == std::string::npos ? std::string::npos : c - pos);
        Tok k; uint64_t n;
        if (t == "z") { k.kind = 'z'; k.len = 0; }
        else if (!t.empty() && t[0] == 'g') { if (!vh::to_u64(t.substr(1), n) || n > 20000) return false; k.kind = 'g'; k.len = (unsigned)n; }
        else { if (!vh::to_u64(t, n) || n > 20000) return false; k.kind = 'a'; k.len = (unsigned)n; }
        out.push_back(k);
        if (c == std::string::npos) break;
        pos = c + 1;
    }
    return true;
}

// ---------------------------------------------------------------- one pipe lifecycle
struct Sink {
    std::vector<uint8_t> stream;
    std::vector<size_t> lens;
    std::atomic<int> inside{0};
    std::atomic<bool> overlap{false};
    std::atomic<bool> gate_closed{false};      // `fillhold`: the back end is held inside the callback
    std::atomic<bool> held{false};             // the back end is waiting at the closed gate right now
    uint32_t sink_us = 0;
    // `echo` script: re-entrant use — the callback appends a record (pseudo-producer 8) to the SAME pipe
    std::atomic<int> echo_mode{0};             // 0 never, 1 every n-th block, 2 every block shorter than a buffer (timed flush)
    std::atomic<unsigned> echo_n{1}, echo_len{0};
    unsigned echo_seq = 0;
    size_t buff_size = 0;
    std::atomic<bool> echo_stop{false};        // set before cleanup(): no nested append may start any more
    std::atomic<int> in_echo{0};
    std::vector<size_t> echo_blocks;           // ordinal of the block whose callback made each nested append
};

struct Prod { unsigned tid; unsigned pace_us; std::vector<Tok> toks; };

static tbox::util::AsyncPipe *g_pipe = nullptr;
static bool g_live = false;
static Sink *g_sink = nullptr;
static std::vector<Prod> g_declared;
static unsigned g_seq[8];
static uint32_t g_sink_us = 0;

static unsigned watchdog_ms() {
    const char *e = getenv("C10_WATCHDOG_MS");
    return e ? (unsigned)atoi(e) : 5000u;
}

// a watchdog: if the guarded call does not return in time the outcome is printed and the process ends
// (vlib records `CRASH exit:3` for the case) — a blocked thread cannot be cancelled.
struct Watchdog {
    std::mutex m; std::condition_variable cv; bool done = false; std::thread th;
    Watchdog(const char *what, unsigned ms, bool announce) {
        th = std::thread([this, what, ms, announce] {
            t_role = -1;
            std::unique_lock<std::mutex> lk(m);
            // time is counted in 100 ms slices and a slice only counts when this thread was woken on time:
            // a stall of the whole machine (overloaded sandbox) is not mistaken for a blocked pipe
            unsigned counted = 0;
            while (!done && counted * 100 < ms) {
                auto t0 = std::chrono::steady_clock::now();
                if (cv.wait_for(lk, std::chrono::milliseconds(100), [this] { return done; })) break;
                auto dt = std::chrono::duration_cast<std::chrono::milliseconds>(std::chrono::steady_clock::now() - t0).count();
                if (dt < 300) ++counted;
            }
            if (!done) {
                if (announce) { std::cout << "P " << what << " timeout\n"; std::cout.flush(); }
                _exit(3);
            }
        });
    }
    ~Watchdog() {
        { std::lock_guard<std::mutex> lg(m); done = true; }
        cv.notify_all();
        th.join();
    }
};

static bool guarded_cleanup(bool announce) {
    Watchdog wd("cleanup", watchdog_ms(), announce);
    if (g_sink) {   // cleanup begins at a quiescent point: no nested append in flight, none may start (they would be `late`)
        g_sink->echo_stop.store(true, std::memory_order_release);
        while (g_sink->in_echo.load() != 0) usleep(200);
    }
    g_pipe->cleanup();
    return true;
}

static void drop_pipe() {
    if (g_pipe) {
        if (g_live) guarded_cleanup(false);
        g_track_size = 0;
        delete g_pipe; g_pipe = nullptr;
    }
    delete g_sink; g_sink = nullptr;
    g_live = false; g_declared.clear();
    g_max_us = 0; g_sink_us = 0;
}

static void producer_main(const Prod &p, unsigned first_seq, std::atomic<bool> &go) {
    t_role = (int)p.tid + 1;
    while (!go.load(std::memory_order_acquire)) std::this_thread::yield();
    unsigned seq = first_seq;
    for (const Tok &k : p.toks) {
        if (k.kind == 'z') {
            uint8_t dummy = 0;
            g_pipe->append(&dummy, 0);
        } else {
            std::vector<uint8_t> r = record_bytes(p.tid, seq, k.len);
            if (k.kind == 'g') {
                size_t h = r.size() / 2;
                g_pipe->appendLock();
                g_pipe->appendLockless(r.data(), h);
                g_pipe->appendLockless(r.data() + h, r.size() - h);
                g_pipe->appendUnlock();
            } else {
                g_pipe->append(r.data(), r.size());
            }
            ++seq;
        }
        if (p.pace_us) usleep(p.pace_us);
    }
}

// An append racing with cleanup() — OUTSIDE the property statement (it speaks of what was appended before
// cleanup began).  Run in a forked child (fresh pipe object, its own sanitizer verdict) so that whatever the real
// code does — lose the tail, leave the producer blocked for ever, trip assert(full_buffers_.empty()), race on
// curr_buffer_ — is only DOCUMENTED (M-class line), never judged.  The parent has no other thread alive here.
static const char *late_experiment(size_t size, size_t maxn, unsigned nrec) {
    pid_t pid = fork();
    if (pid < 0) return "fork-failed";
    if (pid == 0) {
        g_max_us = 0;
        tbox::util::AsyncPipe pipe;
        tbox::util::AsyncPipe::Config cfg; cfg.buff_size = size; cfg.buff_min_num = 1; cfg.buff_max_num = maxn; cfg.interval = 1;
        if (!pipe.initialize(cfg)) _exit(29);
        std::atomic<size_t> delivered{0};
        pipe.setCallback([&](const void *, size_t n) { delivered += n; usleep(300); });
        std::atomic<bool> started{false}, finished{false};
        size_t appended = 0;
        std::thread th([&] {
            t_role = 1;
            for (unsigned i = 0; i < nrec; ++i) {
                std::vector<uint8_t> r = record_bytes(0, i, (unsigned)(3 * size));
                started.store(true);
                pipe.append(r.data(), r.size());
                appended += r.size();
            }
            finished.store(true, std::memory_order_release);
        });
        while (!started.load()) std::this_thread::yield();
        usleep(1500);
        std::atomic<bool> cleaned{false};
        std::thread wd([&] { t_role = -1; for (int i = 0; i < 150 && !(cleaned.load() && finished.load()); ++i) usleep(10000);
                             if (!cleaned.load()) _exit(23); if (!finished.load()) _exit(22); });
        pipe.cleanup();
        cleaned.store(true);
        wd.join();
        th.join();
        _exit(delivered.load() == appended ? 20 : 21);
    }
    int st = 0;
    if (waitpid(pid, &st, 0) < 0) return "wait-failed";
    if (WIFSIGNALED(st)) return WTERMSIG(st) == SIGABRT ? "abort" : "signal";
    switch (WEXITSTATUS(st)) {
        case 20: return "all-delivered";
        case 21: return "data-lost";
        case 22: return "producer-blocked";
        case 23: return "cleanup-blocked";
        case 97: case 98: case 99: return "sanitizer-report";
        default: return "other";
    }
}

static bool in_range(const std::string &w, uint64_t hi, uint64_t &v) { return vh::to_u64(w, v) && v <= hi; }

int main() {
    std::ios::sync_with_stdio(false);
    t_role = 100;
    std::string line;
    while (std::getline(std::cin, line)) {
        auto w = vh::words(line);
        if (w.empty()) continue;
        if (w[0] == "case") { drop_pipe(); std::cout << line << "\n"; std::cout.flush(); continue; }
        uint64_t a, b, c, d;
        if (w[0] == "init" && w.size() == 5 && in_range(w[1], 65536, a) && in_range(w[2], 64, b) && in_range(w[3], 64, c) &&
            in_range(w[4], 1000, d) && !g_live) {
            if (!g_pipe) g_pipe = new tbox::util::AsyncPipe;
            tbox::util::AsyncPipe::Config cfg;
            cfg.buff_size = a; cfg.buff_min_num = b; cfg.buff_max_num = c; cfg.interval = d;
            g_live_bufs = 0; g_peak_bufs = 0;
            for (auto &sl : g_slots) sl.store(nullptr);
            g_track_size = (size_t)a;
            bool ok = g_pipe->initialize(cfg);
            if (!ok) g_track_size = 0;
            if (ok) {
                delete g_sink; g_sink = new Sink; g_sink->sink_us = g_sink_us; g_sink->buff_size = (size_t)a;
                Sink *s = g_sink;
                g_pipe->setCallback([s](const void *p, size_t n) {
                    if (s->inside.fetch_add(1) != 0) s->overlap = true;
                    s->lens.push_back(n);
                    const uint8_t *q = static_cast<const uint8_t *>(p);
                    s->stream.insert(s->stream.end(), q, q + n);
                    if (s->echo_mode != 0 && !s->echo_stop.load(std::memory_order_acquire) && s->echo_seq < 40) {
                        size_t ord = s->lens.size() - 1;
                        bool fire = s->echo_mode.load() == 1 ? (ord % s->echo_n.load() == 0) : (n < s->buff_size);
                        if (fire) {
                            s->in_echo.fetch_add(1);
                            if (!s->echo_stop.load(std::memory_order_acquire)) {
                                std::vector<uint8_t> r = record_bytes(8, s->echo_seq, s->echo_len.load());
                                g_pipe->append(r.data(), r.size());          // nested append from inside the sink callback
                                s->echo_blocks.push_back(ord);
                                ++s->echo_seq;
                            }
                            s->in_echo.fetch_sub(1);
                        }
                    }
                    if (s->sink_us) usleep(s->sink_us);
                    while (s->gate_closed.load(std::memory_order_acquire)) { s->held.store(true); usleep(200); }
                    s->held.store(false);
                    maybe_delay();
                    s->inside.fetch_sub(1);
                });
                g_live = true; g_declared.clear(); g_producer_waits = 0;
                for (auto &x : g_seq) x = 0;
            }
            std::cout << "P init " << (ok ? 1 : 0) << "\n";
        } else if (w[0] == "perturb" && w.size() == 4 && in_range(w[1], 1000000000, a) && in_range(w[2], 5000, b) && in_range(w[3], 5000, c)) {
            g_seed = a; g_epoch.fetch_add(1); g_max_us = (uint32_t)b; g_sink_us = (uint32_t)c;
            if (g_sink) g_sink->sink_us = g_sink_us;   // read by the back end only inside callbacks; set between runs
            std::cout << "P perturb\n";
        } else if (w[0] == "echo" && w.size() == 4 && in_range(w[2], 1000, a) && in_range(w[3], 2000, b) && g_live &&
                   a >= 1 && (w[1] == "every" || w[1] == "partial" || w[1] == "never")) {
            if (g_sink->echo_mode != 0) { std::cout << "bad-op\n"; std::cout.flush(); continue; }
            // written while the back end may be delivering: only before any block exists in this phase in generated cases;
            // the fields are read by the back end inside callbacks => publish through the producer-side mutexes is not
            // available here, so the script is only accepted while nothing has been delivered yet in this lifecycle
            g_sink->echo_n = (unsigned)a; g_sink->echo_len = (unsigned)b;
            g_sink->echo_mode = w[1] == "every" ? 1 : (w[1] == "partial" ? 2 : 0);
            std::cout << "P echo\n";
        } else if (w[0] == "prod" && w.size() == 4 && in_range(w[1], 7, a) && in_range(w[2], 5000, b) && g_live) {
            Prod p; p.tid = (unsigned)a; p.pace_us = (unsigned)b;
            bool dup = false;
            for (auto &q : g_declared) if (q.tid == p.tid) dup = true;
            if (dup || !parse_toks(w[3], p.toks) || p.toks.size() > 2000) { std::cout << "bad-op\n"; continue; }
            g_declared.push_back(p);
            std::cout << "P prod\n";
        } else if (w[0] == "run" && w.size() == 1 && g_live) {
            Watchdog wd("run", 3 * watchdog_ms(), true);     // producers stuck in back-pressure for ever
            std::atomic<bool> go{false};
            std::vector<std::thread> ths;
            for (auto &p : g_declared) ths.emplace_back(producer_main, std::cref(p), g_seq[p.tid], std::ref(go));
            go.store(true, std::memory_order_release);
            for (auto &t : ths) t.join();
            for (auto &p : g_declared) for (auto &k : p.toks) if (k.kind != 'z') ++g_seq[p.tid];
            g_declared.clear();
            std::cout << "P run\n";
        } else if (w[0] == "fillhold" && w.size() == 3 && in_range(w[1], 7, a) && in_range(w[2], 20000, b) && g_live) {
            bool dup = false;
            for (auto &q : g_declared) if (q.tid == a) dup = true;
            if (dup) { std::cout << "bad-op\n"; std::cout.flush(); continue; }
            Watchdog wd("fillhold", 3 * watchdog_ms(), true);
            uint64_t waits0 = g_producer_waits.load();
            g_sink->gate_closed.store(true, std::memory_order_release);
            std::atomic<bool> go{true}, finished{false};
            Prod p; p.tid = (unsigned)a; p.pace_us = 0; p.toks.push_back(Tok{'a', (unsigned)b});
            unsigned seq0 = g_seq[p.tid];
            std::thread th([&] { producer_main(p, seq0, go); finished.store(true, std::memory_order_release); });
            // quiescent point: the producer is INSIDE free_buffers_cv_.wait (it found buff_num_ at the limit) and the back
            // end is held inside the sink (it cannot recycle or delete): sample twice around reading the live count
            int blocked = 0; long live = 0;
            for (int i = 0; i < 2000 && !blocked; ++i) {            // up to ~2 s
                if (finished.load(std::memory_order_acquire)) break;
                if (g_producers_waiting.load() == 1 && g_sink->held.load()) {
                    usleep(5000);
                    if (g_producers_waiting.load() == 1 && g_sink->held.load() && !finished.load()) {
                        live = g_live_bufs.load();
                        if (g_producers_waiting.load() == 1 && g_sink->held.load()) blocked = 1;
                    }
                }
                if (!blocked) usleep(1000);
            }
            if (!blocked) live = g_live_bufs.load();
            std::cout << "M held live=" << live << " blocked=" << blocked << "\n";
            g_sink->gate_closed.store(false, std::memory_order_release);
            th.join();
            ++g_seq[p.tid];
            std::cout << "P fillhold\n";
        } else if (w[0] == "late" && w.size() == 4 && in_range(w[1], 4096, a) && in_range(w[2], 64, b) && in_range(w[3], 200, c) &&
                   a >= 1 && b >= 1 && !g_live) {
            std::cout.flush();
            std::cout << "M late outcome=" << late_experiment((size_t)a, (size_t)b, (unsigned)c) << "\n";
        } else if (w[0] == "sleep" && w.size() == 2 && in_range(w[1], 500, a)) {
            usleep((useconds_t)a * 1000);
            std::cout << "P sleep\n";
        } else if (w[0] == "cleanup" && w.size() == 1) {
            if (!g_live) {
                if (g_pipe) g_pipe->cleanup();
                std::cout << "P cleanup noop\n";
            } else {
                guarded_cleanup(true);
                g_track_size = 0;
                g_live = false; g_declared.clear();
                std::cout << "P cleanup ok\n";
                std::string ks;
                for (size_t i = 0; i < g_sink->lens.size(); ++i) { if (i) ks.push_back(','); ks += std::to_string(g_sink->lens[i]); }
                std::cout << "K " << (ks.empty() ? "-" : ks) << "\n";
                std::cout << "S " << vh::hex(g_sink->stream) << "\n";
                std::cout << "P cb overlap=" << (g_sink->overlap.load() ? 1 : 0) << "\n";
                std::cout << "I bp=" << g_producer_waits.load() << " peak=" << g_peak_bufs.load() << "\n";
                std::string ns;
                for (size_t i = 0; i < g_sink->echo_blocks.size(); ++i) { if (i) ns.push_back(','); ns += std::to_string(g_sink->echo_blocks[i]); }
                std::cout << "N " << (ns.empty() ? "-" : ns) << "\n";
            }
        } else {
            std::cout << "bad-op\n";
        }
        std::cout.flush();
    }
    drop_pipe();
    return 0;
}
