// C10 harness: N real producer threads append tagged, length-prefixed records to a real
// tbox::util::AsyncPipe; the sink callback records every block (+ an overlap detector); after
// cleanup() (guarded by a watchdog) the delivered stream and the block lengths are printed for the
// trace acceptor lean/Driver/C10.lean.  Intended flavour: tsan (data races / lock misuse abort the case).
//
// Schedule perturbation WITHOUT repo changes: this file interposes pthread_mutex_lock/unlock,
// pthread_cond_wait/timedwait/clockwait (strong definitions in the executable win over libtsan/libc;
// the next definition is reached through dlsym(RTLD_NEXT)) and injects PRNG-seeded sleeps of
// 0..max_us there.  The seed comes from the op file (`perturb`), each thread derives its own stream
// from it (producer tid / back end / main), so a re-run re-samples the same delay schedule.
//   - before pthread_mutex_lock       : who wins curr_buffer_mutex_ / full_buffers_mutex_
//   - after  pthread_mutex_unlock     : widens the gap between two atomic regions of one thread
//   - before pthread_cond_*wait       : the window "predicate evaluated false, not yet blocked"
#include "vh.h"
#include <dlfcn.h>
#include <pthread.h>
#include <time.h>
#include <unistd.h>
#include <sys/wait.h>
#include <signal.h>
#include <errno.h>
#include <new>
#include <atomic>
#include <algorithm>
#include <deque>
#include <stdexcept>
#include <system_error>
#include <cstring>
#include <chrono>
#include <condition_variable>
#include <functional>
#include <memory>
#include <mutex>
#include <thread>
#include <tbox/util/async_pipe.h>

// ---------------------------------------------------------------- perturbation by interposition
static std::atomic<uint64_t> g_seed{0};
static std::atomic<uint32_t> g_max_us{0};
static std::atomic<uint32_t> g_epoch{0};           // bumped by every `perturb`: threads re-seed
static std::atomic<int> g_producers_waiting{0};   // producers inside free_buffers_cv_.wait right now
static std::atomic<uint64_t> g_producer_waits{0};  // untimed cond waits by producer threads = back-pressure blocks
static thread_local int t_role = 0;                // 0 unknown (back end / others), 1..8 producer tid+1, 100 main, -1 never perturb
static thread_local uint64_t t_rng = 0;
static thread_local uint32_t t_epoch = 0xffffffff;
static thread_local bool t_busy = false;
// acquisition order (step-level tie of the ghost `acq` of C10_stream): every append made by the harness registers a
// record here; the interposed pthread_mutex_lock stamps it with a global sequence number when the FIRST mutex is
// obtained inside that append (= curr_buffer_mutex_ in the code as written).  M-class: a rewrite may lock differently.
struct AppRec { unsigned tid, seq; uint64_t acq; };
static std::atomic<uint64_t> g_gseq{0};
static thread_local AppRec *t_app = nullptr;
static std::atomic<bool> g_fail_thread_create{false};
static std::atomic<bool> g_in_init{false};           // inside AsyncPipe::initialize: count the threads it creates (M-class `threads=`)
static std::atomic<int> g_init_threads{0};   // `initfail thread`: the next pthread_create answers EAGAIN

// ---------------------------------------------------------------- step-level event log (round 6)
// Every mutex / condition-variable operation made on the pipe's four mutexes by the pipe's threads (producers inside an
// AsyncPipe call, the back-end thread, the thread inside cleanup()) is recorded with ONE relaxed counter (no happens-before
// edge is added: a race on an unsynchronised field stays visible to TSan).  The stamps are taken INSIDE the critical
// sections only: L right AFTER the mutex was acquired, U right BEFORE it is released, W before the wait releases it, X after
// the wait re-acquired it, T after a successful try_lock — two sections of one mutex never interleave in the log, and the log
// order of any two steps that conflict is their real order (they share a mutex or a thread: C10_lock_discipline).  The only
// events outside a section are the window of a try_lock (`p` before the call, `t` after a failed one) and `u` (after the
// producer mutex was really released); the replay (lean/TboxModel/C10/Replay.lean) treats them as windows.  N = notify.
struct EvRec { std::atomic<uint32_t> w{0}; std::atomic<uintptr_t> p{0}; };
static const size_t kMaxEv = 1u << 19;
static EvRec g_evs[kMaxEv];
static std::atomic<size_t> g_evn{0};
static std::atomic<int> g_evon{0};
static thread_local int t_evtid = -1;              // -1 not a pipe thread right now; 0..7 producer inside a pipe call; 8 nested append of the sink; 9 back end; 10 cleanup()
static thread_local void *t_cm = nullptr;          // first mutex locked inside the current pipe call of a producer (= the producer mutex)
static pthread_t g_backend_th;
static std::atomic<bool> g_backend_known{false};

static inline void ev(char kind, const void *ptr) {
    if (t_evtid < 0 || !g_evon.load(std::memory_order_relaxed)) return;
    size_t i = g_evn.fetch_add(1, std::memory_order_relaxed);
    if (i >= kMaxEv) return;
    g_evs[i].p.store((uintptr_t)ptr, std::memory_order_relaxed);
    g_evs[i].w.store(((uint32_t)(unsigned char)kind << 8) | (uint32_t)t_evtid, std::memory_order_relaxed);
}

static inline uint64_t next_rand() {
    uint32_t e = g_epoch.load(std::memory_order_relaxed);
    if (t_epoch != e) { t_epoch = e; t_rng = (g_seed.load(std::memory_order_relaxed) + 0x9E3779B97F4A7C15ULL * (uint64_t)(t_role + 17)) | 1; }
    t_rng ^= t_rng << 13; t_rng ^= t_rng >> 7; t_rng ^= t_rng << 17;   // xorshift64
    return t_rng;
}

static void maybe_delay() {
    uint32_t mx = g_max_us.load(std::memory_order_relaxed);
    if (mx == 0 || t_busy || t_role < 0) return;
    t_busy = true;
    uint64_t r = next_rand();
    if ((r & 3) == 0) {                                // one point in four sleeps
        uint64_t us = (r >> 8) % (mx + 1);
        struct timespec ts; ts.tv_sec = 0; ts.tv_nsec = (long)us * 1000;
        if (us) nanosleep(&ts, nullptr);
    } else if ((r & 3) == 1) {
        sched_yield();
    }
    t_busy = false;
}

template <typename F> static F real_fn(const char *name) {
    void *p = dlsym(RTLD_NEXT, name);
    if (!p) { fprintf(stderr, "harness: dlsym(%s) failed\n", name); _exit(4); }
    return (F)p;
}

struct ThreadStart { void *(*fn)(void *); void *arg; };
static void *backend_trampoline(void *a) {
    ThreadStart ts = *static_cast<ThreadStart *>(a);
    free(a);
    t_evtid = 9;                                       // the thread created by initialize() is the back end
    return ts.fn(ts.arg);
}

extern "C" {
int pthread_mutex_lock(pthread_mutex_t *m) {
    static auto real = real_fn<int (*)(pthread_mutex_t *)>("pthread_mutex_lock");
    maybe_delay();
    int r = real(m);
    if (r == 0) { ev('L', m); if (t_evtid >= 0 && t_evtid <= 8 && t_cm == nullptr) t_cm = m; }
    if (t_app && t_app->acq == 0 && r == 0) t_app->acq = g_gseq.fetch_add(1) + 1;
    return r;
}
int pthread_mutex_trylock(pthread_mutex_t *m) {
    static auto real = real_fn<int (*)(pthread_mutex_t *)>("pthread_mutex_trylock");
    maybe_delay();
    ev('p', m);
    int r = real(m);
    ev(r == 0 ? 'T' : 't', m);
    return r;
}
int pthread_create(pthread_t *th, const pthread_attr_t *attr, void *(*fn)(void *), void *arg) {
    static auto real = real_fn<int (*)(pthread_t *, const pthread_attr_t *, void *(*)(void *), void *)>("pthread_create");
    if (g_fail_thread_create.exchange(false)) return EAGAIN;
    if (g_in_init.load()) {
        g_init_threads.fetch_add(1);
        ThreadStart *ts = static_cast<ThreadStart *>(malloc(sizeof(ThreadStart)));
        ts->fn = fn; ts->arg = arg;
        int r = real(th, attr, backend_trampoline, ts);
        if (r != 0) free(ts); else { g_backend_th = *th; g_backend_known = true; }
        return r;
    }
    return real(th, attr, fn, arg);
}
int pthread_mutex_unlock(pthread_mutex_t *m) {
    static auto real = real_fn<int (*)(pthread_mutex_t *)>("pthread_mutex_unlock");
    ev('U', m);
    int r = real(m);
    if (t_cm == m && t_evtid >= 0 && t_evtid <= 8) ev('u', m);
    maybe_delay();
    return r;
}
int pthread_cond_wait(pthread_cond_t *c, pthread_mutex_t *m) {
    static auto real = real_fn<int (*)(pthread_cond_t *, pthread_mutex_t *)>("pthread_cond_wait");
    bool prod = (t_role >= 1 && t_role <= 8);
    if (prod) { g_producer_waits.fetch_add(1, std::memory_order_relaxed); g_producers_waiting.fetch_add(1); }
    maybe_delay();
    ev('W', m);
    int r = real(c, m);
    ev('X', m);
    if (prod) g_producers_waiting.fetch_sub(1);
    return r;
}
int pthread_cond_timedwait(pthread_cond_t *c, pthread_mutex_t *m, const struct timespec *t) {
    static auto real = real_fn<int (*)(pthread_cond_t *, pthread_mutex_t *, const struct timespec *)>("pthread_cond_timedwait");
    maybe_delay();
    ev('W', m);
    int r = real(c, m, t);
    ev('X', m);
    return r;
}
int pthread_cond_clockwait(pthread_cond_t *c, pthread_mutex_t *m, clockid_t clk, const struct timespec *t) {
    static auto real = real_fn<int (*)(pthread_cond_t *, pthread_mutex_t *, clockid_t, const struct timespec *)>("pthread_cond_clockwait");
    maybe_delay();
    ev('W', m);
    int r = real(c, m, clk, t);
    ev('X', m);
    return r;
}
int pthread_cond_broadcast(pthread_cond_t *c) {
    static auto real = real_fn<int (*)(pthread_cond_t *)>("pthread_cond_broadcast");
    ev('N', c);
    return real(c);
}
int pthread_cond_signal(pthread_cond_t *c) {
    static auto real = real_fn<int (*)(pthread_cond_t *)>("pthread_cond_signal");
    ev('N', c);
    return real(c);
}
}

// the event log of one lifecycle as one line: tokens <kind><mutex><thread>, mutex roles learnt from the log itself
// (C = first mutex a producer locks inside an append, F = first mutex the back end locks, R = the other mutex a producer
// locks while it holds only C, B = the fourth), thread 0..7 producer, 8 nested append of the sink, 9 back end, m cleanup()
static std::string event_line(bool enabled) {
    size_t n = g_evn.load();
    if (!enabled) return "E off";
    if (n > kMaxEv) return "E overflow";
    uintptr_t C = 0, F = 0, R = 0, B = 0;
    for (size_t i = 0; i < n; ++i) {
        uint32_t w = g_evs[i].w.load(std::memory_order_relaxed); uintptr_t p = g_evs[i].p.load(std::memory_order_relaxed);
        char k = (char)(w >> 8); int t = (int)(w & 255);
        if (k != 'L') continue;
        if (t == 9 && !F) F = p;
        if (t <= 8 && !C) C = p;
    }
    if (!C) for (size_t i = 0; i < n && !C; ++i) {       // no append at all: try_lock is only ever used on the producer mutex
        uint32_t w = g_evs[i].w.load(std::memory_order_relaxed);
        if ((char)(w >> 8) == 'p') C = g_evs[i].p.load(std::memory_order_relaxed);
    }
    for (size_t i = 0; i < n; ++i) {
        uint32_t w = g_evs[i].w.load(std::memory_order_relaxed); uintptr_t p = g_evs[i].p.load(std::memory_order_relaxed);
        char k = (char)(w >> 8); int t = (int)(w & 255);
        if (k == 'L' && t <= 8 && p != C && p != F && !R) R = p;
    }
    std::string s = "E";
    s.reserve(4 * n + 8);
    for (size_t i = 0; i < n; ++i) {
        uint32_t w = g_evs[i].w.load(std::memory_order_relaxed); uintptr_t p = g_evs[i].p.load(std::memory_order_relaxed);
        char k = (char)(w >> 8); int t = (int)(w & 255);
        char m;
        if (k == 'N') m = '-';
        else if (p == C) m = 'C'; else if (p == F) m = 'F'; else if (p == R) m = 'R';
        else { if (!B) B = p; if (p != B) return "E unknown-mutex"; m = 'B'; }
        s.push_back(' '); s.push_back(k); s.push_back(m); s.push_back(t == 10 ? 'm' : (char)('0' + t));
    }
    if (n == 0) s += " -";
    return s;
}

// ---------------------------------------------------------------- buffer allocations made observable (M-class)
// AsyncPipe's Buffer allocates its storage with `new uint8_t[cap]`: replacing the array forms of operator
// new/delete (malloc/free underneath, so the sanitizers still see every block) lets the harness count how many
// buffers of the configured size are alive — `buff_num_` itself is private.  Only array allocations of exactly
// g_track_size bytes made while a pipe is live are counted; nothing else in this process uses new[] of that size.
static std::atomic<size_t> g_track_size{0};
static std::atomic<long> g_live_bufs{0};
static std::atomic<long> g_peak_bufs{0};
static const int kSlots = 1024;
static std::atomic<void *> g_slots[kSlots];

static void track_alloc(void *p) {
    for (int i = 0; i < kSlots; ++i) {
        void *expect = nullptr;
        if (g_slots[i].load(std::memory_order_relaxed) == nullptr && g_slots[i].compare_exchange_strong(expect, p)) {
            long n = g_live_bufs.fetch_add(1) + 1;
            long pk = g_peak_bufs.load();
            while (n > pk && !g_peak_bufs.compare_exchange_weak(pk, n)) {}
            return;
        }
    }
}
static void track_free(void *p) {
    if (!p) return;
    for (int i = 0; i < kSlots; ++i) {
        void *expect = p;
        if (g_slots[i].load(std::memory_order_relaxed) == p && g_slots[i].compare_exchange_strong(expect, nullptr)) { g_live_bufs.fetch_sub(1); return; }
    }
}
// fault schedule (`allocfail k1,k2,..`): the listed ordinals of buffer-storage allocations (counted from the arming) throw
// std::bad_alloc, exactly what `new uint8_t[cap]` does when memory is exhausted
static std::atomic<long> g_alloc_ord{0};
static long g_fail_at[8];
static std::atomic<int> g_fail_n{0};
static std::atomic<long> g_alloc_failed{0};
void *operator new[](size_t n) {
    size_t t = g_track_size.load(std::memory_order_relaxed);
    if (t != 0 && n == t) {
        long ord = g_alloc_ord.fetch_add(1) + 1;
        int fn = g_fail_n.load(std::memory_order_acquire);
        for (int i = 0; i < fn; ++i) if (g_fail_at[i] == ord) { g_alloc_failed.fetch_add(1); throw std::bad_alloc(); }
    }
    void *p = malloc(n ? n : 1);
    if (!p) throw std::bad_alloc();
    if (t != 0 && n == t) track_alloc(p);
    return p;
}
void operator delete[](void *p) noexcept { if (g_track_size.load(std::memory_order_relaxed) != 0) track_free(p); free(p); }
void operator delete[](void *p, size_t) noexcept { if (g_track_size.load(std::memory_order_relaxed) != 0) track_free(p); free(p); }

// ---------------------------------------------------------------- records (same format as the driver)
static inline uint8_t payload_byte(unsigned tid, unsigned seq, uint64_t i) { return (uint8_t)(((uint64_t)tid * 37u + (uint64_t)seq * 11u + i * 7u + 3u) % 251u); }
static inline uint8_t header_byte(unsigned tid, unsigned seq, uint64_t len, unsigned k) {
    switch (k) { case 0: return (uint8_t)(0xA0 + tid); case 1: return (uint8_t)(seq / 256); case 2: return (uint8_t)(seq % 256);
                 case 3: return (uint8_t)(len / 256); default: return (uint8_t)(len % 256); }
}

static std::vector<uint8_t> record_bytes(unsigned tid, unsigned seq, uint64_t len) {
    std::vector<uint8_t> r(len + 5);
    for (unsigned k = 0; k < 5; ++k) r[k] = header_byte(tid, seq, len, k);
    uint64_t first = len < 251 ? len : 251;                     // the payload has period 251
    for (uint64_t i = 0; i < first; ++i) r[5 + i] = payload_byte(tid, seq, i);
    for (uint64_t have = first; have < len;) {                  // `have` is a multiple of 251 here: copying from the start keeps the phase
        uint64_t n = have < len - have ? have : len - have;
        memcpy(&r[5 + have], &r[5], n); have += n;
    }
    return r;
}

struct Tok { char kind; unsigned len; };   // 'a' append, 'g' grouped (lock + 2 lockless + unlock), 'z' zero-size append

static const uint64_t kMaxTok = 200000;

static bool parse_toks(const std::string &w, std::vector<Tok> &out) {
    out.clear();
    size_t pos = 0;
    for (;;) {
        size_t c = w.find(',', pos);
        std::string t = w.substr(pos, c == std::string::npos ? std::string::npos : c - pos);
        Tok k; uint64_t n;
        if (t == "z") { k.kind = 'z'; k.len = 0; }
        else if (!t.empty() && t[0] == 'g') { if (!vh::to_u64(t.substr(1), n) || n > kMaxTok) return false; k.kind = 'g'; k.len = (unsigned)n; }
        else { if (!vh::to_u64(t, n) || n > kMaxTok) return false; k.kind = 'a'; k.len = (unsigned)n; }
        out.push_back(k);
        if (c == std::string::npos) break;
        pos = c + 1;
    }
    return true;
}

// ---------------------------------------------------------------- one pipe lifecycle
struct Expect { unsigned tid, seq; uint64_t len; };
struct Sink {
    std::vector<uint8_t> stream;
    std::vector<size_t> lens;
    std::atomic<int> inside{0};
    std::atomic<bool> overlap{false};
    std::atomic<bool> gate_closed{false};      // `fillhold`: the back end is held inside the callback
    std::atomic<bool> held{false};             // the back end is waiting at the closed gate right now
    uint32_t sink_us = 0;
    // `echo` script: re-entrant use — the callback appends a record (pseudo-producer 8) to the SAME pipe
    std::atomic<int> echo_mode{0};             // 0 never, 1 every n-th block, 2 every block shorter than a buffer (timed flush)
    std::atomic<unsigned> echo_n{1}, echo_len{0};
    unsigned echo_seq = 0;
    size_t buff_size = 0;
    std::atomic<bool> echo_stop{false};        // set before cleanup(): no nested append may start any more
    std::atomic<int> in_echo{0};
    std::vector<size_t> echo_blocks;           // ordinal of the block whose callback made each nested append
    // `compact` lifecycle (sizes around 2^24 / 2^31): appends are made one at a time (`big`), so the expected stream is the
    // records in program order; the sink compares every block with it on the fly and keeps no copy
    std::atomic<bool> compact{false};
    std::mutex xm; std::vector<Expect> expect;
    size_t xrec = 0; uint64_t xoff = 0, total = 0, firstbad = 0; bool match = true;
};

static void compact_verify(Sink *s, const uint8_t *q, size_t n) {
    size_t i = 0;
    while (i < n) {
        Expect e;
        { std::lock_guard<std::mutex> lg(s->xm);
          if (s->xrec >= s->expect.size()) { if (s->match) { s->match = false; s->firstbad = s->total + i; } break; }
          e = s->expect[s->xrec]; }
        uint64_t rl = e.len + 5;
        while (i < n && s->xoff < rl) {
            if (s->xoff < 5) {
                if (q[i] != header_byte(e.tid, e.seq, e.len, (unsigned)s->xoff) && s->match) { s->match = false; s->firstbad = s->total + i; }
                ++i; ++s->xoff;
            } else {
                static uint8_t pat[251 * 64]; static unsigned pt = ~0u, ps = ~0u;
                if (pt != e.tid || ps != e.seq) { for (unsigned k = 0; k < sizeof pat; ++k) pat[k] = payload_byte(e.tid, e.seq, k); pt = e.tid; ps = e.seq; }
                uint64_t po = s->xoff - 5, ph = po % 251;
                uint64_t m = n - i; if (m > rl - s->xoff) m = rl - s->xoff; if (m > sizeof pat - ph) m = sizeof pat - ph;
                if (memcmp(q + i, pat + ph, m) != 0 && s->match) { s->match = false; s->firstbad = s->total + i; }
                i += m; s->xoff += m;
            }
        }
        if (s->xoff >= rl) { ++s->xrec; s->xoff = 0; }
    }
    s->total += n;
}

struct Prod { unsigned tid; unsigned pace_us; std::vector<Tok> toks; };

static tbox::util::AsyncPipe *g_pipe = nullptr;
static bool g_evlog = false;                        // the step log of the current lifecycle is complete (not switched off)
static bool g_live = false;
static bool g_appended_any = false;
static Sink *g_sink = nullptr;
static std::vector<Prod> g_declared;
static unsigned g_seq[8];
static uint32_t g_sink_us = 0;
static std::mutex g_rec_m;
static std::deque<AppRec> g_recs;                                // every traced append of this lifecycle
static std::vector<std::pair<unsigned, unsigned>> g_aborted;     // appends that reported std::bad_alloc to their caller

// one append (or one lock + 2 lockless + unlock group), with its acquisition stamp and its outcome
static void do_append(unsigned tid, unsigned seq, char kind, const std::vector<uint8_t> &r0) {
    // memory placement (lesson c): the bytes are handed over from a heap block of exactly off + n bytes, starting at offset
    // off = (tid + seq) % 8 — every alignment of the start pointer, the end flush against the block's end (ASan redzone)
    struct View { std::unique_ptr<uint8_t[]> blk; const uint8_t *p; size_t n; const uint8_t *data() const { return p; } size_t size() const { return n; } } r;
    size_t off = r0.size() <= (1u << 20) ? (tid + seq) % 8 : 0;
    if (off) { r.blk.reset(static_cast<uint8_t *>(::operator new[](off + r0.size() + (g_track_size.load() == off + r0.size() ? 1 : 0))));
               memcpy(r.blk.get() + off, r0.data(), r0.size()); r.p = r.blk.get() + off; }
    else r.p = r0.data();
    r.n = r0.size();
    AppRec *rec;
    { std::lock_guard<std::mutex> lg(g_rec_m); g_recs.push_back(AppRec{tid, seq, 0}); rec = &g_recs.back(); }
    t_app = rec;
    int saved_evtid = t_evtid;
    t_cm = nullptr; t_evtid = (int)tid;
    try {
        if (kind == 'g') {
            size_t h = r.size() / 2;
            g_pipe->appendLock();
            try {
                g_pipe->appendLockless(r.data(), h);
                g_pipe->appendLockless(r.data() + h, r.size() - h);
            } catch (...) { g_pipe->appendUnlock(); throw; }
            g_pipe->appendUnlock();
        } else {
            g_pipe->append(r.data(), r.size());
        }
        t_app = nullptr; t_evtid = saved_evtid;
    } catch (const std::bad_alloc &) {
        t_app = nullptr; t_evtid = saved_evtid;
        std::lock_guard<std::mutex> lg(g_rec_m);
        g_aborted.push_back(std::make_pair(tid, seq));
    }
}

// lesson (g), state-derived input: the sink appends EXACTLY THE BLOCK IT WAS GIVEN back to the same pipe — the same size (a whole
// buffer when the block came from a full buffer) and, from byte 3 on, the very bytes of the pipe's own buffer that is being
// delivered (source pointer inside a buffer the pipe owns); the first three bytes are replaced by the tag of pseudo-producer 8
// and a sequence number so that the specification can still tell the appends apart (lock + 2 lockless appends + unlock).
static void do_append_same(unsigned seq, const uint8_t *blk, size_t n) {
    uint8_t hdr[3] = {(uint8_t)0xA8, (uint8_t)(seq / 256), (uint8_t)(seq % 256)};
    AppRec *rec;
    { std::lock_guard<std::mutex> lg(g_rec_m); g_recs.push_back(AppRec{8, seq, 0}); rec = &g_recs.back(); }
    t_app = rec;
    int saved_evtid = t_evtid;
    t_cm = nullptr; t_evtid = 8;
    try {
        g_pipe->appendLock();
        try {
            g_pipe->appendLockless(hdr, 3);
            g_pipe->appendLockless(blk + 3, n - 3);
        } catch (...) { g_pipe->appendUnlock(); throw; }
        g_pipe->appendUnlock();
        t_app = nullptr; t_evtid = saved_evtid;
    } catch (const std::bad_alloc &) {
        t_app = nullptr; t_evtid = saved_evtid;
        std::lock_guard<std::mutex> lg(g_rec_m);
        g_aborted.push_back(std::make_pair(8u, seq));
    }
}

// lesson 4 (signals): a REAL handled signal (SIGUSR1, handler installed without SA_RESTART) delivered to the back-end thread
// while it sits in its timed wait — and to producers inside free_buffers_cv_.wait — must change nothing
static std::atomic<unsigned long> g_sig_seen{0};
static void on_sigusr1(int) { g_sig_seen.fetch_add(1, std::memory_order_relaxed); }
static std::atomic<unsigned> g_sigrun_k{0}, g_sigrun_gap{0};
static pthread_t g_prod_th[8];
static std::atomic<int> g_prod_state[8];           // 0 none, 1 running (pthread_t valid, not yet joined)

static unsigned watchdog_ms() {
    const char *e = getenv("C10_WATCHDOG_MS");
    return e ? (unsigned)atoi(e) : 5000u;
}

// a watchdog: if the guarded call does not return in time the outcome is printed and the process ends
// (vlib records `CRASH exit:3` for the case) — a blocked thread cannot be cancelled.
struct Watchdog {
    std::mutex m; std::condition_variable cv; bool done = false; std::thread th;
    Watchdog(const char *what, unsigned ms, bool announce) {
        th = std::thread([this, what, ms, announce] {
            t_role = -1;
            std::unique_lock<std::mutex> lk(m);
            // time is counted in 100 ms slices and a slice only counts when this thread was woken on time:
            // a stall of the whole machine (overloaded sandbox) is not mistaken for a blocked pipe
            unsigned counted = 0;
            while (!done && counted * 100 < ms) {
                auto t0 = std::chrono::steady_clock::now();
                if (cv.wait_for(lk, std::chrono::milliseconds(100), [this] { return done; })) break;
                auto dt = std::chrono::duration_cast<std::chrono::milliseconds>(std::chrono::steady_clock::now() - t0).count();
                if (dt < 300) ++counted;
            }
            if (!done) {
                if (announce) { std::cout << "P " << what << " timeout\n"; std::cout.flush(); }
                _exit(3);
            }
        });
    }
    ~Watchdog() {
        { std::lock_guard<std::mutex> lg(m); done = true; }
        cv.notify_all();
        th.join();
    }
};

static void quiesce_sink() {
    if (g_sink) {   // cleanup begins at a quiescent point: no nested append in flight, none may start (they would be `late`)
        g_sink->echo_stop.store(true, std::memory_order_release);
        while (g_sink->in_echo.load() != 0) usleep(200);
    }
}

static bool guarded_cleanup(bool announce) {
    Watchdog wd("cleanup", watchdog_ms(), announce);
    quiesce_sink();
    t_evtid = 10;
    g_pipe->cleanup();
    t_evtid = -1;
    return true;
}

static void drop_pipe() {
    if (g_pipe) {
        if (g_live) guarded_cleanup(false);
        g_track_size = 0;
        delete g_pipe; g_pipe = nullptr;
    }
    delete g_sink; g_sink = nullptr;
    g_live = false; g_declared.clear();
    g_max_us = 0; g_sink_us = 0; g_fail_n = 0;
    g_evon = 0; g_evlog = false; g_evn = 0; g_backend_known = false; g_sigrun_k = 0;
    g_recs.clear(); g_aborted.clear();
}

static void producer_main(const Prod &p, unsigned first_seq, std::atomic<bool> &go) {
    t_role = (int)p.tid + 1;
    g_prod_th[p.tid] = pthread_self();
    g_prod_state[p.tid].store(1, std::memory_order_release);
    while (!go.load(std::memory_order_acquire)) std::this_thread::yield();
    unsigned seq = first_seq;
    for (const Tok &k : p.toks) {
        if (k.kind == 'z') {
            uint8_t dummy = 0;
            t_cm = nullptr; t_evtid = (int)p.tid;
            g_pipe->append((seq & 1) ? nullptr : &dummy, 0);     // size 0: the pointer is never looked at, nullptr included
            t_evtid = -1;
        } else {
            std::vector<uint8_t> r = record_bytes(p.tid, seq, k.len);
            do_append(p.tid, seq, k.kind, r);
            ++seq;
        }
        if (p.pace_us) usleep(p.pace_us);
    }
}

// ---------------------------------------------------------------- documented experiments (M-class, never judged)
// Uses OUTSIDE the property statement, each run in a forked child (fresh pipe object, its own sanitizer verdict) so that
// whatever the real code does is only DOCUMENTED as a tag.  The parent has no other thread alive here.
//   late       an append racing with cleanup() (the statement speaks of what was appended before cleanup began)
//   lockless   two threads call appendLockless() WITHOUT appendLock(): the documented contract is broken
//   cbthrow    the sink callback throws
//   cbcleanup  the sink callback calls cleanup() on its own pipe (the back end would join itself)
static bool stream_intact(const std::vector<uint8_t> &st, unsigned nthreads, unsigned nrec, uint64_t len) {
    unsigned next[8] = {0};
    size_t pos = 0;
    while (pos < st.size()) {
        unsigned tid = (unsigned)st[pos] - 0xA0;
        if (st[pos] < 0xA0 || tid >= nthreads || next[tid] >= nrec) return false;
        std::vector<uint8_t> r = record_bytes(tid, next[tid], len);
        if (st.size() - pos < r.size() || memcmp(&st[pos], r.data(), r.size()) != 0) return false;
        pos += r.size(); ++next[tid];
    }
    for (unsigned t = 0; t < nthreads; ++t) if (next[t] != nrec) return false;
    return true;
}

static const char *experiment(const std::string &kind, size_t size, size_t maxn, unsigned nrec) {
    pid_t pid = fork();
    if (pid < 0) return "fork-failed";
    if (pid == 0) {
        g_max_us = 0;
        tbox::util::AsyncPipe pipe;
        tbox::util::AsyncPipe::Config cfg; cfg.buff_size = size; cfg.buff_min_num = 1; cfg.buff_max_num = maxn; cfg.interval = 1;
        if (!pipe.initialize(cfg)) _exit(29);
        std::atomic<bool> cleaned{false}, finished{false};
        std::thread wd([&] { t_role = -1; for (int i = 0; i < 150 && !(cleaned.load() && finished.load()); ++i) usleep(10000);
                             if (!cleaned.load()) _exit(23); if (!finished.load()) _exit(22); });
        if (kind == "late") {
            std::atomic<size_t> delivered{0};
            pipe.setCallback([&](const void *, size_t n) { delivered += n; usleep(300); });
            std::atomic<bool> started{false};
            size_t appended = 0;
            std::thread th([&] {
                t_role = 1;
                for (unsigned i = 0; i < nrec; ++i) {
                    std::vector<uint8_t> r = record_bytes(0, i, 3 * size);
                    started.store(true);
                    pipe.append(r.data(), r.size());
                    appended += r.size();
                }
                finished.store(true, std::memory_order_release);
            });
            while (!started.load()) std::this_thread::yield();
            usleep(1500);
            pipe.cleanup();
            cleaned.store(true);
            wd.join();
            th.join();
            _exit(delivered.load() == appended ? 20 : 21);
        } else if (kind == "lockless") {
            std::vector<uint8_t> st;
            pipe.setCallback([&](const void *p, size_t n) { const uint8_t *q = static_cast<const uint8_t *>(p); st.insert(st.end(), q, q + n); });
            std::atomic<bool> go{false};
            auto body = [&](unsigned tid) {
                t_role = (int)tid + 1;
                while (!go.load()) std::this_thread::yield();
                for (unsigned i = 0; i < nrec; ++i) { std::vector<uint8_t> r = record_bytes(tid, i, 3 * size); pipe.appendLockless(r.data(), r.size()); }
            };
            std::thread a(body, 0u), b(body, 1u);
            go.store(true);
            a.join(); b.join();
            finished.store(true);
            pipe.cleanup();
            cleaned.store(true);
            wd.join();
            _exit(stream_intact(st, 2, nrec, 3 * size) ? 20 : 24);
        } else if (kind == "cbthrow") {
            pipe.setCallback([&](const void *, size_t) { throw std::runtime_error("sink failed"); });
            std::vector<uint8_t> r = record_bytes(0, 0, 3 * size);
            pipe.append(r.data(), r.size());
            finished.store(true);
            pipe.cleanup();
            cleaned.store(true);
            wd.join();
            _exit(25);
        } else {   // cbcleanup
            std::atomic<int> calls{0};
            pipe.setCallback([&](const void *, size_t) { if (calls.fetch_add(1) == 0) pipe.cleanup(); });
            std::vector<uint8_t> r = record_bytes(0, 0, size);
            pipe.append(r.data(), r.size());
            finished.store(true);
            usleep(20000);
            pipe.cleanup();
            cleaned.store(true);
            wd.join();
            _exit(26);
        }
    }
    int st = 0;
    if (waitpid(pid, &st, 0) < 0) return "wait-failed";
    if (WIFSIGNALED(st)) return WTERMSIG(st) == SIGABRT ? "abort" : "signal";
    switch (WEXITSTATUS(st)) {
        case 20: return "all-delivered";
        case 21: return "data-lost";
        case 22: return "producer-blocked";
        case 23: return "cleanup-blocked";
        case 24: return "torn";
        case 25: return "exception-swallowed";
        case 26: return "returned";
        case 97: case 98: case 99: return "sanitizer-report";
        default: return "other";
    }
}

static bool in_range(const std::string &w, uint64_t hi, uint64_t &v) { return w.size() <= 18 && vh::to_u64(w, v) && v <= hi; }

static const uint64_t kMaxSize = 8589934592ull;        // 2^33
static const uint64_t kMaxInterval = 4294967297ull;    // 2^32 + 1 ms

static std::string rle(const std::vector<size_t> &v) {
    std::string s;
    for (size_t i = 0; i < v.size();) {
        size_t j = i; while (j < v.size() && v[j] == v[i]) ++j;
        if (!s.empty()) s.push_back(',');
        s += std::to_string(v[i]);
        if (j - i > 1) { s.push_back('*'); s += std::to_string(j - i); }
        i = j;
    }
    return s.empty() ? "-" : s;
}

static void install_sink() {
    Sink *s = g_sink;
    g_pipe->setCallback([s](const void *p, size_t n) {
        t_evtid = -1;                                    // harness code runs here; only the nested append below is a pipe call
        if (s->inside.fetch_add(1) != 0) s->overlap = true;
        s->lens.push_back(n);
        const uint8_t *q = static_cast<const uint8_t *>(p);
        if (s->compact.load(std::memory_order_acquire)) compact_verify(s, q, n);
        else s->stream.insert(s->stream.end(), q, q + n);
        if (s->echo_mode != 0 && !s->echo_stop.load(std::memory_order_acquire) && s->echo_seq < 40) {
            size_t ord = s->lens.size() - 1;
            int md = s->echo_mode.load();
            bool fire = md == 1 ? (ord % s->echo_n.load() == 0) : md == 3 ? (ord % s->echo_n.load() == 0 && n >= 3) : (n < s->buff_size);
            if (fire) {
                s->in_echo.fetch_add(1);
                if (!s->echo_stop.load(std::memory_order_acquire)) {
                    if (md == 3) do_append_same(s->echo_seq, q, n);      // exactly the block it was given
                    else {
                    std::vector<uint8_t> r = record_bytes(8, s->echo_seq, s->echo_len.load());
                    do_append(8, s->echo_seq, 'a', r);               // nested append from inside the sink callback
                    }
                    s->echo_blocks.push_back(ord);
                    ++s->echo_seq;
                }
                s->in_echo.fetch_sub(1);
            }
        }
        if (s->sink_us) usleep(s->sink_us);
        while (s->gate_closed.load(std::memory_order_acquire)) { s->held.store(true); usleep(200); }
        s->held.store(false);
        maybe_delay();
        s->inside.fetch_sub(1);
        t_evtid = 9;
    });
}

// the observables of one finished lifecycle (after cleanup() or after the destructor)
static void print_lifecycle(const char *first) {
    g_track_size = 0; g_fail_n = 0;
    g_live = false; g_declared.clear();
    std::cout << first << "\n";
    if (g_sink->compact.load()) {
        std::cout << "K " << rle(g_sink->lens) << "\n";
        std::cout << "S compact total=" << g_sink->total << " match=" << ((g_sink->match && g_sink->xoff == 0 && g_sink->xrec == g_sink->expect.size()) ? 1 : 0) << "\n";
    } else {
        std::string ks;
        for (size_t i = 0; i < g_sink->lens.size(); ++i) { if (i) ks.push_back(','); ks += std::to_string(g_sink->lens[i]); }
        std::cout << "K " << (ks.empty() ? "-" : ks) << "\n";
        std::cout << "S " << vh::hex(g_sink->stream) << "\n";
    }
    std::cout << "P cb overlap=" << (g_sink->overlap.load() ? 1 : 0) << "\n";
    std::cout << "I bp=" << g_producer_waits.load() << " peak=" << g_peak_bufs.load() << " threads=" << g_init_threads.load() << "\n";
    std::string ns;
    for (size_t i = 0; i < g_sink->echo_blocks.size(); ++i) { if (i) ns.push_back(','); ns += std::to_string(g_sink->echo_blocks[i]); }
    std::cout << "N " << (ns.empty() ? "-" : ns) << "\n";
    std::string as;
    for (auto &x : g_aborted) { if (!as.empty()) as.push_back(','); as += std::to_string(x.first) + ":" + std::to_string(x.second); }
    std::cout << "A " << (as.empty() ? "-" : as) << "\n";
    std::vector<AppRec> q(g_recs.begin(), g_recs.end());
    std::sort(q.begin(), q.end(), [](const AppRec &x, const AppRec &y) { return x.acq < y.acq; });
    std::string qs;
    for (auto &x : q) { if (x.acq == 0) continue; if (!qs.empty()) qs.push_back(','); qs += std::to_string(x.tid) + ":" + std::to_string(x.seq); }
    std::cout << "Q " << (qs.empty() ? "-" : qs) << "\n";
    g_evon = 0; g_backend_known = false; g_sigrun_k = 0;
    std::cout << event_line(g_evlog) << "\n";
    g_evlog = false; g_evn = 0;
    g_recs.clear(); g_aborted.clear();
}

int main() {
    std::ios::sync_with_stdio(false);
    t_role = 100;
    { struct sigaction sa; memset(&sa, 0, sizeof sa); sa.sa_handler = on_sigusr1; sigemptyset(&sa.sa_mask); sa.sa_flags = 0; sigaction(SIGUSR1, &sa, nullptr); }
    std::string line;
    while (std::getline(std::cin, line)) {
        auto w = vh::words(line);
        if (w.empty()) continue;
        if (w[0] == "case") { drop_pipe(); std::cout << line << "\n"; std::cout.flush(); continue; }
        uint64_t a, b, c, d, k;
        if (w[0] == "init" && w.size() == 5 && in_range(w[1], kMaxSize, a) && in_range(w[2], 64, b) && in_range(w[3], 64, c) &&
            in_range(w[4], kMaxInterval, d) && !g_live) {
            if (!g_pipe) g_pipe = new tbox::util::AsyncPipe;
            tbox::util::AsyncPipe::Config cfg;
            cfg.buff_size = a; cfg.buff_min_num = b; cfg.buff_max_num = c; cfg.interval = d;
            g_live_bufs = 0; g_peak_bufs = 0; g_fail_n = 0;
            for (auto &sl : g_slots) sl.store(nullptr);
            g_track_size = (size_t)a;
            g_init_threads = 0; g_in_init = true;
            g_evn = 0; g_evon = 1; g_evlog = true;
            bool ok = g_pipe->initialize(cfg);
            g_in_init = false;
            if (!ok) { g_track_size = 0; g_evon = 0; g_evlog = false; }
            if (ok) {
                delete g_sink; g_sink = new Sink; g_sink->sink_us = g_sink_us; g_sink->buff_size = (size_t)a;
                install_sink();
                g_live = true; g_appended_any = false; g_declared.clear(); g_producer_waits = 0;
                g_recs.clear(); g_aborted.clear();
                for (auto &x : g_seq) x = 0;
            }
            std::cout << "P init " << (ok ? 1 : 0) << "\n";
        } else if (w[0] == "initfail" && (w.size() == 6 || w.size() == 7) && (w[1] == "thread" || w[1] == "alloc") &&
                   (w[1] == "thread" ? w.size() == 6 : (w.size() == 7 && in_range(w[2], 64, k))) && !g_live &&
                   in_range(w[w.size() - 4], 4096, a) && in_range(w[w.size() - 3], 64, b) && in_range(w[w.size() - 2], 64, c) &&
                   in_range(w[w.size() - 1], 1000, d) && (w[1] == "thread" || (k >= 1 && k <= b))) {
            // fault schedule for initialize(): the thread cannot be created / the k-th of the buff_min_num buffers cannot be allocated
            if (!g_pipe) g_pipe = new tbox::util::AsyncPipe;
            tbox::util::AsyncPipe::Config cfg;
            cfg.buff_size = a; cfg.buff_min_num = b; cfg.buff_max_num = c; cfg.interval = d;
            const char *res = "0";
            g_live_bufs = 0; g_peak_bufs = 0;
            for (auto &sl : g_slots) sl.store(nullptr);
            if (w[1] == "thread") g_fail_thread_create = true;
            else { g_track_size = (size_t)a; g_alloc_ord = 0; g_fail_at[0] = (long)k; g_fail_n = 1; }
            try {
                bool ok = g_pipe->initialize(cfg);
                if (ok) { g_pipe->cleanup(); res = "1"; }
            } catch (const std::system_error &) { res = "threw";
            } catch (const std::bad_alloc &) { res = "threw"; }
            g_fail_thread_create = false; g_fail_n = 0; g_track_size = 0;
            std::cout << "P init " << res << "\n";
        } else if (w[0] == "reinit" && w.size() == 5 && in_range(w[1], 4096, a) && in_range(w[2], 64, b) && in_range(w[3], 64, c) &&
                   in_range(w[4], 1000, d) && g_live) {
            // initialize() on a pipe that is already running: must be refused, the running lifecycle unaffected
            tbox::util::AsyncPipe::Config cfg;
            cfg.buff_size = a; cfg.buff_min_num = b; cfg.buff_max_num = c; cfg.interval = d;
            bool ok = g_pipe->initialize(cfg);
            std::cout << "P reinit " << (ok ? 1 : 0) << "\n";
        } else if (w[0] == "perturb" && w.size() == 4 && in_range(w[1], 1000000000, a) && in_range(w[2], 5000, b) && in_range(w[3], 5000, c)) {
            g_seed = a; g_epoch.fetch_add(1); g_max_us = (uint32_t)b; g_sink_us = (uint32_t)c;
            if (g_sink) g_sink->sink_us = g_sink_us;   // read by the back end only inside callbacks; set between runs
            std::cout << "P perturb\n";
        } else if (w[0] == "echo" && w.size() == 4 && in_range(w[2], 1000, a) && in_range(w[3], 2000, b) && g_live &&
                   a >= 1 && (w[1] == "every" || w[1] == "partial" || w[1] == "never" || w[1] == "same")) {
            if (g_sink->echo_mode != 0) { std::cout << "bad-op\n"; std::cout.flush(); continue; }
            // written while the back end may be delivering: only before any block exists in this phase in generated cases;
            // the fields are read by the back end inside callbacks => publish through the producer-side mutexes is not
            // available here, so the script is only accepted while nothing has been delivered yet in this lifecycle
            g_sink->echo_n = (unsigned)a; g_sink->echo_len = (unsigned)b;
            g_sink->echo_mode = w[1] == "every" ? 1 : (w[1] == "partial" ? 2 : (w[1] == "same" ? 3 : 0));
            std::cout << "P echo\n";
        } else if (w[0] == "unsetcb" && w.size() == 1 && g_live && !g_appended_any) {
            g_pipe->setCallback(nullptr);                    // no sink: blocks are recycled without being handed to anyone
            std::cout << "P unsetcb\n";
        } else if (w[0] == "setcb" && w.size() == 1 && g_live && !g_appended_any) {
            install_sink();                                   // setCallback again (replaces the callback before any append)
            std::cout << "P setcb\n";
        } else if (w[0] == "compact" && w.size() == 1 && g_live && !g_appended_any && g_sink->echo_mode == 0) {
            g_sink->compact.store(true, std::memory_order_release);
            g_evon = 0; g_evlog = false;                      // huge lifecycles: no step log (the replay works on byte lists)
            std::cout << "P compact\n";
        } else if (w[0] == "allocfail" && w.size() == 2 && g_live) {
            long ks[8]; int n = 0; bool okl = true; size_t pos = 0;
            for (;;) {
                size_t cpos = w[1].find(',', pos);
                uint64_t v;
                if (n >= 8 || !in_range(w[1].substr(pos, cpos == std::string::npos ? std::string::npos : cpos - pos), 100000, v) || v < 1) { okl = false; break; }
                ks[n++] = (long)v;
                if (cpos == std::string::npos) break;
                pos = cpos + 1;
            }
            if (!okl) { std::cout << "bad-op\n"; std::cout.flush(); continue; }
            g_fail_n = 0; g_alloc_ord = 0;
            for (int i = 0; i < n; ++i) g_fail_at[i] = ks[i];
            g_fail_n.store(n, std::memory_order_release);
            std::cout << "P allocfail\n";
        } else if (w[0] == "prod" && w.size() == 4 && in_range(w[1], 7, a) && in_range(w[2], 5000, b) && g_live && !g_sink->compact.load()) {
            Prod p; p.tid = (unsigned)a; p.pace_us = (unsigned)b;
            bool dup = false;
            for (auto &q : g_declared) if (q.tid == p.tid) dup = true;
            if (dup || !parse_toks(w[3], p.toks) || p.toks.size() > 2000) { std::cout << "bad-op\n"; continue; }
            g_declared.push_back(p);
            std::cout << "P prod\n";
        } else if (w[0] == "run" && w.size() == 1 && g_live && !g_sink->compact.load()) {
            Watchdog wd("run", 3 * watchdog_ms(), true);     // producers stuck in back-pressure for ever
            std::atomic<bool> go{false};
            std::vector<std::thread> ths;
            if (!g_declared.empty()) g_appended_any = true;
            std::atomic<unsigned> finished{0};
            for (auto &p : g_declared) ths.emplace_back([&p, &go, &finished] { producer_main(p, g_seq[p.tid], go); finished.fetch_add(1); });
            go.store(true, std::memory_order_release);
            unsigned sk = g_sigrun_k.exchange(0), sgap = g_sigrun_gap.load();
            if (sk) {
                // signal storm during the run: the back end (in its timed wait, in the sink, between regions) and every producer
                // (inside free_buffers_cv_.wait when back-pressure holds it).  Threads are only signalled before they are joined.
                for (unsigned i = 0; i < sk && finished.load() < ths.size(); ++i) {
                    if (g_backend_known.load()) pthread_kill(g_backend_th, SIGUSR1);
                    for (int t = 0; t < 8; ++t) if (g_prod_state[t].load(std::memory_order_acquire) == 1) pthread_kill(g_prod_th[t], SIGUSR1);
                    usleep(sgap);
                }
            }
            for (auto &t : ths) t.join();
            for (auto &st : g_prod_state) st.store(0);
            for (auto &p : g_declared) for (auto &k2 : p.toks) if (k2.kind != 'z') ++g_seq[p.tid];
            g_declared.clear();
            std::cout << "P run\n";
        } else if (w[0] == "big" && w.size() == 3 && in_range(w[1], 7, a) && in_range(w[2], kMaxSize, b) && g_live && g_sink->compact.load()) {
            // one append of a (possibly huge) record, alone: the sink verifies the stream on the fly
            Watchdog wd("big", 12 * watchdog_ms(), true);
            g_appended_any = true;
            unsigned tid = (unsigned)a, seq = g_seq[tid];
            { std::lock_guard<std::mutex> lg(g_sink->xm); g_sink->expect.push_back(Expect{tid, seq, b}); }
            std::thread th([&] { t_role = (int)tid + 1; std::vector<uint8_t> r = record_bytes(tid, seq, b); do_append(tid, seq, 'a', r); });
            th.join();
            ++g_seq[tid];
            std::cout << "P big\n";
        } else if (w[0] == "fillhold" && w.size() == 3 && in_range(w[1], 7, a) && in_range(w[2], 20000, b) && g_live && !g_sink->compact.load()) {
            bool dup = false;
            for (auto &q : g_declared) if (q.tid == a) dup = true;
            if (dup) { std::cout << "bad-op\n"; std::cout.flush(); continue; }
            Watchdog wd("fillhold", 3 * watchdog_ms(), true);
            g_appended_any = true;
            g_sink->gate_closed.store(true, std::memory_order_release);
            std::atomic<bool> go{true}, finished{false};
            Prod p; p.tid = (unsigned)a; p.pace_us = 0; p.toks.push_back(Tok{'a', (unsigned)b});
            unsigned seq0 = g_seq[p.tid];
            std::thread th([&] { producer_main(p, seq0, go); finished.store(true, std::memory_order_release); });
            // quiescent point: the producer is INSIDE free_buffers_cv_.wait (it found buff_num_ at the limit) and the back
            // end is held inside the sink (it cannot recycle or delete): sample twice around reading the live count
            int blocked = 0; long live = 0;
            for (int i = 0; i < 2000 && !blocked; ++i) {            // up to ~2 s
                if (finished.load(std::memory_order_acquire)) break;
                if (g_producers_waiting.load() == 1 && g_sink->held.load()) {
                    usleep(5000);
                    if (g_producers_waiting.load() == 1 && g_sink->held.load() && !finished.load()) {
                        live = g_live_bufs.load();
                        if (g_producers_waiting.load() == 1 && g_sink->held.load()) blocked = 1;
                    }
                }
                if (!blocked) usleep(1000);
            }
            if (!blocked) live = g_live_bufs.load();
            std::cout << "M held live=" << live << " blocked=" << blocked << "\n";
            g_sink->gate_closed.store(false, std::memory_order_release);
            th.join();
            g_prod_state[p.tid].store(0);
            ++g_seq[p.tid];
            std::cout << "P fillhold\n";
        } else if (w[0] == "late" && w.size() == 4 && in_range(w[1], 4096, a) && in_range(w[2], 64, b) && in_range(w[3], 200, c) &&
                   a >= 1 && b >= 1 && !g_live) {
            std::cout.flush();
            std::cout << "M late outcome=" << experiment("late", (size_t)a, (size_t)b, (unsigned)c) << "\n";
        } else if (w[0] == "exp" && w.size() == 5 && (w[1] == "lockless" || w[1] == "cbthrow" || w[1] == "cbcleanup") &&
                   in_range(w[2], 4096, a) && in_range(w[3], 64, b) && in_range(w[4], 200, c) && a >= 1 && b >= 1 && !g_live) {
            std::cout.flush();
            std::cout << "M exp " << w[1] << " outcome=" << experiment(w[1], (size_t)a, (size_t)b, (unsigned)c) << "\n";
        } else if (w[0] == "sig" && w.size() == 3 && in_range(w[1], 200, a) && in_range(w[2], 5000, b) && g_live) {
            // k real signals to the back-end thread, gap microseconds apart (it is in its timed wait unless something is queued)
            for (uint64_t i = 0; i < a; ++i) { if (g_backend_known.load()) pthread_kill(g_backend_th, SIGUSR1); if (b) usleep((useconds_t)b); }
            std::cout << "P sig\n";
        } else if (w[0] == "sigrun" && w.size() == 3 && in_range(w[1], 200, a) && in_range(w[2], 5000, b) && g_live) {
            g_sigrun_k = (unsigned)a; g_sigrun_gap = (unsigned)b;      // storm during the next `run`
            std::cout << "P sigrun\n";
        } else if (w[0] == "sleep" && w.size() == 2 && in_range(w[1], 500, a)) {
            usleep((useconds_t)a * 1000);
            std::cout << "P sleep\n";
        } else if (w[0] == "cleanup" && w.size() == 1) {
            if (!g_live) {
                if (g_pipe) g_pipe->cleanup();
                std::cout << "P cleanup noop\n";
            } else {
                guarded_cleanup(true);
                print_lifecycle("P cleanup ok");
            }
        } else if (w[0] == "destroy" && w.size() == 1) {
            // the destructor of a pipe: on a live one it must do what cleanup() does
            if (!g_live) {
                delete g_pipe; g_pipe = nullptr;
                std::cout << "P destroy noop\n";
            } else {
                { Watchdog wd("destroy", watchdog_ms(), true);
                  quiesce_sink();
                  t_evtid = 10;
                  delete g_pipe; g_pipe = nullptr;
                  t_evtid = -1; }
                print_lifecycle("P destroy ok");
            }
        } else {
            std::cout << "bad-op\n";
        }
        std::cout.flush();
    }
    drop_pipe();
    return 0;
}
